import Proofs.C05
