/-
C10 on the flat route: the mapping invariant stated on the result type of the shared flat model
(`Flatland/Flat.lean`, read-only): `Elem.dict members` of a `Schema.dict` (Dict / SparseDict, by `DictMode`)
or a `Schema.compound`.  `set_flat` is `Flat.setFlat`, `from_flat` is `Flat.fromFlat`.
-/
import Flatland.Flat
namespace Flatland.C10.Flat
open Flatland.Flat

/-- the name a field is stored under (`schema.name`) -/
def fname (f : Schema) : Str := f.name.getD []

def declared (fields : List Schema) : List Str := fields.map fname

def mkeys (ms : List (Str × Elem)) : List Str := ms.map (·.1)

/-- "an element of the declared field type", as far as the flat model distinguishes element types: the member
    has the constructor the field's class builds -/
def shapeOK : Schema → Elem → Bool
  | .leaf .., .leaf _ => true
  | .dict .., .dict _ => true
  | .compound .., .dict _ => true
  | .list .., .list _ => true
  | .array .., .array _ => true
  | .joined .., .joined _ _ => true
  | _, _ => false

/-- the C10 invariant of one mapping: `dense` = Dict / Compound (every field present), `req` = SparseDict with
    minimum_fields='required' -/
structure FlatInv (dense req : Bool) (fields : List Schema) (ms : List (Str × Elem)) : Prop where
  declared : ∀ k ∈ mkeys ms, k ∈ declared fields
  nodup : (mkeys ms).Nodup
  exact : dense = true → mkeys ms = Flat.declared fields
  required : req = true → ∀ f ∈ fields, f.opt = false → fname f ∈ mkeys ms
  typed : ∀ p ∈ ms, ∃ f ∈ fields, fname f = p.1 ∧ shapeOK f p.2 = true

def isDense : DictMode → Bool | .dense => true | _ => false
def isReq : DictMode → Bool | .sparseReq => true | _ => false

/-- key skeleton of an element: what keys every mapping in it holds, in order (leaf texts dropped) -/
inductive Skel
  | leaf
  | dict (ms : List (Str × Skel))
  | seq (ms : List Skel)
  deriving Inhabited

mutual
def skeleton : Elem → Skel
  | .leaf _ => .leaf
  | .dict ms => .dict (skeletonKV ms)
  | .list ms => .seq (skeletonL ms)
  | .array ms => .seq (skeletonL ms)
  | .joined _ _ => .leaf
def skeletonKV : List (Str × Elem) → List (Str × Skel)
  | [] => []
  | (k, e) :: rest => (k, skeleton e) :: skeletonKV rest
def skeletonL : List Elem → List Skel
  | [] => []
  | e :: es => skeleton e :: skeletonL es
end

end Flatland.C10.Flat
