/-
Model A shared by C13 and C14: the path language of src/flatland/schema/paths.py and the
element-tree navigation it uses (base.py `find`, `fq_name`, `_path_segment`; containers.py /
scalars.py `_index`), as written.

* `pyInt`        — Python's `int(str)` grammar (given, validated by correspondence): surrounding
                   whitespace, sign, digits of any Unicode `Nd` decade, single underscores
                   between digits, the `sys.get_int_max_str_digits()` limit.
* `scan`         — `_tokenize_re.findall(path)`: a hand-written scanner for the pinned regex
                   (alternatives in the regex's order, lookbehinds, `$` before a final newline,
                   unmatched characters are skipped as `findall` does).
* `tokenize`     — the token loop, `_parse_slice`, `_canonicalize`.
* `runCtx`/`work`— `PathExpression.__call__`: one context run, and the FIFO work list.
* `find`, `fqName`.

Element identity is the position (list of child indexes from the root); the parent of a
position is the position without its last index (for a List member that is the List: the
`ListSlot` in between is skipped by the code and is not a node here).
-/
import Flatland.Generated.C14Unicode
namespace Flatland.Path
open Flatland.Generated.C14

abbrev Str := List Char

/-! ## `int(str)` -/

/-- decimal value of a character of Unicode category `Nd` -/
def digitVal (c : Char) : Option Nat :=
  let n := c.toNat
  if 48 ≤ n ∧ n ≤ 57 then some (n - 48)
  else (ndZeros.find? (fun z => z ≤ n && n < z + 10)).map (fun z => n - z)

def isDigit (c : Char) : Bool := (digitVal c).isSome

def isIntSpace (c : Char) : Bool := intSpaces.contains c.toNat

/-- the digit part `D (_? D)*`; `none` = malformed -/
def parseDigits : Str → Option (List Nat)
  | [] => none
  | c :: r =>
    match digitVal c with
    | none => none
    | some d =>
      match r with
      | [] => some [d]
      | '_' :: r' => (parseDigits r').map (d :: ·)
      | c' :: r' => (parseDigits (c' :: r')).map (d :: ·)

def digitsValue (ds : List Nat) : Nat := ds.foldl (fun a d => a * 10 + d) 0

def stripSpaces (s : Str) : Str :=
  ((s.dropWhile isIntSpace).reverse.dropWhile isIntSpace).reverse

/-- optional sign: (negative?, rest) -/
def splitSign : Str → Bool × Str
  | '-' :: r => (true, r)
  | '+' :: r => (false, r)
  | r => (false, r)

/-- `int(s)` for a `str` argument; `none` = `ValueError` -/
def pyInt (s : Str) : Option Int :=
  let t := stripSpaces s
  let sb : Bool × Str := splitSign t
  match parseDigits sb.2 with
  | none => none
  | some ds =>
    if intMaxDigits ≠ 0 ∧ ds.length > intMaxDigits then none
    else
      let v : Int := Int.ofNat (digitsValue ds)
      some (if sb.1 then -v else v)

/-! ## operations -/

inductive Op
  | top | up | here
  | name (s : Option Str)                -- `(NAME, None)` comes from `//`
  | slice (a b c : Option Int)           -- `slice(a, b, c)`
  deriving DecidableEq, Repr, Inhabited

inductive Err | lookup | value | type
  deriving DecidableEq, Repr, Inhabited

def Op.isName : Op → Bool | .name _ => true | _ => false

/-! ## `_tokenize_re.findall` -/

def isEscapable (c : Char) : Bool := c == '/' || c == '.' || c == '['

/-- length of the longest match of `(?:\\[/.\[]|[^/\[])+` at the start of the input
    (0 = no match); first the escape pair, else any character other than `/` and `[` -/
def nameRunLen : Str → Nat
  | [] => 0
  | '\\' :: c :: r =>
    if isEscapable c then 2 + nameRunLen r else 1 + nameRunLen (c :: r)
  | c :: r => if c == '/' || c == '[' then 0 else 1 + nameRunLen r

/-- full match of `-?\d*:?-?\d*:?-?\d*` (every item is optional or a star over a class
    disjoint from its neighbours, so taking each item greedily decides the language) -/
def optChar (x : Char) : Str → Str
  | c :: r => if c == x then r else c :: r
  | [] => []

def sliceLang (s : Str) : Bool :=
  let s := (optChar '-' s).dropWhile isDigit
  let s := optChar ':' s
  let s := (optChar '-' s).dropWhile isDigit
  let s := optChar ':' s
  let s := (optChar '-' s).dropWhile isDigit
  s.isEmpty

/-- `(?=$|/|\[)`; `$` (no MULTILINE) matches at the end and before a final newline -/
def bracketLookahead (after : Str) : Bool :=
  match after with
  | [] => true
  | ['\n'] => true
  | c :: _ => c == '/' || c == '['

/-- one raw token of `findall`: (group 1, group 2) -/
abbrev RawTok := Str × Str

/-- One search step at a non-empty input `c :: r` whose previous character is `prev`:
    the token matched here (if any) and how many characters *beyond `c`* are consumed. -/
def scanStep (prev : Option Char) (c : Char) (r : Str) : Option RawTok × Nat :=
  let n := nameRunLen (c :: r)
  if n ≠ 0 then (some ((c :: r).take n, []), n - 1)          -- name
  else if c == '/' then
    if prev == some '\\' then (none, 0)                         -- `(?<!\\)/` fails: skipped
    else (some (['/'], []), 0)
  else -- c == '['  (the only other character a name cannot start with)
    let content := r.takeWhile (· != ']')
    let closed := (r.drop content.length).head? == some ']'
    let after := r.drop (content.length + 1)
    if prev != some '\\' && closed && bracketLookahead after && content.getLast? != some '\\' then
      if sliceLang content then (some ('[' :: content ++ [']'], content), content.length + 1)
      else (some ('[' :: content ++ [']'], []), content.length + 1)
    else (some (['['], []), 0)

def scan (prev : Option Char) : Str → List RawTok
  | [] => []
  | c :: r =>
    let st := scanStep prev c r
    let rest := scan (some ((c :: r).getD st.2 c)) (r.drop st.2)
    match st.1 with
    | some t => t :: rest
    | none => rest
termination_by s => s.length
decreasing_by simp only [List.length_drop, List.length_cons]; omega

/-! ## the token loop -/

/-- `_unescape_re.sub("\\1", s)` -/
def unescape : Str → Str
  | [] => []
  | '\\' :: c :: r =>
    if c == '/' || c == '[' || c == ']' || c == '.' then c :: unescape r
    else '\\' :: unescape (c :: r)
  | c :: r => c :: unescape r

/-- `pattern.split(":", 2)` -/
def splitOnce (s : Str) : Option (Str × Str) :=
  let a := s.takeWhile (· != ':')
  if a.length < s.length then some (a, s.drop (a.length + 1)) else none

def splitColon2 (s : Str) : List Str :=
  match splitOnce s with
  | none => [s]
  | some (a, r) =>
    match splitOnce r with
    | none => [a, r]
    | some (b, c) => [a, b, c]

/-- `_parse_slice`; `none` = `ValueError` from `int()` -/
def parseSlice (pattern : Str) : Option Op :=
  if pattern == [':'] || pattern == [':', ':'] then some (.slice none none none)
  else if !pattern.contains ':' then
    if pattern.head? != some '-' then some (.name (some pattern))
    else
      match pyInt pattern with
      | none => none
      | some off =>
        if off == -1 then some (.slice (some off) none none)
        else some (.slice (some off) (some (off + 1)) none)
  else
    match splitColon2 pattern with
    | [s0, s1] =>
      match (if s0.isEmpty then some 0 else pyInt s0) with
      | none => none
      | some start =>
        match (if s1.isEmpty then some none else (pyInt s1).map some) with
        | none => none
        | some stop => some (.slice (some start) stop none)
    | [s0, s1, s2] =>
      match (if s0.isEmpty then some 0 else pyInt s0) with
      | none => none
      | some start =>
        match (if s1.isEmpty then some none else (pyInt s1).map some) with
        | none => none
        | some stop =>
          match (if s2.isEmpty then some 1 else pyInt s2) with   -- `int(segs[2]) if segs[2] else 1`: an explicit 0 stays 0
          | none => none
          | some stride =>
            some (.slice (if s0.isEmpty then none else some start) stop (some stride))
    | _ => none   -- unreachable: the pattern contains ':'

/-- loop state; `toks` is the `tokens` list *reversed* (head = `tokens[-1]`);
    `last_type` is always `tokens[-1][0]`, so it is read off `toks` -/
structure TState where
  toks : List Op := []
  last : Option Str := none
  canonical : Bool := true
  deriving Repr

def lastIsName (toks : List Op) : Bool :=
  match toks with
  | t :: _ => t.isName
  | [] => false

/-- one iteration of `for token, slice_spec in findall(path)` -/
def tokStep (st : TState) (t : RawTok) : Except Err TState :=
  let tok := t.1
  let spec := t.2
  if tok == ['/'] then
    if st.last == none then .ok { st with toks := .top :: st.toks, last := some tok }
    else if st.last == some ['/'] then .ok { st with toks := .name none :: st.toks, last := some tok }
    else .ok { st with last := some tok }
  else if tok == ['.'] then
    .ok { toks := .here :: st.toks, last := some tok, canonical := false }
  else if tok == ['.', '.'] then
    .ok { toks := .up :: st.toks, last := some tok, canonical := false }
  else if !spec.isEmpty then
    match parseSlice spec with
    | none => .error .value
    | some op => .ok { st with toks := op :: st.toks, last := some tok }
  else if tok.head? == some '[' && lastIsName st.toks then
    match st.last with
    | none => .error .type            -- unreachable: `tokens` is non-empty here
    | some l =>
      let glued := l ++ unescape tok
      .ok { st with toks := .name (some glued) :: st.toks.drop 1, last := some glued }
  else
    .ok { st with toks := .name (some (unescape tok)) :: st.toks, last := some tok }

def tokLoop : TState → List RawTok → Except Err TState
  | st, [] => .ok st
  | st, t :: r =>
    match tokStep st t with
    | .error e => .error e
    | .ok st' => tokLoop st' r

/-- one iteration of `_canonicalize`; `canon` is the `canonical` list reversed -/
def canonStep (multi : Bool) (canon : List Op) (t : Op) : List Op :=
  if t == .here && multi then canon
  else if t != .up || canon.isEmpty then t :: canon
  else
    match canon with
    | .top :: _ => canon
    | .up :: _ => t :: canon
    | _ :: rest => rest
    | [] => t :: canon

def canonicalize (tokens : List Op) : List Op :=
  (tokens.foldl (canonStep (decide (tokens.length > 1))) []).reverse

/-- `tokenize(path)` -/
def tokenize (path : Str) : Except Err (List Op) :=
  match tokLoop {} (scan none path) with
  | .error e => .error e
  | .ok st => .ok (if st.canonical then st.toks.reverse else canonicalize st.toks.reverse)

/-! ## element trees -/

inductive Kind
  | scalar          -- Scalar: `_index` raises, no children
  | map             -- Dict / SparseDict / Compound: `_index(name) = self[name]`
  | list            -- List: members sit in ListSlots
  | array           -- Array / MultiValue / JoinedString: members are direct children
  deriving DecidableEq, Repr, Inhabited

/-- `key` is the key under which a Mapping holds the element (`dict` key), `name` the element's
    own `.name`.  `Mapping._reset`/`set` always store a field under its name, but a SparseDict
    item assignment can store an instance of a renamed subclass of the field schema under the
    field's key (KF-C10-a), so the two are kept apart: `find` looks up keys, `fq_name` prints
    names.  For members of sequences and for the root the key is not used.

    An UNNAMED child of a mapping (`Dict.of(Dict.of(...), ...)`: `name is None`) is stored under
    the key `None`: `key = none`, and its `name` is `[]` here — since 05c4adc `_path_segment`
    emits the empty step for a name `None`, exactly what it emits for a name `''`, so `fq_name`
    cannot tell them apart; `find` can: an empty step looks up `None` (`key = none`), never the
    key `''` (`key = some []`, KF-C13-b). -/
inductive Node | mk (kind : Kind) (key : Option Str) (name : Str) (kids : List Node)
  deriving Repr, Inhabited

def Node.kind : Node → Kind | .mk k _ _ _ => k
def Node.key : Node → Option Str | .mk _ k _ _ => k
def Node.name : Node → Str | .mk _ _ n _ => n
def Node.kids : Node → List Node | .mk _ _ _ k => k

mutual
def Node.size : Node → Nat | .mk _ _ _ k => 1 + sizeL k
def sizeL : List Node → Nat | [] => 0 | t :: ts => t.size + sizeL ts
end

abbrev Pos := List Nat

def Node.get? : Node → Pos → Option Node
  | n, [] => some n
  | .mk _ _ _ kids, i :: p =>
    match kids[i]? with
    | some k => k.get? p
    | none => none

/-- children of the element at a position (none for a position outside the tree) -/
def kidsAt (root : Node) (el : Pos) : List Node :=
  match root.get? el with
  | some n => n.kids
  | none => []

/-- `dict.__getitem__` on the field mapping: position of the child stored under key `s`
    (`none` = the key `None`, under which an unnamed field is stored) -/
def findName (s : Option Str) : List Node → Option Nat
  | [] => none
  | k :: r => if k.key == s then some 0 else (findName s r).map (· + 1)

/-- `list.__getitem__(i)` for an int `i`: `none` = `IndexError` -/
def pyListIndex (n : Nat) (i : Int) : Option Nat :=
  let j := if i < 0 then i + n else i
  if 0 ≤ j ∧ j < n then some j.toNat else none

/-- `el._index(data)`: `none` = the `LookupError`/`TypeError` the evaluator catches -/
def Node.index (n : Node) (data : Option Str) : Option Nat :=
  match n.kind, data with
  | .scalar, _ => none                         -- `raise IndexError(name)`
  | .map, d => findName d n.kids               -- `self[name]`; `self[None]` finds an unnamed field or → KeyError
  | _, none => none                            -- `int(None)` → TypeError
  | _, some s =>
    match pyInt s with
    | none => none                             -- ValueError → IndexError
    | some i => pyListIndex n.kids.length i

def indexAt (root : Node) (el : Pos) (data : Option Str) : Option Nat :=
  match root.get? el with
  | some n => n.index data
  | none => none

/-- indexes selected by `list(range(n))[a:b:c]` for `c ≠ 0` (Python's slicing is given;
    written as the set-builder reading of the language reference) -/
def pySlice (n : Nat) (a b c : Option Int) : List Nat :=
  let step : Int := c.getD 1
  let len : Int := n
  let clamp (x : Int) (lo hi : Int) : Int :=
    if x < 0 then max (x + len) lo else min x hi
  if step > 0 then
    let start := match a with | none => 0 | some x => clamp x 0 len
    let stop := match b with | none => len | some x => clamp x 0 len
    (List.range n).filter (fun i => start ≤ (i : Int) ∧ (i : Int) < stop ∧ ((i : Int) - start) % step = 0)
  else
    let start := match a with | none => len - 1 | some x => clamp x (-1) (len - 1)
    let stop := match b with | none => -1 | some x => clamp x (-1) (len - 1)
    (List.range n).reverse.filter
      (fun i => stop < (i : Int) ∧ (i : Int) ≤ start ∧ (start - (i : Int)) % (-step) = 0)

/-! ## `PathExpression.__call__` -/

/-- how the inner `for idx in range(len(_ops))` loop ends for one context -/
inductive CtxRes
  | found (p : Pos)                            -- loop ran to its `else`: `found.append(el)`
  | dead                                       -- `break` after a failed non-strict lookup
  | spawn (rest : List Op) (kids : List Pos)   -- `contexts.extend(...)`, `break`
  deriving Repr

def runCtx (root : Node) (strict : Bool) : List Op → Pos → Except Err CtxRes
  | [], el => .ok (.found el)
  | .top :: r, _ => runCtx root strict r []                      -- `el = el.root`
  | .up :: r, el => runCtx root strict r el.dropLast             -- parent (slot skipped); root stays
  | .here :: r, el => runCtx root strict r el
  | .name d :: r, el =>
    match indexAt root el d with
    | some i => runCtx root strict r (el ++ [i])
    | none => if strict then .error .lookup else .ok .dead
  | .slice a b c :: r, el =>
    if c == some 0 then .error .value                             -- `slice step cannot be zero`
    else .ok (.spawn r ((pySlice (kidsAt root el).length a b c).map (fun i => el ++ [i])))

abbrev Ctx := List Op × Pos

def weight (B : Nat) (q : List Ctx) : Nat := (q.map (fun c => (B + 1) ^ c.1.length)).sum

theorem weight_append (B : Nat) (a b : List Ctx) : weight B (a ++ b) = weight B a + weight B b := by
  simp [weight]

theorem weight_const (B : Nat) (rest : List Op) (kids : List Pos) :
    weight B (kids.map (fun k => (rest, k))) = kids.length * (B + 1) ^ rest.length := by
  induction kids with
  | nil => simp [weight]
  | cons k ks ih =>
    have : weight B ((k :: ks).map (fun k => (rest, k)))
        = (B + 1) ^ rest.length + weight B (ks.map (fun k => (rest, k))) := by simp [weight]
    rw [this, ih, List.length_cons, Nat.succ_mul]; omega

theorem pySlice_length_le (n : Nat) (a b c : Option Int) : (pySlice n a b c).length ≤ n := by
  unfold pySlice
  simp only
  split
  · exact Nat.le_trans (List.length_filter_le _ _) (by simp)
  · exact Nat.le_trans (List.length_filter_le _ _) (by simp)

mutual
theorem get?_size_le : ∀ (root : Node) (p : Pos) (n : Node), root.get? p = some n → n.size ≤ root.size
  | root, [], n, h => by simp [Node.get?] at h; subst h; exact Nat.le_refl _
  | .mk k ky nm kids, i :: p, n, h => by
    simp only [Node.get?] at h
    have := getL?_size_le kids i p n h
    simp only [Node.size]; omega
theorem getL?_size_le : ∀ (kids : List Node) (i : Nat) (p : Pos) (n : Node),
    (match kids[i]? with | some k => k.get? p | none => none) = some n → n.size ≤ sizeL kids
  | [], i, p, n, h => by simp at h
  | k :: ks, 0, p, n, h => by
    simp only [List.getElem?_cons_zero] at h
    have := get?_size_le k p n h
    simp only [sizeL]; omega
  | k :: ks, i + 1, p, n, h => by
    simp only [List.getElem?_cons_succ] at h
    have := getL?_size_le ks i p n h
    simp only [sizeL]; omega
end

theorem length_le_sizeL : ∀ kids : List Node, kids.length ≤ sizeL kids
  | [] => by simp [sizeL]
  | k :: ks => by
    have := length_le_sizeL ks
    cases k with | mk a k b c => simp only [sizeL, Node.size, List.length_cons]; omega

theorem kidsAt_length_le (root : Node) (el : Pos) : (kidsAt root el).length ≤ root.size := by
  unfold kidsAt
  split
  · next n h =>
    have h1 := get?_size_le root el n h
    cases n with | mk a k b c =>
    have h2 := length_le_sizeL c
    simp only [Node.size, Node.kids] at *; omega
  · simp

/-- what a spawning context leaves behind is smaller: fewer ops, at most `size root` kids -/
theorem runCtx_spawn (root : Node) (strict : Bool) :
    ∀ (ops : List Op) (el : Pos) (rest : List Op) (kids : List Pos),
      runCtx root strict ops el = .ok (.spawn rest kids) →
      rest.length < ops.length ∧ kids.length ≤ root.size
  | [], el, rest, kids, h => by simp [runCtx] at h
  | .top :: r, el, rest, kids, h => by
    have := runCtx_spawn root strict r [] rest kids (by simpa [runCtx] using h)
    simp only [List.length_cons]; omega
  | .up :: r, el, rest, kids, h => by
    have := runCtx_spawn root strict r el.dropLast rest kids (by simpa [runCtx] using h)
    simp only [List.length_cons]; omega
  | .here :: r, el, rest, kids, h => by
    have := runCtx_spawn root strict r el rest kids (by simpa [runCtx] using h)
    simp only [List.length_cons]; omega
  | .name d :: r, el, rest, kids, h => by
    simp only [runCtx] at h
    split at h
    · next i _ =>
      have := runCtx_spawn root strict r (el ++ [i]) rest kids h
      simp only [List.length_cons]; omega
    · split at h <;> simp at h
  | .slice a b c :: r, el, rest, kids, h => by
    simp only [runCtx] at h
    split at h
    · simp at h
    · simp only [Except.ok.injEq, CtxRes.spawn.injEq] at h
      obtain ⟨h1, h2⟩ := h
      subst h1; subst h2
      simp only [List.length_cons, List.length_map]
      exact ⟨by omega, Nat.le_trans (pySlice_length_le _ _ _ _) (kidsAt_length_le root el)⟩

/-- the `for _ops, el in contexts` loop: a FIFO queue of contexts, results in completion order -/
def work (root : Node) (strict : Bool) : List Ctx → Except Err (List Pos)
  | [] => .ok []
  | (ops, el) :: q =>
    match h : runCtx root strict ops el with
    | .error e => .error e
    | .ok (.found p) =>
      match work root strict q with
      | .error e => .error e
      | .ok ps => .ok (p :: ps)
    | .ok .dead => work root strict q
    | .ok (.spawn rest kids) => work root strict (q ++ kids.map (fun k => (rest, k)))
termination_by q => weight root.size q
decreasing_by
  · simp only [weight, List.map_cons, List.sum_cons]
    have : 0 < (root.size + 1) ^ ops.length := Nat.pow_pos (by omega)
    omega
  · simp only [weight, List.map_cons, List.sum_cons]
    have : 0 < (root.size + 1) ^ ops.length := Nat.pow_pos (by omega)
    omega
  · obtain ⟨h1, h2⟩ := runCtx_spawn root strict ops el rest kids h
    rw [weight_append, weight_const]
    simp only [weight, List.map_cons, List.sum_cons]
    have hp : (root.size + 1) ^ (rest.length + 1) ≤ (root.size + 1) ^ ops.length :=
      Nat.pow_le_pow_right (by omega) h1
    have hk : kids.length * (root.size + 1) ^ rest.length
        ≤ root.size * (root.size + 1) ^ rest.length := Nat.mul_le_mul_right _ h2
    have hs : (root.size + 1) ^ (rest.length + 1)
        = root.size * (root.size + 1) ^ rest.length + (root.size + 1) ^ rest.length := by
      rw [Nat.pow_succ, Nat.mul_comm, Nat.succ_mul]
    have : 0 < (root.size + 1) ^ rest.length := Nat.pow_pos (by omega)
    omega

/-- `PathExpression.__call__(element, strict)` -/
def evalOps (root : Node) (strict : Bool) (ops : List Op) (el : Pos) : Except Err (List Pos) :=
  work root strict [(ops, el)]

/-! ## `Element.find` -/

inductive FindRes
  | many (l : List Pos)          -- `single=False`
  | one (p : Option Pos)         -- `single=True`: the element or `None`
  | err (e : Err)
  deriving Repr

def find (root : Node) (start : Pos) (path : Str) (single strict : Bool) : FindRes :=
  match tokenize path with
  | .error e => .err e
  | .ok ops =>
    match evalOps root strict ops start with
    | .error e => .err e
    | .ok res =>
      if !single then .many res
      else
        match res with
        | [] => .one none
        | [p] => .one (some p)
        | p :: _ :: _ => if strict then .err .lookup else .one (some p)

/-! ## `Element.fq_name` -/

/-- `str(n)` for a non-negative int -/
def natStr (n : Nat) : Str :=
  if _h : n < 10 then [Char.ofNat (48 + n)] else natStr (n / 10) ++ [Char.ofNat (48 + n % 10)]
termination_by n
decreasing_by omega

/-- the name branch of `_path_segment`:
    `name.replace("/", "\\/").replace("[", "\\[")`, then every backslash that stands directly
    before `.` or `]` is doubled (`.replace("\\.", "\\\\.").replace("\\]", "\\\\]")`).  The
    backslashes inserted by the first two replaces stand before `/` or `[`, so the chain is one
    pass over the name with one character of lookahead. -/
def escapeBody : Str → Str
  | [] => []
  | c :: r =>
    (if c == '/' then ['\\', '/']
     else if c == '[' then ['\\', '[']
     else if c == '\\' && (r.head? == some '.' || r.head? == some ']') then ['\\', '\\']
     else [c]) ++ escapeBody r

def escapeName (name : Str) : Str :=
  if name == ['.'] then ['\\', '.']
  else if name == ['.', '.'] then ['\\', '.', '\\', '.']
  else escapeBody name

/-- what `fq_name` iterates over below the root: ListSlots (named by position) and elements
    (with the kind of the container that holds them and their position among its children) -/
inductive ChainEl
  | slot (name : Str)
  | el (parentKind : Kind) (idx : Nat) (name : Str)
  deriving Repr

def chain : Node → Pos → List ChainEl
  | _, [] => []
  | .mk k _ _ kids, i :: p =>
    match kids[i]? with
    | none => []
    | some c =>
      (if k == .list then [ChainEl.slot (natStr i)] else []) ++ (ChainEl.el k i c.name :: chain c p)

/-- `_path_segment(element)`: position under a parent that has `member_schema` (the parent of a
    List member is its slot, which has none), else the escaped name -/
def pathSegment : ChainEl → Str
  | .el .array i _ => natStr i
  | .el _ _ name => escapeName name
  | .slot name => name

/-- the `parts, mask` loop of `fq_name` -/
def fqParts : Option Str → List ChainEl → List Str
  | _, [] => []
  | _, .slot nm :: r => fqParts (some nm) r
  | some m, e :: r => if !m.isEmpty then m :: fqParts none r else pathSegment e :: fqParts (some m) r
  | none, e :: r => pathSegment e :: fqParts none r

def joinSlash : List Str → Str
  | [] => []
  | [a] => a
  | a :: r => a ++ '/' :: joinSlash r

/-- `parts and parts[-1] == ""`: the last step is empty (an unnamed element, or one named `''`) -/
def lastEmpty (parts : List Str) : Bool :=
  match parts.getLast? with
  | some s => s.isEmpty
  | none => false

/-- `"/" + "/".join(parts)`, and one more slash when the last step is empty (a single trailing slash
    is not a step; 05c4adc) -/
def fqName (root : Node) (pos : Pos) : Str :=
  if pos.isEmpty then ['/']
  else
    let parts := fqParts none (chain root pos)
    '/' :: joinSlash parts ++ (if lastEmpty parts then ['/'] else [])

end Flatland.Path
