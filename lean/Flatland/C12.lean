/-
Model A for C12 — what a rendered control posts.

* element trees as far as naming goes: `Element.path` / `flattened_name()` (schema/base.py:
  names of all ancestors and the element, `None` names skipped, list slots named by their
  decimal index, Array members anonymous) and `flatten()`'s pair for a leaf;
* the control: a tag call of the generator (model of `transform_name`, `transform_value`,
  `transform_domid`, `transform_for`, `_generate_raw_domid`, `_sanitize_domid_suffix` in
  `Flatland/Markup/Transform.lean`) with the keyword arguments of the control kind;
* `submitted`: the HTML "successful control" rule for the control kinds of the property.
-/
import Flatland.Markup.Generator
namespace Flatland.C12
open Flatland.Markup

/-- element trees, as far as names and leaf texts go -/
inductive Tree
  | leaf (name : Option Str) (u : Str)                       -- any scalar: its `.u`
  | bool (name : Option Str) (tru : Str) (u : Str)            -- Boolean with its `.true`
  | array (name : Option Str) (strip : Bool) (members : List (Option Str))   -- Array of String
  | dict (name : Option Str) (fields : List Tree)
  | list (name : Option Str) (members : List Tree)            -- members sit in slots named 0,1,2…
  deriving Repr

def Tree.name : Tree → Option Str
  | .leaf n _ => n | .bool n _ _ => n | .array n _ _ => n | .dict n _ => n | .list n _ => n

/-- `str(index)` -/
def natRepr (n : Nat) : Str := (toString n).toList

/-- `sep.join(p.name for p in path if p.name is not None)` with the default separator -/
def flatName (path : List (Option Str)) : Str :=
  let names := path.filterMap id
  match names with
  | [] => []
  | n :: rest => rest.foldl (fun acc x => acc ++ '_' :: x) n

/-- `u` of an Array member (`String.serialize`) -/
def memberU (m : Option Str) : Str := m.getD []

/-- `Sequence.u` of an Array of strings: `[%s]` of `repr(member.u)` — only ever shown, never compared -/
def arrayU (shown : Str) : Str := shown

/- the element selected by a list of child indices, as the transforms see it: flattened name, text,
    kind.  `pre` is the path of names above the current node.  `arrShown` is the display text of
    an Array bound as a whole (repr-based; supplied by the case, it is never posted). -/
mutual
def select (arrShown : Str) : Tree → List (Option Str) → List Nat → Option Bind
  | .leaf n u, pre, [] => some ⟨flatName (pre ++ [n]), u, .scalar⟩
  | .bool n tru u, pre, [] => some ⟨flatName (pre ++ [n]), u, .boolean tru⟩
  | .array n strip ms, pre, [] => some ⟨flatName (pre ++ [n]), arrShown, .array strip ms⟩
  | .array n _ ms, pre, [i] =>
    match ms[i]? with
    | some m => some ⟨flatName (pre ++ [n, none]), memberU m, .scalar⟩
    | none => none
  | .dict n fields, pre, i :: rest => selectL arrShown fields (pre ++ [n]) i rest
  | .list n members, pre, i :: rest => selectL arrShown members (pre ++ [n, some (natRepr i)]) i rest
  | _, _, _ => none
def selectL (arrShown : Str) : List Tree → List (Option Str) → Nat → List Nat → Option Bind
  | [], _, _, _ => none
  | t :: _, pre, 0, rest => select arrShown t pre rest
  | _ :: ts, pre, i + 1, rest => selectL arrShown ts pre i rest
end

/-! ### the browser side: which (name, value) pair a control posts -/

/-- string view of the final attributes (Markup values are author markup, never generated here) -/
def strAttrs (pairs : List (Str × Val)) : List (Str × Str) :=
  pairs.filterMap (fun kv => kv.2.str?.map (fun s => (kv.1, s)))

def attr? (attrs : List (Str × Str)) (k : Str) : Option Str :=
  match attrs with
  | [] => none
  | (k', v) :: rest => if k' = k then some v else attr? rest k

/-- ASCII whitespace of the HTML standard: TAB, LF, FF, CR, SPACE -/
def isAsciiWS (c : Char) : Bool :=
  c = ' ' || c = '\t' || c = '\n' || c = '\r' || c.toNat = 12

/-- "strip and collapse ASCII whitespace" (WHATWG): leading/trailing runs removed, inner runs become
    one SPACE.  `pending` = a whitespace run was seen after some non-whitespace output. -/
def collapseAux : Bool → Bool → Str → Str
  | _, _, [] => []
  | started, pending, c :: cs =>
    if isAsciiWS c then collapseAux started started cs
    else if pending then ' ' :: c :: collapseAux true false cs
    else c :: collapseAux true false cs

def collapseWS (s : Str) : Str := collapseAux false false s

/-- the HTML parser drops one newline that immediately follows the `<textarea>` start tag -/
def dropLeadingLF : Str → Str
  | '\n' :: rest => rest
  | s => s

/-- `<input>` types whose `value` attribute is never what gets posted: reset and button inputs
    are never successful controls; a file input posts the chosen file, an image input the click
    coordinates -/
def inputNeverPosts (ty : Str) : Bool :=
  ty = "reset".toList || ty = "button".toList || ty = "file".toList || ty = "image".toList

/-- `<button type=…>` that never submits: reset and button -/
def buttonNeverPosts (ty : Str) : Bool := ty = "reset".toList || ty = "button".toList

/-- a SUBMITTER: a control that posts its pair only when it is the one that was activated to
    submit the form — `<button>` (type submit, the default) and `<input type=submit>` -/
def isSubmitter (tag : Str) (attrs : List (Str × Str)) : Bool :=
  if tag = "button".toList then !buttonNeverPosts (asciiLower ((attr? attrs sType).getD "submit".toList))
  else tag = sInput && asciiLower ((attr? attrs sType).getD "text".toList) = "submit".toList

/-- HTML "successful control" (the part the property talks about): a control without a name or
    with an empty name posts nothing; checkbox/radio post `value` (default "on") only when
    checked; textarea posts its text minus one leading newline; reset / button / file / image
    inputs and reset / button `<button>`s never post their `value`; every other input posts
    `value` (default "").  For a SUBMITTER (`isSubmitter`) the result is what it posts WHEN IT IS
    THE ACTIVATED ONE: a form submission has at most one activated submitter, the other submitters
    post nothing (`Form.lean`: `submitters ≤ 1`).  Not modelled: newline normalisation (CR/CRLF →
    LF by the input stream, newline stripping in text inputs, CRLF on submission). -/
def submitted (tag : Str) (attrs : List (Str × Str)) (text : Str) : Option (Str × Str) :=
  match attr? attrs sName with
  | none => none
  | some n =>
    if n.isEmpty then none
    else if tag = sInput then
      let ty := asciiLower ((attr? attrs sType).getD "text".toList)
      if ty = "checkbox".toList || ty = "radio".toList then
        if (attr? attrs sChecked).isSome then some (n, (attr? attrs sValue).getD "on".toList) else none
      else if inputNeverPosts ty then none
      else some (n, (attr? attrs sValue).getD [])
    else if tag = sTextarea then some (n, dropLeadingLF text)
    else if tag = "button".toList then
      if buttonNeverPosts (asciiLower ((attr? attrs sType).getD "submit".toList)) then none
      else some (n, (attr? attrs sValue).getD [])
    else none

/-- an `<option>` inside a `<select name=n>` posts `(n, value)` when selected; its value is the
    `value` attribute, else its text with ASCII whitespace stripped and collapsed -/
def submittedOption (selectName : Str) (attrs : List (Str × Str)) (text : Str) : Option (Str × Str) :=
  if selectName.isEmpty then none
  else if (attr? attrs sSelected).isSome then
    some (selectName, (attr? attrs sValue).getD (collapseWS text))
  else none

end Flatland.C12
