/-
Model A for C09: a flatland sequence element (List / Array / MultiValue) under a history of
list-protocol calls.  The calls themselves are `Flatland.Tree.seqStep` (shared model, following
`Sequence` / `List` of containers.py method by method); this file adds the history semantics and
the observations C09 talks about.
-/
import Flatland.Tree
namespace Flatland.C09
open Flatland.Tree Flatland.PyList

/-- the items of the underlying Python list, each read as its `(value, u)`:
    a List's slot is read through to the element it holds (`ListSlot.value` / `.u`) -/
def items (n : Node) : List Sig := n.kids.map sig

/-- `.value` of every member, in iteration order -/
def values (n : Node) : List Raw := (members n).map valueOf

/-- slot names of a List (`slot.name` for every slot, in list order) -/
def slotNames (n : Node) : List Str := n.kids.map Node.key

structure SState where
  node : Node
  next : Nat
  deriving Inhabited

/-- one call of a history -/
def step (s : SState) (op : SeqOp) : SState :=
  let r := seqStep s.node op s.next
  ⟨r.node, r.next⟩

def run (s : SState) (ops : List SeqOp) : SState := ops.foldl step s

end Flatland.C09
