/-
Mechanism model for C17 — the FRAME MECHANISM of `flatland/schema/properties.py` as written.

Model A (`Flatland/C17.lean`) gives every class that owns a `Properties` object a frame from the
moment the class exists.  The code does not: `Properties.map` (a `WeakKeyDictionary` class ↦ dict)
starts EMPTY and is filled lazily —

* `_TypeLookup._frames()` (READ path) is a generator over `base.__mro__`; a class that is not in
  `map` is skipped unless it holds THIS descriptor in its `__dict__`, in which case
  `map.setdefault(cls, dict(member.initial_set))` materialises its frame from a COPY of
  `initial_set`; the generator stops after the owner.  The consumers (`__getitem__`, `items()` and
  through it `keys()/__contains__/copy()/…`) pull frames one at a time and may stop early, so a read
  materialises the owner's frame only when it actually gets that far;
* `_TypeLookup._base_frame` (WRITE path) materialises the frame of `self.base` on the first write:
  a COPY of `initial_set` when the class owns the descriptor, `{}` otherwise;
* `Properties.initial_set` is a mutable dict: it is a CELL here, and a frame reference is either a
  dict object of its own (`.obj f`) or — only in the ALIASING counter-model (`alias = true`, the
  seeded mutation `C17-base-frame-alias-initial`) — the `initial_set` object itself (`.initCell`).

A descriptor SLOT (`Cls.own`, the `__dict__["properties"]` entry of one class) refers to a
`Properties` OBJECT (`objOf`): `using(properties=P)` with `P` already held by another class creates
a new slot for the same object, so `map`, `initial_set` and the identity comparison
`id(member) == descriptor_id` are all per OBJECT, as in the code.
-/
import Flatland.C17
namespace Flatland.C17.Frames
open Flatland.C17

abbrev ObjId := Nat

/-- what `map[cls]` refers to -/
inductive FrameRef
  | obj (f : Frame)      -- a dict object of its own
  | initCell             -- the `initial_set` object of the descriptor (aliasing counter-model only)
  deriving Repr

structure FState where
  classes : List Cls
  /-- number of descriptor slots handed out -/
  ndesc : Nat
  /-- slot ↦ `Properties` object -/
  objs : List ObjId
  /-- `Properties.initial_set`, one cell per object -/
  initial : AList ObjId Frame
  /-- `Properties.map`, all objects in one table: (object, class) ↦ frame reference -/
  map : AList (ObjId × ClassId) FrameRef
  insts : List Inst
  deriving Repr

namespace FState

def mroOf (σ : FState) (c : ClassId) : List ClassId :=
  match σ.classes[c]? with
  | some cl => cl.mro
  | none => []

def ownOf (σ : FState) (c : ClassId) : Option DescId :=
  match σ.classes[c]? with
  | some cl => cl.own
  | none => none

/-- attribute lookup `cls.properties`: the slot of the first class of the MRO that has one -/
def descOf (σ : FState) (c : ClassId) : Option DescId := (σ.mroOf c).findSome? σ.ownOf

def objOf (σ : FState) (s : DescId) : ObjId := (σ.objs[s]?).getD s

/-- `member is not None and id(member) == self.descriptor_id` -/
def ownsObj (σ : FState) (c : ClassId) (P : ObjId) : Bool :=
  match σ.ownOf c with
  | some s => σ.objOf s == P
  | none => false

def initialOf (σ : FState) (P : ObjId) : Frame := (AList.get? σ.initial P).getD []

def mapGet (σ : FState) (P : ObjId) (c : ClassId) : Option FrameRef := AList.get? σ.map (P, c)

def mapSet (σ : FState) (P : ObjId) (c : ClassId) (r : FrameRef) : FState :=
  { σ with map := AList.set σ.map (P, c) r }

/-- the contents of the dict a reference points to -/
def deref (σ : FState) (P : ObjId) : FrameRef → Frame
  | .obj f => f
  | .initCell => σ.initialOf P

/-- mutate the dict `map[cls]` refers to (through an alias this writes the `initial_set` cell) -/
def writeRef (σ : FState) (P : ObjId) (c : ClassId) (g : Frame → Frame) : FState :=
  match σ.mapGet P c with
  | some (.obj f) => σ.mapSet P c (.obj (g f))
  | some .initCell => { σ with initial := AList.set σ.initial P (g (σ.initialOf P)) }
  | none => σ

end FState

/-! ### the READ path: `_frames()` as a generator pulled by a consumer -/

/-- what the consumer does after looking at a frame: ask for the next one, stop for good (return /
    raise), or go on to the end whatever comes -/
inductive Pull
  | more
  | stop
  | drain

/-- `_frames()` pulled by a consumer `p`: the frames handed out, and the state afterwards (the
    owner's frame is materialised only when the consumer gets that far) -/
def framesPull (σ : FState) (P : ObjId) : (Frame → Pull) → List ClassId → FState × List Frame
  | _, [] => (σ, [])
  | p, c :: rest =>
    match σ.mapGet P c with
    | none =>
      if σ.ownsObj c P then
        -- self.map.setdefault(cls, dict(member.initial_set)); yield; break
        (σ.mapSet P c (.obj (σ.initialOf P)), [σ.initialOf P])
      else framesPull σ P p rest                          -- continue
    | some r =>
      if σ.ownsObj c P then (σ, [σ.deref P r])            -- yield; break
      else match p (σ.deref P r) with
        | .stop => (σ, [σ.deref P r])
        | .more => ((framesPull σ P p rest).1, σ.deref P r :: (framesPull σ P p rest).2)
        | .drain => ((framesPull σ P (fun _ => .more) rest).1,
                     σ.deref P r :: (framesPull σ P (fun _ => .more) rest).2)

/-- `__getitem__`: the first frame that has the key (value or tombstone) ends the loop -/
def getP (k : Key) : Frame → Pull := fun f => if AList.hasKey f k then .stop else .more

/-- `key in self.keys()`: ends when `items()` yields the key; a tombstone puts the key into
    `seen`, after which it can never be yielded -/
def containsP (k : Key) : Frame → Pull := fun f =>
  match AList.get? f k with
  | some (.val _) => .stop
  | some .deleted => .drain
  | none => .more

def allP : Frame → Pull := fun _ => .more

/-- which consumer a read-only method of `DictLike` is (`none`: touches no frame) -/
def pullOf : Op → Option (Frame → Pull)
  | .getitem k => some (getP k)
  | .get k _ => some (getP k)
  | .contains k => some (containsP k)
  | .items => some allP
  | .keys => some allP
  | .values => some allP
  | .copy => some allP
  | .bool => some allP
  | .eq _ => some allP
  | .ne _ => some allP
  | _ => none

/-- the mapping methods computed over the frames that were pulled -/
def readerOf (fs : List Frame) : Reader := ⟨lookupFrames fs, itemsGo fs.flatten []⟩

def tGetF (σ : FState) (c : ClassId) (P : ObjId) (k : Key) : FState × Except Err Val :=
  ((framesPull σ P (getP k) (σ.mroOf c)).1, lookupFrames (framesPull σ P (getP k) (σ.mroOf c)).2 k)

def tItemsF (σ : FState) (c : ClassId) (P : ObjId) : FState × List (Key × Val) :=
  ((framesPull σ P allP (σ.mroOf c)).1, itemsGo (framesPull σ P allP (σ.mroOf c)).2.flatten [])

/-! ### the WRITE path: `_base_frame` -/

/-- `self._base_frame` evaluated for its side effect: afterwards `map[self.base]` exists.
    `alias = true` is the counter-model that stores `initial_set` ITSELF for an owner. -/
def baseFrame (alias : Bool) (σ : FState) (c : ClassId) (P : ObjId) : FState :=
  match σ.mapGet P c with
  | some _ => σ
  | none =>
    if σ.ownsObj c P then
      σ.mapSet P c (if alias then .initCell else .obj (σ.initialOf P))
    else σ.mapSet P c (.obj [])

/-- `self._base_frame.<mutation>` -/
def writeBase (alias : Bool) (σ : FState) (c : ClassId) (P : ObjId) (g : Frame → Frame) : FState :=
  (baseFrame alias σ c P).writeRef P c g

def updSlots (pairs : List (Key × Val)) : List (Key × Slot) :=
  ((AList.ofPairs pairs : Dict Val)).map (fun kv => (kv.1, Slot.val kv.2))

/-- `_TypeLookup` methods that write -/
def tWriteF (alias : Bool) (σ : FState) (c : ClassId) (P : ObjId) : Op → FState × Res
  | .setitem k v => (writeBase alias σ c P (fun f => AList.set f k (.val v)), .unit)
  | .delitem k =>
    match (tGetF σ c P k).2 with                              -- self[key]  # must exist to delete
    | .error e => ((tGetF σ c P k).1, .err e)
    | .ok _ => (writeBase alias (tGetF σ c P k).1 c P (fun f => AList.set f k .deleted), .unit)
  | .clear =>
    -- frame = self._base_frame; for key in self.keys(): frame[key] = Deleted
    let σ1 := baseFrame alias σ c P
    let ks := (tItemsF σ1 c P).2.map (·.1)
    ((tItemsF σ1 c P).1.writeRef P c (fun f => ks.foldl (fun f k => AList.set f k .deleted) f), .unit)
  | .pop k dflt =>
    match (tGetF σ c P k).2 with
    | .error e => ((tGetF σ c P k).1, match dflt with | none => .err e | some v => .val v)
    | .ok cur => (writeBase alias (tGetF σ c P k).1 c P (fun f => AList.set f k .deleted), .val cur)
  | .setdefault k dflt =>
    match (tGetF σ c P k).2 with
    | .ok cur => ((tGetF σ c P k).1, .val cur)
    | .error _ => (writeBase alias (tGetF σ c P k).1 c P (fun f => AList.set f k (.val dflt)), .val dflt)
  | .update pairs => (writeBase alias σ c P (fun f => AList.update f (updSlots pairs)), .unit)
  | _ => (σ, .err .badCase)

/-! ### `_InstanceLookup` over `local` = `f` -/

/-- which consumer of the CLASS lookup an instance read is (`none`: `local` alone decides) -/
def iPullOf (f : Frame) : Op → Option (Frame → Pull)
  | .getitem k => if AList.hasKey f k then none else some (getP k)
  | .get k _ => if AList.hasKey f k then none else some (getP k)
  | .contains k =>
    match AList.get? f k with
    | some (.val _) => none
    | some .deleted => some allP
    | none => some (containsP k)
  | o => pullOf o

def iReaderOf (f : Frame) (fs : List Frame) : Reader :=
  ⟨fun k => match AList.get? f k with
      | some .deleted => .error .keyError
      | some (.val v) => .ok v
      | none => lookupFrames fs k,
   localItems f ++ (itemsGo fs.flatten []).filter (fun kv => !(AList.hasKey f kv.1))⟩

def iGetF (σ : FState) (f : Frame) (c : ClassId) (P : ObjId) (k : Key) : FState × Except Err Val :=
  match AList.get? f k with
  | some .deleted => (σ, .error .keyError)
  | some (.val v) => (σ, .ok v)
  | none => tGetF σ c P k

/-- `_InstanceLookup` methods that write: all writes go to `self.local`; the class frames are only
    read (which may materialise the owner's frame) -/
def iWriteF (σ : FState) (f : Frame) (c : ClassId) (P : ObjId) : Op → FState × Frame × Res
  | .setitem k v => (σ, AList.set f k (.val v), .unit)
  | .delitem k =>
    match (iGetF σ f c P k).2 with
    | .error e => ((iGetF σ f c P k).1, f, .err e)
    | .ok _ => ((iGetF σ f c P k).1, AList.set f k .deleted, .unit)
  | .clear =>
    -- self.local.clear(); for key in self.class_lookup.keys(): self.local[key] = Deleted   (KF-C17-a)
    ((tItemsF σ c P).1, ((tItemsF σ c P).2.map (·.1)).foldl (fun f k => AList.set f k .deleted) [], .unit)
  | .pop k dflt =>
    match (iGetF σ f c P k).2 with
    | .error e => ((iGetF σ f c P k).1, f, match dflt with | none => .err e | some v => .val v)
    | .ok cur => ((iGetF σ f c P k).1, AList.set f k .deleted, .val cur)
  | .setdefault k dflt =>
    match (iGetF σ f c P k).2 with
    | .ok cur => ((iGetF σ f c P k).1, f, .val cur)
    | .error _ => ((iGetF σ f c P k).1, AList.set f k (.val dflt), .val dflt)
  | .update pairs => (σ, AList.update f (updSlots pairs), .unit)
  | _ => (σ, f, .err .badCase)

/-! ### commands -/

/-- `cls.properties.<op>` -/
def classOpF (alias : Bool) (σ : FState) (c : ClassId) (o : Op) : FState × Res :=
  if c < σ.classes.length then
    match σ.descOf c with
    | none => (σ, .err .attributeError)
    | some s =>
      match pullOf o with
      | some p =>
        ((framesPull σ (σ.objOf s) p (σ.mroOf c)).1,
          (dictLikeRead (readerOf (framesPull σ (σ.objOf s) p (σ.mroOf c)).2) o).getD (.err .badCase))
      | none =>
        match dictLikeRead (readerOf []) o with
        | some r => (σ, r)                                   -- popitem
        | none => tWriteF alias σ c (σ.objOf s) o
  else (σ, .err .badCase)

def setInst (σ : FState) (i : InstId) (x : Inst) : FState := { σ with insts := σ.insts.set i x }

/-- `instance.properties.<op>` -/
def instOpF (σ : FState) (i : InstId) (o : Op) : FState × Res :=
  match σ.insts[i]? with
  | none => (σ, .err .badCase)
  | some x =>
    match x.loc with
    | .plain m => (setInst σ i { x with loc := .plain (plainOp m o).1 }, (plainOp m o).2)
    | .storage f =>
      match σ.descOf x.cls with
      | none => (σ, .err .attributeError)
      | some s =>
        if isRead o then
          match iPullOf f o with
          | some p =>
            ((framesPull σ (σ.objOf s) p (σ.mroOf x.cls)).1,
              (dictLikeRead (iReaderOf f (framesPull σ (σ.objOf s) p (σ.mroOf x.cls)).2) o).getD (.err .badCase))
          | none => (σ, (dictLikeRead (iReaderOf f []) o).getD (.err .badCase))
        else
          (setInst (iWriteF σ f x.cls (σ.objOf s) o).1 i { x with loc := .storage (iWriteF σ f x.cls (σ.objOf s) o).2.1 },
            (iWriteF σ f x.cls (σ.objOf s) o).2.2)

def addClass (σ : FState) (mroTail : List ClassId) (own : Option DescId) : FState :=
  { σ with classes := σ.classes ++ [⟨σ.classes.length :: mroTail, own⟩] }

/-- `parent.using(properties=Properties(dict(init)))`: a new slot for a NEW object; nothing is
    materialised -/
def usingPropsF (σ : FState) (p : ClassId) (init : List (Key × Val)) : FState :=
  let d := σ.ndesc
  let σ1 := addClass σ (σ.mroOf p) (some d)
  { σ1 with ndesc := d + 1, objs := σ1.objs ++ [d], initial := AList.set σ1.initial d (valFrame init) }

/-- `parent.using(properties=P)`, `P` the object in slot `s`: a new slot for the SAME object -/
def usingSharedF (σ : FState) (p : ClassId) (s : DescId) : FState :=
  let d := σ.ndesc
  let σ1 := addClass σ (σ.mroOf p) (some d)
  { σ1 with ndesc := d + 1, objs := σ1.objs ++ [σ.objOf s] }

def fstep (alias : Bool) (σ : FState) : Cmd → FState × Res
  | .op (.cls c) o => classOpF alias σ c o
  | .op (.inst i) o => instOpF σ i o
  | .subclass p =>
    if p < σ.classes.length then (addClass σ (σ.mroOf p) none, .unit) else (σ, .err .badCase)
  | .subclassMI tail =>
    if tail.all (· < σ.classes.length) then (addClass σ tail none, .unit) else (σ, .err .badCase)
  | .usingProps p init =>
    if p < σ.classes.length then (usingPropsF σ p init, .unit) else (σ, .err .badCase)
  | .usingShared p owner _ =>
    -- the caller's idea of `P.initial_set` plays no role here: the cell is what it is
    if p < σ.classes.length then
      match σ.ownOf owner with
      | some s => (usingSharedF σ p s, .unit)
      | none => (σ, .err .badCase)
    else (σ, .err .badCase)
  | .withProps p pairs =>
    if p < σ.classes.length then
      -- cls.properties.update(dict(iterable, **properties)) on the fresh clone
      ((classOpF alias (addClass σ (σ.mroOf p) none) σ.classes.length (.update pairs)).1, .unit)
    else (σ, .err .badCase)
  | .newInst c =>
    if c < σ.classes.length then ({ σ with insts := σ.insts ++ [⟨c, .storage []⟩] }, .unit)
    else (σ, .err .badCase)
  | .newInstWith c m =>
    if c < σ.classes.length then
      ({ σ with insts := σ.insts ++ [⟨c, .plain (AList.ofPairs m)⟩] }, .unit)
    else (σ, .err .badCase)
  | .assign i m =>
    match σ.insts[i]? with
    | none => (σ, .err .badCase)
    | some x => (setInst σ i { x with loc := .plain (AList.ofPairs m) }, .unit)
  | .newInstCompound c m =>
    if c < σ.classes.length then
      ({ usingPropsF σ c m with insts := (usingPropsF σ c m).insts ++ [⟨σ.classes.length, .storage []⟩] }, .unit)
    else (σ, .err .badCase)

def frun (alias : Bool) (σ : FState) : List Cmd → FState × List Res
  | [] => (σ, [])
  | c :: cs => ((frun alias (fstep alias σ c).1 cs).1, (fstep alias σ c).2 :: (frun alias (fstep alias σ c).1 cs).2)

/-- class 0 holds a fresh `Properties(dict(init))`; NOTHING is materialised yet -/
def finit (init : List (Key × Val)) : FState :=
  { classes := [⟨[0], some 0⟩], ndesc := 1, objs := [0], initial := [(0, valFrame init)], map := [], insts := [] }

/-- the classes that have a frame in the `map` of the `Properties` object they resolve to
    (what `cls in descriptor.map` says in the code) -/
def materialised (σ : FState) : List ClassId :=
  (List.range σ.classes.length).filter (fun c =>
    match σ.descOf c with
    | some s => (σ.mapGet (σ.objOf s) c).isSome
    | none => false)

/-- the frame a class WOULD get: its materialised frame, else (owner) the current `initial_set` -/
def would (σ : FState) (P : ObjId) (c : ClassId) : Frame :=
  match σ.mapGet P c with
  | some r => σ.deref P r
  | none => σ.initialOf P

/-! ### the abstraction to model A -/

/-- a class without a materialised frame abstracts to the layer it WOULD get: `initial_set` for a
    descriptor owner, no frame at all (≡ empty) otherwise -/
def absFrames (σ : FState) : AList FrameKey Frame :=
  (List.range σ.classes.length).filterMap (fun c =>
    match σ.ownOf c with
    | some s => some (.init s, would σ (σ.objOf s) c)
    | none =>
      match σ.descOf c with
      | some s => (σ.mapGet (σ.objOf s) c).map (fun r => (FrameKey.cls s c, σ.deref (σ.objOf s) r))
      | none => none)

def absState (σ : FState) : State :=
  { classes := σ.classes, ndesc := σ.ndesc, frames := absFrames σ, insts := σ.insts }

end Flatland.C17.Frames
