/-
CPython `list` semantics used by flatland's Sequence classes, as total functions over `List α`
(shared by the models of C08, C09, C10).  These are the *reference* operations: the C09
refinement theorem says that a flatland sequence behaves like these functions applied to the
list of its members' adapted values.  They reproduce `Objects/listobject.c` /
`Objects/sliceobject.c` (PySlice_Unpack + PySlice_AdjustIndices, list_ass_slice,
list_ass_subscript, list_insert's clamping, list_pop) and are validated against the real
`list` type by the correspondence harness (the Python oracle drives a real `list`).
Core Lean only.
-/
namespace Flatland.PyList

/-- exception classes raised anywhere in the sequence / mapping models -/
inductive Exc
  | indexError | valueError | typeError | keyError | notImplemented | runtimeError
  | assertionError
  | unsupported   -- model-side marker: this path of the code is outside the model
  deriving DecidableEq, Repr, Inhabited

/-- `i` as an index into a list of length `len` (`list[i]`, `del list[i]`, `list.pop(i)`):
    negative indexes count from the end; `none` = IndexError -/
def normIndex (len : Nat) (i : Int) : Option Nat :=
  let j := if i < 0 then i + (len : Int) else i
  if 0 ≤ j ∧ j < (len : Int) then some j.toNat else none

/-- a Python slice object; `none` = omitted (`None`) -/
structure Slice where
  start : Option Int
  stop : Option Int
  step : Option Int
  deriving DecidableEq, Repr, Inhabited

/-- the result of `slice.indices(len)` plus the slice length -/
structure Ix where
  start : Int
  stop : Int
  step : Int
  count : Nat
  deriving DecidableEq, Repr, Inhabited

/-- PySlice_AdjustIndices for one bound -/
def adjustBound (len : Int) (step : Int) (dflt : Int) : Option Int → Int
  | none => dflt
  | some i =>
    if i < 0 then
      (if i + len < 0 then (if step < 0 then -1 else 0) else i + len)
    else if i ≥ len then (if step < 0 then len - 1 else len)
    else i

/-- PySlice_Unpack + PySlice_AdjustIndices; `none` = `ValueError: slice step cannot be zero` -/
def adjust (len : Nat) (s : Slice) : Option Ix :=
  let step := s.step.getD 1
  if step = 0 then none
  else
    let n : Int := len
    let start := adjustBound n step (if step < 0 then n - 1 else 0) s.start
    let stop := adjustBound n step (if step < 0 then -1 else n) s.stop
    let count : Nat :=
      if step < 0 then (if stop < start then ((start - stop - 1) / (-step) + 1).toNat else 0)
      else (if start < stop then ((stop - start - 1) / step + 1).toNat else 0)
    some ⟨start, stop, step, count⟩

/-- the list positions a slice selects, in slice order -/
def indices (ix : Ix) : List Nat :=
  (List.range ix.count).map (fun (k : Nat) => (ix.start + (k : Int) * ix.step).toNat)

variable {α : Type}

/-- `list[slice]` -/
def getSlice (l : List α) (s : Slice) : Except Exc (List α) :=
  match adjust l.length s with
  | none => .error .valueError
  | some ix => .ok ((indices ix).filterMap (fun i => l[i]?))

/-- elementwise assignment used by extended-slice assignment -/
def assign : List α → List Nat → List α → List α
  | l, i :: is, x :: xs => assign (l.set i x) is xs
  | l, _, _ => l

/-- `list[slice] = new` (list_ass_subscript): a step-1 slice is replaced by any number of
    items; an extended slice needs exactly as many items as it selects -/
def setSlice (l : List α) (s : Slice) (new : List α) : Except Exc (List α) :=
  match adjust l.length s with
  | none => .error .valueError
  | some ix =>
    if ix.step = 1 then
      .ok (l.take ix.start.toNat ++ new ++ l.drop (max ix.start ix.stop).toNat)
    else if new.length ≠ ix.count then .error .valueError
    else .ok (assign l (indices ix) new)

/-- drop the elements whose position (counted from `k`) is in `is` -/
def eraseIdxsFrom (is : List Nat) : Nat → List α → List α
  | _, [] => []
  | k, x :: xs =>
    if is.contains k then eraseIdxsFrom is (k + 1) xs else x :: eraseIdxsFrom is (k + 1) xs

/-- the elements whose position (counted from `k`) is in `is`, in list order -/
def pickIdxsFrom (is : List Nat) : Nat → List α → List α
  | _, [] => []
  | k, x :: xs =>
    if is.contains k then x :: pickIdxsFrom is (k + 1) xs else pickIdxsFrom is (k + 1) xs

/-- `del list[slice]` -/
def delSlice (l : List α) (s : Slice) : Except Exc (List α) :=
  match adjust l.length s with
  | none => .error .valueError
  | some ix => .ok (eraseIdxsFrom (indices ix) 0 l)

/-- the elements `del list[slice]` removes (list order) -/
def delSliceRemoved (l : List α) (s : Slice) : List α :=
  match adjust l.length s with
  | none => []
  | some ix => pickIdxsFrom (indices ix) 0 l

/-- where `list.insert(i, x)` puts `x`: clamped, never an error -/
def insertPos (len : Nat) (i : Int) : Nat :=
  if i < 0 then (if i + (len : Int) < 0 then 0 else (i + (len : Int)).toNat)
  else min i.toNat len

/-- `list.insert(i, x)` -/
def insertAt (l : List α) (i : Int) (x : α) : List α :=
  let k := insertPos l.length i
  l.take k ++ x :: l.drop k

/-- `list[i]`; `none` = IndexError -/
def getItem (l : List α) (i : Int) : Option α :=
  match normIndex l.length i with
  | none => none
  | some k => l[k]?

/-- `list[i] = x`; `none` = IndexError -/
def setItem (l : List α) (i : Int) (x : α) : Option (List α) :=
  match normIndex l.length i with
  | none => none
  | some k => some (l.set k x)

/-- `del list[i]`; `none` = IndexError -/
def delItem (l : List α) (i : Int) : Option (List α) :=
  match normIndex l.length i with
  | none => none
  | some k => some (l.eraseIdx k)

/-- `list.pop(i)`; `none` = IndexError (also for the empty list) -/
def popAt (l : List α) (i : Int) : Option (α × List α) :=
  match normIndex l.length i with
  | none => none
  | some k =>
    match l[k]? with
    | none => none
    | some x => some (x, l.eraseIdx k)

/-- `list.index(v)` with `p x = (x == v)`; `none` = ValueError -/
def indexOf (p : α → Bool) (l : List α) : Option Nat := l.findIdx? p

/-- `list.remove(v)`; `none` = ValueError -/
def removeFirst (p : α → Bool) (l : List α) : Option (List α) :=
  match l.findIdx? p with
  | none => none
  | some k => some (l.eraseIdx k)

/-- `list.count(v)` -/
def countOf (p : α → Bool) (l : List α) : Nat := l.countP p

/-- `v in list` -/
def containsBy (p : α → Bool) (l : List α) : Bool := l.any p

/-- insertion into a sorted list, before the first element `y` with `le x y` -/
def insertSorted (le : α → α → Bool) (x : α) : List α → List α
  | [] => [x]
  | y :: ys => if le x y then x :: y :: ys else y :: insertSorted le x ys

/-- stable insertion sort (what `list.sort(key=…)` computes when `le a b = (key a ≤ key b)`,
    and `list.sort(key=…, reverse=True)` when `le a b = (key a ≥ key b)`) -/
def sortBy (le : α → α → Bool) : List α → List α
  | [] => []
  | x :: xs => insertSorted le x (sortBy le xs)

/-- Python `str` ordering: lexicographic by code point -/
def strLe : List Char → List Char → Bool
  | [], _ => true
  | _ :: _, [] => false
  | a :: as, b :: bs => if a.toNat < b.toNat then true else if b.toNat < a.toNat then false else strLe as bs

end Flatland.PyList
