/-
Model A for C17 — `flatland/schema/properties.py` as written (after the `fix:` commits
ee86233 and f6834ef), plus the pieces of `base.py`/`util.py` that create views:
`class_cloner` (fresh subclass), `using(properties=…)`, `with_properties`, `Element.__init__`
keyword override, `Properties.__get__/__set__`.

What is modelled
* a class store: `ClassId ↦ {mro, own}` — `mro` is `cls.__mro__` restricted to the classes of
  the case (self first), `own` is `cls.__dict__.get("properties")` (a descriptor identity);
* `Properties.map` (the `WeakKeyDictionary`) of every descriptor and its `initial_set`, in one
  table `frames : FrameKey ⇀ Frame`.  `map.setdefault(cls, member.initial_set)` binds the frame of
  an *owning* class to the `initial_set` object itself (never rebound), so the frame of an
  owning class is the slot `.init d` — two classes that own the *same* descriptor object share it;
  every other class has its own slot `.cls d c`, absent until `_base_frame` creates `{}`;
* the `_frames` walk along the MRO with the stop-at-owning-class rule, the `seen` set of
  `items()`, the `Deleted` tombstone, `local_storage` of instances and wholesale assignment;
* every method of `_TypeLookup`, `_InstanceLookup`, `DictLike`; a detached instance is a real
  Python `dict` (modelled with dict semantics, `popitem` included).

Reads are pure here: the only state change a read performs in the code is
`map.setdefault(owner, initial_set)` / `__dict__.setdefault("properties", local_storage())`,
which creates the binding the model already treats as present.
Weak references: the harness keeps every class alive, so no frame disappears.
-/
namespace Flatland.C17

abbrev Str := List Char
abbrev Key := Str

/-- property values used by the cases: `None`, ints, strings -/
inductive Val
  | none
  | int (i : Int)
  | str (s : Str)
  deriving DecidableEq, Repr, Inhabited

/-- what a frame stores under a key: a value or the `Deleted` symbol -/
inductive Slot
  | val (v : Val)
  | deleted
  deriving DecidableEq, Repr

/-! ### Python `dict` as an insertion-ordered association list with unique keys -/

abbrev AList (κ β : Type) := List (κ × β)

namespace AList
variable {κ β : Type} [DecidableEq κ]

def get? : AList κ β → κ → Option β
  | [], _ => none
  | (k', b) :: r, k => if k' = k then some b else get? r k

/-- `d[k] = b`: replace in place, else append -/
def set : AList κ β → κ → β → AList κ β
  | [], k, b => [(k, b)]
  | (k', b') :: r, k, b => if k' = k then (k', b) :: r else (k', b') :: set r k b

/-- `del d[k]` (no-op when absent; callers check) -/
def erase : AList κ β → κ → AList κ β
  | [], _ => []
  | (k', b') :: r, k => if k' = k then r else (k', b') :: erase r k

/-- `d.update(pairs)` -/
def update (d : AList κ β) (kvs : List (κ × β)) : AList κ β :=
  kvs.foldl (fun d kv => set d kv.1 kv.2) d

/-- `dict(pairs)` -/
def ofPairs (kvs : List (κ × β)) : AList κ β := update [] kvs

def hasKey (d : AList κ β) (k : κ) : Bool := (get? d k).isSome

end AList

abbrev Dict (β : Type) := AList Key β
abbrev Frame := Dict Slot

/-- `dict.__eq__` for dicts with unique keys -/
def dictEq (a b : Dict Val) : Bool :=
  a.length == b.length && a.all (fun kv => AList.get? b kv.1 == some kv.2)

/-! ### the store -/

abbrev ClassId := Nat
abbrev DescId := Nat
abbrev InstId := Nat

/-- which dict object: a descriptor's `initial_set`, or the `{}` created for a non-owning class -/
inductive FrameKey
  | init (d : DescId)
  | cls (d : DescId) (c : ClassId)
  deriving DecidableEq, Repr

structure Cls where
  /-- `cls.__mro__` (self first), restricted to the classes of the case -/
  mro : List ClassId
  /-- `cls.__dict__.get("properties")` -/
  own : Option DescId
  deriving Repr

/-- `instance.__dict__["properties"]` (absent ≡ empty `local_storage()`, which every read creates) -/
inductive Local
  | storage (f : Frame)
  | plain (m : Dict Val)
  deriving Repr

structure Inst where
  cls : ClassId
  loc : Local
  deriving Repr

structure State where
  classes : List Cls
  ndesc : Nat
  frames : AList FrameKey Frame
  insts : List Inst
  deriving Repr

inductive Err
  | keyError
  | notImplemented
  | attributeError      -- no `properties` descriptor reachable (never with Element subclasses)
  | badCase             -- the case names a class / instance / descriptor that does not exist
  deriving DecidableEq, Repr

namespace State

def mroOf (σ : State) (c : ClassId) : List ClassId :=
  match σ.classes[c]? with
  | some cl => cl.mro
  | none => []

def ownOf (σ : State) (c : ClassId) : Option DescId :=
  match σ.classes[c]? with
  | some cl => cl.own
  | none => none

def owns (σ : State) (c : ClassId) (d : DescId) : Bool := σ.ownOf c == some d

/-- attribute lookup `cls.properties`: first class of the MRO with a descriptor in `__dict__` -/
def descOf (σ : State) (c : ClassId) : Option DescId := (σ.mroOf c).findSome? σ.ownOf

def frameD (σ : State) (k : FrameKey) : Frame := (AList.get? σ.frames k).getD []

def setFrame (σ : State) (k : FrameKey) (f : Frame) : State :=
  { σ with frames := AList.set σ.frames k f }

/-- `_TypeLookup._frames()` for descriptor `d`, over the remaining MRO -/
def walk (σ : State) (d : DescId) : List ClassId → List Frame
  | [] => []
  | c :: rest =>
    if σ.owns c d then
      [σ.frameD (.init d)]                       -- yield self.map[cls]; break
    else
      match AList.get? σ.frames (.cls d c) with
      | none => walk σ d rest                    -- not in map, not the owner: continue
      | some f => f :: walk σ d rest

/-- the dict `_base_frame` returns (created on demand) is stored under this key -/
def baseKey (σ : State) (c : ClassId) (d : DescId) : FrameKey :=
  if σ.owns c d then .init d else .cls d c

def baseFrame (σ : State) (c : ClassId) (d : DescId) : Frame := σ.frameD (σ.baseKey c d)

/-- `self._base_frame[k] = s` -/
def writeBase (σ : State) (c : ClassId) (d : DescId) (k : Key) (s : Slot) : State :=
  σ.setFrame (σ.baseKey c d) (AList.set (σ.baseFrame c d) k s)

end State

/-! ### `_TypeLookup` -/

/-- `__getitem__`: first frame that has the key decides -/
def lookupFrames : List Frame → Key → Except Err Val
  | [], _ => .error .keyError
  | f :: rest, k =>
    match AList.get? f k with
    | none => lookupFrames rest k
    | some .deleted => .error .keyError
    | some (.val v) => .ok v

/-- `items()`: the concatenated frames filtered through the `seen` set -/
def itemsGo : List (Key × Slot) → List Key → List (Key × Val)
  | [], _ => []
  | (k, s) :: rest, seen =>
    if k ∈ seen then itemsGo rest seen
    else match s with
      | .deleted => itemsGo rest (k :: seen)
      | .val v => (k, v) :: itemsGo rest (k :: seen)

def tFrames (σ : State) (c : ClassId) (d : DescId) : List Frame := σ.walk d (σ.mroOf c)

def tGet (σ : State) (c : ClassId) (d : DescId) (k : Key) : Except Err Val :=
  lookupFrames (tFrames σ c d) k

def tItems (σ : State) (c : ClassId) (d : DescId) : List (Key × Val) :=
  itemsGo (tFrames σ c d).flatten []

/-! ### `_InstanceLookup` over local storage `f` and the class lookup `(c, d)` -/

def iGet (σ : State) (f : Frame) (c : ClassId) (d : DescId) (k : Key) : Except Err Val :=
  match AList.get? f k with
  | some .deleted => .error .keyError
  | some (.val v) => .ok v
  | none => tGet σ c d k

def localItems (f : Frame) : List (Key × Val) :=
  f.filterMap (fun kv => match kv.2 with | .val v => some (kv.1, v) | .deleted => none)

def iItems (σ : State) (f : Frame) (c : ClassId) (d : DescId) : List (Key × Val) :=
  localItems f ++ (tItems σ c d).filter (fun kv => !(AList.hasKey f kv.1))

/-! ### operations and results -/

inductive Op
  | getitem (k : Key)
  | setitem (k : Key) (v : Val)
  | delitem (k : Key)
  | clear
  | pop (k : Key) (dflt : Option Val)
  | setdefault (k : Key) (dflt : Val)         -- `default=None` when omitted
  | update (pairs : List (Key × Val))          -- `dict(*iterable, **values)` already as pairs
  | items
  | keys
  | values
  | get (k : Key) (dflt : Val)
  | contains (k : Key)
  | bool
  | eq (other : List (Key × Val))
  | ne (other : List (Key × Val))
  | copy
  | popitem
  deriving Repr

inductive Res
  | unit
  | val (v : Val)
  | bool (b : Bool)
  | items (l : List (Key × Val))
  | keys (l : List Key)
  | vals (l : List Val)
  | err (e : Err)
  deriving DecidableEq, Repr

/-- a readable mapping: what `DictLike` needs from its subclass -/
structure Reader where
  getitem : Key → Except Err Val
  items : List (Key × Val)

/-- the read-only methods of `DictLike` (`keys/values/get/copy/__contains__/__bool__/__eq__/__ne__`) -/
def dictLikeRead (r : Reader) : Op → Option Res
  | .getitem k => some (match r.getitem k with | .ok v => .val v | .error e => .err e)
  | .items => some (.items r.items)
  | .keys => some (.keys (r.items.map (·.1)))
  | .values => some (.vals (r.items.map (·.2)))
  | .get k dflt => some (match r.getitem k with | .ok v => .val v | .error _ => .val dflt)
  | .contains k => some (.bool (decide (k ∈ r.items.map (·.1))))
  | .copy => some (.items (AList.ofPairs r.items))
  | .bool => some (.bool (!(AList.ofPairs r.items).isEmpty))
  | .eq other => some (.bool (dictEq (AList.ofPairs r.items) (AList.ofPairs other)))
  | .ne other => some (.bool (!(dictEq (AList.ofPairs r.items) (AList.ofPairs other))))
  | .popitem => some (.err .notImplemented)
  | _ => none

def tReader (σ : State) (c : ClassId) (d : DescId) : Reader := ⟨tGet σ c d, tItems σ c d⟩
def iReader (σ : State) (f : Frame) (c : ClassId) (d : DescId) : Reader := ⟨iGet σ f c d, iItems σ f c d⟩

/-- `_TypeLookup` methods that write; all writes go to `_base_frame` -/
def tWrite (σ : State) (c : ClassId) (d : DescId) : Op → State × Res
  | .setitem k v => (σ.writeBase c d k (.val v), .unit)
  | .delitem k =>
    match tGet σ c d k with                                   -- self[key]  # must exist to delete
    | .error e => (σ, .err e)
    | .ok _ => (σ.writeBase c d k .deleted, .unit)
  | .clear =>
    -- frame = self._base_frame; for key in self.keys(): frame[key] = Deleted
    -- (the generator has left the base frame before the first new key is inserted)
    let ks := (tItems σ c d).map (·.1)
    (σ.setFrame (σ.baseKey c d) (ks.foldl (fun f k => AList.set f k .deleted) (σ.baseFrame c d)), .unit)
  | .pop k dflt =>
    match tGet σ c d k with
    | .error e => (σ, match dflt with | none => .err e | some v => .val v)
    | .ok cur => (σ.writeBase c d k .deleted, .val cur)      -- self[key] = Deleted
  | .setdefault k dflt =>
    match tGet σ c d k with
    | .ok cur => (σ, .val cur)
    | .error _ => (σ.writeBase c d k (.val dflt), .val dflt)
  | .update pairs =>
    let simplified : Dict Val := AList.ofPairs pairs
    (σ.setFrame (σ.baseKey c d)
      (AList.update (σ.baseFrame c d) (simplified.map (fun kv => (kv.1, Slot.val kv.2)))), .unit)
  | _ => (σ, .err .badCase)

/-- `_InstanceLookup` methods that write; all writes go to `self.local` -/
def iWrite (σ : State) (f : Frame) (c : ClassId) (d : DescId) : Op → Frame × Res
  | .setitem k v => (AList.set f k (.val v), .unit)
  | .delitem k =>
    match iGet σ f c d k with
    | .error e => (f, .err e)
    | .ok _ => (AList.set f k .deleted, .unit)
  | .clear =>
    -- self.local.clear(); for key in self.class_lookup.keys(): self.local[key] = Deleted
    (((tItems σ c d).map (·.1)).foldl (fun f k => AList.set f k .deleted) [], .unit)
  | .pop k dflt =>
    match iGet σ f c d k with
    | .error e => (f, match dflt with | none => .err e | some v => .val v)
    | .ok cur => (AList.set f k .deleted, .val cur)
  | .setdefault k dflt =>
    match iGet σ f c d k with
    | .ok cur => (f, .val cur)
    | .error _ => (AList.set f k (.val dflt), .val dflt)
  | .update pairs =>
    let simplified : Dict Val := AList.ofPairs pairs
    (AList.update f (simplified.map (fun kv => (kv.1, Slot.val kv.2))), .unit)
  | _ => (f, .err .badCase)

/-- a real `dict` (instance assigned a plain mapping) -/
def plainOp (m : Dict Val) : Op → Dict Val × Res
  | .getitem k => (m, match AList.get? m k with | some v => .val v | none => .err .keyError)
  | .setitem k v => (AList.set m k v, .unit)
  | .delitem k => if AList.hasKey m k then (AList.erase m k, .unit) else (m, .err .keyError)
  | .clear => ([], .unit)
  | .pop k dflt =>
    match AList.get? m k with
    | some v => (AList.erase m k, .val v)
    | none => (m, match dflt with | none => .err .keyError | some v => .val v)
  | .setdefault k dflt =>
    match AList.get? m k with
    | some v => (m, .val v)
    | none => (AList.set m k dflt, .val dflt)
  | .update pairs => (AList.update m (AList.ofPairs pairs), .unit)
  | .items => (m, .items m)
  | .keys => (m, .keys (m.map (·.1)))
  | .values => (m, .vals (m.map (·.2)))
  | .get k dflt => (m, .val ((AList.get? m k).getD dflt))
  | .contains k => (m, .bool (AList.hasKey m k))
  | .bool => (m, .bool (!m.isEmpty))
  | .eq other => (m, .bool (dictEq m (AList.ofPairs other)))
  | .ne other => (m, .bool (!(dictEq m (AList.ofPairs other))))
  | .copy => (m, .items m)
  | .popitem =>
    match m.getLast? with
    | none => (m, .err .keyError)
    | some kv => (m.dropLast, .items [kv])

/-! ### views and commands -/

inductive View
  | cls (c : ClassId)
  | inst (i : InstId)
  deriving DecidableEq, Repr

def isRead : Op → Bool
  | .setitem .. | .delitem .. | .clear | .pop .. | .setdefault .. | .update .. => false
  | _ => true

/-- `cls.properties.<op>` -/
def classOp (σ : State) (c : ClassId) (o : Op) : State × Res :=
  if c < σ.classes.length then
    match σ.descOf c with
    | none => (σ, .err .attributeError)
    | some d =>
      match dictLikeRead (tReader σ c d) o with
      | some r => (σ, r)
      | none => tWrite σ c d o
  else (σ, .err .badCase)

def setInst (σ : State) (i : InstId) (x : Inst) : State := { σ with insts := σ.insts.set i x }

/-- `instance.properties.<op>` (`Properties.__get__` picks the plain mapping or an `_InstanceLookup`) -/
def instOp (σ : State) (i : InstId) (o : Op) : State × Res :=
  match σ.insts[i]? with
  | none => (σ, .err .badCase)
  | some x =>
    match x.loc with
    | .plain m =>
      let (m', r) := plainOp m o
      (setInst σ i { x with loc := .plain m' }, r)
    | .storage f =>
      match σ.descOf x.cls with
      | none => (σ, .err .attributeError)
      | some d =>
        match dictLikeRead (iReader σ f x.cls d) o with
        | some r => (σ, r)
        | none =>
          let (f', r) := iWrite σ f x.cls d o
          (setInst σ i { x with loc := .storage f' }, r)

inductive Cmd
  | op (v : View) (o : Op)
  /-- `class_cloner` (named/using(name=…)/…) or a `class X(parent)` statement -/
  | subclass (parent : ClassId)
  /-- `class X(b1, b2, …)`: the MRO tail computed by Python (C3), restricted to case classes -/
  | subclassMI (mroTail : List ClassId)
  /-- `parent.using(properties={…})`: subclass with a fresh `Properties(dict)` descriptor -/
  | usingProps (parent : ClassId) (init : List (Key × Val))
  /-- `parent.using(properties=P)` with `P` the `Properties` object already held by class `owner`;
      `init` is `P.initial_set`, the mapping `P` was constructed with -/
  | usingShared (parent : ClassId) (owner : ClassId) (init : List (Key × Val))
  /-- `parent.with_properties(*pairs, **kw)` -/
  | withProps (parent : ClassId) (pairs : List (Key × Val))
  /-- `cls()` -/
  | newInst (c : ClassId)
  /-- `cls(properties={…})`: `Element.__init__` → `setattr` → `Properties.__set__` -/
  | newInstWith (c : ClassId) (m : List (Key × Val))
  /-- `instance.properties = {…}` -/
  | assign (i : InstId) (m : List (Key × Val))
  /-- `cls(properties={…})` on a Compound type: `_MetaCompound.__call__` first derives
      `cls.using(properties={…})` on the fly and instantiates that class without the keyword -/
  | newInstCompound (c : ClassId) (m : List (Key × Val))
  deriving Repr

def addClass (σ : State) (mroTail : List ClassId) (own : Option DescId) : State :=
  { σ with classes := σ.classes ++ [⟨σ.classes.length :: mroTail, own⟩] }

def valFrame (pairs : List (Key × Val)) : Frame :=
  (AList.ofPairs pairs : Dict Val).map (fun kv => (kv.1, Slot.val kv.2))

/-- `parent.using(properties=dict(init))` -/
def usingPropsStep (σ : State) (p : ClassId) (init : List (Key × Val)) : State :=
  let d := σ.ndesc
  let σ1 := addClass σ (σ.mroOf p) (some d)
  { σ1 with ndesc := d + 1, frames := AList.set σ1.frames (.init d) (valFrame init) }

def step (σ : State) : Cmd → State × Res
  | .op (.cls c) o => classOp σ c o
  | .op (.inst i) o => instOp σ i o
  | .subclass p =>
    if p < σ.classes.length then (addClass σ (σ.mroOf p) none, .unit) else (σ, .err .badCase)
  | .subclassMI tail =>
    if tail.all (· < σ.classes.length) then (addClass σ tail none, .unit) else (σ, .err .badCase)
  | .usingProps p init =>
    if p < σ.classes.length then (usingPropsStep σ p init, .unit) else (σ, .err .badCase)
  | .usingShared p owner init =>
    -- since /repo 936c1b4 every class that is handed the Properties object `P` gets
    -- `dict(P.initial_set)` as its own frame: sharing the object shares nothing, the new class
    -- behaves as if it had a Properties object of its own with the same initial mapping `init`
    -- (`P.initial_set` as given when `P` was constructed; nothing writes to it any more).
    -- Modelling boundary: the code still compares descriptor IDENTITY in the MRO walk, which only a
    -- multiple-inheritance class mixing such classes can observe; those histories are checked by
    -- the Python reference only (harness `has_model`).
    if p < σ.classes.length then
      match σ.ownOf owner with
      | some _ => (usingPropsStep σ p init, .unit)
      | none => (σ, .err .badCase)
    else (σ, .err .badCase)
  | .withProps p pairs =>
    if p < σ.classes.length then
      let σ1 := addClass σ (σ.mroOf p) none
      -- cls.properties.update(dict(iterable, **properties))
      ((classOp σ1 σ.classes.length (.update pairs)).1, .unit)
    else (σ, .err .badCase)
  | .newInst c =>
    if c < σ.classes.length then ({ σ with insts := σ.insts ++ [⟨c, .storage []⟩] }, .unit)
    else (σ, .err .badCase)
  | .newInstWith c m =>
    if c < σ.classes.length then
      ({ σ with insts := σ.insts ++ [⟨c, .plain (AList.ofPairs m)⟩] }, .unit)
    else (σ, .err .badCase)
  | .assign i m =>
    match σ.insts[i]? with
    | none => (σ, .err .badCase)
    | some x => (setInst σ i { x with loc := .plain (AList.ofPairs m) }, .unit)
  | .newInstCompound c m =>
    if c < σ.classes.length then
      let σ1 := usingPropsStep σ c m
      ({ σ1 with insts := σ1.insts ++ [⟨σ.classes.length, .storage []⟩] }, .unit)
    else (σ, .err .badCase)

/-- run a history, collecting the results -/
def run (σ : State) : List Cmd → State × List Res
  | [] => (σ, [])
  | c :: cs =>
    let (σ1, r) := step σ c
    let (σ2, rs) := run σ1 cs
    (σ2, r :: rs)

/-- the state a case starts from: class 0 owns descriptor 0 with the given `initial_set`
    (`T.using(properties={…})`, or `Element` itself with `{}`) -/
def initState (init : List (Key × Val)) : State :=
  { classes := [⟨[0], some 0⟩], ndesc := 1, frames := [(.init 0, valFrame init)], insts := [] }

/-- the mapping a view shows: `dict(view.items())` as a lookup function -/
def visible (σ : State) : View → Key → Option Val
  | .cls c, k =>
    match σ.descOf c with
    | none => none
    | some d => (tGet σ c d k).toOption
  | .inst i, k =>
    match σ.insts[i]? with
    | none => none
    | some x =>
      match x.loc with
      | .plain m => AList.get? m k
      | .storage f =>
        match σ.descOf x.cls with
        | none => none
        | some d => (iGet σ f x.cls d k).toOption

/-- `list(view.items())` -/
def viewItems (σ : State) : View → List (Key × Val)
  | .cls c =>
    match σ.descOf c with
    | none => []
    | some d => tItems σ c d
  | .inst i =>
    match σ.insts[i]? with
    | none => []
    | some x =>
      match x.loc with
      | .plain m => m
      | .storage f =>
        match σ.descOf x.cls with
        | none => []
        | some d => iItems σ f x.cls d

end Flatland.C17
