/-
Model A for C15: the built-in validators of `flatland.validation` (scalars.py, containers.py,
number.py, network.py) as written, over an *element view* — what `validate(element, state)` reads
from the element.  `verdict` follows each `validate` method line by line and returns either the
exception class that escapes or the verdict together with the `note_error` call (message
attribute + keywords) made on failure.  `run` adds `note_error`/`add_error` (message text from
the regenerated template table, expanded by the C16 model) and the value after the call.

`urlparse`/`urlunparse` and the `idna` codec are opaque: their results on the element's value
are part of the view (computed by the harness with the real library).
-/
import Flatland.C16
import Flatland.C15Url
import Flatland.C16.Tables
import Flatland.Generated.C16Catalogues
namespace Flatland.C15
open Flatland.C16

/-! ### Python operators on native values -/

def numOf : Val → Option Int
  | .int i => some i
  | .bool b => some (if b then 1 else 0)
  | _ => none

/-- code-point lexicographic order of `str` -/
def strLt : Str → Str → Bool
  | [], [] => false
  | [], _ :: _ => true
  | _ :: _, [] => false
  | a :: as, b :: bs =>
    if a.toNat < b.toNat then true
    else if b.toNat < a.toNat then false
    else strLt as bs

/-- `a == b` -/
def pyEq (a b : Val) : Bool :=
  match numOf a, numOf b with
  | some x, some y => x == y
  | _, _ => match a, b with
    | .none, .none => true
    | .str x, .str y => x == y
    | _, _ => false

/-- `a < b`; ordering between unlike types is a TypeError -/
def pyLt (a b : Val) : Except Raise Bool :=
  match numOf a, numOf b with
  | some x, some y => .ok (decide (x < y))
  | _, _ => match a, b with
    | .str x, .str y => .ok (strLt x y)
    | _, _ => .error .typeError

/-- `a <= b` -/
def pyLe (a b : Val) : Except Raise Bool :=
  match numOf a, numOf b with
  | some x, some y => .ok (decide (x ≤ y))
  | _, _ => match a, b with
    | .str x, .str y => .ok (!strLt y x)
    | _, _ => .error .typeError

/-- `bool(v)` -/
def truthy : Val → Bool
  | .none => false
  | .str s => !s.isEmpty
  | .int i => i != 0
  | .bool b => b
  | .elem _ => true
  | .method _ _ => true

/-! ### the element view -/

structure FieldView where
  value : Val
  u : Str
  label : Val
  deriving Repr, Inhabited

/-- `element.raw` as the SetWith… validators see it through `to_pairs` -/
inductive RawView
  | unset                      -- `Unset`: never set(), or set_flat()
  | iterator                   -- a one-shot iterator / generator: `hasattr(raw, "__next__")` (fe503f0)
  | none
  | pairs (keys : List Val)    -- dict-like or iterable of pairs: the keys (text, or int/bool/None), in order
  | notIterable                -- `to_pairs` raises TypeError (int, list of ints …)
  | badPairs                   -- items that do not unpack into two: ValueError (caught since 5e93603)
  deriving Repr, Inhabited

structure View where
  value : Val := .none
  u : Str := []
  label : Val := .none
  name : Val := .none
  -- sequences
  isSequence : Bool := false           -- hasattr(element, 'member_schema')
  valueLen : Option Nat := none        -- len(element.value); none when the value is None
  childLabel : Val := .none            -- element.member_schema.label
  -- MapEqual family: element.find(path, single=True) for each of field_paths
  fields : List (Option FieldView) := []
  -- NotDuplicated
  hasParent : Bool := false
  containerLabel : Val := .none
  siblings : List (Val × Str) := []    -- (value, u) of container.children
  pos : Option Nat := none             -- index of the element itself among them
  -- the validation state the siblings carry: (`.valid`: True / False / none = Unevaluated, number of errors).
  -- No `validate` method reads it (theorem `verdict_ignores_validation_state`)
  siblingState : List (Option Bool × Nat) := []
  -- SetWithKnownFields / SetWithAllFields
  raw : RawView := .unset
  schemaKeys : List Str := []          -- element.field_schema_mapping.keys()
  -- opaque externals, evaluated by the harness on the element's value
  idna : Option Str := none            -- domain.encode('idna').decode('ascii'); none = UnicodeError
  localOk : Option Bool := none        -- local_part_pattern.match(local_part); none = no pattern set
  lib : UrlLib := {}                   -- `self.urlparse`: urlparse(text) / urlunparse(parts) as tables (C15Url.lean)
  deriving Repr, Inhabited

/-! ### validators and their parameters -/

inductive EqKind | element | value | u
  deriving Repr, DecidableEq, Inhabited

inductive V
  | present | isTrue | isFalse | converted
  | valueIn (options : List Val)
  | valueInText (container : Str)        -- `valid_options` is a str: `in` is the substring test
  | shorterThan (maxlength : Int)
  | longerThan (minlength : Int)
  | lengthBetween (minlength maxlength : Int)
  | valueLessThan (boundary : Val)
  | valueAtMost (maximum : Val)
  | valueGreaterThan (boundary : Val)
  | valueAtLeast (minimum : Val)
  | valueBetween (minimum maximum : Val) (inclusive : Bool)
  | mapEqual (k : EqKind)
  | notDuplicated
  | hasAtLeast (minimum : Int)
  | hasAtMost (maximum : Int)
  | hasBetween (minimum maximum : Int)
  | setWithKnownFields | setWithAllFields
  | luhn10
  | isEmail (nonLocal : Bool)
  | urlValidator (allowedSchemes allowedParts : List Str)
  | httpURL (allParts : List Str) (required forbidden : List (Str × PartRule))
  | urlCanonicalizer (discardParts : List Str)
  deriving Repr, Inhabited

/-! ### number.py -/

/-- the `while number:` loop of `luhn10_check`, two decimal digits per round -/
def luhnLoop (number sum : Nat) : Nat :=
  if h : number = 0 then sum
  else
    let r := number % 100
    let z := r % 10
    let r' := r / 10 * 2
    luhnLoop (number / 100) (sum + (r' / 10 + r' % 10 + z))
termination_by number
decreasing_by omega

/-- `luhn10_check(number)` -/
def luhn10Check (number : Int) : Bool :=
  if number < 0 then false
  else luhnLoop number.toNat 0 % 10 == 0

/-! ### containers.py helpers -/

/-- a Python `set` built from a list of keys: the first of several `==`-equal keys stays -/
def dedupGo (seen : List Val) : List Val → List Val
  | [] => []
  | x :: xs => if seen.any (fun s => pyEq x s) then dedupGo seen xs else x :: dedupGo (x :: seen) xs

def insertSorted (x : Str) : List Str → List Str
  | [] => [x]
  | y :: ys => if strLt y x then y :: insertSorted x ys else x :: y :: ys

/-- `sorted(list_of_text)` -/
def sortOnly (l : List Str) : List Str := l.foldr insertSorted []

/-- `", ".join(l)` -/
def joinComma : List Str → Str
  | [] => []
  | [x] => x
  | x :: y :: r => x ++ [',', ' '] ++ joinComma (y :: r)

/-- `k in S` for a set `S` of keys -/
def memKey (k : Val) (s : List Val) : Bool := s.any (fun x => pyEq k x)

/-- `sorted(str(k) for k in set(a) - set(b))` -/
def diffKeys (a b : List Val) : List Str :=
  sortOnly ((dedupGo [] (a.filter (fun k => !memKey k b))).map pyStr)

/-- `set(a) == set(b)` -/
def sameKeySet (a b : List Val) : Bool :=
  a.all (fun k => memKey k b) && b.all (fun k => memKey k a)

/-- `element.field_schema_mapping.keys()` as key values -/
def schemaVals (keys : List Str) : List Val := keys.map Val.str

/-- the `for idx, sibling in enumerate(container.children)` loop of `NotDuplicated.validate`:
    (valid, position) -/
def dupLoop (me : Val × Str) (pos : Option Nat) : List (Val × Str) → Nat → Bool → Bool × Nat
  | [], _, valid => (valid, 0)
  | s :: rest, idx, valid =>
    if pos == some idx then (valid, idx + 1)                         -- `sibling is element`: break
    else if valid && (pyEq me.1 s.1 && me.2 == s.2) then dupLoop me pos rest (idx + 1) false
    else dupLoop me pos rest (idx + 1) valid

/-! ### network.py helpers -/

/-- `s.split(sep)` for a one-character separator -/
def splitOnChar (sep : Char) : Str → List Str
  | [] => [[]]
  | c :: cs =>
    match splitOnChar sep cs with
    | [] => [[]]            -- unreachable
    | w :: ws => if c = sep then [] :: w :: ws else (c :: w) :: ws

def isDomainChar (c : Char) : Bool :=
  ('a' ≤ c && c ≤ 'z') || ('A' ≤ c && c ≤ 'Z') || ('0' ≤ c && c ≤ '9') || c = '-'

/-- `IsEmail.domain_pattern.match`: `^(?:[a-z0-9\-]+\.)*[a-z0-9\-]+$`, IGNORECASE, on the ASCII
    text the idna codec returns; `$` also matches before one final newline -/
def domainMatches (d : Str) : Bool :=
  let body := match d.reverse with
    | '\n' :: r => r.reverse
    | _ => d
  (splitOnChar '.' body).all (fun l => !l.isEmpty && l.all isDomainChar)

/-- `len(element.value) if element.value is not None else 0` -/
def lenOrZero : Option Nat → Int
  | some n => n
  | none => 0

/-- `s in container` for two texts -/
def infixOf (s : Str) : Str → Bool
  | [] => s.isEmpty
  | c :: cs => s.isPrefixOf (c :: cs) || infixOf s cs

/-- `a <= x <= b` / `a < x < b`: the second comparison is evaluated only if the first holds -/
def chained (first second : Except Raise Bool) : Except Raise Bool :=
  match first with
  | .error r => .error r
  | .ok true => second
  | .ok false => .ok false

/-- `[element.find(name, single=True) for name in self.field_paths]` with the lookups already
    done by the harness: a path that does not resolve is a LookupError -/
def resolveFields : List (Option FieldView) → Except Raise (List FieldView)
  | [] => .ok []
  | none :: _ => .error .lookupError
  | some f :: rest =>
    match resolveFields rest with
    | .ok l => .ok (f :: l)
    | .error r => .error r

/-! ### `validate(element, state)` of every class -/

def labelsJoin : List Val → Except Raise Str
  | [] => .ok []
  | [.str s] => .ok s
  | .str s :: r => do let rest ← labelsJoin r; pure (s ++ [',', ' '] ++ rest)
  | _ :: _ => .error .typeError                -- `", ".join` of a non-str label

def verdict (v : V) (e : View) : Except Raise Verdict :=
  match v with
  | .present => if e.u.isEmpty then fail "missing" else pass
  | .isTrue => if !truthy e.value then fail "false" else pass
  | .isFalse => if truthy e.value then fail "true" else pass
  | .converted => if e.value != .none then pass else fail "incorrect"
  | .valueIn options => if !(options.any (fun o => pyEq e.value o)) then fail "fail" else pass
  | .valueInText container =>
    -- `try: found = element.value in self.valid_options  except TypeError: found = False` (6dc976e)
    let found := match e.value with
      | .str s => infixOf s container
      | _ => false                               -- `None in 'yes'`: TypeError, caught
    if !found then fail "fail" else pass
  | .shorterThan maxlength =>
    if (e.u.length : Int) > maxlength then fail "exceeded" else pass
  | .longerThan minlength =>
    if (e.u.length : Int) < minlength then fail "short" else pass
  | .lengthBetween minlength maxlength =>
    let l : Int := e.u.length
    if l < minlength || l > maxlength then fail "breached" else pass
  | .valueLessThan boundary =>
    if e.value == .none then fail "failure"
    else do if !(← pyLt e.value boundary) then fail "failure" else pass
  | .valueAtMost maximum =>
    if e.value == .none then fail "failure"
    else do if !(← pyLe e.value maximum) then fail "failure" else pass
  | .valueGreaterThan boundary =>
    if e.value == .none then fail "failure"
    else do if !(← pyLt boundary e.value) then fail "failure" else pass
  | .valueAtLeast minimum =>
    if e.value == .none then fail "failure"
    else do if !(← pyLe minimum e.value) then fail "failure" else pass
  | .valueBetween minimum maximum inclusive =>
    if inclusive then
      if e.value == .none then fail "failure_inclusive"
      else
        -- `not minimum <= value <= maximum`
        match chained (pyLe minimum e.value) (pyLe e.value maximum) with
        | .error r => .error r
        | .ok ok => if !ok then fail "failure_inclusive" else pass
    else
      if e.value == .none then fail "failure_exclusive"
      else
        match chained (pyLt minimum e.value) (pyLt e.value maximum) with
        | .error r => .error r
        | .ok ok => if !ok then fail "failure_exclusive" else pass
  | .mapEqual k => do
    let elements ← resolveFields e.fields
    match elements with
    | [] => .error .assertionError
    | first :: rest =>
      let same (el : FieldView) : Bool := match k with
        | .element => pyEq el.value first.value && el.u == first.u
        | .value => pyEq el.value first.value
        | .u => el.u == first.u
      if rest.all same then pass
      else do
        let labels ← labelsJoin (elements.dropLast.map (·.label))
        let last := (elements.getLast?.map (·.label)).getD .none
        fail "unequal" [("labels".toList, .str labels), ("last_label".toList, last)]
  | .notDuplicated =>
    if !e.hasParent then .error .typeError
    else
      let (valid, position) := dupLoop (e.value, e.u) e.pos e.siblings 0 true
      if !valid then
        fail "failure" [("position".toList, .int position),
                        ("container_label".toList, e.containerLabel)]
      else pass
  | .hasAtLeast minimum =>
    if !e.isSequence then .error .assertionError
    else if minimum == 0 then pass                               -- "stupid edge case"
    else if (match e.valueLen with | none => true | some n => (n : Int) < minimum) then
      fail "failure" [("child_label".toList, e.childLabel)]
    else pass
  | .hasAtMost maximum =>
    if !e.isSequence then .error .assertionError
    else if (match e.valueLen with
             | none => false
             | some n => n != 0 && (n : Int) > maximum) then
      fail "failure" [("child_label".toList, e.childLabel)]
    else pass
  | .hasBetween minimum maximum =>
    if !e.isSequence then .error .assertionError
    else
      let length : Int := lenOrZero e.valueLen
      if minimum ≤ length && length ≤ maximum then pass
      else fail (if minimum == maximum then "exact" else "range")
             [("child_label".toList, e.childLabel)]
  | .setWithKnownFields =>
    match e.raw with
    | .unset => pass
    | .none => pass
    | .iterator => pass                                          -- consumed by set(): nothing to inspect
    | .notIterable => pass
    | .badPairs => pass                                          -- (TypeError, ValueError) caught
    | .pairs given =>
      let unexpected := diffKeys given (schemaVals e.schemaKeys)
      if unexpected.isEmpty then pass
      else fail "unexpected" [("unexpected".toList, .str (joinComma unexpected)),
                              ("n_unexpected".toList, .int unexpected.length)]
  | .setWithAllFields =>
    match e.raw with
    | .unset => pass
    | .none => pass
    | .iterator => pass
    | .notIterable => pass
    | .badPairs => pass
    | .pairs given =>
      let (missing, unexpected) :=
        if sameKeySet given (schemaVals e.schemaKeys) then ([], [])
        else (diffKeys (schemaVals e.schemaKeys) given, diffKeys given (schemaVals e.schemaKeys))
      if missing.isEmpty && unexpected.isEmpty then pass
      else
        let message :=
          if !missing.isEmpty && !unexpected.isEmpty then "both"
          else if !missing.isEmpty then "missing" else "unexpected"
        fail message [("n_missing".toList, .int missing.length),
                      ("missing".toList, .str (joinComma missing)),
                      ("n_unexpected".toList, .int unexpected.length),
                      ("unexpected".toList, .str (joinComma unexpected))]
  | .luhn10 =>
    match e.value with
    | .none => fail "invalid"
    | v => match numOf v with
      | some n => if luhn10Check n then pass else fail "invalid"
      | none => .error .typeError                                -- `number < 0` on a str
  | .isEmail nonLocal =>
    match e.value with
    | .none => fail "invalid"
    | .str addr =>
      if addr.count '@' != 1 then fail "invalid"
      else
        match splitOnChar '@' addr with
        | [localPart, domain0] =>
          if localPart.isEmpty || localPart.all isSpaceChar then fail "invalid"
          -- optional local part validation
          else if e.localOk == some false then fail "invalid"
          else match e.idna with                                 -- domain.encode("idna").decode("ascii")
            | none => fail "invalid"                             -- UnicodeError
            | some domain =>
              -- from here on `domain` is the converted text: the text form `domain0` is not looked at again
              let _ := domain0
              if domain.length > 253 then fail "invalid"
              else if !domainMatches domain then fail "invalid"
              else
                let labels := splitOnChar '.' domain
                if labels.length == 1 && nonLocal then fail "invalid"
                else if !(labels.all (fun l => l.length < 64)) then fail "invalid"
                else pass
        | _ => .error .valueError                                -- unreachable: exactly one '@'
    | _ => .error .attributeError                                -- no `.count` on a number
  | .urlValidator allowedSchemes allowedParts =>
    match e.value with
    | .none => fail "bad_format"
    | .str value => urlValidate allowedSchemes allowedParts e.lib value
    | _ => fail "bad_format"                                     -- `.strip()` fails inside the try
  | .httpURL allParts required forbidden =>
    match e.value with
    | .none => pass                                              -- `if url is None: return True`
    | .str url => httpValidate allParts required forbidden e.lib url
    | _ => .error .unsupported                                   -- a value that is not text goes to urlparse as it is: 0 / False / b'' parse as BYTES, other numbers raise AttributeError — outside the model (Spec.inModel)
  | .urlCanonicalizer discardParts =>
    -- `if not self.discard_parts or element.value is None: return True` (3bf2238)
    if discardParts.isEmpty || e.value == .none then pass
    else match e.value with
      | .str value =>
        match canonicalize discardParts e.lib value with
        | .error r => .error r
        | .ok .badFormat => fail "bad_format"
        | .ok (.rewritten _) => pass
      | _ => .error .unsupported                                 -- not text: urlparse(0) does NOT raise (bytes result; the element's value becomes b'') — outside the model (Spec.inModel)

/-- the value after the call: only `URLCanonicalizer` assigns `element.value` -/
def valueAfter (v : V) (e : View) : Val :=
  match v with
  | .urlCanonicalizer discardParts =>
    if discardParts.isEmpty || e.value == .none then e.value
    else match e.value with
      | .str value =>
        match canonicalize discardParts e.lib value with
        | .ok (.rewritten c) => c                                -- `element.value = self.urlparse.urlunparse(url)`
        | _ => e.value
      | _ => e.value
  | _ => e.value

/-! ### messages -/

def V.className : V → String
  | .present => "Present" | .isTrue => "IsTrue" | .isFalse => "IsFalse"
  | .converted => "Converted" | .valueIn _ => "ValueIn" | .valueInText _ => "ValueIn"
  | .shorterThan _ => "ShorterThan" | .longerThan _ => "LongerThan"
  | .lengthBetween _ _ => "LengthBetween"
  | .valueLessThan _ => "ValueLessThan" | .valueAtMost _ => "ValueAtMost"
  | .valueGreaterThan _ => "ValueGreaterThan" | .valueAtLeast _ => "ValueAtLeast"
  | .valueBetween _ _ _ => "ValueBetween"
  | .mapEqual .element => "MapEqual" | .mapEqual .value => "ValuesEqual"
  | .mapEqual .u => "UnisEqual"
  | .notDuplicated => "NotDuplicated"
  | .hasAtLeast _ => "HasAtLeast" | .hasAtMost _ => "HasAtMost" | .hasBetween _ _ => "HasBetween"
  | .setWithKnownFields => "SetWithKnownFields" | .setWithAllFields => "SetWithAllFields"
  | .luhn10 => "Luhn10" | .isEmail _ => "IsEmail"
  | .urlValidator _ _ => "URLValidator" | .httpURL _ _ _ => "HTTPURLValidator"
  | .urlCanonicalizer _ => "URLCanonicalizer"

/-- the validator attributes a message can refer to -/
def V.attrs : V → List (Str × Val)
  | .shorterThan m => [("maxlength".toList, .int m)]
  | .longerThan m => [("minlength".toList, .int m)]
  | .lengthBetween a b => [("minlength".toList, .int a), ("maxlength".toList, .int b)]
  | .valueLessThan b => [("boundary".toList, b)]
  | .valueGreaterThan b => [("boundary".toList, b)]
  | .valueAtMost m => [("maximum".toList, m)]
  | .valueAtLeast m => [("minimum".toList, m)]
  | .valueBetween a b i => [("minimum".toList, a), ("maximum".toList, b),
                            ("inclusive".toList, .bool i)]
  | .hasAtLeast m => [("minimum".toList, .int m)]
  | .hasAtMost m => [("maximum".toList, .int m)]
  | .hasBetween a b => [("minimum".toList, .int a), ("maximum".toList, .int b)]
  | .isEmail nl => [("non_local".toList, .bool nl)]
  | _ => []

/-- `getattr(self, key)` on the regenerated template table -/
def messageOf (table : List BuiltinMsg) (cls key : String) : Option Msg :=
  (table.find? (fun m => m.cls == cls && m.attr == key)).map BuiltinMsg.msg

/-- element attributes a message can refer to -/
def View.attrs (e : View) : List (Str × Val) :=
  [("label".toList, e.label), ("name".toList, e.name), ("value".toList, e.value),
   ("u".toList, .str e.u)]

/-- the lookup environment of `expand_message(element, None, message, **info)`: no state, no
    translators -/
def envOf (v : V) (e : View) (info : List (Str × Val)) : Env :=
  { targets := [kwTarget info,
                { subscriptable := false, items := [], attrs := v.attrs },
                { subscriptable := false, items := [], attrs := e.attrs }],
    uState := ⟨.absent, .notSubscriptable⟩, nState := ⟨.absent, .notSubscriptable⟩,
    uAnc := [], nAnc := [], uBuiltin := .absent, nBuiltin := .absent }

structure Outcome where
  verdict : Bool
  errors : List Str
  value : Val
  deriving Repr

/-- `validator(element, None)` on an element whose error list is `errors` -/
def runWith (table : List BuiltinMsg) (v : V) (e : View) (errors : List Str) :
    Except Raise Outcome := do
  let (b, note) ← verdict v e
  match note with
  | none => pure { verdict := b, errors := errors, value := valueAfter v e }
  | some n =>
    match messageOf table v.className n.key with
    | none => .error .attributeError
    | some msg =>
      let errors' ← noteError (envOf v e n.info) errors msg
      pure { verdict := b, errors := errors', value := valueAfter v e }

def run (v : V) (e : View) (errors : List Str) : Except Raise Outcome :=
  runWith Flatland.Generated.C16.builtinMessages v e errors

/-- `Validator.note_warning(element, state, key, **info)`: line for line the body of `note_error`
    with `element.add_warning` in place of `element.add_error` — the same function, of the
    element's warnings list (`add_warning` ignores duplicates exactly as `add_error` does) -/
def noteWarning (e : Env) (warnings : List Str) (m : Msg) (callable : Bool := false) :
    Except Raise (List Str) :=
  noteError e warnings m callable

/-- a validator whose failures go through `note_warning`: `Outcome.errors` is then the element's
    WARNINGS list after the call (its errors are not touched) -/
def runWarnWith (table : List BuiltinMsg) (v : V) (e : View) (warnings : List Str) :
    Except Raise Outcome := do
  let (b, note) ← verdict v e
  match note with
  | none => pure { verdict := b, errors := warnings, value := valueAfter v e }
  | some n =>
    match messageOf table v.className n.key with
    | none => .error .attributeError
    | some msg =>
      let warnings' ← noteWarning (envOf v e n.info) warnings msg
      pure { verdict := b, errors := warnings', value := valueAfter v e }

/-- `Validator.__init__(**kw)`: message attributes overridden on the instance shadow the
    class's templates -/
def overrideTable (table : List BuiltinMsg) (cls : String) (overrides : List (String × Msg)) :
    List BuiltinMsg :=
  overrides.map (fun (attr, m) =>
    match m with
    | .plain t => { cls := cls, attr := attr, single := t, plural := none, nkey := none,
                    supplied := [], vattrs := [] }
    | .plural s p k => { cls := cls, attr := attr, single := s, plural := some p, nkey := some k,
                         supplied := [], vattrs := [] }) ++ table

def runOverridden (overrides : List (String × Msg)) (v : V) (e : View) (errors : List Str) :
    Except Raise Outcome :=
  runWith (overrideTable Flatland.Generated.C16.builtinMessages v.className overrides) v e errors

def runWarnOverridden (overrides : List (String × Msg)) (v : V) (e : View) (warnings : List Str) :
    Except Raise Outcome :=
  runWarnWith (overrideTable Flatland.Generated.C16.builtinMessages v.className overrides) v e warnings

end Flatland.C15
