/-
Model A for C05: `Element.validate(recurse=True)`, `Element._validate` / `Container._validate`
and `validate_element` of src/flatland/schema/base.py and containers.py, as written.

A tree node carries what the algorithm reads: whether it is a Container (which decides the
two `_validate` variants), `optional`, `is_empty`, and the outcomes its descent / ascent
validators will return (the six outcomes of the property).  Validators are black boxes that
return a fixed outcome and log their invocation.
-/
namespace Flatland.C05

inductive Outcome | tru | fls | none | skip | skipAll | skipAllFalse
  deriving DecidableEq, Repr, Inhabited

/-- what `_validate` can return -/
inductive Ret | uneval | tru | fls | skipAll | skipAllFalse
  deriving DecidableEq, Repr, Inhabited

/-- the three states of `.valid` -/
inductive Valid | uneval | tru | fls
  deriving DecidableEq, Repr, Inhabited

structure Info where
  id : Nat
  container : Bool
  optional : Bool
  empty : Bool
  down : List Outcome      -- Scalar: `validators`; Container: `descent_validators`
  up : List Outcome        -- Container: `validators`; unused by Scalars (validates_up = None)
  deriving Repr, Inhabited

inductive VTree | node (info : Info) (kids : List VTree)
  deriving Inhabited

def VTree.info : VTree → Info | .node i _ => i
def VTree.kids : VTree → List VTree | .node _ k => k

mutual
def VTree.size : VTree → Nat | .node _ k => 1 + sizeL k
def sizeL : List VTree → Nat | [] => 0 | t :: ts => t.size + sizeL ts
end

/-- truthiness of a `_validate` result (`bool(validated)`); Unevaluated is a true int -/
def Ret.truthy : Ret → Bool
  | .uneval => true | .tru => true | .skipAll => true | .fls => false | .skipAllFalse => false

def Ret.isSkipAll : Ret → Bool
  | .skipAll => true | .skipAllFalse => true | _ => false

def Valid.truthy : Valid → Bool | .fls => false | _ => true
def Valid.ofBool : Bool → Valid | true => .tru | false => .fls

/-- the `for fn in validators` loop of `validate_element`: result and number of validators
    invoked -/
def runValidators : List Outcome → Ret × Nat
  | [] => (.tru, 0)
  | o :: rest =>
    match o with
    | .none => (.fls, 1)                  -- `if valid is None: return False`
    | .skip => (.tru, 1)                  -- `elif valid is Skip: return True`
    | .fls => (.fls, 1)                   -- `elif not valid ...: return valid`
    | .skipAllFalse => (.skipAllFalse, 1) -- falsy int: returned as is
    | .skipAll => (.skipAll, 1)           -- `or valid is SkipAll: return valid`
    | .tru => let r := runValidators rest; (r.1, r.2 + 1)

/-- `validate_element(element, state, validators)` -/
def validateElement (i : Info) (vs : List Outcome) : Ret × Nat :=
  if i.empty && i.optional then (.tru, 0)
  else if vs.isEmpty then (if i.empty then .fls else .tru, 0)
  else runValidators vs

/-- `_validate(state, descending=True)` -/
def validateDown (i : Info) : Ret × Nat :=
  if i.container then
    (if i.down.isEmpty then (.uneval, 0) else validateElement i i.down)
  else validateElement i i.down

/-- `_validate(state, descending=False)` -/
def validateUp (i : Info) : Ret × Nat :=
  if i.container then validateElement i i.up else (.uneval, 0)

/-- one record of the `elements` list after the descent loop -/
structure Visit where
  info : Info
  ret : Ret          -- what the descent `_validate` returned
  deriving Repr

theorem sizeL_append (a b : List VTree) : sizeL (a ++ b) = sizeL a + sizeL b := by
  induction a with
  | nil => simp [sizeL]
  | cons t ts ih => simp [sizeL, ih]; omega

/-- the `while queue:` loop.  `queue.popleft()`, `_validate(state, True)`, and
    `queue.extend(element.children)` unless the result is SkipAll / SkipAllFalse. -/
def descend : List VTree → List Visit
  | [] => []
  | .node i kids :: q =>
    let r := (validateDown i).1
    ⟨i, r⟩ :: descend (if r.isSkipAll then q else q ++ kids)
termination_by q => sizeL q
decreasing_by
  simp only [sizeL, VTree.size]
  split <;> simp [sizeL_append] <;> omega

/-- `.valid` after the descent step for one element -/
def validAfterDown (r : Ret) : Valid :=
  match r with
  | .uneval => .uneval
  | r => .ofBool r.truthy

/-- `.valid` after the ascent step for one element -/
def validAfterUp (v : Valid) (u : Ret) : Valid :=
  match u with
  | .uneval => v
  | u => if v.truthy then .ofBool u.truthy else v

/-- one log entry: (element id, descending?, index of the validator in its list) -/
abbrev Call := Nat × Bool × Nat

def callsOf (id : Nat) (descending : Bool) (n : Nat) : List Call :=
  (List.range n).map (fun k => (id, descending, k))

structure Result where
  ret : Bool                       -- the value `validate()` returns
  valids : List (Nat × Valid)      -- final `.valid` of every visited element, visit order
  log : List Call
  deriving Repr

/-- the `valid` accumulator contribution of the descent of one element:
    `if validated is Unevaluated: ... else: if valid: valid &= validated` -/
def accDown (acc : Bool) (r : Ret) : Bool :=
  match r with
  | .uneval => acc
  | r => acc && r.truthy

/-- contribution of the ascent of one element -/
def accUp (acc : Bool) (v : Valid) (u : Ret) : Bool :=
  match u with
  | .uneval => acc
  | u => if v.truthy then acc && u.truthy else acc

/-- `Element.validate(state, recurse=True)` -/
def validate (t : VTree) : Result :=
  let elements := descend [t]
  let acc₁ := elements.foldl (fun a v => accDown a v.ret) true
  let logDown := elements.flatMap (fun v => callsOf v.info.id true (validateDown v.info).2)
  let rev := elements.reverse
  let acc₂ := rev.foldl
    (fun a v => accUp a (validAfterDown v.ret) (validateUp v.info).1) acc₁
  let logUp := rev.flatMap (fun v => callsOf v.info.id false (validateUp v.info).2)
  { ret := acc₂
    valids := elements.map
      (fun v => (v.info.id, validAfterUp (validAfterDown v.ret) (validateUp v.info).1))
    log := logDown ++ logUp }

/-! ### the `.valid` store across calls -/

mutual
/-- ids of all elements of the tree (preorder) -/
def VTree.ids : VTree → List Nat | .node i k => i.id :: idsL k
def idsL : List VTree → List Nat | [] => [] | t :: ts => t.ids ++ idsL ts
end

def lookupValid (id : Nat) : List (Nat × Valid) → Option Valid
  | [] => none
  | (k, v) :: rest => if k = id then some v else lookupValid id rest

/-- `.valid` of the element `id` after `validate()`; `prev` is what earlier calls left on the same
    element tree (Unevaluated everywhere on a fresh tree).  Only visited elements are written. -/
def validNow (prev : Nat → Valid) (t : VTree) (id : Nat) : Valid :=
  match lookupValid id (validate t).valids with
  | some v => v
  | none => prev id

/-- `all_valid` after the call: every element of the tree, visited or not -/
def allValidNow (prev : Nat → Valid) (t : VTree) : Bool :=
  t.ids.all (fun id => (validNow prev t id).truthy)

/-! ### `validate(recurse=False)`: the one element, descent then ascent, children untouched -/

/-- what `validate(recurse=False)` leaves and returns: `return self.valid` — the flag itself (which can be
    `Unevaluated` when neither phase evaluates), and the validators invoked -/
structure NoRec where
  valid : Valid
  log : List Call
  deriving Repr

/-- `if not recurse:` branch of `Element.validate` (as repaired in 10acb0e):
    `down = self._validate(state, True)`; `self.valid = down if down is Unevaluated else bool(down)`;
    `up = self._validate(state, False)`; `if up is not Unevaluated and self.valid: self.valid = bool(up)`;
    `return self.valid` — the same two assignments the loop makes for one element. -/
def validateNoRecurse (i : Info) : NoRec :=
  let d := validateDown i
  let u := validateUp i
  { valid := validAfterUp (validAfterDown d.1) u.1,
    log := callsOf i.id true d.2 ++ callsOf i.id false u.2 }

/-- the branch as it was BEFORE the repair (`if up is not Unevaluated: self.valid = bool(up)`, no guard): the
    ascent result replaces the descent result.  Kept as a counter-model (regression witness, KF-C05-a). -/
def oldValidateNoRecurse (i : Info) : NoRec :=
  let d := validateDown i
  let v₁ := validAfterDown d.1
  let u := validateUp i
  let v₂ := match u.1 with
    | .uneval => v₁
    | r => .ofBool r.truthy
  { valid := v₂, log := callsOf i.id true d.2 ++ callsOf i.id false u.2 }

/-- the `.valid` store after `validate(recurse=False)` on the element `i`: only that element is written -/
def validNowNoRec (prev : Nat → Valid) (i : Info) (id : Nat) : Valid :=
  if id = i.id then (validateNoRecurse i).valid else prev id

/-! ### `all_valid`: getter and setter over the store -/

/-- `_get_all_valid`: `self.valid` and `.valid` of every element of `all_children` are truthy -/
def allValid (st : Nat → Valid) (t : VTree) : Bool :=
  t.ids.all (fun id => (st id).truthy)

/-- `_set_all_valid`: `self.valid = value`, then the same for every element of `all_children` -/
def setAllValid (prev : Nat → Valid) (sub : VTree) (v : Valid) (id : Nat) : Valid :=
  if id ∈ sub.ids then v else prev id

mutual
/-- the sub-tree rooted at the element `id` (first in preorder) -/
def VTree.find (id : Nat) : VTree → Option VTree
  | .node i k => if i.id = id then some (.node i k) else findL id k
def findL (id : Nat) : List VTree → Option VTree
  | [] => none
  | t :: ts => match t.find id with
    | some r => some r
    | none => findL id ts
end

/-! ### the `validator_validated` signal (sent only while a receiver is connected)

`validate_element` sends one signal right after each validator it invoked, carrying the validator's RAW
result, and one with sender `NotEmpty` for the fallback check of an empty validator list.  The model keeps a
trace that interleaves validator invocations and emissions in the order they happen. -/

inductive Sender
  | validator (descending : Bool) (idx : Nat)
  | notEmpty
  deriving DecidableEq, Repr, Inhabited

structure Signal where
  id : Nat
  sender : Sender
  result : Outcome      -- raw result of the validator; `tru` / `fls` for the fallback check
  deriving DecidableEq, Repr, Inhabited

inductive Event
  | call (c : Call)
  | signal (s : Signal)
  deriving DecidableEq, Repr, Inhabited

def Event.call? : Event → Option Call | .call c => some c | .signal _ => none
def Event.signal? : Event → Option Signal | .signal s => some s | .call _ => none

/-- does the `for fn in validators` loop go on after this result? (`None`, `Skip`, falsy and `SkipAll` return) -/
def Outcome.goesOn : Outcome → Bool | .tru => true | _ => false

/-- the loop of `validate_element` with a receiver connected: `valid = fn(element, state)`, then
    `validator_validated.send(fn, element=…, state=…, result=valid)`, then the tests on `valid` -/
def traceRun (id : Nat) (descending : Bool) : Nat → List Outcome → List Event
  | _, [] => []
  | k, o :: rest =>
    .call (id, descending, k) :: .signal ⟨id, .validator descending k, o⟩ ::
      (if o.goesOn then traceRun id descending (k + 1) rest else [])

/-- `validate_element` with a receiver connected -/
def traceElement (i : Info) (descending : Bool) (vs : List Outcome) : List Event :=
  if i.empty && i.optional then []
  else if vs.isEmpty then [.signal ⟨i.id, .notEmpty, if i.empty then .fls else .tru⟩]
  else traceRun i.id descending 0 vs

def traceDown (i : Info) : List Event :=
  if i.container then (if i.down.isEmpty then [] else traceElement i true i.down)
  else traceElement i true i.down

def traceUp (i : Info) : List Event :=
  if i.container then traceElement i false i.up else []

/-- everything `validate()` makes happen, in order, while a receiver is connected -/
def validateTrace (t : VTree) : List Event :=
  let elements := descend [t]
  elements.flatMap (fun v => traceDown v.info) ++ elements.reverse.flatMap (fun v => traceUp v.info)

def noRecurseTrace (i : Info) : List Event := traceDown i ++ traceUp i

end Flatland.C05
