/-
Model A for C18, JoinedString over ANY member type: the member type is a parameter given by its
tables — what `member_schema().set(x)` leaves behind (or that it raises) and the text `.u` a member
shows.  `JoinedString.value` / `.u` as the code computes them
(`self.separator.join(child.u for child in self)`, `u` returns `self.value`), the loop of
`JoinedString.set` over the pieces (prune on the member's text, fix 2a6b55c), member mutation.
The String / Integer / Boolean / Date / ... members of `Flatland.C18.JoinedCfg` are the instance
`scalarMember`.
-/
import Flatland.C18
namespace Flatland.C18.Joined
open Flatland.Scalar Flatland.C18

/-- a member type: `set` = state and flag left by `member_schema().set(x)`, `text` = its `.u` -/
structure MemberType (M : Type) where
  set : Native → Except Raise (M × Bool)
  text : M → Str

/-- the scalar kinds of the C04 model as member types -/
def scalarMember (E : Env) (k : Kind) : MemberType SState :=
  { set := fun x => match setScalar E k x with
                    | .ok r => .ok (r.st, r.flag)
                    | .error e => .error e
    text := fun m => m.u }

/-- `sep.join(<generator>)` as CPython runs it: the items are taken in iteration order and
    concatenated left to right, the separator before every item but the first -/
def pyJoin (sep : Str) : List Str → Str
  | [] => []
  | x :: xs => xs.foldl (fun acc y => acc ++ sep ++ y) x

variable {M : Type}

/-- `JoinedString.value`: `self.separator.join(child.u for child in self)` -/
def value (T : MemberType M) (sep : Str) (ms : List M) : Str := pyJoin sep (ms.map T.text)

/-- `JoinedString.u`: `return self.value` -/
def u (T : MemberType M) (sep : Str) (ms : List M) : Str := value T sep ms

/-- the loop of `JoinedString.set` (after `del self[:]`): every piece is `set()` in a new member;
    under prune_empty a member whose text is `''` is dropped; the others are appended in order -/
def setLoop (T : MemberType M) (prune : Bool) : List Native → List M → List Bool → Except Raise (List M × List Bool)
  | [], acc, succ => .ok (acc, succ)
  | v :: vs, acc, succ =>
    match T.set v with
    | .error e => .error e
    | .ok (child, adapted) =>
      if prune && (T.text child).isEmpty then setLoop T prune vs acc succ
      else setLoop T prune vs (acc ++ [child]) (succ ++ [adapted])

inductive Op (M : Type)
  | setPieces (vs : List Native)        -- `el.set(x)` once `x` has become `values` (a list, the split text, `[]` for None)
  | setNotIterable                      -- `el.set(<not iterable>)`: `del self[:]`, returns False
  | member (i : Nat) (x : Native)       -- `el[i].set(x)`
  | append (x : Native)                 -- `el.append(x)`
  | delete (i : Nat)                    -- `del el[i]`
  | poke (i : Nat) (m : M)              -- any other change of member i behind the element's back (`el[i].u = ...`)

inductive JRaise | index | member (r : Raise)
  deriving DecidableEq, Repr, Inhabited

def step (T : MemberType M) (prune : Bool) (ms : List M) : Op M → Except JRaise (List M × Option Bool)
  | .setPieces vs =>
    match setLoop T prune vs [] [] with
    | .ok (ms', succ) => .ok (ms', some (succ.all id))
    | .error e => .error (.member e)
  | .setNotIterable => .ok ([], some false)
  | .member i x =>
    if i < ms.length then
      match T.set x with
      | .ok (m, flag) => .ok (ms.set i m, some flag)
      | .error e => .error (.member e)
    else .error .index
  | .append x =>
    match T.set x with
    | .ok (m, _) => .ok (ms ++ [m], none)
    | .error e => .error (.member e)
  | .delete i => if i < ms.length then .ok (ms.eraseIdx i, none) else .error .index
  | .poke i m => if i < ms.length then .ok (ms.set i m, none) else .error .index

/-- a JoinedString implementation: the state it keeps, how an operation changes it, how `.value`
    is read, and which members it has -/
structure Machine (M σ : Type) where
  step : σ → Op M → Except JRaise (σ × Option Bool)
  value : σ → Str
  members : σ → List M

/-- the code: no state but the members; `.value` recomputed on every read -/
def code (T : MemberType M) (sep : Str) (prune : Bool) : Machine M (List M) :=
  ⟨step T prune, value T sep, id⟩

/-- counter-model: a JoinedString that keeps the value computed by its last whole-element `set()`
    (what it would inherit from `Scalar.set`: `self.value = ...`) -/
def stored (T : MemberType M) (sep : Str) (prune : Bool) : Machine M (List M × Str) :=
  { step := fun s op => match step T prune s.1 op with
      | .error e => .error e
      | .ok (ms, r) => match op with
                       | .setPieces _ => .ok ((ms, value T sep ms), r)
                       | .setNotIterable => .ok ((ms, []), r)
                       | _ => .ok ((ms, s.2), r)
    value := fun s => s.2
    members := fun s => s.1 }

/-- (n3) a JoinedString that CACHES: it stores the value computed at the last whole-element `set()` and
    invalidates it on exactly the operations of its own API that change a member text or the member list
    (member `set()`, `append`, `del`); a change of a member BEHIND the element's back (`poke`) does not go
    through the element and cannot invalidate.  Reads return the cache when there is one. -/
def cached (T : MemberType M) (sep : Str) (prune : Bool) : Machine M (List M × Option Str) :=
  { step := fun s op => match step T prune s.1 op with
      | .error e => .error e
      | .ok (ms, r) => match op with
                       | .setPieces _ => .ok ((ms, some (value T sep ms)), r)
                       | .setNotIterable => .ok ((ms, some (value T sep ms)), r)
                       | .poke .. => .ok ((ms, s.2), r)              -- nobody tells the element
                       | _ => .ok ((ms, none), r)                    -- member set / append / del: invalidate
    value := fun s => s.2.getD (value T sep s.1)
    members := fun s => s.1 }

/-- the history contains no change behind the element's back -/
def NoPoke : List (Op M) → Bool
  | [] => true
  | .poke .. :: _ => false
  | _ :: rest => NoPoke rest

end Flatland.C18.Joined
