/-
Model A for C18, the member loop of `DateYYYYMMDD.explode` with member behaviour as a TABLE: each
member is given by what `member.set(part)` leaves behind and returns (or that it raises) — the
generated Integer members, custom Integer formats, select boxes (`Enum` over Integer), `Constrained`
members that refuse a part of a genuine date, members of any other type.

    value = Date.adapt(self, value)
    for attrib, child_schema in zip(self.used, self.field_schema):
        self[child_schema.name].set(getattr(value, attrib))

Every member is `set()` in turn, WHATEVER the earlier `set()` calls returned; the loop only ends
early when a `set()` raises.  `explodeShort` is the counter-model
`return all(self[name].set(part) for ...)`: `all()` over a generator stops at the first falsy flag.
-/
import Flatland.C18
namespace Flatland.C18.Explode
open Flatland.Scalar Flatland.C18

/-- a member as a table: state and flag left by `member.set(x)`, or the exception that leaves it -/
abbrev MemberSet (M : Type) := Native → Except Raise (M × Bool)

variable {M : Type}

/-- the loop as written: one `set(part)` per (member, part) pair of the `zip`, flags ignored;
    members beyond the shorter list keep their state -/
def explodeAll : List (MemberSet M) → List Native → List M → Except Raise (List M)
  | f :: fs, p :: ps, _ :: olds =>
    match f p with
    | .error e => .error e
    | .ok (m, _) => match explodeAll fs ps olds with
                    | .ok ms => .ok (m :: ms)
                    | .error e => .error e
  | _, _, olds => .ok olds

/-- counter-model: `all(<generator of set() calls>)` — stops after the first member whose `set()`
    returned False; the members after it are never set and keep their state -/
def explodeShort : List (MemberSet M) → List Native → List M → Except Raise (List M)
  | f :: fs, p :: ps, _ :: olds =>
    match f p with
    | .error e => .error e
    | .ok (m, flag) =>
      if flag then
        match explodeShort fs ps olds with
        | .ok ms => .ok (m :: ms)
        | .error e => .error e
      else .ok (m :: olds)
  | _, _, olds => .ok olds

/-- what the statement demands of a completed loop ("sets exactly those members"): member `i`
    holds what ITS OWN `set(part i)` leaves — stated per member, independently of the others -/
def EveryMemberSet (fs : List (MemberSet M)) (ps : List Native) (olds ms : List M) : Prop :=
  ms.length = olds.length ∧
  ∀ i f p, fs[i]? = some f → ps[i]? = some p → i < olds.length →
    ∃ m b, f p = .ok (m, b) ∧ ms[i]? = some m

/-- the member tables of a DateYYYYMMDD of the scalar model -/
def scalarSet (E : Env) (k : Kind) : MemberSet SState := fun x =>
  match setScalar E k x with
  | .ok r => .ok (r.st, r.flag)
  | .error e => .error e

end Flatland.C18.Explode
