/-
Model A for C18, the member loop of `DateYYYYMMDD.explode` with member behaviour as a TABLE: each
member is given by what `member.set(part)` leaves behind and returns (or that it raises) — the
generated Integer members, custom Integer formats, select boxes (`Enum` over Integer), `Constrained`
members that refuse a part of a genuine date, members of any other type.

    value = Date.adapt(self, value)
    for attrib, child_schema in zip(self.used, self.field_schema):
        self[child_schema.name].set(getattr(value, attrib))

Every member is `set()` in turn, WHATEVER the earlier `set()` calls returned; the loop only ends
early when a `set()` raises.  `explodeShort` is the counter-model
`return all(self[name].set(part) for ...)`: `all()` over a generator stops at the first falsy flag.
-/
import Flatland.C18
namespace Flatland.C18.Explode
open Flatland.Scalar Flatland.C18

/-- a member as a table: state and flag left by `member.set(x)`, or the exception that leaves it -/
abbrev MemberSet (M : Type) := Native → Except Raise (M × Bool)

variable {M : Type}

/-- the loop as written: one `set(part)` per (member, part) pair of the `zip`, flags ignored;
    members beyond the shorter list keep their state -/
def explodeAll : List (MemberSet M) → List Native → List M → Except Raise (List M)
  | f :: fs, p :: ps, _ :: olds =>
    match f p with
    | .error e => .error e
    | .ok (m, _) => match explodeAll fs ps olds with
                    | .ok ms => .ok (m :: ms)
                    | .error e => .error e
  | _, _, olds => .ok olds

/-- counter-model: `all(<generator of set() calls>)` — stops after the first member whose `set()`
    returned False; the members after it are never set and keep their state -/
def explodeShort : List (MemberSet M) → List Native → List M → Except Raise (List M)
  | f :: fs, p :: ps, _ :: olds =>
    match f p with
    | .error e => .error e
    | .ok (m, flag) =>
      if flag then
        match explodeShort fs ps olds with
        | .ok ms => .ok (m :: ms)
        | .error e => .error e
      else .ok (m :: olds)
  | _, _, olds => .ok olds

/-- what the statement demands of a completed loop ("sets exactly those members"): member `i`
    holds what ITS OWN `set(part i)` leaves — stated per member, independently of the others -/
def EveryMemberSet (fs : List (MemberSet M)) (ps : List Native) (olds ms : List M) : Prop :=
  ms.length = olds.length ∧
  ∀ i f p, fs[i]? = some f → ps[i]? = some p → i < olds.length →
    ∃ m b, f p = .ok (m, b) ∧ ms[i]? = some m

/-- the member tables of a DateYYYYMMDD of the scalar model -/
def scalarSet (E : Env) (k : Kind) : MemberSet SState := fun x =>
  match setScalar E k x with
  | .ok r => .ok (r.st, r.flag)
  | .error e => .error e

/-! ## members whose `set()` RAISES (n3)

A `Constrained` / `Enum` member whose `valid_value` raises (e.g. `lambda el, v: v % 2` on `None`: TypeError)
makes `member.set(part)` raise out of `Scalar.set` (`self.value = self.adapt(obj)` never completes, so the
member KEEPS its value and text).  What the code then does:

    def explode(self, value):
        try:
            value = Date.adapt(self, value)
            for attrib, child_schema in zip(self.used, self.field_schema):
                self[child_schema.name].set(getattr(value, attrib))
        except (AdaptationError, TypeError):            # a TypeError of a MEMBER lands here too
            for child_schema in self.field_schema:
                self[child_schema.name].set(None)       # … and may raise again: leaves `explode`

    def set(self, value):                               # Compound.set
        try: res = self.explode(value); … return True
        except Exception: return False                  # swallows whatever left `explode`

So the members set before the raising one STAY set, and the call returns False. -/

/-- how an exception that leaves a member's `set()` is treated further up -/
inductive MErr
  | typeError          -- TypeError: caught by `explode`'s own `except (AdaptationError, TypeError)`
  | other              -- any other `Exception` (KeyError, ZeroDivisionError, …): caught by `Compound.set` only
  | model (r : Raise)  -- an error of the scalar model itself (int→str digit limit, table miss): propagated, as before
  deriving DecidableEq, Repr, Inhabited

/-- a member as a table that may raise; a member that raises keeps its state -/
abbrev MemberSetX (M : Type) := Native → Except MErr (M × Bool)

/-- one `for … : self[name].set(part)` loop: the members as the loop leaves them, and what ended it early -/
def loopX : List (MemberSetX M) → List Native → List M → List M × Option MErr
  | f :: fs, p :: ps, o :: olds =>
    match f p with
    | .error e => (o :: olds, some e)
    | .ok (m, _) => let r := loopX fs ps olds; (m :: r.1, r.2)
  | _, _, olds => (olds, none)

/-- `DateYYYYMMDD.explode` after `Date.adapt`: `parts = some [y, m, d]` (adapted) or `none` (AdaptationError) -/
def explodeX (fs : List (MemberSetX M)) (parts : Option (List Native)) (olds : List M) : List M × Option MErr :=
  match parts with
  | some ps =>
    let r := loopX fs ps olds
    match r.2 with
    | some .typeError => loopX fs (olds.map fun _ => Native.none) r.1     -- the `except` branch, on the members as they are NOW
    | _ => r
  | none => loopX fs (olds.map fun _ => Native.none) olds

/-- `Compound.set` around it: True when `explode` completed, False when anything was swallowed -/
def compoundSetX (fs : List (MemberSetX M)) (parts : Option (List Native)) (olds : List M) : Except Raise (List M × Bool) :=
  let r := explodeX fs parts olds
  match r.2 with
  | none => .ok (r.1, true)
  | some (.model e) => .error e
  | some _ => .ok (r.1, false)

/-- counter-model: a `Compound.set` that does NOT swallow (the exception of `explode` leaves `set()`) -/
def compoundSetNoSwallow (fs : List (MemberSetX M)) (parts : Option (List Native)) (olds : List M) : Except MErr (List M × Bool) :=
  let r := explodeX fs parts olds
  match r.2 with
  | none => .ok (r.1, true)
  | some e => .error e

/-- the members `0 … k-1` hold what their own `set(part)` leaves, the members from `k` on are untouched -/
def SetUpTo (fs : List (MemberSetX M)) (ps : List Native) (olds ms : List M) (k : Nat) : Prop :=
  ms.length = olds.length ∧
  (∀ i, i < k → ∃ f p m b, fs[i]? = some f ∧ ps[i]? = some p ∧ f p = .ok (m, b) ∧ ms[i]? = some m) ∧
  (∀ i, k ≤ i → ms[i]? = olds[i]?)

/-! ### the date model with raising members -/

/-- when the member's `valid_value` raises: on the ADAPTED value of the child type (`None` passes every child
    `adapt`), before anything is assigned -/
structure RaiseRule where
  onNone : Option MErr := none
  onInts : List Int := []
  err : MErr := .typeError
  deriving Repr, Inhabited

def RaiseRule.fires (r : RaiseRule) : Native → Option MErr
  | .none => r.onNone
  | .int n => if r.onInts.contains n then some r.err else none
  | _ => none

/-- `member.set(x)` of a member of kind `k` whose `valid_value` raises as `r` says (only a Constrained / Enum
    has a `valid_value`): `Constrained.adapt` = child `adapt`, THEN `valid_value(self, adapted)` -/
def memberSetX (E : Env) (k : Kind) (r : RaiseRule) (x : Native) : Except MErr (SState × Bool) :=
  let plain : Except MErr (SState × Bool) := match setScalar E k x with
    | .ok res => .ok (res.st, res.flag)
    | .error e => .error (.model e)
  match k with
  | .constrained child _ =>
    match adapt E child x with
    | .ok (some v) => (match r.fires v with | some e => .error e | none => plain)
    | _ => plain
  | _ => plain

structure DateCfgX extends DateCfg where
  ry : RaiseRule := {}
  rm : RaiseRule := {}
  rd : RaiseRule := {}

def DateCfgX.tables (E : Env) (c : DateCfgX) : List (MemberSetX SState) :=
  [memberSetX E c.ky c.ry, memberSetX E c.km c.rm, memberSetX E c.kd c.rd]

def merr : MErr → Flatland.C04.CRaise
  | .model e => .scalar e
  | .typeError => .typeError
  | .other => .keyError

def ofList3 (s : DateState) : List SState → DateState
  | [y, m, d] => ⟨y, m, d⟩
  | _ => s

/-- one operation of a DateYYYYMMDD whose members may raise.  Whole-element `set(x)`: `Date.adapt`, the loop,
    the fallback, `Compound.set`'s `except Exception`; a member-level `set` or `set_flat` that raises DOES raise
    (nothing swallows it there). -/
def _root_.Flatland.C18.DateState.stepX (E : Env) (c : DateCfgX) (s : DateState) : DateOp → Except Flatland.C04.CRaise (DateState × Option Bool)
  | .set x =>
    match adapt E (.date true) x with
    | .error r => .error (.scalar r)
    | .ok (some .none) => .ok (s, some false)       -- `getattr(None, 'year')`: AttributeError, swallowed, nothing touched
    | .ok ov =>
      let parts : Option (List Native) := match ov with
        | some (.date y m d) => some [.int y, .int m, .int d]
        | some (.datetime y m d _ _ _ _) => some [.int y, .int m, .int d]
        | _ => none
      match compoundSetX (c.tables E) parts [s.y, s.m, s.d] with
      | .error e => .error (.scalar e)
      | .ok (ms, flag) => .ok (ofList3 s ms, some flag)
  | .member i x =>
    let k := if i = 0 then c.ky else if i = 1 then c.km else c.kd
    let r := if i = 0 then c.ry else if i = 1 then c.rm else c.rd
    match memberSetX E k r x with
    | .error e => .error (merr e)
    | .ok (st, flag) => .ok ((if i = 0 then { s with y := st } else if i = 1 then { s with m := st } else { s with d := st }),
                             some flag)
  | .setFlat pairs =>
    let one (k : Kind) (r : RaiseRule) (name : Str) (st : SState) : Except MErr SState :=
      match pairs.find? (fun p => p.1 == name) with
      | some p => (match memberSetX E k r (.str p.2) with | .ok q => .ok q.1 | .error e => .error e)
      | none => .ok st
    match one c.ky c.ry c.ny s.y, one c.km c.rm c.nm s.m, one c.kd c.rd c.nd s.d with
    | .ok y, .ok m, .ok d => .ok (⟨y, m, d⟩, none)
    | .error e, _, _ => .error (merr e)
    | _, .error e, _ => .error (merr e)
    | _, _, .error e => .error (merr e)

end Flatland.C18.Explode
