/-
Model A of the flat-key core of flatland (shared by C01, C02, C07):

* `Element.flatten` / `flattened_name` (schema/base.py) — breadth-first, honouring
  `flattenable` / `children_flattenable` at every level;
* `_set_flat` of Scalar (first exact match), Mapping/Dict/SparseDict/Compound (prefix filter with
  `startswith`), List (index recogniser, grouping, both rebuild modes, ceiling), Array/MultiValue
  (both branches), JoinedString (= Scalar) — schema/containers.py, scalars.py, compound.py.

Scalars are abstract here: a leaf of kind `k` turns the text `v` it is set with into the text
`env.norm k v` (that is `K().set(v); .u`, the subject of C04).  A compound's own text is
`env.compose k [(field, u)…]` (the subject of C18).

Internal keys are `Option Str`: `none` is the `None` child key a List hands to the member
addressed by a bare index (`key[len(m.group(0)):] or None`).
-/
namespace Flatland.Flat

abbrev Str := List Char
abbrev Key := Option Str
abbrev Pairs := List (Key × Str)

structure Env where
  norm : Nat → Str → Str
  compose : Nat → List (Str × Str) → Str
  /-- texts of the members a JoinedString of kind `k` holds after `set(v)` -/
  joinedMembers : Nat → Str → List Str
  /-- zero code points of the Unicode Nd decades (`\d`, `int()`); generated from the interpreter -/
  ndZeros : List Nat
  /-- CPython's int-string digit limit, `sys.get_int_max_str_digits()` -/
  maxDigits : Nat

inductive DictMode | dense | sparse | sparseReq
  deriving DecidableEq, Repr, Inhabited

inductive Schema
  | leaf (name : Option Str) (opt : Bool) (k : Nat)
  | dict (name : Option Str) (opt : Bool) (mode : DictMode) (fields : List Schema)
  | compound (name : Option Str) (opt : Bool) (k : Nat) (fields : List Schema)
  | list (name : Option Str) (opt : Bool) (prune : Bool) (maxFlat : Nat) (member : Schema)
  | array (name : Option Str) (opt : Bool) (prune : Bool) (member : Schema)
  /-- JoinedString: flattens as one value, members never flattened -/
  | joined (name : Option Str) (opt : Bool) (k : Nat) (member : Schema)
  deriving Inhabited

inductive Elem
  | leaf (u : Str)
  | dict (members : List (Str × Elem))    -- present members, insertion order (Dict, SparseDict, Compound)
  | list (members : List Elem)            -- slot i holds members[i]
  | array (members : List Elem)           -- Array / MultiValue members (leaves)
  | joined (u : Str) (members : List Elem) -- JoinedString: own text + member leaves
  deriving Inhabited

def Schema.name : Schema → Option Str
  | .leaf n .. => n | .dict n .. => n | .compound n .. => n | .list n .. => n | .array n .. => n
  | .joined n .. => n

def Schema.opt : Schema → Bool
  | .leaf _ o _ => o | .dict _ o _ _ => o | .compound _ o _ _ => o | .list _ o _ _ _ => o
  | .array _ o _ _ => o | .joined _ o _ _ => o

/-- Python truthiness of a name (`if self.name:` / `if child_name:`) -/
def truthy : Option Str → Bool
  | some (_ :: _) => true
  | _ => false

/-! ### blank elements (`cls()`) -/

mutual
def blank : Schema → Elem
  | .leaf .. => .leaf []
  | .dict _ _ .dense fields => .dict (blankFields fields)
  | .dict _ _ .sparse _ => .dict []
  | .dict _ _ .sparseReq fields => .dict (blankRequired fields)
  | .compound _ _ _ fields => .dict (blankFields fields)
  | .list .. => .list []
  | .array .. => .array []
  | .joined .. => .joined [] []
def blankFields : List Schema → List (Str × Elem)
  | [] => []
  | f :: fs => (f.name.getD [], blank f) :: blankFields fs
def blankRequired : List Schema → List (Str × Elem)
  | [] => []
  | f :: fs => if f.opt then blankRequired fs else (f.name.getD [], blank f) :: blankRequired fs
end

/-! ### string helpers -/

def isPrefix (p s : Str) : Bool := p.isPrefixOf s

/-- value of a Unicode decimal digit, if `c` is one (category Nd) -/
def ndVal (env : Env) (c : Char) : Option Nat :=
  match env.ndZeros.find? (fun z => z ≤ c.toNat && c.toNat < z + 10) with
  | some z => some (c.toNat - z)
  | none => none

def isNd (env : Env) (c : Char) : Bool := (ndVal env c).isSome

/-- `int(digits)` for a run of Nd digits -/
def digitsVal (env : Env) (ds : Str) : Nat :=
  ds.foldl (fun acc c => acc * 10 + (ndVal env c).getD 0) 0

def digitChar (d : Nat) : Char := Char.ofNat (48 + d)

/-- `str(i)` for a non-negative index: the ASCII decimal digits of `i` -/
def natStr (n : Nat) : Str :=
  if n < 10 then [digitChar n] else natStr (n / 10) ++ [digitChar (n % 10)]
termination_by n
decreasing_by omega

/-- the tail of the index regexes: `(\d+)(?:sep|\\Z)` matched at the start of `s`.
    Returns the digit run and what is left of the key after `m.group(0)`. -/
def matchIndex (env : Env) (sep s : Str) : Option (Str × Str) :=
  let ds := s.takeWhile (isNd env)
  let rest := s.dropWhile (isNd env)
  if ds.isEmpty then none
  else if isPrefix sep rest then some (ds, rest.drop sep.length)
  else if rest.isEmpty then some (ds, rest)
  else none

/-- `List._set_flat`'s per-pair recogniser: the slot index a pair addresses and the child key
    handed to that slot's member. -/
def listAddr (env : Env) (sep : Str) (name : Option Str) (key : Key) : Option (Nat × Key) :=
  match key with
  | none => none
  | some k =>
    let body : Option Str :=
      if truthy name then
        let p := name.getD [] ++ sep
        if isPrefix p k then some (k.drop p.length) else none
      else some k
    match body with
    | none => none
    | some b =>
      match matchIndex env sep b with
      | none => none
      | some (ds, rest) =>
        if ds.length > env.maxDigits then none      -- int() raises ValueError: ignored
        else some (digitsVal env ds, if rest.isEmpty then none else some rest)

/-- insert into a strictly increasing list -/
def insertSorted (n : Nat) : List Nat → List Nat
  | [] => [n]
  | m :: ms => if n < m then n :: m :: ms else if n = m then m :: ms else m :: insertSorted n ms

def sortedDistinct (l : List Nat) : List Nat := l.foldr insertSorted []

/-- the pairs of `ps` addressed to slot `i`, in order, with their child keys -/
def groupOf (env : Env) (sep : Str) (name : Option Str) (prune : Bool) (i : Nat) (ps : Pairs) : Pairs :=
  ps.filterMap (fun p =>
    if prune && p.2.isEmpty then none
    else match listAddr env sep name p.1 with
      | some (j, ck) => if j = i then some (ck, p.2) else none
      | none => none)

/-- all slot indexes addressed by `ps` -/
def indexesOf (env : Env) (sep : Str) (name : Option Str) (prune : Bool) (ps : Pairs) : List Nat :=
  ps.filterMap (fun p =>
    if prune && p.2.isEmpty then none
    else (listAddr env sep name p.1).map (·.1))

/-- `Array._set_flat`, named branch: regex `^(name(?:sep|\\Z))`, returns the remainder -/
def arrayRemainder (sep name k : Str) : Option Key :=
  if isPrefix name k then
    let rest := k.drop name.length
    if isPrefix sep rest then
      let r := rest.drop sep.length
      some (if r.isEmpty then none else some r)
    else if rest.isEmpty then some none
    else none
  else none

def membersOf : Elem → List (Str × Elem)
  | .dict m => m
  | _ => []

def lookup (key : Str) : List (Str × Elem) → Option Elem
  | [] => none
  | (k, e) :: rest => if k = key then some e else lookup key rest

def replace (key : Str) (e : Elem) : List (Str × Elem) → List (Str × Elem)
  | [] => []
  | (k, x) :: rest => if k = key then (k, e) :: rest else (k, x) :: replace key e rest

/-- Mapping._set_flat's first step: drop `None` keys, then keep (and strip) the keys under
    `name + sep`; an unnamed mapping accepts all. -/
def possibles (sep : Str) (name : Option Str) (ps : Pairs) : List (Str × Str) :=
  let ps' : List (Str × Str) := ps.filterMap (fun p => p.1.map (fun k => (k, p.2)))
  match name with
  | none => ps'
  | some n =>
    let pre := n ++ sep
    ps'.filterMap (fun p => if isPrefix pre p.1 then some (p.1.drop pre.length, p.2) else none)

def wrap (ps : List (Str × Str)) : Pairs := ps.map (fun p => (some p.1, p.2))

/-! ### set_flat -/

/-- one slot per index; a slot whose group is empty stays blank (`if flat:`) -/
def buildSlots (blankMember : Elem) (setMember : Pairs → Elem) (idxs : List Nat) (g : Nat → Pairs) :
    List Elem :=
  idxs.map (fun i => if (g i).isEmpty then blankMember else setMember (g i))

/-- `Array._set_flat`, branch `if not self.name` -/
def arrayAnon (setMember : Pairs → Elem) (prune : Bool) (childName : Option Str) : Pairs → List Elem
  | [] => []
  | (key, v) :: rest =>
    let tail := arrayAnon setMember prune childName rest
    if prune && v.isEmpty && key == some (if truthy childName then childName.getD [] else []) then tail
    else
      let key' : Key := if key == some [] then none else key
      if truthy childName && key' != childName then tail
      else if !truthy childName && key'.isSome then tail
      else setMember [(key', v)] :: tail

/-- `Array._set_flat`, named branch -/
def arrayNamed (setMember : Pairs → Elem) (sep : Str) (prune : Bool) (name : Str)
    (childName : Option Str) : Pairs → List Elem
  | [] => []
  | (key, v) :: rest =>
    let tail := arrayNamed setMember sep prune name childName rest
    match key with
    | none => tail
    | some k =>
      match arrayRemainder sep name k with
      | none => tail
      | some remainder =>
        if truthy childName && remainder.isNone then tail
        else if remainder != childName then tail
        else if prune && v.isEmpty then tail
        else setMember [(remainder, v)] :: tail


mutual
def setFlat (env : Env) (sep : Str) : Schema → Elem → Pairs → Elem
  | .leaf name _ k, e, ps =>
    match ps.find? (fun p => p.1 == name) with
    | some p => .leaf (env.norm k p.2)
    | none => e
  | .dict name _ _ fields, e, ps =>
    let poss := possibles sep name ps
    if poss.isEmpty then e else .dict (setFields env sep fields (membersOf e) poss)
  | .compound name _ _ fields, e, ps =>
    let poss := possibles sep name ps
    if poss.isEmpty then e else .dict (setFields env sep fields (membersOf e) poss)
  | .list name _ prune maxFlat member, _, ps =>
    if ps.isEmpty then .list []
    else
      let idxs := indexesOf env sep name prune ps
      if idxs.isEmpty then .list []
      else if prune then
        .list (buildSlots (blank member) (fun g => setFlat env sep member (blank member) g)
                 ((sortedDistinct idxs).take maxFlat) (fun i => groupOf env sep name prune i ps))
      else
        let top := min (idxs.foldl max 0 + 1) maxFlat
        .list (buildSlots (blank member) (fun g => setFlat env sep member (blank member) g)
                 (List.range top) (fun i => groupOf env sep name prune i ps))
  | .array name _ prune member, _, ps =>
    let childName := member.name
    if !truthy name then
      .array (arrayAnon (fun g => setFlat env sep member (blank member) g) prune childName ps)
    else
      .array (arrayNamed (fun g => setFlat env sep member (blank member) g) sep prune (name.getD [])
                childName ps)
  | .joined name _ k _, e, ps =>
    match ps.find? (fun p => p.1 == name) with
    | some p => .joined (env.norm k p.2) ((env.joinedMembers k p.2).map Elem.leaf)
    | none => e

/-- the `for schema in self.field_schema` loop of `Mapping._set_flat` -/
def setFields (env : Env) (sep : Str) :
    List Schema → List (Str × Elem) → List (Str × Str) → List (Str × Elem)
  | [], members, _ => members
  | f :: fs, members, poss =>
    let field := f.name.getD []
    let accum := poss.filter (fun p => isPrefix field p.1)
    let members' :=
      if accum.isEmpty then members
      else match lookup field members with
        | some child => replace field (setFlat env sep f child (wrap accum)) members
        | none => members ++ [(field, setFlat env sep f (blank f) (wrap accum))]
    setFields env sep fs members' poss

end

/-- `cls.from_flat(pairs)` = `cls()` then `set_flat(pairs)`; external keys are text -/
def fromFlat (env : Env) (sep : Str) (s : Schema) (ps : List (Str × Str)) : Elem :=
  setFlat env sep s (blank s) (wrap ps)

/-! ### flatten -/

/-- an element resolved against its schema: what `flatten` reads from each node -/
inductive FNode
  | mk (name : Option Str) (fl cfl : Bool) (u : Str) (slots : Bool) (kids : List FNode)
  deriving Inhabited

def FNode.name : FNode → Option Str | .mk n .. => n
def FNode.fl : FNode → Bool | .mk _ f .. => f
def FNode.cfl : FNode → Bool | .mk _ _ c .. => c
def FNode.u : FNode → Str | .mk _ _ _ u .. => u
def FNode.slots : FNode → Bool | .mk _ _ _ _ s _ => s
def FNode.kids : FNode → List FNode | .mk _ _ _ _ _ k => k

def findField (key : Str) : List Schema → Option Schema
  | [] => none
  | f :: fs => if f.name = some key then some f else findField key fs

mutual
/-- the text an element shows (`.u`) — only leaves and compounds are ever asked -/
def uOf (env : Env) : Schema → Elem → Str
  | .leaf .., .leaf u => u
  | .joined .., .joined u _ => u
  | .compound _ _ k fields, .dict members => env.compose k (usOf env fields members)
  | _, _ => []
def usOf (env : Env) : List Schema → List (Str × Elem) → List (Str × Str)
  | [], _ => []
  | f :: fs, members =>
    match lookup (f.name.getD []) members with
    | some e => (f.name.getD [], uOf env f e) :: usOf env fs members
    | none => usOf env fs members
end

mutual
def resolve (env : Env) : Schema → Elem → FNode
  | .leaf name _ _, e => .mk name true true (match e with | .leaf u => u | _ => []) false []
  | .dict name _ _ fields, e => .mk name false true [] false (resolveMembers env fields (membersOf e) (membersOf e))
  | .compound name o k fields, e =>
    .mk name true true (uOf env (.compound name o k fields) e) false
      (resolveMembers env fields (membersOf e) (membersOf e))
  | .list name _ _ _ member, e =>
    .mk name false true [] true (resolveList env member (match e with | .list m => m | _ => []))
  | .array name _ _ member, e =>
    .mk name false true [] false (resolveList env member (match e with | .array m => m | _ => []))
  | .joined name _ _ member, e =>
    .mk name true false (match e with | .joined u _ => u | _ => []) false
      (resolveList env member (match e with | .joined _ m => m | _ => []))
/-- children of a mapping in `dict` insertion order; the schema of a member is found by key.
    The traversal is driven by the field list once per member (structural on `fields`). -/
def resolveMembers (env : Env) :
    List Schema → List (Str × Elem) → List (Str × Elem) → List FNode
  | _, _, [] => []
  | fields, all, (key, e) :: rest =>
    (match resolveOne env fields key e with
      | some n => [n]
      | none => []) ++ resolveMembers env fields all rest
def resolveOne (env : Env) : List Schema → Str → Elem → Option FNode
  | [], _, _ => none
  | f :: fs, key, e => if f.name = some key then some (resolve env f e) else resolveOne env fs key e
def resolveList (env : Env) (member : Schema) : List Elem → List FNode
  | [] => []
  | e :: es => resolve env member e :: resolveList env member es
end

mutual
def FNode.size : FNode → Nat | .mk _ _ _ _ _ k => 1 + fsizeL k
def fsizeL : List FNode → Nat | [] => 0 | t :: ts => t.size + fsizeL ts
end

/-- queue entries: the names on the path from the root down to (excluding) the node -/
abbrev QItem := List Str × FNode

def qsize : List QItem → Nat
  | [] => 0
  | (_, n) :: q => n.size + qsize q

theorem qsize_append (a b : List QItem) : qsize (a ++ b) = qsize a + qsize b := by
  induction a with
  | nil => simp [qsize]
  | cons x xs ih => obtain ⟨p, n⟩ := x; simp [qsize, ih]; omega

/-- path of names of a node: `parent.name for parent in self.path if parent.name is not None` -/
def namePath (p : List Str) (n : FNode) : List Str := p ++ n.name.toList

def joinSep (sep : Str) : List Str → Str
  | [] => []
  | [x] => x
  | x :: y :: rest => x ++ sep ++ joinSep sep (y :: rest)

/-- children of a node with their paths; list members get their slot's index interposed -/
def kidsFrom (p : List Str) (slots : Bool) (i : Nat) : List FNode → List QItem
  | [] => []
  | k :: ks => ((if slots then p ++ [natStr i] else p), k) :: kidsFrom p slots (i + 1) ks

def childItems (p : List Str) (n : FNode) : List QItem :=
  kidsFrom (namePath p n) n.slots 0 n.kids

theorem qsize_kidsFrom (p : List Str) (s : Bool) (i : Nat) (ks : List FNode) :
    qsize (kidsFrom p s i ks) = fsizeL ks := by
  induction ks generalizing i with
  | nil => simp [kidsFrom, qsize, fsizeL]
  | cons k ks ih => simp [kidsFrom, qsize, fsizeL, ih]

/-- the queue loop of `Element.flatten` -/
def bfsFlat (sep : Str) : List QItem → List (Str × Str)
  | [] => []
  | (p, n) :: q =>
    (if n.fl then [(joinSep sep (namePath p n), n.u)] else [])
      ++ bfsFlat sep (q ++ (if n.cfl then childItems p n else []))
termination_by q => qsize q
decreasing_by
  obtain ⟨name, fl, cfl, u, slots, kids⟩ := n
  simp only [qsize, FNode.size, qsize_append]
  split
  · simp [childItems, qsize_kidsFrom, FNode.kids]; omega
  · simp [qsize]; omega

/-- `element.flatten(sep)` for a root element (path above it is empty) -/
def flattenNode (sep : Str) (n : FNode) : List (Str × Str) :=
  (if n.fl then [(joinSep sep (namePath [] n), n.u)] else [])
    ++ (if n.cfl then bfsFlat sep (childItems [] n) else [])

def flatten (env : Env) (sep : Str) (s : Schema) (e : Elem) : List (Str × Str) :=
  flattenNode sep (resolve env s e)

end Flatland.Flat
