/-
Model A for the container half of C04: `Sequence.set`, `Dict.set` (src/flatland/schema/containers.py),
`Compound.set` + `DateYYYYMMDD.explode` and `JoinedString.set` (src/flatland/schema/compound.py), as
written, with the `element_set` signal log.  Scalars are `Flatland.Scalar.setScalar`.

A signal is `(path of the sender below the element whose set() is observed, adapted)`.
-/
import Flatland.Scalar
namespace Flatland.C04
open Flatland.Scalar

/-- Python values handed to `set()`: natives, lists/tuples, dicts (hashable native keys) -/
inductive Input
  | leaf (n : Native)
  | list (xs : List Input)
  | dict (ps : List (Native × Input))
  deriving Inhabited

inductive Policy | subset | duck
  deriving DecidableEq, Repr, Inhabited

inductive Schema
  | scalar (k : Kind)
  | seq (member : Schema)                                   -- List / Array
  | dict (policy : Policy) (names : List Str) (fields : List Schema)
  | date (ky km kd : Kind)                                  -- DateYYYYMMDD and the kinds of its three Integer members
  | joined (sep : Str) (sp : Splitter) (prune : Bool) (member : Kind)   -- JoinedString
  deriving Inhabited

inductive Elem
  | scalar (st : SState)
  | seq (members : List Elem)
  | dict (members : List Elem)
  | date (y m d : SState)
  | joined (members : List SState)
  deriving Inhabited

inductive CRaise
  | scalar (r : Raise)
  | keyError          -- Dict policy
  | typeError         -- (unused since fix 09fc190: JoinedString.set no longer raises on a non-iterable)
  | unmodelled        -- input shape outside the model (never produced by the generators)
  deriving DecidableEq, Repr, Inhabited

/-- one `element_set.send(sender, adapted=...)`: where the sender sits below the observed element
    (`none`: the sender was set but never became part of the tree — a JoinedString piece that was pruned),
    the `adapted` flag, and the state of the sender that a listener sees at that moment -/
abbrev Sig := Option (List Nat) × Bool × Elem

structure SetOut where
  elem : Elem
  flag : Bool
  sigs : List Sig
  deriving Inhabited

def blankState : SState := ⟨.none, .none, []⟩

mutual
/-- a freshly constructed element -/
def blank : Schema → Elem
  | .scalar _ => .scalar blankState
  | .seq _ => .seq []
  | .dict _ _ fields => .dict (blankL fields)            -- `_reset()`
  | .date .. => .date blankState blankState blankState
  | .joined .. => .joined []
def blankL : List Schema → List Elem
  | [] => []
  | f :: fs => blank f :: blankL fs
end

def prefixSigs (i : Nat) (sigs : List Sig) : List Sig := sigs.map fun s => (s.1.map (i :: ·), s.2)

/-- `Scalar.set(obj)` on an element in state `old`, assignment by assignment, with the state a
    listener sees when `element_set.send` runs:
    `self.raw = obj`; then `self.value = adapt(obj)`, `self.u = ...`, send — or, on
    AdaptationError, `self.value = None`, `self.u = <text of obj>`, send. -/
def scalarSetTrace (E : Env) (k : Kind) (old : SState) (obj : Native) :
    Except Raise (SState × Bool × List (Bool × SState)) :=
  let s1 := { old with raw := obj }                            -- `self.raw = obj`
  match adapt E k obj with
  | .error e => .error e
  | .ok (some v) =>
    let s2 := { s1 with value := v }                           -- `obj = self.value = self.adapt(obj)`
    match uOfValue E k v with
    | .error e => .error e
    | .ok u =>
      let s3 := { s2 with u := u }                             -- `self.u = self.serialize(obj)` / `''`
      .ok (s3, true, [(true, s3)])                             -- `element_set.send(self, adapted=True)`
  | .ok none =>
    let s2 := { s1 with value := Native.none }                 -- `self.value = None`
    match uOfFailed E.T obj with
    | .error e => .error e
    | .ok u =>
      let s3 := { s2 with u := u }                             -- `self.u = obj` / `str(obj)` / `''`
      .ok (s3, false, [(false, s3)])                           -- `element_set.send(self, adapted=False)`

/-- the signals of a scalar child, as entries of its parent's log -/
def scalarSigs (l : List (Bool × SState)) : List Sig := l.map fun p => (some [], p.1, Elem.scalar p.2)

/-- the loop of `JoinedString.set` over the pieces (each already `set()` in a fresh member):
    `if prune and child.u == "": continue` drops the member — its signal has been emitted, from an
    element that never joins the tree, and its flag does not count; otherwise the member is appended
    at the next position.  Returns the kept members with their flags, and the signal log. -/
def keepPieces (prune : Bool) : List (SState × Bool × List (Bool × SState)) → Nat → List (SState × Bool) × List Sig
  | [], _ => ([], [])
  | r :: rest, i =>
    if prune && r.1.u.isEmpty then
      let out := keepPieces prune rest i
      (out.1, (r.2.2.map fun p => (none, p.1, Elem.scalar p.2)) ++ out.2)
    else
      let out := keepPieces prune rest (i + 1)
      ((r.1, r.2.1) :: out.1, (r.2.2.map fun p => (some [i], p.1, Elem.scalar p.2)) ++ out.2)

/-- `for v in iterable`: none = TypeError (not iterable) -/
def iterItems : Input → Option (List Input)
  | .list xs => some xs
  | .dict ps => some (ps.map fun p => .leaf p.1)              -- iterating a dict yields its keys
  | .leaf (.str s) => some (s.map fun c => .leaf (.str [c]))  -- a str iterates over its characters
  | .leaf _ => none

/-- `key, value = item` -/
def unpack2 : Input → Option (Native × Input)
  | .list [.leaf k, v] => some (k, v)
  | .dict [(k1, _), (k2, _)] => some (k1, .leaf k2)
  | .leaf (.str [c1, c2]) => some (.str [c1], .leaf (.str [c2]))
  | _ => none

def unpackAll : List Input → Option (List (Native × Input))
  | [] => some []
  | x :: xs => match unpack2 x, unpackAll xs with
               | some p, some ps => some (p :: ps)
               | _, _ => none

/-- `list(to_pairs(value))`: none = TypeError / ValueError (caught by `Dict.set`) -/
def toPairs : Input → Option (List (Native × Input))
  | .dict ps => some ps
  | .list xs => unpackAll xs
  | .leaf (.str []) => some []
  | .leaf _ => none

/-- outcome of the sets performed on one child: final state, and per call (position of the call in
    the caller's loop, returned flag, signals) -/
structure ChildRun where
  elem : Elem
  calls : List (Nat × Bool × List Sig)
  err : Option (Nat × CRaise)

/-- successive `child.set(x)` calls on one child -/
def runSets (step : Elem → Input → Except CRaise SetOut) : Elem → List (Nat × Input) → ChildRun
  | e, [] => ⟨e, [], none⟩
  | e, (j, x) :: rest =>
    match step e x with
    | .error r => ⟨e, [], some (j, r)⟩
    | .ok out =>
      let r := runSets step out.elem rest
      ⟨r.elem, (j, out.flag, out.sigs) :: r.calls, r.err⟩

/-- the calls of all children, put back into loop order -/
def mergeCalls (runs : List (Nat × ChildRun)) (n : Nat) : List (Bool × List Sig) :=
  (List.range n).filterMap fun j =>
    runs.findSome? fun (i, r) =>
      (r.calls.find? (·.1 == j)).map fun c => (c.2.1, prefixSigs i c.2.2)

def firstError (runs : List (Nat × ChildRun)) (n : Nat) : Option CRaise :=
  (List.range n).findSome? fun j =>
    runs.findSome? fun (_, r) => match r.err with
      | some (j', e) => if j' = j then some e else none
      | none => none

def indexed {α} (l : List α) : List (Nat × α) := (List.range l.length).zip l

/-- pad/cut a member list to the schema (a Dict always holds all its fields) -/
def nthElem (l : List Elem) (i : Nat) (d : Elem) : Elem := (l[i]?).getD d

mutual
/-- `element.set(value)` -/
def setElem (E : Env) : Schema → Elem → Input → Except CRaise SetOut
  | .scalar k, old, inp =>
    match inp with
    | .leaf x =>
      let st := match old with | .scalar st => st | _ => blankState
      match scalarSetTrace E k st x with
      | .error r => .error (.scalar r)
      | .ok (st', flag, sigs) => .ok ⟨.scalar st', flag, scalarSigs sigs⟩
    | _ => .error .unmodelled
  | .seq m, _, inp =>
    -- `del self[:]`, then one fresh member per item
    let cleared := Elem.seq []
    match iterItems inp with
    | none => .ok ⟨cleared, false, [(some [], false, cleared)]⟩      -- `except TypeError: element_set.send(self, adapted=False)`
    | some items =>
      let outs := (indexed items).map fun (i, x) => (i, setElem E m (blank m) x)
      match outs.findSome? (fun (_, o) => match o with | .error e => some e | .ok _ => none) with
      | some e => .error e
      | none =>
        let oks := outs.filterMap fun (i, o) => match o with | .ok out => some (i, out) | .error _ => none
        let flag := oks.all fun (_, out) => out.flag           -- `converted &= el.set(v)`
        let attached := Elem.seq (oks.map (·.2.elem))          -- `self.extend(values)`, then the signal
        .ok ⟨attached, flag, (oks.flatMap fun (i, out) => prefixSigs i out.sigs) ++ [(some [], flag, attached)]⟩
  | .dict pol names fields, old, inp =>
    match toPairs inp with
    | none => .ok ⟨old, false, [(some [], false, old)]⟩              -- `except (TypeError, ValueError)`, before `_reset()`: members as they were
    | some pairs =>
      -- subset policy: keys outside the schema raise KeyError (after `_reset()`, no signal)
      if pol == .subset && !(pairs.all fun p => match p.1 with | .str s => names.contains s | _ => false) then
        .error .keyError
      else
        let runs := setFields E names fields pairs 0
        match firstError runs pairs.length with
        | some e => .error e
        | none =>
          let calls := mergeCalls runs pairs.length
          let flag := calls.all (·.1)
          let filled := Elem.dict (runs.map (·.2.elem))         -- after the member loop, then the signal
          .ok ⟨filled, flag, (calls.flatMap (·.2)) ++ [(some [], flag, filled)]⟩
  | .date yk mk dk, old, inp =>
    match inp with
    | .leaf x =>
      -- explode: `value = Date.adapt(self, value)`
      match adapt E (.date true) x with
      | .error r => .error (.scalar r)
      | .ok (some .none) =>
        -- `getattr(None, 'year')` raises AttributeError: caught by Compound.set, members untouched
        .ok ⟨old, false, [(some [], false, old)]⟩
      | .ok ov =>
        let parts : Native × Native × Native := match ov with
          | some (.date y m d) => (.int y, .int m, .int d)
          | some (.datetime y m d _ _ _ _) => (.int y, .int m, .int d)
          | _ => (.none, .none, .none)                          -- AdaptationError: set(None) each
        -- the three members exist already; each is `set()` in turn, then the compound signals
        let olds : SState × SState × SState := match old with
          | .date y m d => (y, m, d)
          | _ => (blankState, blankState, blankState)
        match scalarSetTrace E yk olds.1 parts.1, scalarSetTrace E mk olds.2.1 parts.2.1,
              scalarSetTrace E dk olds.2.2 parts.2.2 with
        | .ok a, .ok b, .ok c =>
          let after := Elem.date a.1 b.1 c.1
          .ok ⟨after, true,
               prefixSigs 0 (scalarSigs a.2.2) ++ prefixSigs 1 (scalarSigs b.2.2) ++
               prefixSigs 2 (scalarSigs c.2.2) ++ [(some [], true, after)]⟩
        | .error r, _, _ => .error (.scalar r)
        | _, .error r, _ => .error (.scalar r)
        | _, _, .error r => .error (.scalar r)
    | _ => .error .unmodelled
  | .joined sep sp prune k, _, inp =>
    -- `none` = not iterable (`list(value)` raised TypeError)
    let items : Except CRaise (Option (List Native)) := match inp with
      | .list xs => match (xs.mapM fun (x : Input) => match x with | .leaf n => Except.ok n | _ => Except.error CRaise.unmodelled) with
                    | .ok ns => .ok (some ns)
                    | .error e => .error e
      | .leaf .none => .ok (some [])                                        -- `elif value is None: values = []`
      | .leaf (.str s) => .ok (some ((splitWith E.T sp sep s).map Native.str))   -- `separator_regex.split(value)` / `value.split(self.separator)`
      | .dict ps => .ok (some (ps.map (·.1)))                               -- `list(value)`
      | .leaf _ => .ok none                                                 -- `except TypeError`
    match items with
    | .error e => .error e
    | .ok none =>
      let cleared := Elem.joined []                                          -- `del self[:]` first,
      .ok ⟨cleared, false, [(some [], false, cleared)]⟩                           -- then `element_set.send(self, adapted=False)`
    | .ok (some vals) =>
      -- `del self[:]`; every piece is set() in a fresh member (fix 2a6b55c: the member adapts the piece
      -- first), then kept or pruned on the member's text
      let outs := vals.map fun v => scalarSetTrace E k blankState v
      match outs.findSome? (fun o => match o with | .error e => some e | .ok _ => none) with
      | some e => .error (.scalar e)
      | none =>
        let oks := outs.filterMap fun o => match o with | .ok r => some r | .error _ => none
        let kept := keepPieces prune oks 0
        let flag := kept.1.all (·.2)                                  -- `all(success)`
        let after := Elem.joined (kept.1.map (·.1))
        .ok ⟨after, flag, kept.2 ++ [(some [], flag, after)]⟩
/-- the `for key, value in pairs` loop of `Dict.set`, one field at a time -/
def setFields (E : Env) : List Str → List Schema → List (Native × Input) → Nat → List (Nat × ChildRun)
  | n :: ns, f :: fs, pairs, i =>
    let mine := (indexed pairs).filterMap fun (j, p) => if p.1 == .str n then some (j, p.2) else none
    (i, runSets (fun e x => setElem E f e x) (blank f) mine) :: setFields E ns fs pairs (i + 1)
  | _, _, _, _ => []
end

end Flatland.C04
