/-
Model A for C18: the derived elements of src/flatland/schema/compound.py (`Compound.u/value`,
`DateYYYYMMDD.compose/explode`, `JoinedString.set/value`), `MultiValue.u/value`
(containers.py) and `Ref` (scalars.py), as written, with the operations that can change their
parts.  Whole-element `set()` is the C04 model (`Flatland.C04.setElem`).
-/
import Flatland.Scalar
import Flatland.C04
namespace Flatland.C18
open Flatland.Scalar

/-! ### DateYYYYMMDD -/

def yearKind : Kind := .integer true 4     -- `Integer.named('year').using(format='%04i')`
def monthKind : Kind := .integer true 2    -- month and day: `'%02i'`

/-- the member schemas of a DateYYYYMMDD: generated (`year`/`month`/`day`, padded formats) or custom
    Integer fields given through `.of(...)` -/
structure DateCfg where
  ky : Kind := yearKind
  km : Kind := monthKind
  kd : Kind := monthKind
  ny : Str := "year".toList
  nm : Str := "month".toList
  nd : Str := "day".toList

def DateCfg.schema (c : DateCfg) : Flatland.C04.Schema := .date c.ky c.km c.kd

/-- member schemas that are Integer fields (any sign rule, any `%0Ni` format) -/
def DateCfg.Integers (c : DateCfg) : Prop :=
  (∃ sg w, c.ky = .integer sg w) ∧ (∃ sg w, c.km = .integer sg w) ∧ (∃ sg w, c.kd = .integer sg w)

structure DateState where
  y : SState
  m : SState
  d : SState
  deriving DecidableEq, Repr, Inhabited

/-- `DateYYYYMMDD.compose()`: `(text, native)` built from the members' current values.
    `.error` = CPython's int→str digit limit inside `self.format % data` (neither AdaptationError
    nor TypeError, so it leaves `compose`). -/
def asInt : Native → Option Int
  | .int i => some i
  | _ => none

def composeDate (E : Env) (vy vm vd : Native) : Except Raise (Str × Native) :=
  match asInt vy, asInt vm, asInt vd with
  | some y, some m, some d =>
    if intFits E.T y && intFits E.T m && intFits E.T d then
      let asStr := fmtInt 4 y ++ ['-'] ++ fmtInt 2 m ++ ['-'] ++ fmtInt 2 d    -- `self.format % data`
      match adapt E (.date true) (.str asStr) with                               -- `Date.adapt(self, as_str)`
      | .ok (some v) => .ok (asStr, v)
      | _ => .ok ([], .none)                                                     -- AdaptationError
    else .error .valueError
  | _, _, _ => .ok ([], .none)               -- `'%04i' % None` raises TypeError: `return '', None`

def DateState.compose (E : Env) (s : DateState) : Except Raise (Str × Native) :=
  composeDate E s.y.value s.m.value s.d.value

def DateState.ofElem : Flatland.C04.Elem → DateState
  | .date y m d => ⟨y, m, d⟩
  | _ => ⟨Flatland.C04.blankState, Flatland.C04.blankState, Flatland.C04.blankState⟩

def DateState.toElem (s : DateState) : Flatland.C04.Elem := .date s.y s.m s.d

inductive DateOp
  | set (x : Native)                       -- `el.set(x)`
  | member (i : Nat) (x : Native)          -- `el[<member i>].set(x)`
  | setFlat (pairs : List (Str × Str))     -- `el.set_flat(pairs)`; keys already relative to the element
  deriving Repr, Inhabited

/-- `Scalar._set_flat` of a member reached through `Mapping._set_flat`: the first pair whose key is
    exactly the member's name sets it (the `startswith` pre-filter does not change that) -/
def memberFlat (E : Env) (k : Kind) (name : Str) (st : SState) (pairs : List (Str × Str)) : Except Raise SState :=
  match pairs.find? (fun p => p.1 == name) with
  | some p => match setScalar E k (.str p.2) with
              | .ok r => .ok r.st
              | .error e => .error e
  | none => .ok st

/-- one operation; returns the new state and the value returned by the call (`none` for calls that
    return nothing) -/
def DateState.step (E : Env) (c : DateCfg) (s : DateState) : DateOp → Except Flatland.C04.CRaise (DateState × Option Bool)
  | .set x =>
    match Flatland.C04.setElem E c.schema s.toElem (.leaf x) with
    | .ok out => .ok (DateState.ofElem out.elem, some out.flag)
    | .error e => .error e
  | .member i x =>
    let k := if i = 0 then c.ky else if i = 1 then c.km else c.kd
    match setScalar E k x with
    | .error e => .error (.scalar e)
    | .ok r => .ok ((if i = 0 then { s with y := r.st } else if i = 1 then { s with m := r.st } else { s with d := r.st }),
                    some r.flag)
  | .setFlat pairs =>
    match memberFlat E c.ky c.ny s.y pairs, memberFlat E c.km c.nm s.m pairs, memberFlat E c.kd c.nd s.d pairs with
    | .ok y, .ok m, .ok d => .ok (⟨y, m, d⟩, none)
    | .error e, _, _ => .error (.scalar e)
    | _, .error e, _ => .error (.scalar e)
    | _, _, .error e => .error (.scalar e)

/-! ### JoinedString -/

structure JoinedCfg where
  sep : Str
  sp : Splitter
  prune : Bool
  member : Kind

abbrev JoinedState := List SState

/-- `JoinedString.value` (and `.u`): `self.separator.join(child.u for child in self)` -/
def joinedValue (c : JoinedCfg) (s : JoinedState) : Str := joinStr c.sep (s.map (·.u))

inductive JoinedOp
  | set (x : Flatland.C04.Input)
  | member (i : Nat) (x : Native)          -- `el[i].set(x)`
  | append (x : Native)                    -- `el.append(x)`: `member_schema(value=x)`
  | delete (i : Nat)                       -- `del el[i]`
  | setFlat (pairs : List (Str × Str)) (name : Str)   -- `Scalar._set_flat`: first pair named like the element
  deriving Inhabited

def JoinedCfg.schema (c : JoinedCfg) : Flatland.C04.Schema := .joined c.sep c.sp c.prune c.member

def joinedOfElem : Flatland.C04.Elem → JoinedState
  | .joined ms => ms
  | _ => []

def joinedSet (E : Env) (c : JoinedCfg) (s : JoinedState) (x : Flatland.C04.Input) :
    Except Flatland.C04.CRaise (JoinedState × Option Bool) :=
  match Flatland.C04.setElem E c.schema (.joined s) x with
  | .ok out => .ok (joinedOfElem out.elem, some out.flag)
  | .error e => .error e

def JoinedCfg.step (E : Env) (c : JoinedCfg) (s : JoinedState) : JoinedOp →
    Except Flatland.C04.CRaise (JoinedState × Option Bool)
  | .set x => joinedSet E c s x
  | .member i x =>
    if i < s.length then
      match setScalar E c.member x with
      | .error e => .error (.scalar e)
      | .ok r => .ok (s.set i r.st, some r.flag)
    else .error .unmodelled
  | .append x =>
    match setScalar E c.member x with
    | .error e => .error (.scalar e)
    | .ok r => .ok (s ++ [r.st], none)
  | .delete i => if i < s.length then .ok (s.eraseIdx i, none) else .error .unmodelled
  | .setFlat pairs name =>
    match pairs.find? (fun p => p.1 == name) with
    | some p => match joinedSet E c s (.leaf (.str p.2)) with
                | .ok r => .ok (r.1, none)
                | .error e => .error e
    | none => .ok (s, none)

/-! ### MultiValue -/

abbrev MultiState := List SState

/-- `MultiValue.u`: the `.u` of the first member, or `''` -/
def multiU (s : MultiState) : Str := match s with | [] => [] | m :: _ => m.u
/-- `MultiValue.value`: the `.value` of the first member, or None -/
def multiValue (s : MultiState) : Native := match s with | [] => .none | m :: _ => m.value

inductive MultiOp
  | set (x : Flatland.C04.Input)           -- `Sequence.set`
  | member (i : Nat) (x : Native)
  | append (x : Native)
  | insertFront (x : Native)               -- `el.insert(0, x)`
  | delete (i : Nat)
  | setFlat (pairs : List (Str × Str)) (name sep : Str) (prune : Bool)   -- `Array._set_flat`, named element, anonymous member
  deriving Inhabited

def multiOfElem : Flatland.C04.Elem → MultiState
  | .seq ms => ms.filterMap fun e => match e with | .scalar st => some st | _ => none
  | _ => []

def multiStep (E : Env) (k : Kind) (s : MultiState) : MultiOp →
    Except Flatland.C04.CRaise (MultiState × Option Bool)
  | .set x =>
    match Flatland.C04.setElem E (.seq (.scalar k)) (.seq (s.map .scalar)) x with
    | .ok out => .ok (multiOfElem out.elem, some out.flag)
    | .error e => .error e
  | .member i x =>
    if i < s.length then
      match setScalar E k x with
      | .error e => .error (.scalar e)
      | .ok r => .ok (s.set i r.st, some r.flag)
    else .error .unmodelled
  | .append x =>
    match setScalar E k x with
    | .error e => .error (.scalar e)
    | .ok r => .ok (s ++ [r.st], none)
  | .insertFront x =>
    match setScalar E k x with
    | .error e => .error (.scalar e)
    | .ok r => .ok (r.st :: s, none)
  | .delete i => if i < s.length then .ok (s.eraseIdx i, none) else .error .unmodelled
  | .setFlat pairs name sep prune =>
    -- `del self[:]`; every pair whose key is the element's name (the regex `^(name(?:sep|$))` with
    -- nothing after it) becomes a member, except empty values under prune_empty
    let vals := pairs.filterMap fun p =>
      if (p.1 == name || p.1 == name ++ sep) && !(prune && p.2.isEmpty) then some p.2 else none
    let outs := vals.map fun v => setScalar E k (.str v)
    match outs.findSome? (fun o => match o with | .error e => some e | .ok _ => none) with
    | some e => .error (.scalar e)
    | none => .ok (outs.filterMap (fun o => match o with | .ok r => some r.st | .error _ => none), none)

/-! ### Ref

A form `Dict{ sub: Dict{ t: <scalar k> }, r: Ref('../sub/t') }`.  Since fix b196482 `Ref.target`
is a plain property: the element at the target path is looked up on every access, so the only
state is the state of that element. -/

inductive Writable | ignore | yes | no
  deriving DecidableEq, Repr, Inhabited

structure RefState where
  t : SState                     -- state of the element now at `sub/t`
  deriving DecidableEq, Repr, Inhabited

inductive RefOp
  | targetSet (x : Native)       -- `form['sub']['t'].set(x)`
  | subSet (x : Native)          -- `form['sub'].set({'t': x})`: `_reset()` replaces the member
  | read                         -- `form['r'].value, form['r'].u`
  | refSet (x : Native)          -- `form['r'].set(x)`
  deriving Repr, Inhabited

/-- write `value`/`u` through to the target (`self.target.value = ...`) -/
def RefState.write (s : RefState) (v : Native) (u : Str) : RefState :=
  { s with t := { s.t with value := v, u := u } }

inductive RefRaise | typeError | scalar (r : Raise)
  deriving DecidableEq, Repr, Inhabited

/-- one operation: new state, the call's return value, and for `read` the observed `(value, u)` -/
def RefState.step (E : Env) (k : Kind) (w : Writable) (s : RefState) :
    RefOp → Except RefRaise (RefState × Option Bool × Option (Native × Str))
  | .targetSet x =>
    match setScalar E k x with
    | .error e => .error (.scalar e)
    | .ok r => .ok ({ s with t := r.st }, some r.flag, none)
  | .subSet x =>
    -- a fresh member takes the place of the old one; the Ref finds it at its next access
    match setScalar E k x with
    | .error e => .error (.scalar e)
    | .ok r => .ok ({ t := r.st }, some r.flag, none)
  | .read => .ok (s, none, some (s.t.value, s.t.u))          -- `self.target.value`, `self.target.u`
  | .refSet x =>
    -- Scalar.set on the Ref: adapt/serialize are the target's, value/u assignments go through the
    -- `writable` switch
    match adapt E k x with
    | .error e => .error (.scalar e)
    | .ok (some v) =>
      match w with
      | .no => .error .typeError                             -- `self.value = ...` raises TypeError
      | .ignore => match uOfValue E k v with
                   | .error e => .error (.scalar e)
                   | .ok _ => .ok (s, some true, none)
      | .yes => match uOfValue E k v with
                | .error e => .error (.scalar e)
                | .ok u => .ok (s.write v u, some true, none)
    | .ok none =>
      match w with
      | .no => .error .typeError
      | .ignore => match uOfFailed E.T x with
                   | .error e => .error (.scalar e)
                   | .ok _ => .ok (s, some false, none)
      | .yes => match uOfFailed E.T x with
                | .error e => .error (.scalar e)
                | .ok u => .ok (s.write .none u, some false, none)

/-! ### Ref into a List: `Dict{ l: List.of(<scalar k>), r: Ref('../l/0') }`

The target path names a position; mutations of the list change which element sits there. -/

inductive RefListOp
  | listSet (xs : List Native)   -- `form['l'].set(xs)`
  | insertFront (x : Native)     -- `form['l'].insert(0, x)`
  | deleteFront                  -- `del form['l'][0]`
  | memberSet (i : Nat) (x : Native)
  | read
  | refSet (x : Native)
  deriving Repr, Inhabited

inductive RefListRaise | typeError | lookupError | indexError | scalar (r : Raise)
  deriving DecidableEq, Repr, Inhabited

def setHead (s : List SState) (v : Native) (u : Str) : List SState :=
  match s with
  | [] => []
  | m :: rest => { m with value := v, u := u } :: rest

def refListStep (E : Env) (k : Kind) (w : Writable) (s : List SState) :
    RefListOp → Except RefListRaise (List SState × Option Bool × Option (Native × Str))
  | .listSet xs =>
    let outs := xs.map fun v => setScalar E k v
    match outs.findSome? (fun o => match o with | .error e => some e | .ok _ => none) with
    | some e => .error (.scalar e)
    | none =>
      let oks := outs.filterMap fun o => match o with | .ok r => some r | .error _ => none
      .ok (oks.map (·.st), some (oks.all (·.flag)), none)
  | .insertFront x =>
    match setScalar E k x with
    | .error e => .error (.scalar e)
    | .ok r => .ok (r.st :: s, none, none)
  | .deleteFront =>
    match s with
    | [] => .error .indexError
    | _ :: rest => .ok (rest, none, none)
  | .memberSet i x =>
    if i < s.length then
      match setScalar E k x with
      | .error e => .error (.scalar e)
      | .ok r => .ok (s.set i r.st, some r.flag, none)
    else .error .indexError
  | .read =>
    match s with
    | [] => .error .lookupError                      -- `find_one` finds no child '0'
    | m :: _ => .ok (s, none, some (m.value, m.u))
  | .refSet x =>
    match s with
    | [] => .error .lookupError
    | _ :: _ =>
      match adapt E k x with
      | .error e => .error (.scalar e)
      | .ok (some v) =>
        match w with
        | .no => .error .typeError
        | .ignore => match uOfValue E k v with
                     | .error e => .error (.scalar e)
                     | .ok _ => .ok (s, some true, none)
        | .yes => match uOfValue E k v with
                  | .error e => .error (.scalar e)
                  | .ok u => .ok (setHead s v u, some true, none)
      | .ok none =>
        match w with
        | .no => .error .typeError
        | .ignore => match uOfFailed E.T x with
                     | .error e => .error (.scalar e)
                     | .ok _ => .ok (s, some false, none)
        | .yes => match uOfFailed E.T x with
                  | .error e => .error (.scalar e)
                  | .ok u => .ok (setHead s .none u, some false, none)

end Flatland.C18
