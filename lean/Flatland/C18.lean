/-
Model A for C18: the derived elements of src/flatland/schema/compound.py (`Compound.u/value`,
`DateYYYYMMDD.compose/explode`, `JoinedString.set/value`), `MultiValue.u/value`
(containers.py) and `Ref` (scalars.py), as written, with the operations that can change their
parts.  Whole-element `set()` is the C04 model (`Flatland.C04.setElem`).
-/
import Flatland.Scalar
import Flatland.C04
namespace Flatland.C18
open Flatland.Scalar

/-! ### DateYYYYMMDD -/

def yearKind : Kind := .integer true 4     -- `Integer.named('year').using(format='%04i')`
def monthKind : Kind := .integer true 2    -- month and day: `'%02i'`

/-- the member schemas of a DateYYYYMMDD: generated (`year`/`month`/`day`, padded formats) or custom
    Integer fields given through `.of(...)` -/
structure DateCfg where
  ky : Kind := yearKind
  km : Kind := monthKind
  kd : Kind := monthKind
  ny : Str := "year".toList
  nm : Str := "month".toList
  nd : Str := "day".toList

def DateCfg.schema (c : DateCfg) : Flatland.C04.Schema := .date c.ky c.km c.kd

/-- member schemas that are Integer fields (any sign rule, any `%0Ni` format) -/
def DateCfg.Integers (c : DateCfg) : Prop :=
  (∃ sg w, c.ky = .integer sg w) ∧ (∃ sg w, c.km = .integer sg w) ∧ (∃ sg w, c.kd = .integer sg w)

structure DateState where
  y : SState
  m : SState
  d : SState
  deriving DecidableEq, Repr, Inhabited

/-- `DateYYYYMMDD.compose()`: `(text, native)` built from the members' current values.
    `.error` = CPython's int→str digit limit inside `self.format % data` (neither AdaptationError
    nor TypeError, so it leaves `compose`). -/
def asInt : Native → Option Int
  | .int i => some i
  | _ => none

def composeDate (E : Env) (vy vm vd : Native) : Except Raise (Str × Native) :=
  match asInt vy, asInt vm, asInt vd with
  | some y, some m, some d =>
    if intFits E.T y && intFits E.T m && intFits E.T d then
      let asStr := fmtInt 4 y ++ ['-'] ++ fmtInt 2 m ++ ['-'] ++ fmtInt 2 d    -- `self.format % data`
      match adapt E (.date true) (.str asStr) with                               -- `Date.adapt(self, as_str)`
      | .ok (some v) => .ok (asStr, v)
      | _ => .ok ([], .none)                                                     -- AdaptationError
    else .error .valueError
  | _, _, _ => .ok ([], .none)               -- `'%04i' % None` raises TypeError: `return '', None`

def DateState.compose (E : Env) (s : DateState) : Except Raise (Str × Native) :=
  composeDate E s.y.value s.m.value s.d.value

def DateState.ofElem : Flatland.C04.Elem → DateState
  | .date y m d => ⟨y, m, d⟩
  | _ => ⟨Flatland.C04.blankState, Flatland.C04.blankState, Flatland.C04.blankState⟩

def DateState.toElem (s : DateState) : Flatland.C04.Elem := .date s.y s.m s.d

inductive DateOp
  | set (x : Native)                       -- `el.set(x)`
  | member (i : Nat) (x : Native)          -- `el[<member i>].set(x)`
  | setFlat (pairs : List (Str × Str))     -- `el.set_flat(pairs)`; keys already relative to the element
  deriving Repr, Inhabited

/-- `Scalar._set_flat` of a member reached through `Mapping._set_flat`: the first pair whose key is
    exactly the member's name sets it (the `startswith` pre-filter does not change that) -/
def memberFlat (E : Env) (k : Kind) (name : Str) (st : SState) (pairs : List (Str × Str)) : Except Raise SState :=
  match pairs.find? (fun p => p.1 == name) with
  | some p => match setScalar E k (.str p.2) with
              | .ok r => .ok r.st
              | .error e => .error e
  | none => .ok st

/-- one operation; returns the new state and the value returned by the call (`none` for calls that
    return nothing) -/
def DateState.step (E : Env) (c : DateCfg) (s : DateState) : DateOp → Except Flatland.C04.CRaise (DateState × Option Bool)
  | .set x =>
    match Flatland.C04.setElem E c.schema s.toElem (.leaf x) with
    | .ok out => .ok (DateState.ofElem out.elem, some out.flag)
    | .error e => .error e
  | .member i x =>
    let k := if i = 0 then c.ky else if i = 1 then c.km else c.kd
    match setScalar E k x with
    | .error e => .error (.scalar e)
    | .ok r => .ok ((if i = 0 then { s with y := r.st } else if i = 1 then { s with m := r.st } else { s with d := r.st }),
                    some r.flag)
  | .setFlat pairs =>
    match memberFlat E c.ky c.ny s.y pairs, memberFlat E c.km c.nm s.m pairs, memberFlat E c.kd c.nd s.d pairs with
    | .ok y, .ok m, .ok d => .ok (⟨y, m, d⟩, none)
    | .error e, _, _ => .error (.scalar e)
    | _, .error e, _ => .error (.scalar e)
    | _, _, .error e => .error (.scalar e)

/-! ### JoinedString -/

structure JoinedCfg where
  sep : Str
  sp : Splitter
  prune : Bool
  member : Kind

abbrev JoinedState := List SState

/-- `JoinedString.value` (and `.u`): `self.separator.join(child.u for child in self)` -/
def joinedValue (c : JoinedCfg) (s : JoinedState) : Str := joinStr c.sep (s.map (·.u))

inductive JoinedOp
  | set (x : Flatland.C04.Input)
  | member (i : Nat) (x : Native)          -- `el[i].set(x)`
  | append (x : Native)                    -- `el.append(x)`: `member_schema(value=x)`
  | delete (i : Nat)                       -- `del el[i]`
  | setFlat (pairs : List (Str × Str)) (name : Str)   -- `Scalar._set_flat`: first pair named like the element
  deriving Inhabited

def JoinedCfg.schema (c : JoinedCfg) : Flatland.C04.Schema := .joined c.sep c.sp c.prune c.member

def joinedOfElem : Flatland.C04.Elem → JoinedState
  | .joined ms => ms
  | _ => []

def joinedSet (E : Env) (c : JoinedCfg) (s : JoinedState) (x : Flatland.C04.Input) :
    Except Flatland.C04.CRaise (JoinedState × Option Bool) :=
  match Flatland.C04.setElem E c.schema (.joined s) x with
  | .ok out => .ok (joinedOfElem out.elem, some out.flag)
  | .error e => .error e

def JoinedCfg.step (E : Env) (c : JoinedCfg) (s : JoinedState) : JoinedOp →
    Except Flatland.C04.CRaise (JoinedState × Option Bool)
  | .set x => joinedSet E c s x
  | .member i x =>
    if i < s.length then
      match setScalar E c.member x with
      | .error e => .error (.scalar e)
      | .ok r => .ok (s.set i r.st, some r.flag)
    else .error .unmodelled
  | .append x =>
    match setScalar E c.member x with
    | .error e => .error (.scalar e)
    | .ok r => .ok (s ++ [r.st], none)
  | .delete i => if i < s.length then .ok (s.eraseIdx i, none) else .error .unmodelled
  | .setFlat pairs name =>
    match pairs.find? (fun p => p.1 == name) with
    | some p => match joinedSet E c s (.leaf (.str p.2)) with
                | .ok r => .ok (r.1, none)
                | .error e => .error e
    | none => .ok (s, none)

/-! ### MultiValue -/

abbrev MultiState := List SState

/-- `MultiValue.u`: the `.u` of the first member, or `''` -/
def multiU (s : MultiState) : Str := match s with | [] => [] | m :: _ => m.u
/-- `MultiValue.value`: the `.value` of the first member, or None -/
def multiValue (s : MultiState) : Native := match s with | [] => .none | m :: _ => m.value

inductive MultiOp
  | set (x : Flatland.C04.Input)           -- `Sequence.set`
  | member (i : Nat) (x : Native)
  | append (x : Native)
  | insertFront (x : Native)               -- `el.insert(0, x)`
  | delete (i : Nat)
  | setFlat (pairs : List (Str × Str)) (name sep : Str) (prune : Bool)   -- `Array._set_flat`, named element, anonymous member
  deriving Inhabited

def multiOfElem : Flatland.C04.Elem → MultiState
  | .seq ms => ms.filterMap fun e => match e with | .scalar st => some st | _ => none
  | _ => []

def multiStep (E : Env) (k : Kind) (s : MultiState) : MultiOp →
    Except Flatland.C04.CRaise (MultiState × Option Bool)
  | .set x =>
    match Flatland.C04.setElem E (.seq (.scalar k)) (.seq (s.map .scalar)) x with
    | .ok out => .ok (multiOfElem out.elem, some out.flag)
    | .error e => .error e
  | .member i x =>
    if i < s.length then
      match setScalar E k x with
      | .error e => .error (.scalar e)
      | .ok r => .ok (s.set i r.st, some r.flag)
    else .error .unmodelled
  | .append x =>
    match setScalar E k x with
    | .error e => .error (.scalar e)
    | .ok r => .ok (s ++ [r.st], none)
  | .insertFront x =>
    match setScalar E k x with
    | .error e => .error (.scalar e)
    | .ok r => .ok (r.st :: s, none)
  | .delete i => if i < s.length then .ok (s.eraseIdx i, none) else .error .unmodelled
  | .setFlat pairs name sep prune =>
    -- `del self[:]`; every pair whose key is the element's name (the regex `^(name(?:sep|$))` with
    -- nothing after it) becomes a member, except empty values under prune_empty
    let vals := pairs.filterMap fun p =>
      if (p.1 == name || p.1 == name ++ sep) && !(prune && p.2.isEmpty) then some p.2 else none
    let outs := vals.map fun v => setScalar E k (.str v)
    match outs.findSome? (fun o => match o with | .error e => some e | .ok _ => none) with
    | some e => .error (.scalar e)
    | none => .ok (outs.filterMap (fun o => match o with | .ok r => some r.st | .error _ => none), none)

/-! ### Ref

The form is a tree of elements; a Ref is a path into that tree (`Ref.to('../sub/t')`,
`Ref.to('../l/1')`: from the Ref, up to the form, then down by names and list positions).
`Ref.target` is `self.find_one(self.target_path)`, evaluated on every access (fix b196482), so a
Ref read is: resolve the path against the tree as it is NOW, then read `.value` / `.u` there; a
write through a writable Ref assigns at the resolved element.

Leaves carry an identity so that "the same element object" can be told from "another element at
the same place": `Dict.set` rebuilds its members (new identities), list insertions and deletions
move elements to other positions (same identities). -/

inductive Writable | ignore | yes | no
  deriving DecidableEq, Repr, Inhabited

inductive PStep | name (n : Str) | index (i : Nat)
  deriving DecidableEq, Repr, Inhabited

inductive Tree
  | leaf (id : Nat) (k : Kind) (st : SState)
  | dict (names : List Str) (ms : List Tree)
  | list (k : Kind) (ms : List Tree)
  deriving Inhabited

/-- position of a name in a field list -/
def nameIdx (names : List Str) (n : Str) : Option Nat :=
  let i := names.idxOf n
  if i < names.length then some i else none

/-- one step of `find_one`: a field of a mapping by name, a member of a sequence by position -/
def Tree.child : Tree → PStep → Option Tree
  | .dict names ms, .name n => (nameIdx names n).bind fun i => ms[i]?
  | .list _ ms, .index i => ms[i]?
  | _, _ => none

/-- `find_one(path)` from the form: the element the path denotes in this tree, if any -/
def Tree.resolve : Tree → List PStep → Option Tree
  | t, [] => some t
  | t, s :: rest => match t.child s with
                    | some c => c.resolve rest
                    | none => none

def Tree.setChild : Tree → PStep → Tree → Tree
  | .dict names ms, .name n, c => match nameIdx names n with
                                  | some i => .dict names (ms.set i c)
                                  | none => .dict names ms
  | .list k ms, .index i, c => .list k (ms.set i c)
  | t, _, _ => t

/-- replace the element at a path -/
def Tree.replaceAt : Tree → List PStep → Tree → Option Tree
  | _, [], new => some new
  | t, s :: rest, new => match t.child s with
                         | none => none
                         | some c => (c.replaceAt rest new).map (t.setChild s)

/-- value and text of the element a path denotes (a scalar) -/
def denoted (t : Tree) (path : List PStep) : Option (Native × Str) :=
  match t.resolve path with
  | some (.leaf _ _ st) => some (st.value, st.u)
  | _ => none

structure TState where
  tree : Tree
  next : Nat                     -- next unused identity

inductive TOp
  | leafSet (p : List PStep) (x : Native)                      -- `<scalar at p>.set(x)`
  | dictSet (p : List PStep) (vals : List (Str × Native))      -- `<Dict at p>.set({...})`: members are rebuilt
  | listSet (p : List PStep) (xs : List Native)                -- `<List at p>.set([...])`
  | listInsert (p : List PStep) (i : Nat) (x : Native)         -- `<List at p>.insert(i, x)`
  | listDel (p : List PStep) (i : Nat)                         -- `del <List at p>[i]`
  | refRead                                                    -- `ref.value, ref.u`
  | refSet (x : Native)                                        -- `ref.set(x)`
  deriving Inhabited

inductive TRaise | typeError | lookupError | indexError | unmodelled | scalar (r : Raise)
  deriving DecidableEq, Repr, Inhabited

/-- fresh scalar members, each `set()` with its value; identities from `next` on -/
def freshLeaves (E : Env) (k : Kind) (next : Nat) : List Native → Except Raise (List Tree × List Bool)
  | [] => .ok ([], [])
  | x :: rest =>
    match setScalar E k x, freshLeaves E k (next + 1) rest with
    | .ok r, .ok (ts, fs) => .ok (Tree.leaf next k r.st :: ts, r.flag :: fs)
    | .error e, _ => .error e
    | _, .error e => .error e

/-- `Dict._reset()` + the member loop: every field gets a NEW member, set with its value if given -/
def rebuildMembers (E : Env) (next : Nat) : List Str → List Tree → List (Str × Native) →
    Except TRaise (List Tree × List Bool)
  | n :: ns, .leaf _ k _ :: ms, vals =>
    let mine := (vals.filter (·.1 == n)).map (·.2)
    -- successive sets of the new member: the last given value stays
    let one : Except Raise (SState × List Bool) := mine.foldl (fun acc x =>
      match acc, setScalar E k x with
      | .ok (_, fs), .ok r => .ok (r.st, fs ++ [r.flag])
      | .error e, _ => .error e
      | _, .error e => .error e) (.ok (Flatland.C04.blankState, []))
    match one, rebuildMembers E (next + 1) ns ms vals with
    | .ok (st, fs), .ok (ts, gs) => .ok (Tree.leaf next k st :: ts, fs ++ gs)
    | .error e, _ => .error (.scalar e)
    | _, .error e => .error e
  | [], [], _ => .ok ([], [])
  | _, _, _ => .error .unmodelled

/-- the operations that do not involve the Ref -/
def treeStep (E : Env) (s : TState) : TOp → Except TRaise (TState × Option Bool)
  | .leafSet p x =>
    match s.tree.resolve p with
    | some (.leaf id k _) =>
      match setScalar E k x with
      | .error e => .error (.scalar e)
      | .ok r => match s.tree.replaceAt p (.leaf id k r.st) with
                 | some t => .ok ({ s with tree := t }, some r.flag)
                 | none => .error .unmodelled
    | _ => .error .indexError
  | .dictSet p vals =>
    match s.tree.resolve p with
    | some (.dict names ms) =>
      match rebuildMembers E s.next names ms vals with
      | .error e => .error e
      | .ok (ts, fs) => match s.tree.replaceAt p (.dict names ts) with
                        | some t => .ok (⟨t, s.next + names.length⟩, some (fs.all id))
                        | none => .error .unmodelled
    | _ => .error .unmodelled
  | .listSet p xs =>
    match s.tree.resolve p with
    | some (.list k _) =>
      match freshLeaves E k s.next xs with
      | .error e => .error (.scalar e)
      | .ok (ts, fs) => match s.tree.replaceAt p (.list k ts) with
                        | some t => .ok (⟨t, s.next + xs.length⟩, some (fs.all id))
                        | none => .error .unmodelled
    | _ => .error .unmodelled
  | .listInsert p i x =>
    match s.tree.resolve p with
    | some (.list k ms) =>
      match setScalar E k x with
      | .error e => .error (.scalar e)
      | .ok r => match s.tree.replaceAt p (.list k (ms.take i ++ [Tree.leaf s.next k r.st] ++ ms.drop i)) with
                 | some t => .ok (⟨t, s.next + 1⟩, none)
                 | none => .error .unmodelled
    | _ => .error .unmodelled
  | .listDel p i =>
    match s.tree.resolve p with
    | some (.list k ms) =>
      if i < ms.length then
        match s.tree.replaceAt p (.list k (ms.eraseIdx i)) with
        | some t => .ok ({ s with tree := t }, none)
        | none => .error .unmodelled
      else .error .indexError
    | _ => .error .unmodelled
  | .refRead => .error .unmodelled
  | .refSet _ => .error .unmodelled

def isRefOp : TOp → Bool
  | .refRead => true
  | .refSet _ => true
  | _ => false

/-- what one operation shows: the call's return value and, for a Ref read, the observed `(value, u)` -/
abbrev StepOut (σ : Type) := Except TRaise (σ × Option Bool × Option (Native × Str))

/-- the Ref as the code has it since b196482: the target is looked up on every access -/
def liveStep (E : Env) (w : Writable) (path : List PStep) (s : TState) : TOp → StepOut TState
  | .refRead =>
    match s.tree.resolve path with
    | some (.leaf _ _ st) => .ok (s, none, some (st.value, st.u))      -- `self.target.value`, `self.target.u`
    | _ => .error .lookupError                                         -- `find_one` finds nothing
  | .refSet x =>
    match s.tree.resolve path with
    | some (.leaf id k st) =>
      -- Scalar.set on the Ref: adapt/serialize are the target's, the value/u assignments go through `writable`
      let outcome : Except Raise (Bool × Native × Str) :=
        match adapt E k x with
        | .error e => .error e
        | .ok (some v) => match uOfValue E k v with
                          | .error e => .error e
                          | .ok u => .ok (true, v, u)
        | .ok none => match uOfFailed E.T x with
                      | .error e => .error e
                      | .ok u => .ok (false, .none, u)
      match adapt E k x, w with
      | .error e, _ => .error (.scalar e)
      | _, .no => .error .typeError                                    -- `self.value = ...` raises TypeError
      | _, _ =>
        match outcome with
        | .error e => .error (.scalar e)
        | .ok (flag, v, u) =>
          if w == .yes then
            match s.tree.replaceAt path (.leaf id k { st with value := v, u := u }) with
            | some t => .ok ({ s with tree := t }, some flag, none)
            | none => .error .unmodelled
          else .ok (s, some flag, none)
    | _ => .error .lookupError
  | op =>
    match treeStep E s op with
    | .ok (s', ret) => .ok (s', ret, none)
    | .error e => .error e

/-! #### counter-model: the Ref of before fix b196482, which kept the element it found first -/

mutual
/-- the state of the element with identity `i`, if it is still in the tree -/
def Tree.findId : Tree → Nat → Option SState
  | .leaf id _ st, i => if id = i then some st else none
  | .dict _ ms, i => findIdL ms i
  | .list _ ms, i => findIdL ms i
def findIdL : List Tree → Nat → Option SState
  | [], _ => none
  | t :: rest, i => match t.findId i with
                    | some s => some s
                    | none => findIdL rest i
end

structure CachedState where
  base : TState
  cached : Option (Nat × SState)      -- identity of the element found at first use, and its last known state

/-- keep the remembered state of the cached element up to date while it is in the tree -/
def CachedState.sync (c : CachedState) : CachedState :=
  match c.cached with
  | some (i, st) => { c with cached := some (i, (c.base.tree.findId i).getD st) }
  | none => c

/-- the cached Ref (read-only operations suffice for the counter-example) -/
def cachedStep (E : Env) (path : List PStep) (c : CachedState) : TOp → StepOut CachedState
  | .refRead =>
    match c.cached with
    | some (_, st) => .ok (c, none, some (st.value, st.u))             -- the element remembered by `lazy_property`
    | none =>
      match c.base.tree.resolve path with
      | some (.leaf id _ st) => .ok ({ c with cached := some (id, st) }, none, some (st.value, st.u))
      | _ => .error .lookupError
  | .refSet _ => .error .unmodelled
  | op =>
    match treeStep E c.base op with
    | .ok (s', ret) => .ok (CachedState.sync { c with base := s' }, ret, none)
    | .error e => .error e

end Flatland.C18
