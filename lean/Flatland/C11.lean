/-
Model A for C11 — the serialisation layer of the markup generator, following
`out/markup.py` (`_attribute_escape`, `Tag._open`, `Tag.__call__`, `_attribute_sort_key`,
`_transform_keys`), `out/generic.py` (`_markup_escape`) and `schema/base.py` (`Element.x/.xa`).

The `.replace` chains themselves are NOT written here: they are re-extracted from the source on
every run into `Flatland/Generated/C11Tables.lean`; everything below is generic in the chain.

Also here: the mini tag parser `parseTag` for exactly the generator's output grammar and a
character-reference decoder (`decodeRefs`) for the references the chains can emit.
-/
import Flatland.Markup.Basic
import Flatland.Generated.C11Tables
namespace Flatland.C11
set_option linter.unusedVariables false
open Flatland.Markup

abbrev Chain := List (Char × Str)

/-- `s.replace(c, r)` for a one-character pattern -/
def replaceAll (c : Char) (r : Str) : Str → Str
  | [] => []
  | x :: xs => (if x = c then r else [x]) ++ replaceAll c r xs

/-- `s.replace(c1, r1).replace(c2, r2)…` — sequential, in source order -/
def escapeChain : Chain → Str → Str
  | [], s => s
  | (c, r) :: rest, s => escapeChain rest (replaceAll c r s)

/-- `_attribute_escape(string)`: falsy → `""`; `__html__` → unpacked verbatim; else the chain -/
def attributeEscape (chain : Chain) : Val → Except PyErr Str
  | .text [] => pure []
  | .text s => pure (escapeChain chain s)
  | .markup s => pure s                       -- `Markup("")` is falsy → "" = s
  | .bool false => pure []
  | .bool true => throw .attributeError       -- `True.replace`
  | .maybe => throw .notImplementedError      -- `not Maybe` → Maybe.__bool__ raises

/-- `_markup_escape(string)` for a `str` argument (it is only ever applied to `bind.u`) -/
def markupEscape (chain : Chain) (s : Str) : Str :=
  match s with
  | [] => []
  | s => escapeChain chain s

/-- `Element.x`, `Element.xa`: the bare chain applied to `.u` -/
def sugar (chain : Chain) (u : Str) : Str := escapeChain chain u

/-! ### `_transform_keys`, attribute order -/

/-- `rekeyed[key.rstrip("_")] = value` for each item in order -/
def transformKeys (kw : List (Str × Val)) : Attrs :=
  kw.foldl (fun d kv => Dict.set d (rstripUnderscore kv.1) kv.2) []

def indexOf? (order : List Str) (k : Str) : Option Nat :=
  match order with
  | [] => none
  | o :: rest => if o = k then some 0 else (indexOf? rest k).map (· + 1)

/-- `_attribute_sort_key(a) < _attribute_sort_key(b)`: `(0, index)` for the static names,
    `(1, name)` otherwise, compared as Python tuples -/
def sortKeyLt (order : List Str) (a b : Str × Val) : Bool :=
  match indexOf? order a.1, indexOf? order b.1 with
  | some i, some j => i < j
  | some _, none => true
  | none, some _ => false
  | none, none => strLt a.1 b.1

def orderPairs (order : List Str) (ordered : Bool) (attrs : Attrs) : List (Str × Val) :=
  if ordered then sortBy (sortKeyLt order) attrs else attrs

/-! ### serialisation -/

/-- one `k="escaped v"` item -/
def renderAttr (chain : Chain) (kv : Str × Val) : Except PyErr Str := do
  let v ← attributeEscape chain kv.2
  pure (kv.1 ++ ['=', '"'] ++ v ++ ['"'])

def renderAttrs (chain : Chain) : List (Str × Val) → Except PyErr (List Str)
  | [] => pure []
  | kv :: rest => do
    let a ← renderAttr chain kv
    let r ← renderAttrs chain rest
    pure (a :: r)

/-- `" ".join(items)` -/
def joinSpace : List Str → Str
  | [] => []
  | [a] => a
  | a :: rest => a ++ ' ' :: joinSpace rest

/-- `Tag._open` after the transforms ran: `'<' + tagname [+ ' ' + guts]` -/
def renderOpen (chain : Chain) (tag : Str) (pairs : List (Str × Val)) : Except PyErr Str := do
  let items ← renderAttrs chain pairs
  let guts := joinSpace items
  if guts.isEmpty then pure ('<' :: tag) else pure ('<' :: tag ++ ' ' :: guts)

/-- `Tag.__call__`: void elements get ` />` (xml/xhtml) or `>` (html) and never contents;
    all others `>contents</tag>`.  `contents` is the final markup string. -/
def renderTag (chain : Chain) (voids : List Str) (xml : Bool) (tag : Str)
    (pairs : List (Str × Val)) (contents : Str) : Except PyErr Str := do
  let header ← renderOpen chain tag pairs
  if voids.contains tag then
    pure (header ++ (if xml then [' ', '/', '>'] else ['>']))
  else
    pure (header ++ '>' :: contents ++ '<' :: '/' :: tag ++ ['>'])

/-! ### a decoder for the character references the chains emit -/

def digitsToNat (ds : Str) : Nat := ds.foldl (fun n d => n * 10 + (d.toNat - '0'.toNat)) 0

/-- the entity name (between `&` and `;`) → character; named: amp lt gt quot; numeric: `#ddd` -/
def entityChar (name : Str) : Option Char :=
  if name = ['a', 'm', 'p'] then some '&'
  else if name = ['l', 't'] then some '<'
  else if name = ['g', 't'] then some '>'
  else if name = ['q', 'u', 'o', 't'] then some '"'
  else match name with
    | '#' :: ds => if !ds.isEmpty ∧ ds.all Char.isDigit then some (Char.ofNat (digitsToNat ds)) else none
    | _ => none

/-- the text up to the first `;` among the next `fuel` characters, and what follows the `;` -/
def takeEntity : Nat → Str → Option (Str × Str)
  | 0, _ => none
  | _ + 1, [] => none
  | n + 1, c :: cs =>
    if c = ';' then some ([], cs)
    else match takeEntity n cs with
      | some (name, rest) => some (c :: name, rest)
      | none => none

theorem takeEntity_length {n : Nat} {s name rest : Str} (h : takeEntity n s = some (name, rest)) :
    rest.length < s.length := by
  induction n generalizing s name rest with
  | zero => simp [takeEntity] at h
  | succ n ih =>
    cases s with
    | nil => simp [takeEntity] at h
    | cons c cs =>
      simp only [takeEntity] at h
      split at h
      · simp at h; obtain ⟨_, rfl⟩ := h; simp
      · split at h
        · rename_i nm rs heq
          simp at h; obtain ⟨_, rfl⟩ := h
          have := ih heq; simp; omega
        · simp at h

/-- decode character references: `&name;` with a known name (at most 8 characters) becomes the
    character, every other character — including an `&` that starts nothing known — is kept -/
def decodeRefs : Str → Str
  | [] => []
  | c :: cs =>
    if c = '&' then
      match h : takeEntity 8 cs with
      | some (name, rest) =>
        match entityChar name with
        | some ch => ch :: decodeRefs rest
        | none => c :: decodeRefs cs
      | none => c :: decodeRefs cs
    else c :: decodeRefs cs
termination_by s => s.length
decreasing_by
  all_goals simp_wf
  · have := takeEntity_length h; omega

/-! ### mini parser for the output grammar `<name( k="v")*( /)?>text</name>` -/

/-- split at the first occurrence of `c` (which is dropped) -/
def splitAtChar (c : Char) : Str → Option (Str × Str)
  | [] => none
  | x :: xs =>
    if x = c then some ([], xs)
    else match splitAtChar c xs with
      | some (a, b) => some (x :: a, b)
      | none => none

theorem splitAtChar_length {c : Char} {s a b : Str} (h : splitAtChar c s = some (a, b)) :
    b.length < s.length := by
  induction s generalizing a b with
  | nil => simp [splitAtChar] at h
  | cons x xs ih =>
    simp only [splitAtChar] at h
    split at h
    · simp at h; obtain ⟨_, rfl⟩ := h; simp
    · split at h
      · rename_i a' b' heq
        simp at h; obtain ⟨_, rfl⟩ := h
        have := ih heq; simp; omega
      · simp at h

/-- characters that end a tag or attribute name -/
def nameStop (c : Char) : Bool := c = ' ' || c = '=' || c = '>' || c = '/' || c = '"' || c = '<'

inductive Closer | selfClosed | opened
  deriving DecidableEq, Repr

/-- attributes up to and including the end of the start tag.  Each attribute is
    ` name="value"`; the value runs to the next `"` and is then reference-decoded. -/
def parseAttrs (dec : Str → Str) : Str → Option (List (Str × Str) × Closer × Str)
  | '>' :: rest => some ([], .opened, rest)
  | ' ' :: '/' :: '>' :: rest => some ([], .selfClosed, rest)
  | ' ' :: s =>
    let name := s.takeWhile (fun c => !nameStop c)
    match _h0 : s.dropWhile (fun c => !nameStop c) with
    | '=' :: '"' :: s2 =>
      if name.isEmpty then none else
      match h : splitAtChar '"' s2 with
      | some (v, s3) =>
        match parseAttrs dec s3 with
        | some (more, cl, rest) => some ((name, dec v) :: more, cl, rest)
        | none => none
      | none => none
    | _ => none
  | _ => none
termination_by s => s.length
decreasing_by
  simp_wf
  have h1 := splitAtChar_length h
  have h2 : (List.dropWhile (fun c => !nameStop c) s).length ≤ s.length :=
    (List.dropWhile_suffix _).length_le
  rw [_h0] at h2
  simp at h2
  omega

/-- the elements an HTML parser treats as void (start tag only, never any content) — the PARSER's
    table, independent of the generator's `VOID_ELEMENTS` -/
def htmlVoidElements : List Str :=
  ["area", "base", "br", "col", "embed", "hr", "img", "input", "link", "meta", "param", "source", "track", "wbr"].map
    String.toList

structure Parsed where
  tag : Str
  attrs : List (Str × Str)
  text : Str
  deriving DecidableEq, Repr

/-- one complete element and nothing else.  Void elements (by table, or self-closed) have no
    text and no end tag; all others have text up to the next `<`, which must begin the matching
    end tag, which must end the input. -/
def parseTag (dec : Str → Str) (voids : List Str) (s : Str) : Option Parsed :=
  match s with
  | '<' :: s1 =>
    let name := s1.takeWhile (fun c => !nameStop c)
    if name.isEmpty then none else
    match parseAttrs dec (s1.dropWhile (fun c => !nameStop c)) with
    | some (attrs, cl, rest) =>
      if cl = .selfClosed || voids.contains name then
        if rest.isEmpty then some ⟨name, attrs, []⟩ else none
      else
        match splitAtChar '<' rest with
        | some (text, tail) =>
          if tail = '/' :: name ++ ['>'] then some ⟨name, attrs, dec text⟩ else none
        | none => none
    | none => none
  | _ => none

end Flatland.C11
