/-
Model A for the clause of C07 "list members contribute their CURRENT index", on the shared tree
model (`Flatland/Tree.lean`: ListSlots are explicit nodes with a STORED name, every list operation
performs the renumbering the Python performs).

`Element.flatten` / `Element.flattened_name` (src/flatland/schema/base.py) as written:

    pairs = [(self.flattened_name(sep), value(self))] if self.flattenable else []
    if self.children_flattenable:
        seen, queue = {id(self)}, deque(self.children)
        while queue:
            element = queue.popleft()
            if id(element) in seen: continue
            seen.add(id(element))
            if element.flattenable: pairs.append((element.flattened_name(sep), value(element)))
            if element.children_flattenable: queue.extend(element.children)

    flattened_name = sep.join(parent.name for parent in self.path if parent.name is not None)

`self.path` walks the stored `.parent` pointers up to the root: for a List member the chain is
member → its ListSlot (whose `.name` is the STORED slot name) → the List → …  Nothing in
`flatten` looks at positions: the key of a list member is right only as long as the List keeps
its slots' names equal to their positions (`_renumber`, `_new_slot`).

Two renderings:

* `flattenTree` — the queue loop over the nested shape; every queue entry carries the names on
  the chain above the element (a ListSlot contributes its stored `key`; an element without a name
  contributes nothing).  This is the function the theorems are about.
* `flattenCode` — the literal one: the `seen` set of identities, and `flattened_name` computed by
  walking the STORED parent pointers through the object store (`C08.pathOf`).  The runner returns
  both; they coincide on every tree whose pointers agree with its shape (C08's invariant).

`flattenable` / `children_flattenable` of the classes the tree model has: Integer, String →
(True, True); List, Array, MultiValue, Dict, SparseDict, ListSlot → (False, True).  (Compound and
JoinedString, the only classes with `children_flattenable = False`, are in the flat model only.)
-/
import Flatland.Tree
import Flatland.C08
import Flatland.Flat
namespace Flatland.C07Tree
open Flatland.Tree Flatland.PyList Flatland.C08

/-- `cls.flattenable` -/
def fl (n : Node) : Bool :=
  match n.kind with
  | .integer | .string => true
  | _ => false

/-- `cls.children_flattenable` (True for every class of the tree model) -/
def cfl (_n : Node) : Bool := true

/-- a queue entry: the names on the chain above the element (root first), and the element -/
abbrev QItem := List Str × Node

/-- `[parent.name for parent in self.path if parent.name is not None]`, given the names above -/
def namePath (p : List Str) (n : Node) : List Str := p ++ n.name.toList

/-- `sep.join(names)` -/
def joinSep (sep : Str) (names : List Str) : Str := Flatland.Flat.joinSep sep names

/-- the members held by the slots of a List, each under the names above the List extended by the
    STORED name of its slot (`ListSlot.name`) -/
def slotItems (here : List Str) : List Node → List QItem
  | [] => []
  | slot :: rest => slot.kids.map (fun el => (here ++ [slot.key], el)) ++ slotItems here rest

/-- `element.children`, each with the names on its chain -/
def childItems (p : List Str) (n : Node) : List QItem :=
  match n.kind with
  | .list => slotItems (namePath p n) n.kids
  | .array | .multi | .dict | .sparse => n.kids.map (fun el => (namePath p n, el))
  | _ => []

theorem slotItems_snd (here : List Str) (ks : List Node) :
    (slotItems here ks).map (·.2) = ks.flatMap Node.kids := by
  induction ks with
  | nil => rfl
  | cons k ks ih => simp [slotItems, ih, List.map_map, Function.comp_def]

theorem childItems_snd (p : List Str) (n : Node) : (childItems p n).map (·.2) = children n := by
  unfold childItems children
  cases n.kind <;> simp [slotItems_snd, List.map_map, Function.comp_def]

def qsize (q : List QItem) : Nat := sizeL (q.map (·.2))

theorem qsize_cons (p : List Str) (n : Node) (q : List QItem) : qsize ((p, n) :: q) = size n + qsize q := by
  simp [qsize, sizeL]

theorem qsize_append (a b : List QItem) : qsize (a ++ b) = qsize a + qsize b := by
  simp [qsize, sizeL_append]

theorem qsize_childItems_lt (p : List Str) (n : Node) : qsize (childItems p n) < size n := by
  unfold qsize; rw [childItems_snd]; exact sizeL_children_lt n

/-- the pair an element contributes: `(element.flattened_name(sep), element.u)` if flattenable -/
def ownPair (sep : Str) (it : QItem) : List (Str × Str) :=
  if fl it.2 then [(joinSep sep (namePath it.1 it.2), it.2.ni.u)] else []

/-- what an element pushes on the queue -/
def pushed (it : QItem) : List QItem := if cfl it.2 then childItems it.1 it.2 else []

/-- the `while queue:` loop -/
def bfs (sep : Str) : List QItem → List (Str × Str)
  | [] => []
  | it :: q => ownPair sep it ++ bfs sep (q ++ pushed it)
termination_by q => qsize q
decreasing_by
  obtain ⟨p, n⟩ := it
  have := qsize_childItems_lt p n
  simp only [pushed, cfl, if_true, qsize_append, qsize_cons]; omega

/-- `element.flatten(sep)` of a root element -/
def flattenTree (sep : Str) (n : Node) : List (Str × Str) :=
  ownPair sep ([], n) ++ (if cfl n then bfs sep (childItems [] n) else [])

/-! ### the positional specification: the same walk, but a List member is named by its POSITION -/

/-- members of a List, the `i`-th slot's under `str(i)` -/
def specSlots (here : List Str) : Nat → List Node → List QItem
  | _, [] => []
  | i, slot :: rest =>
    slot.kids.map (fun el => (here ++ [(toString i).toList], el)) ++ specSlots here (i + 1) rest

def specItems (p : List Str) (n : Node) : List QItem :=
  match n.kind with
  | .list => specSlots (namePath p n) 0 n.kids
  | .array | .multi | .dict | .sparse => n.kids.map (fun el => (namePath p n, el))
  | _ => []

theorem specSlots_snd (here : List Str) (i : Nat) (ks : List Node) :
    (specSlots here i ks).map (·.2) = ks.flatMap Node.kids := by
  induction ks generalizing i with
  | nil => rfl
  | cons k ks ih => simp [specSlots, ih, List.map_map, Function.comp_def]

theorem specItems_snd (p : List Str) (n : Node) : (specItems p n).map (·.2) = children n := by
  unfold specItems children
  cases n.kind <;> simp [specSlots_snd, List.map_map, Function.comp_def]

theorem qsize_specItems_lt (p : List Str) (n : Node) : qsize (specItems p n) < size n := by
  unfold qsize; rw [specItems_snd]; exact sizeL_children_lt n

def specBfs (sep : Str) : List QItem → List (Str × Str)
  | [] => []
  | it :: q => ownPair sep it ++ specBfs sep (q ++ specItems it.1 it.2)
termination_by q => qsize q
decreasing_by
  obtain ⟨p, n⟩ := it
  have := qsize_specItems_lt p n
  simp only [qsize_append, qsize_cons]; omega

/-- keys computed from POSITIONS: what `flatten()` must return -/
def specFlatten (sep : Str) (n : Node) : List (Str × Str) :=
  ownPair sep ([], n) ++ specBfs sep (specItems [] n)

/-! ### the invariant the List operations maintain -/

/-- slot `i` is named `str(i)`, from `i` on -/
def wnFrom : Nat → List Node → Bool
  | _, [] => true
  | i, s :: ss => decide (s.key = (toString i).toList) && wnFrom (i + 1) ss

/-- every slot holds exactly one element -/
def single (ks : List Node) : Bool := ks.all (fun s => s.kids.length == 1)

mutual
/-- **deep positional**: every List of the tree names its slots by their positions, and every
    slot holds exactly one element -/
def dp : Node → Bool
  | .mk _ s kids => (!(s.kind == .list) || (wnFrom 0 kids && single kids)) && dpL kids
def dpL : List Node → Bool
  | [] => true
  | k :: ks => dp k && dpL ks
end

/-! ### the literal rendering: identities, stored parent pointers -/

/-- `element.flattened_name(sep)`: walk the stored `.parent` pointers (`C08.pathOf`) -/
def flattenedName (univ : List Node) (fuel : Nat) (sep : Str) (e : Node) : Str :=
  joinSep sep ((pathOf univ fuel e).filterMap Node.name)

def codePair (univ : List Node) (fuel : Nat) (sep : Str) (e : Node) : List (Str × Str) :=
  if fl e then [(flattenedName univ fuel sep e, e.ni.u)] else []

/-- the `while queue:` loop with its `seen` set of identities -/
def codeLoop (univ : List Node) (fuel : Nat) (sep : Str) : List Nat → List Node → List (Str × Str)
  | _, [] => []
  | seen, e :: q =>
    if seen.contains e.id then codeLoop univ fuel sep seen q
    else codePair univ fuel sep e ++ codeLoop univ fuel sep (e.id :: seen) (q ++ (if cfl e then children e else []))
termination_by _ q => sizeL q
decreasing_by
  · simp [sizeL]; cases e; simp [size]; omega
  · have := sizeL_children_lt e
    simp [cfl, sizeL, sizeL_append]; omega

/-- `element.flatten(sep)`, literally -/
def flattenCode (univ : List Node) (fuel : Nat) (sep : Str) (n : Node) : List (Str × Str) :=
  codePair univ fuel sep n ++ (if cfl n then codeLoop univ fuel sep [n.id] (children n) else [])

/-! ### abstraction to the flat model's resolved nodes (`Flat.FNode`) -/

mutual
/-- what the flat model's `flatten` reads from an element: name, flags, text, "members sit in
    slots", members.  A List's members are the elements its slots hold. -/
def toFNode : Node → Flatland.Flat.FNode
  | .mk i s kids =>
    match s.kind with
    | .integer | .string => .mk (Node.name (.mk i s kids)) true true i.u false []
    | .list => .mk (Node.name (.mk i s kids)) false true [] true (toFSlots kids)
    | .slot => .mk (Node.name (.mk i s kids)) false true [] false []     -- `children` of a slot: none
    | _ => .mk (Node.name (.mk i s kids)) false true [] false (toFNodeL kids)
def toFNodeL : List Node → List Flatland.Flat.FNode
  | [] => []
  | k :: ks => toFNode k :: toFNodeL ks
/-- one entry per slot: the element it holds (a slot holding nothing — never built — is rendered as
    an anonymous empty container) -/
def toFSlots : List Node → List Flatland.Flat.FNode
  | [] => []
  | .mk _ _ els :: ks =>
    (match els with
     | el :: _ => toFNode el
     | [] => .mk none false true [] false []) :: toFSlots ks
end

end Flatland.C07Tree
