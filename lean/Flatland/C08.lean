/-
Model A for C08, on top of the shared tree model (`Flatland/Tree.lean`): the navigation
properties of `Element` that read the *stored* parent pointers and the children lists
(src/flatland/schema/base.py: `parents`, `root`, `path`, `children`, `all_children`), and the
history semantics (a sequence of container calls, each applied to an element of the tree).
-/
import Flatland.Tree
namespace Flatland.C08
open Flatland.Tree Flatland.PyList

/-! ### object store view: every node (elements *and* slots) of a tree, in preorder -/

mutual
def nodes : Node → List Node
  | .mk i s kids => .mk i s kids :: nodesL kids
def nodesL : List Node → List Node
  | [] => []
  | k :: ks => nodes k ++ nodesL ks
end

def ids (n : Node) : List Nat := (nodes n).map Node.id

/-- the object a stored pointer refers to, looked up among the objects of the universe -/
def deref (univ : List Node) (p : Nat) : Option Node :=
  (univ.flatMap nodes).find? (fun n => n.id == p)

/-- `element.parents`: `element = self.parent; while element is not None: yield element;
    element = element.parent` — `fuel` bounds the walk (a cycle of pointers would not end) -/
def parentsOf (univ : List Node) : Nat → Node → List Node
  | 0, _ => []
  | fuel + 1, n =>
    match n.parent with
    | none => []
    | some p =>
      match deref univ p with
      | none => []
      | some pn => pn :: parentsOf univ fuel pn

/-- `element.root`: `list(self.parents)[-1]`, or `self` when there are no parents -/
def rootOf (univ : List Node) (fuel : Nat) (n : Node) : Node :=
  ((parentsOf univ fuel n).getLast?).getD n

/-- `element.path`: `chain(reversed(list(self.parents)), (self,))` -/
def pathOf (univ : List Node) (fuel : Nat) (n : Node) : List Node :=
  (parentsOf univ fuel n).reverse ++ [n]

mutual
def size : Node → Nat | .mk _ _ kids => 1 + sizeL kids
def sizeL : List Node → Nat | [] => 0 | k :: ks => size k + sizeL ks
end

theorem sizeL_append (a b : List Node) : sizeL (a ++ b) = sizeL a + sizeL b := by
  induction a with
  | nil => simp [sizeL]
  | cons t ts ih => simp [sizeL, ih]; omega

theorem sizeL_flatMap_kids_le (l : List Node) : sizeL (l.flatMap Node.kids) ≤ sizeL l := by
  induction l with
  | nil => simp [sizeL]
  | cons t ts ih =>
    cases t with
    | mk i s kids => simp [sizeL, size, sizeL_append, Node.kids]; omega

theorem sizeL_children_lt (n : Node) : sizeL (children n) < size n := by
  cases n with
  | mk i s kids =>
    have h := sizeL_flatMap_kids_le kids
    unfold children
    simp only [Node.kind, Node.sch, Node.kids, size]
    split <;> simp [sizeL] <;> omega

/-- the `while queue:` loop of `all_children`: `seen` holds `id()`s, the queue elements -/
def acLoop : List Nat → List Node → List Node
  | _, [] => []
  | seen, e :: q =>
    if seen.contains e.id then acLoop seen q
    else e :: acLoop (e.id :: seen) (q ++ children e)
termination_by _ q => sizeL q
decreasing_by
  · simp [sizeL]; cases e; simp [size]; omega
  · have := sizeL_children_lt e
    simp [sizeL, sizeL_append]; omega

/-- `element.all_children` -/
def allChildren (n : Node) : List Node := acLoop [n.id] (children n)

/-- every element reachable from `n` through `children`, `n` first (plain queue walk) -/
def reach : List Node → List Node
  | [] => []
  | e :: q => e :: reach (q ++ children e)
termination_by q => sizeL q
decreasing_by
  have := sizeL_children_lt e
  simp [sizeL, sizeL_append]; omega

/-! ### histories -/

/-- one step of a history: a container call on the element with id `target` -/
structure HOp where
  target : Nat
  op : Op
  deriving Inhabited

structure HState where
  root : Node
  next : Nat
  deriving Inhabited

/-- apply one call; a target that is not in the tree leaves the state alone -/
def hstep (s : HState) (h : HOp) : HState :=
  match stepAt s.root h.target h.op s.next with
  | none => s
  | some r => ⟨r.node, r.next⟩

def hrun (s : HState) (hs : List HOp) : HState := hs.foldl hstep s

end Flatland.C08
