/-
Shared model A for C08 / C09 / C10: flatland element trees with *identities and stored parent
pointers* (`Element.parent`), `ListSlot`s as explicit nodes, and every mutating method of
`Sequence`, `List`, `Array`/`MultiValue`, `Mapping`/`Dict`, `SparseDict`
(src/flatland/schema/containers.py) plus the construction routes `schema()`, `schema(value)`,
`set`, `set_default`, `from_defaults` — each performing the pointer writes, wrapping,
renumbering and raising that the Python performs, in the same order.

A node stores its own id, the id its `.parent` attribute points to (written by the operations,
never derived), the class (`Schema`) it instantiates, the key it is stored under (dict key /
slot name) and, for scalars, `.value` and `.u`.  Children are nested, so the *shape* is a tree
by construction; what is not by construction — and what C08 is about — is that the stored
parent pointers agree with the shape.

Paths the model does not cover return `Exc.unsupported` (the harness then does not compare
that case); nothing is silently totalised.
-/
import Flatland.PyList
namespace Flatland.Tree
open Flatland.PyList

abbrev Str := List Char

/-! ## values -/

/-- scalar `.value` -/
inductive Val | none | int (n : Int) | str (s : Str)
  deriving DecidableEq, Repr, Inhabited

/-- plain Python values handed to the API by the harness (and `.value` of containers) -/
inductive Raw
  | none | int (n : Int) | str (s : Str)
  | list (xs : List Raw)
  | dict (kvs : List (Str × Raw))    -- a `dict`
  | pairs (kvs : List (Str × Raw))   -- a list of `(key, value)` 2-tuples
  deriving BEq, Repr, Inhabited

/-! ## schemas (element classes) -/

inductive SKind | integer | string | list | array | multi | dict | sparse | slot
  deriving DecidableEq, Repr, Inhabited

inductive Policy | strict | subset | duck | off
  deriving DecidableEq, Repr, Inhabited

structure SInfo where
  cid : Nat                 -- identity of the class object
  isa : List Nat := []      -- cids of the classes it derives from (for `isinstance`)
  kind : SKind
  name : Option Str := none
  optional : Bool := false
  policy : Policy := .subset
  minreq : Bool := false    -- SparseDict.minimum_fields == 'required'
  deriving Repr, Inhabited

/-- an element class: its attributes, its `default`, and its member schema (sequences, one
    entry) or field schemas (mappings) -/
inductive Schema
  | mk (info : SInfo) (dflt : Raw) (subs : List Schema)
  deriving Repr, Inhabited

def Schema.info : Schema → SInfo | .mk i _ _ => i
def Schema.dflt : Schema → Raw | .mk _ d _ => d
def Schema.subs : Schema → List Schema | .mk _ _ s => s
def Schema.kind (s : Schema) : SKind := s.info.kind
def Schema.name (s : Schema) : Option Str := s.info.name
/-- the dict key a field is stored under (`member_schema.name`) -/
def Schema.key (s : Schema) : Str := s.info.name.getD []

/-- pseudo-class of ListSlot nodes -/
def slotSchema : Schema := .mk { cid := 0, kind := .slot } .none []

/-- `member_schema` of a sequence class (`none`: the class has none — not generated) -/
def Schema.member (s : Schema) : Option Schema := s.subs.head?

/-- `_field_schema_for(key)` -/
def fieldFor (subs : List Schema) (key : Str) : Option Schema := subs.find? (fun f => f.key == key)

/-! ## element nodes -/

structure NInfo where
  id : Nat
  parent : Option Nat      -- the stored `.parent` pointer
  key : Str := []          -- dict key it is stored under / `ListSlot.name`
  val : Val := .none       -- scalar `.value`
  u : Str := []            -- scalar `.u`
  optOv : Option Bool := none   -- instance-level `optional=` (`Element.__init__(**kw)` override), if any
  nameOv : Option Str := none   -- instance-level `name=` override, if any
  deriving Repr, Inhabited

inductive Node
  | mk (ni : NInfo) (sch : Schema) (kids : List Node)
  deriving Repr, Inhabited

namespace Node
def ni : Node → NInfo | .mk i _ _ => i
def sch : Node → Schema | .mk _ s _ => s
def kids : Node → List Node | .mk _ _ k => k
def id (n : Node) : Nat := n.ni.id
def parent (n : Node) : Option Nat := n.ni.parent
def key (n : Node) : Str := n.ni.key
def kind (n : Node) : SKind := n.sch.kind
def withKids (n : Node) (k : List Node) : Node := .mk n.ni n.sch k
def withParent (n : Node) (p : Option Nat) : Node := .mk { n.ni with parent := p } n.sch n.kids
def withKey (n : Node) (k : Str) : Node := .mk { n.ni with key := k } n.sch n.kids
def withScalar (n : Node) (v : Val) (u : Str) : Node := .mk { n.ni with val := v, u := u } n.sch n.kids
/-- `.name` of the element: the class attribute; a slot's name is stored on the instance -/
def name (n : Node) : Option Str :=
  if n.kind = .slot then some n.key else (match n.ni.nameOv with | some nm => some nm | none => n.sch.name)
/-- `.optional` as attribute lookup on the instance finds it: the instance override, else the class attribute -/
def optional (n : Node) : Bool := n.ni.optOv.getD n.sch.info.optional
/-- keyword overrides given to the constructor (`schema(value, optional=…, name=…)`) -/
def withOverrides (n : Node) (o : Option Bool) (nm : Option Str) : Node :=
  .mk { n.ni with optOv := o, nameOv := nm } n.sch n.kids
end Node

/-- `element.children` (a List yields its slots' elements; slots and scalars have none) -/
def children (n : Node) : List Node :=
  match n.kind with
  | .list => n.kids.flatMap Node.kids
  | .array | .multi | .dict | .sparse => n.kids
  | _ => []

/-- the members of a sequence as elements -/
def members (n : Node) : List Node := children n

/-! ## structural `(value, u)` of an element: what `Element.__eq__` compares -/

inductive Sig
  | sc (v : Val) (u : Str)
  | seq (xs : List Sig)
  | map (kvs : List (Str × Sig))
  deriving Repr, Inhabited

mutual
/-- structural equality, written out so that the kernel can evaluate it -/
def Sig.beq : Sig → Sig → Bool
  | .sc v u, .sc v' u' => decide (v = v') && decide (u = u')
  | .seq xs, .seq ys => Sig.beqL xs ys
  | .map xs, .map ys => Sig.beqKV xs ys
  | _, _ => false
def Sig.beqL : List Sig → List Sig → Bool
  | [], [] => true
  | x :: xs, y :: ys => Sig.beq x y && Sig.beqL xs ys
  | _, _ => false
def Sig.beqKV : List (Str × Sig) → List (Str × Sig) → Bool
  | [], [] => true
  | (k, x) :: xs, (k', y) :: ys => decide (k = k') && Sig.beq x y && Sig.beqKV xs ys
  | _, _ => false
end

instance : BEq Sig := ⟨Sig.beq⟩

mutual
def sig : Node → Sig
  | .mk i s kids =>
    match s.kind with
    | .integer | .string => .sc i.val i.u
    | .slot => sigFirst kids
    | .multi => sigFirst kids          -- MultiValue.value/.u are those of the first member
    | .list => .seq (sigL kids)
    | .array => .seq (sigL kids)
    | .dict | .sparse => .map (sigKV kids)
def sigFirst : List Node → Sig
  | [] => .sc .none []
  | n :: _ => sig n
def sigL : List Node → List Sig
  | [] => []
  | n :: ns => sig n :: sigL ns
def sigKV : List Node → List (Str × Sig)
  | [] => []
  | n :: ns => (n.key, sig n) :: sigKV ns
end

/-- `a == b` on elements: `a.value == b.value and a.u == b.u` -/
def eqv (a b : Node) : Bool := sig a == sig b

mutual
/-- `.value` as a plain Python value -/
def valueOf : Node → Raw
  | .mk i s kids =>
    match s.kind with
    | .integer | .string => (match i.val with | .none => .none | .int n => .int n | .str t => .str t)
    | .slot => valueFirst kids
    | .multi => valueFirst kids
    | .list => .list (valueL kids)
    | .array => .list (valueL kids)
    | .dict | .sparse => .dict (valueKV kids)
def valueFirst : List Node → Raw
  | [] => .none
  | n :: _ => valueOf n
def valueL : List Node → List Raw
  | [] => []
  | n :: ns => valueOf n :: valueL ns
def valueKV : List Node → List (Str × Raw)
  | [] => []
  | n :: ns => (n.key, valueOf n) :: valueKV ns
end

/-- `element.is_empty` -/
def isEmpty (n : Node) : Bool :=
  match n.kind with
  | .integer => n.ni.val == .none && n.ni.u == []
  | .string => (n.ni.val == .none || n.ni.val == .str []) && n.ni.u == []
  | .list | .array | .multi | .sparse => n.kids.isEmpty
  | .dict => false
  | .slot => n.kids.isEmpty

/-! ## scalar adaptation (`Scalar.set` for Integer and String, ASCII inputs) -/

def isSpace (c : Char) : Bool :=
  c == ' ' || (9 ≤ c.toNat && c.toNat ≤ 13) || (28 ≤ c.toNat && c.toNat ≤ 31)

def strip (s : Str) : Str := ((s.dropWhile isSpace).reverse.dropWhile isSpace).reverse

/-- digits with single underscores between them (`int()` grammar) -/
def parseDigits (acc : Nat) (prevDigit : Bool) : List Char → Option Nat
  | [] => if prevDigit then some acc else none
  | c :: cs =>
    if c.isDigit then parseDigits (acc * 10 + (c.toNat - 48)) true cs
    else if c == '_' && prevDigit then
      (match cs with
       | d :: _ => if d.isDigit then parseDigits acc false cs else none
       | [] => none)
    else none

/-- `int(str)` for ASCII text; `none` = ValueError -/
def parseInt (s : Str) : Option Int :=
  match strip s with
  | '-' :: ds => (parseDigits 0 false ds).map (fun n => - (n : Int))
  | '+' :: ds => (parseDigits 0 false ds).map (fun n => (n : Int))
  | ds => (parseDigits 0 false ds).map (fun n => (n : Int))

def intStr (n : Int) : Str := (toString n).toList

/-- `(value, u)` after `Scalar.set(raw)` and whether adaptation succeeded;
    `none`: raw shape outside the model -/
def adaptScalar (k : SKind) (raw : Raw) : Option (Val × Str × Bool) :=
  match k, raw with
  | .integer, .none => some (.none, [], true)
  | .integer, .int n => some (.int n, intStr n, true)
  | .integer, .str s =>
    (match parseInt (strip s) with
     | some n => some (.int n, intStr n, true)
     | none => some (.none, s, false))
  | .string, .none => some (.none, [], true)
  | .string, .int n => some (.str (intStr n), intStr n, true)
  | .string, .str s => some (.str (strip s), strip s, true)
  | _, _ => none

/-- `Scalar.set(element)` — an Element handed where a plain value is expected:
    `String.adapt` takes `str(element) = element.u`; `int(element)` raises TypeError, so an
    Integer records `str(element)` as unadaptable text -/
def adaptElem (k : SKind) (e : Node) : Option (Val × Str × Bool) :=
  match e.kind with
  | .integer | .string =>
    (match k with
     | .string => some (.str (strip e.ni.u), strip e.ni.u, true)
     | .integer => some (.none, e.ni.u, false)
     | _ => none)
  | _ => none

/-! ## construction: `schema(parent=…)` -/

mutual
/-- `schema(parent=p)`, stored under `key`; ids are taken from `next` -/
def blank : Schema → Option Nat → Str → Nat → Node × Nat
  | .mk info dflt subs, parent, key, next =>
    let me : NInfo := { id := next, parent := parent, key := key }
    match info.kind with
    | .dict =>
      let r := blankFields subs next false (next + 1)
      (.mk me (.mk info dflt subs) r.1, r.2)
    | .sparse =>
      if info.minreq then
        let r := blankFields subs next true (next + 1)
        (.mk me (.mk info dflt subs) r.1, r.2)
      else (.mk me (.mk info dflt subs) [], next + 1)
    | _ => (.mk me (.mk info dflt subs) [], next + 1)
/-- `_reset()`: one blank child per field (`onlyRequired`: SparseDict with
    minimum_fields='required' skips optional fields) -/
def blankFields : List Schema → Nat → Bool → Nat → List Node × Nat
  | [], _, _, next => ([], next)
  | f :: fs, pid, onlyRequired, next =>
    if onlyRequired && f.info.optional then blankFields fs pid onlyRequired next
    else
      let r := blank f (some pid) f.key next
      let rs := blankFields fs pid onlyRequired r.2
      (r.1 :: rs.1, rs.2)
end

/-- result of an element-level mutator: the element afterwards (also when it raised), the id
    counter, and what the call returned / raised -/
structure SetR where
  node : Node
  next : Nat
  res : Except Exc Bool
  deriving Inhabited

/-- `_renumber()` -/
def renumberFrom : Nat → List Node → List Node
  | _, [] => []
  | k, s :: ss => s.withKey (toString k).toList :: renumberFrom (k + 1) ss

def renumber (slots : List Node) : List Node := renumberFrom 0 slots

/-- `ListSlot(name, parent=lst, element)`: wires `element.parent = slot` -/
def mkSlot (id : Nat) (lst : Nat) (name : Nat) (el : Node) : Node :=
  .mk { id := id, parent := some lst, key := (toString name).toList } slotSchema
    [el.withParent (some id)]

/-- `self.extend(values)` for already built elements: a List wraps each in a new slot named by
    the current length, an Array sets `parent` -/
def attachAll (lst : Node) : List Node → Nat → Node × Nat
  | [], next => (lst, next)
  | e :: es, next =>
    if lst.kind = .list then
      attachAll (lst.withKids (lst.kids ++ [mkSlot next lst.id lst.kids.length e])) es (next + 1)
    else
      attachAll (lst.withKids (lst.kids ++ [e.withParent (some lst.id)])) es next

/-- keys of `pairs` not declared / declared keys not given (Dict policies) -/
def keysOf (kvs : List (Str × Raw)) : List Str := kvs.map (·.1)

def policyCheck (p : Policy) (subs : List Schema) (kvs : List (Str × Raw)) : Except Exc Unit :=
  let declared := subs.map Schema.key
  let given := keysOf kvs
  let extra := given.filter (fun k => !declared.contains k)
  let missing := declared.filter (fun k => !given.contains k)
  match p with
  | .strict =>
    if !missing.isEmpty && !extra.isEmpty then .error .keyError
    else if !missing.isEmpty then .error .typeError
    else if !extra.isEmpty then .error .keyError
    else .ok ()
  | .subset => if !extra.isEmpty then .error .keyError else .ok ()
  | _ => .ok ()

/-- replace the child stored under `key` (dict assignment to an existing key keeps its place) -/
def replaceKid (kids : List Node) (key : Str) (new : Node) : List Node :=
  kids.map (fun k => if k.key == key then new else k)

def findKid (kids : List Node) (key : Str) : Option Node := kids.find? (fun k => k.key == key)

/-- `to_pairs(value)` for the raw shapes of the model: `some (some kvs)` = pairs, `some none` =
    not dict-like (TypeError/ValueError inside `to_pairs`), `none` = outside the model -/
def toPairs : Raw → Option (Option (List (Str × Raw)))
  | .dict kvs => some (some kvs)
  | .pairs kvs => some (some kvs)
  | .list [] => some (some [])
  | .none => some none
  | .int _ => some none
  | .str [] => some (some [])
  | .str (_ :: _) => some none       -- a character cannot be unpacked into (key, value)
  | .list (_ :: _) => none

/-- the part of `Dict.set` between `to_pairs` and the loop: `_reset()`, then the policy
    (which raises *after* the reset) -/
def dictPrep (i : NInfo) (s : Schema) (kvs : List (Str × Raw)) (pol : Option Policy) (next : Nat) :
    Except SetR (List Node × Nat) :=
  let r : List Node × Nat :=
    if s.kind = .dict then blankFields s.subs i.id false next
    else if s.info.minreq then blankFields s.subs i.id true next
    else ([], next)
  match policyCheck (pol.getD s.info.policy) s.subs kvs with
  | .error e => .error ⟨.mk i s r.1, r.2, .error e⟩
  | .ok () => .ok r

mutual
/-- `element.set(raw)` -/
def setNode : Node → Raw → Option Policy → Nat → SetR
  | .mk i s kids, raw, pol, next =>
    match s.kind with
    | .integer | .string =>
      (match adaptScalar s.kind raw with
       | some (v, u, ok) => ⟨.mk { i with val := v, u := u } s kids, next, .ok ok⟩
       | none => ⟨.mk i s kids, next, .error .unsupported⟩)
    | .slot => ⟨.mk i s kids, next, .error .unsupported⟩
    | .list | .array | .multi =>
      -- Sequence.set: `del self[:]`, build the members, `self.extend(values)`;
      -- TypeError (not iterable / raised by a member) is swallowed, anything else escapes
      let emptied : Node := .mk i s []
      (match s.member with
       | none => ⟨emptied, next, .error .unsupported⟩
       | some m =>
         match raw with
         | .list xs =>
           let r := buildItems m xs next
           (match r.2.2 with
            | .ok conv => let a := attachAll emptied r.1 r.2.1; ⟨a.1, a.2, .ok conv⟩
            | .error .typeError => ⟨emptied, r.2.1, .ok false⟩
            | .error e => ⟨emptied, r.2.1, .error e⟩)
         | .none => ⟨emptied, next, .ok false⟩
         | .int _ => ⟨emptied, next, .ok false⟩
         | _ => ⟨emptied, next, .error .unsupported⟩)
    | .dict | .sparse =>
      -- Dict.set(value, policy): `to_pairs`, `_reset()`, the policy, the loop over pairs
      (match raw with
       | .dict kvs =>
         (match dictPrep i s kvs pol next with
          | .error r => r
          | .ok (fresh, next1) =>
            let q := setPairs i.id s.subs fresh kvs next1
            ⟨.mk i s q.1, q.2.1, q.2.2⟩)
       | .pairs kvs =>
         (match dictPrep i s kvs pol next with
          | .error r => r
          | .ok (fresh, next1) =>
            let q := setPairs i.id s.subs fresh kvs next1
            ⟨.mk i s q.1, q.2.1, q.2.2⟩)
       | .list [] | .str [] =>
         (match dictPrep i s [] pol next with
          | .error r => r
          | .ok (fresh, next1) => ⟨.mk i s fresh, next1, .ok true⟩)
       | .none => ⟨.mk i s kids, next, .ok false⟩
       | .int _ => ⟨.mk i s kids, next, .ok false⟩
       | .str (_ :: _) => ⟨.mk i s kids, next, .ok false⟩
       | .list (_ :: _) => ⟨.mk i s kids, next, .error .unsupported⟩)
/-- the `for v in iterable` loop of `Sequence.set`: `el = member_schema(); el.set(v)` -/
def buildItems : Schema → List Raw → Nat → List Node × Nat × Except Exc Bool
  | _, [], next => ([], next, .ok true)
  | m, x :: xs, next =>
    let b := blank m none [] next
    let r := setNode b.1 x none b.2
    match r.res with
    | .error e => ([], r.next, .error e)
    | .ok c =>
      let rest := buildItems m xs r.next
      (match rest.2.2 with
       | .error e => ([], rest.2.1, .error e)
       | .ok c' => (r.node :: rest.1, rest.2.1, .ok (c && c')))
/-- the `for key, value in pairs` loop of `Dict.set` over the current children -/
def setPairs : Nat → List Schema → List Node → List (Str × Raw) → Nat → List Node × Nat × Except Exc Bool
  | _, _, kids, [], next => (kids, next, .ok true)
  | pid, subs, kids, (k, v) :: rest, next =>
    match fieldFor subs k with
    | none => setPairs pid subs kids rest next          -- `if key not in fields: continue`
    | some f =>
      match findKid kids k with
      | some child =>
        let r := setNode child v none next
        (match r.res with
         | .error e => (replaceKid kids k r.node, r.next, .error e)
         | .ok c =>
           let q := setPairs pid subs (replaceKid kids k r.node) rest r.next
           (q.1, q.2.1, q.2.2.map (fun c' => c && c')))
      | none =>
        -- `self[key] = el = fields[key]()` (SparseDict.__setitem__ places it), `el.set(value)`
        let b := blank f none k next
        let el := b.1.withParent (some pid)
        let r := setNode el v none b.2
        (match r.res with
         | .error e => (kids ++ [r.node], r.next, .error e)
         | .ok c =>
           let q := setPairs pid subs (kids ++ [r.node]) rest r.next
           (q.1, q.2.1, q.2.2.map (fun c' => c && c')))
end

/-- `schema(value, parent=p)` / `schema(value=value)`: construct, then `set(value)`;
    exceptions of `set` escape the constructor (no element exists then) -/
def construct (s : Schema) (raw : Raw) (parent : Option Nat) (key : Str) (next : Nat) :
    Except Exc Node × Nat :=
  let b := blank s parent key next
  let r := setNode b.1 raw none b.2
  match r.res with
  | .ok _ => (.ok r.node, r.next)
  | .error e => (.error e, r.next)

/-! ## defaults -/

/-- `for _ in range(default): slot = self._new_slot(); list.append(self, slot);
    slot.element.set_default()`; `mk next` is `member_schema.from_defaults()` -/
def defaultSlotsWith (mk : Nat → SetR) (lst : Nat) : Nat → Nat → Nat → List Node × Nat × Except Exc Bool
  | 0, _, next => ([], next, .ok true)
  | k + 1, idx, next =>
    let r := mk (next + 1)
    let slot := mkSlot next lst idx r.node
    match r.res with
    | .error e => ([slot], r.next, .error e)
    | .ok _ =>
      let rest := defaultSlotsWith mk lst k (idx + 1) r.next
      (slot :: rest.1, rest.2.1, rest.2.2)

mutual
/-- `schema.from_defaults()` = `el = schema(parent=p); el.set_default()` -/
def fromDefaults : Schema → Option Nat → Str → Nat → SetR
  | .mk info dflt subs, parent, key, next =>
    let b := blank (.mk info dflt subs) parent key next
    match info.kind with
    | .integer | .string => setNode b.1 dflt none b.2     -- `self.set(default)` (None included)
    | .slot => ⟨b.1, b.2, .error .unsupported⟩
    | .list =>
      (match dflt with
       | .none => ⟨b.1, b.2, .ok true⟩
       | .int k =>
         (match subs with
          | m :: _ =>
            let r := defaultSlotsWith (fun nx => fromDefaults m none [] nx) b.1.id k.toNat 0 b.2
            ⟨b.1.withKids r.1, r.2.1, r.2.2⟩
          | [] => ⟨b.1, b.2, .error .unsupported⟩)
       | d => setNode b.1 d none b.2)
    | .array | .multi =>
      (match dflt with
       | .none => ⟨b.1, b.2, .ok true⟩
       | .list xs =>
         (match subs with
          | m :: _ =>
            let r := buildItems m xs b.2      -- `extend(default)`: each value wrapped by `member_schema(value=v)`
            (match r.2.2 with
             | .ok _ => let a := attachAll b.1 r.1 r.2.1; ⟨a.1, a.2, .ok true⟩
             | .error _ => ⟨b.1, r.2.1, .error .unsupported⟩)
          | [] => ⟨b.1, b.2, .error .unsupported⟩)
       | _ => ⟨b.1, b.2, .error .unsupported⟩)
    | .dict =>
      (match dflt with
       | .none =>
         let r := defaultFields subs b.1.id false b.2
         ⟨b.1.withKids r.1, r.2.1, r.2.2⟩
       | d => setNode b.1 d none b.2)
    | .sparse =>
      (match dflt with
       | .none =>
         if info.minreq then
           let r := defaultFields subs b.1.id true b.2
           ⟨b.1.withKids r.1, r.2.1, r.2.2⟩
         else ⟨b.1.withKids [], b.2, .ok true⟩
       | d => setNode b.1 d none b.2)
/-- `for child in self.children: child.set_default()` over freshly reset children -/
def defaultFields : List Schema → Nat → Bool → Nat → List Node × Nat × Except Exc Bool
  | [], _, _, next => ([], next, .ok true)
  | f :: fs, pid, onlyRequired, next =>
    if onlyRequired && f.info.optional then defaultFields fs pid onlyRequired next
    else
      let r := fromDefaults f (some pid) f.key next
      match r.res with
      | .error e =>
        -- Dict: `child.set_default()` raised inside the existing child, which keeps what was done;
        -- SparseDict ('required'): `self[name] = schema.from_defaults()` never happened, the blank
        -- child placed by `_reset()` stays
        let kept := if onlyRequired then (blank f (some pid) f.key r.next) else (r.node, r.next)
        let rest := blankFields fs pid onlyRequired kept.2
        (kept.1 :: rest.1, rest.2, .error e)
      | .ok _ =>
        let rest := defaultFields fs pid onlyRequired r.next
        (r.node :: rest.1, rest.2.1, rest.2.2)
end

mutual
/-- `element.set_default()` on an existing element -/
def setDefault : Node → Nat → SetR
  | .mk i s kids, next =>
    match s.kind with
    | .integer | .string => setNode (.mk i s kids) s.dflt none next
    | .slot => ⟨.mk i s kids, next, .error .unsupported⟩
    | .list =>
      (match s.dflt with
       | .none => ⟨.mk i s kids, next, .ok true⟩
       | .int k =>
         (match s.member with
          | some m =>
            let r := defaultSlotsWith (fun nx => fromDefaults m none [] nx) i.id k.toNat 0 next
            ⟨.mk i s r.1, r.2.1, r.2.2⟩
          | none => ⟨.mk i s kids, next, .error .unsupported⟩)
       | d => setNode (.mk i s kids) d none next)
    | .array | .multi =>
      (match s.dflt with
       | .none => ⟨.mk i s kids, next, .ok true⟩
       | .list xs =>
         (match s.member with
          | some m =>
            let r := buildItems m xs next
            (match r.2.2 with
             | .ok _ => let a := attachAll (.mk i s []) r.1 r.2.1; ⟨a.1, a.2, .ok true⟩
             | .error _ => ⟨.mk i s [], r.2.1, .error .unsupported⟩)
          | none => ⟨.mk i s kids, next, .error .unsupported⟩)
       | _ => ⟨.mk i s kids, next, .error .unsupported⟩)
    | .dict =>
      (match s.dflt with
       | .none =>
         let r := setDefaultKids kids next
         ⟨.mk i s r.1, r.2.1, r.2.2⟩
       | d => setNode (.mk i s kids) d none next)
    | .sparse =>
      (match s.dflt with
       | .none =>
         if s.info.minreq then
           -- `_reset()`, then `self[name] = schema.from_defaults()` for every required field
           let r := defaultFields s.subs i.id true next
           ⟨.mk i s r.1, r.2.1, r.2.2⟩
         else ⟨.mk i s [], next, .ok true⟩
       | d => setNode (.mk i s kids) d none next)
def setDefaultKids : List Node → Nat → List Node × Nat × Except Exc Bool
  | [], next => ([], next, .ok true)
  | k :: ks, next =>
    let r := setDefault k next
    match r.res with
    | .error e => (r.node :: ks, r.next, .error e)
    | .ok _ =>
      let rest := setDefaultKids ks r.next
      (r.node :: rest.1, rest.2.1, rest.2.2)
end

/-! ## operations -/

/-- an argument of a list/dict-protocol call: a plain value or an Element -/
inductive Arg | plain (r : Raw) | elem (e : Node)
  deriving Repr, Inhabited

inductive SortKey
  | u       -- `lambda e: e.u`
  | ulen    -- `lambda e: len(e.u)`
  | len     -- `lambda e: len(e)` (sequence members): only a MEMBER has a length, a ListSlot has none
  | field   -- `lambda e: e[<first field>].u` (Dict members): only a member can be subscripted
  deriving DecidableEq, Repr, Inhabited

inductive SeqOp
  | append (a : Arg) | extend (as : List Arg) | iadd (as : List Arg)
  | insert (i : Int) (a : Arg)
  | setitem (i : Int) (a : Arg) | setslice (s : Slice) (as : List Arg)
  | delitem (i : Int) | delslice (s : Slice)
  | pop (i : Option Int) | remove (a : Arg)
  | reverse | sort (key : Option SortKey) (rev : Bool)
  | clear                  -- `list.clear` (not overridden)
  | imul (count : Int)     -- `seq *= count` (`Sequence.__imul__`)
  | set (r : Raw) | setDefault
  | len | getitem (i : Int) | getslice (s : Slice)
  | contains (a : Arg) | index (a : Arg) | count (a : Arg)
  deriving Repr, Inhabited

inductive MapOp
  | setitem (k : Str) (a : Arg) | delitem (k : Str) | pop (k : Str) | popitem | clear
  | update (pos : Option Raw) (kw : List (Str × Raw)) | ior (r : Raw)
  | updateArgs (kvs : List (Str × Arg))   -- update({k: v}) / update(k=v) / update([(k, v)]) / `|=` whose values may be Elements
  | setdefault (k : Str) (d : Raw) | get (k : Str)
  | set (r : Raw) (policy : Option (Option Policy)) | setDefault
  | contains (k : Str) | len
  deriving Repr, Inhabited

/-- what a call returned -/
inductive Out
  | ok                       -- returned None (or a value nobody observes)
  | exc (e : Exc)
  | nat (n : Nat) | bool (b : Bool)
  | node (n : Node)          -- an element (getitem, pop, get)
  | nodes (ns : List Node)   -- a list of elements (slice)
  | value (r : Raw)          -- a plain value (setdefault)
  deriving Repr, Inhabited

structure StepR where
  node : Node
  next : Nat
  out : Out
  detached : List Node := []    -- elements that left the container in this call
  deriving Inhabited

/-- `member_schema(value=v)` for a plain value, the Element itself otherwise -/
def wrap (m : Schema) (a : Arg) (next : Nat) : Except Exc Node × Nat :=
  match a with
  | .elem e => (.ok e, next)
  | .plain r => construct m r none [] next

/-- wrap every item of an iterable in order; the first exception escapes -/
def wrapAll (m : Schema) : List Arg → Nat → Except Exc (List Node) × Nat
  | [], next => (.ok [], next)
  | a :: as, next =>
    match wrap m a next with
    | (.error e, n1) => (.error e, n1)
    | (.ok w, n1) =>
      match wrapAll m as n1 with
      | (.error e, n2) => (.error e, n2)
      | (.ok ws, n2) => (.ok (w :: ws), n2)

/-- the text a sort key reads: `.u` of a scalar -/
def sigU : Sig → Str
  | .sc _ u => u
  | _ => []

/-- `len(e)` of a sequence member, read off its structure -/
def sigLen : Sig → Nat
  | .seq xs => xs.length
  | _ => 0

/-- `e[<first field>].u` of a Dict member, read off its structure -/
def sigFieldU : Sig → Str
  | .map ((_, s) :: _) => sigU s
  | _ => []

/-- `key(a) <= key(b)` (`>=` under `reverse=True`) on the `(value, u)` of two items -/
def sigLe (key : SortKey) (rev : Bool) (a b : Sig) : Bool :=
  match key, rev with
  | .u, false => strLe (sigU a) (sigU b)
  | .u, true => strLe (sigU b) (sigU a)
  | .ulen, false => (sigU a).length ≤ (sigU b).length
  | .ulen, true => (sigU b).length ≤ (sigU a).length
  | .len, false => sigLen a ≤ sigLen b
  | .len, true => sigLen b ≤ sigLen a
  | .field, false => strLe (sigFieldU a) (sigFieldU b)
  | .field, true => strLe (sigFieldU b) (sigFieldU a)

def sortLe (key : SortKey) (rev : Bool) (a b : Node) : Bool := sigLe key rev (sig a) (sig b)

/-- is every member a scalar (so that the text keys of the model are defined)? -/
def scalarMembers (n : Node) : Bool :=
  (members n).all (fun m => m.kind == .integer || m.kind == .string)

/-- the items of the underlying list define no ordering: slots never do, elements do not unless
    they are sequences (which inherit `list.__lt__`) -/
def noOrderItems (n : Node) : Bool :=
  decide (n.kind = .list) ||
    n.kids.all (fun x => !(x.kind == .list || x.kind == .array || x.kind == .multi))

/-- does the key function of the model apply to an item of this structure? -/
def sigKeyOK : SortKey → Sig → Bool
  | .u, .sc _ _ => true
  | .ulen, .sc _ _ => true
  | .len, .seq _ => true
  | .field, .map ((_, .sc _ _) :: _) => true
  | _, _ => false

/-- the sort keys of the model are defined on every item (a MultiValue member shows its first
    member as `(value, u)`, but `len()` counts all its members: no `len` key there) -/
def sortGate (k : SortKey) (n : Node) : Bool :=
  (n.kids.map sig).all (sigKeyOK k) &&
    (decide (k ≠ .len) || (members n).all (fun x => !(x.kind == .multi)))

/-- `List.append` / `Sequence.append` for an already wrapped element -/
def appendEl (n : Node) (w : Node) (next : Nat) : Node × Nat :=
  if n.kind = .list then
    (n.withKids (n.kids ++ [mkSlot next n.id n.kids.length w]), next + 1)
  else (n.withKids (n.kids ++ [w.withParent (some n.id)]), next)

/-- `extend(iterable)`: `for v in iterable: self.append(v)` — items before a raising one stay -/
def extendArgs (m : Schema) : Node → List Arg → Nat → Node × Nat × Option Exc
  | n, [], next => (n, next, none)
  | n, a :: as, next =>
    match wrap m a next with
    | (.error e, n1) => (n, n1, some e)
    | (.ok w, n1) =>
      let r := appendEl n w n1
      extendArgs m r.1 as r.2

mutual
/-- `_replica_value(element)` (containers.py): a plain value that rebuilds the element's state when
    set on a fresh one — like `.value`, except that EVERY member of a sequence is kept (a
    MultiValue's value is its first member only) and that a scalar holding unadaptable text
    contributes that text -/
def replicaValue : Node → Raw
  | .mk i s kids =>
    match s.kind with
    | .integer | .string =>
      (match i.val with
       | .none => if i.u.isEmpty then .none else .str i.u
       | .int n => .int n
       | .str t => .str t)
    | .slot => replicaFirst kids
    | .list | .array | .multi => .list (replicaL kids)     -- a List's slot is read through to its element
    | .dict | .sparse => .dict (replicaKV kids)
def replicaFirst : List Node → Raw
  | [] => .none
  | n :: _ => replicaValue n
def replicaL : List Node → List Raw
  | [] => []
  | n :: ns => replicaValue n :: replicaL ns
def replicaKV : List Node → List (Str × Raw)
  | [] => []
  | n :: ns => (n.key, replicaValue n) :: replicaKV ns
end

/-- the value `Sequence.__imul__` re-feeds for a member -/
def imulValue (m : Node) : Raw := replicaValue m

/-- `for _ in range(count - 1): self.extend(values)` -/
def imulLoop (m : Schema) (vals : List Arg) : Nat → Node → Nat → Node × Nat × Option Exc
  | 0, n, next => (n, next, none)
  | k + 1, n, next =>
    match extendArgs m n vals next with
    | (n', nx, some e) => (n', nx, some e)
    | (n', nx, none) => imulLoop m vals k n' nx

/-- new slots for a List slice assignment: every `_new_slot` sees the same `len(self)` -/
def newSlots (lst : Nat) (len : Nat) : List Node → Nat → List Node × Nat
  | [], next => ([], next)
  | w :: ws, next =>
    let r := newSlots lst len ws (next + 1)
    (mkSlot next lst len w :: r.1, r.2)

/-- the element held by a slot -/
def slotElement (s : Node) : Option Node := s.kids.head?

def excOut (n : Node) (next : Nat) (e : Exc) : StepR := ⟨n, next, .exc e, []⟩

/-- one list-protocol call on a List / Array / MultiValue element -/
def seqStep (n : Node) (op : SeqOp) (next : Nat) : StepR :=
  match n.sch.member with
  | none => excOut n next .unsupported
  | some m =>
  let isList := n.kind = .list
  match op with
  | .append a =>
    (match wrap m a next with
     | (.error e, n1) => excOut n n1 e
     | (.ok w, n1) => let r := appendEl n w n1; ⟨r.1, r.2, .ok, []⟩)
  | .extend as | .iadd as =>
    let r := extendArgs m n as next
    (match r.2.2 with
     | some e => excOut r.1 r.2.1 e
     | none => ⟨r.1, r.2.1, .ok, []⟩)
  | .insert i a =>
    (match wrap m a next with
     | (.error e, n1) => excOut n n1 e
     | (.ok w, n1) =>
       if isList then
         let slot := mkSlot n1 n.id n.kids.length w
         ⟨n.withKids (renumber (insertAt n.kids i slot)), n1 + 1, .ok, []⟩
       else ⟨n.withKids (insertAt n.kids i (w.withParent (some n.id))), n1, .ok, []⟩)
  | .setitem i a =>
    if isList then
      (match a with
       | .elem e =>
         -- `slot = list.__getitem__(self, index); slot.element = value; value.parent = slot`
         (match getItem n.kids i with
          | none => excOut n next .indexError
          | some slot =>
            match normIndex n.kids.length i with
            | none => excOut n next .indexError
            | some k =>
              ⟨n.withKids (n.kids.set k (slot.withKids [e.withParent (some slot.id)])), next, .ok,
                slot.kids⟩)
       | .plain r =>
         -- `self[index].set(value)`: the member is set in place
         (match getItem n.kids i, normIndex n.kids.length i with
          | some slot, some k =>
            (match slotElement slot with
             | none => excOut n next .unsupported
             | some el =>
               let s := setNode el r none next
               let n' := n.withKids (n.kids.set k (slot.withKids [s.node]))
               match s.res with
               | .ok _ => ⟨n', s.next, .ok, []⟩
               | .error e => excOut n' s.next e)
          | _, _ => excOut n next .indexError))
    else
      (match wrap m a next with
       | (.error e, n1) => excOut n n1 e
       | (.ok w, n1) =>
         -- `value.parent = self` precedes `list.__setitem__`, which may raise IndexError
         match normIndex n.kids.length i with
         | none => excOut n n1 .indexError
         | some k =>
           ⟨n.withKids (n.kids.set k (w.withParent (some n.id))), n1, .ok,
             (n.kids[k]?).toList⟩)
  | .setslice s as =>
    (match wrapAll m as next with
     | (.error e, n1) => excOut n n1 e
     | (.ok ws, n1) =>
       if isList then
         let sl := newSlots n.id n.kids.length ws n1
         (match setSlice n.kids s sl.1 with
          | .error e => excOut n sl.2 e
          | .ok kids' =>
            ⟨n.withKids (renumber kids'), sl.2, .ok,
              (match adjust n.kids.length s with
               | some ix =>
                 if ix.step = 1 then
                   (n.kids.drop ix.start.toNat).take ((max ix.start ix.stop).toNat - ix.start.toNat)
                 else pickIdxsFrom (indices ix) 0 n.kids
               | none => [])⟩)
       else
         let ws' := ws.map (fun w => w.withParent (some n.id))
         (match setSlice n.kids s ws' with
          | .error e => excOut n n1 e
          | .ok kids' =>
            ⟨n.withKids kids', n1, .ok,
              (match adjust n.kids.length s with
               | some ix =>
                 if ix.step = 1 then
                   (n.kids.drop ix.start.toNat).take ((max ix.start ix.stop).toNat - ix.start.toNat)
                 else pickIdxsFrom (indices ix) 0 n.kids
               | none => [])⟩))
  | .delitem i =>
    (match delItem n.kids i, normIndex n.kids.length i with
     | some kids', some k =>
       ⟨n.withKids (if isList then renumber kids' else kids'), next, .ok, (n.kids[k]?).toList⟩
     | _, _ => excOut n next .indexError)
  | .delslice s =>
    (match delSlice n.kids s with
     | .error e => excOut n next e
     | .ok kids' =>
       ⟨n.withKids (if isList then renumber kids' else kids'), next, .ok, delSliceRemoved n.kids s⟩)
  | .pop i =>
    (match popAt n.kids (i.getD (-1)) with
     | none => excOut n next .indexError
     | some (x, kids') =>
       if isList then
         -- `value = list.pop(self, index); self._renumber(); value.parent = None; return value`
         let x' := x.withParent none
         ⟨n.withKids (renumber kids'), next, .node x', [x']⟩
       else ⟨n.withKids kids', next, .node x, [x]⟩)
  | .remove a =>
    (match wrap m a next with
     | (.error e, n1) => excOut n n1 e
     | (.ok w, n1) =>
       match n.kids.findIdx? (fun x => eqv x w) with
       | none => excOut n n1 .valueError
       | some k =>
         let kids' := n.kids.eraseIdx k
         ⟨n.withKids (if isList then renumber kids' else kids'), n1, .ok, (n.kids[k]?).toList⟩)
  | .reverse =>
    ⟨n.withKids (if isList then renumber n.kids.reverse else n.kids.reverse), next, .ok, []⟩
  | .sort key rev =>
    (match key with
     | none =>
       -- elements (and slots) define no ordering: any comparison raises TypeError — except that
       -- List / Array / MultiValue members ARE Python lists and compare as such (outside the model)
       if n.kids.length ≤ 1 then ⟨n, next, .ok, []⟩
       else if noOrderItems n then excOut n next .typeError
       else excOut n next .unsupported
     | some k =>
       if sortGate k n then
         let kids' := sortBy (sortLe k rev) n.kids
         ⟨n.withKids (if isList then renumber kids' else kids'), next, .ok, []⟩
       else excOut n next .unsupported)
  | .clear => ⟨n.withKids [], next, .ok, n.kids⟩
  | .imul count =>
    if count ≤ 0 then
      -- `del self[:]`
      ⟨n.withKids (if isList then renumber [] else []), next, .ok, n.kids⟩
    else
      let vals := (members n).map (fun x => Arg.plain (imulValue x))
      let r := imulLoop m vals (count.toNat - 1) n next
      (match r.2.2 with
       | some e => excOut r.1 r.2.1 e
       | none => ⟨r.1, r.2.1, .ok, []⟩)
  | .set r =>
    let s := setNode n r none next
    (match s.res with
     | .ok b => ⟨s.node, s.next, .bool b, n.kids⟩
     | .error e => ⟨s.node, s.next, .exc e, n.kids⟩)
  | .setDefault =>
    let s := setDefault n next
    (match s.res with
     | .ok _ => ⟨s.node, s.next, .ok, []⟩
     | .error e => ⟨s.node, s.next, .exc e, []⟩)
  | .len => ⟨n, next, .nat n.kids.length, []⟩
  | .getitem i =>
    (match getItem n.kids i with
     | none => excOut n next .indexError
     | some x =>
       if isList then
         (match slotElement x with
          | some el => ⟨n, next, .node el, []⟩
          | none => excOut n next .unsupported)
       else ⟨n, next, .node x, []⟩)
  | .getslice s =>
    (match getSlice n.kids s with
     | .error e => excOut n next e
     | .ok xs => ⟨n, next, .nodes (if isList then xs.flatMap Node.kids else xs), []⟩)
  | .contains a =>
    (match wrap m a next with
     | (.error e, n1) => excOut n n1 e
     | (.ok w, n1) => ⟨n, n1, .bool (containsBy (fun x => eqv x w) n.kids), []⟩)
  | .index a =>
    (match wrap m a next with
     | (.error e, n1) => excOut n n1 e
     | (.ok w, n1) =>
       match indexOf (fun x => eqv x w) n.kids with
       | none => excOut n n1 .valueError
       | some k => ⟨n, n1, .nat k, []⟩)
  | .count a =>
    (match wrap m a next with
     | (.error e, n1) => excOut n n1 e
     | (.ok w, n1) => ⟨n, n1, .nat (countOf (fun x => eqv x w) n.kids), []⟩)

/-! ### mappings -/

/-- `isinstance(value, schema)` -/
def isInstance (e : Node) (f : Schema) : Bool :=
  e.sch.info.cid == f.info.cid || e.sch.info.isa.contains f.info.cid

/-- `child.set(arg)` for a child of a mapping -/
def setChild (child : Node) (a : Arg) (next : Nat) : SetR :=
  match a with
  | .plain r => setNode child r none next
  | .elem e =>
    match adaptElem child.kind e with
    | some (v, u, ok) => ⟨child.withScalar v u, next, .ok ok⟩
    | none => ⟨child, next, .error .unsupported⟩

def eraseKey (kids : List Node) (key : Str) : List Node := kids.filter (fun k => !(k.key == key))

/-- `SparseDict.__setitem__` / `Mapping.__setitem__` -/
def mapSetItem (n : Node) (key : Str) (a : Arg) (next : Nat) : StepR :=
  if n.kind = .sparse then
    let schema := fieldFor n.sch.subs key
    match findKid n.kids key with
    | none =>
      (match schema with
       | none => excOut n next .typeError
       | some f =>
         match a with
         | .elem e =>
           if isInstance e f then
             ⟨n.withKids (n.kids ++ [(e.withParent (some n.id)).withKey key]), next, .ok, []⟩
           else
             -- `schema(value, parent=self)` with an Element as the value
             let b := blank f (some n.id) key next
             (match adaptElem f.kind e with
              | some (v, u, _) => ⟨n.withKids (n.kids ++ [b.1.withScalar v u]), b.2, .ok, []⟩
              | none => excOut n next .unsupported)
         | .plain r =>
           (match construct f r (some n.id) key next with
            | (.error e, n1) => excOut n n1 e
            | (.ok el, n1) => ⟨n.withKids (n.kids ++ [el]), n1, .ok, []⟩))
    | some child =>
      (match schema, a with
       | none, _ => excOut n next .unsupported      -- present but undeclared: unreachable under MapInv
       | some f, .elem e =>
         if isInstance e f then
           ⟨n.withKids (replaceKid n.kids key ((e.withParent (some n.id)).withKey key)), next, .ok,
             [child]⟩
         else
           let s := setChild child a next
           (match s.res with
            | .ok _ => ⟨n.withKids (replaceKid n.kids key s.node), s.next, .ok, []⟩
            | .error e => excOut (n.withKids (replaceKid n.kids key s.node)) s.next e)
       | some _, .plain _ =>
         let s := setChild child a next
         (match s.res with
          | .ok _ => ⟨n.withKids (replaceKid n.kids key s.node), s.next, .ok, []⟩
          | .error e => excOut (n.withKids (replaceKid n.kids key s.node)) s.next e))
  else
    match findKid n.kids key with
    | none => excOut n next .typeError
    | some child =>
      let s := setChild child a next
      (match s.res with
       | .ok _ => ⟨n.withKids (replaceKid n.kids key s.node), s.next, .ok, []⟩
       | .error e => excOut (n.withKids (replaceKid n.kids key s.node)) s.next e)

/-- `update()`'s loop: `self[key] = value` for every pair, stopping at the first exception -/
def mapUpdatePairs : Node → List (Str × Raw) → Nat → StepR
  | n, [], next => ⟨n, next, .ok, []⟩
  | n, (k, v) :: rest, next =>
    let r := mapSetItem n k (.plain v) next
    match r.out with
    | .exc e => excOut r.node r.next e
    | _ => mapUpdatePairs r.node rest r.next

/-- `update()`'s loop when the values may be Elements: `self[key] = value` for every pair -/
def mapUpdateArgs : Node → List (Str × Arg) → Nat → StepR
  | n, [], next => ⟨n, next, .ok, []⟩
  | n, (k, a) :: rest, next =>
    let r := mapSetItem n k a next
    match r.out with
    | .exc e => ⟨r.node, r.next, .exc e, r.detached⟩
    | _ =>
      let q := mapUpdateArgs r.node rest r.next
      ⟨q.node, q.next, q.out, r.detached ++ q.detached⟩

/-- `_reset()` on an existing mapping -/
def mapReset (n : Node) (next : Nat) : Node × Nat :=
  if n.kind = .dict then
    let r := blankFields n.sch.subs n.id false next
    (n.withKids r.1, r.2)
  else if n.sch.info.minreq then
    let r := blankFields n.sch.subs n.id true next
    (n.withKids r.1, r.2)
  else (n.withKids [], next)

/-- `field.optional` as `SparseDict.__delitem__` / `pop` read it -/
def keyOptional (n : Node) (key : Str) : Option Bool :=
  -- `schema = self._field_schema_for(key)`: the FIELD decides; only for an undeclared key that
  -- is nevertheless present is the member asked (`self[key].optional`)
  match fieldFor n.sch.subs key with
  | some f => some f.info.optional
  | none => (findKid n.kids key).map Node.optional

/-- one dict-protocol call on a Dict / SparseDict element -/
def mapStep (n : Node) (op : MapOp) (next : Nat) : StepR :=
  let sparse := n.kind = .sparse
  let present (k : Str) : Bool := (findKid n.kids k).isSome
  let declared (k : Str) : Bool := (fieldFor n.sch.subs k).isSome
  match op with
  | .setitem k a => mapSetItem n k a next
  | .delitem k =>
    if !sparse then
      (if present k then excOut n next .typeError else excOut n next .keyError)
    else if !n.sch.info.minreq then
      (if present k then ⟨n.withKids (eraseKey n.kids k), next, .ok, (findKid n.kids k).toList⟩
       else if declared k then excOut n next .keyError else excOut n next .typeError)
    else
      (match keyOptional n k with
       | none => excOut n next .typeError
       | some false => excOut n next .typeError
       | some true =>
         if present k then ⟨n.withKids (eraseKey n.kids k), next, .ok, (findKid n.kids k).toList⟩
         else excOut n next .keyError)
  | .pop k =>
    if !present k then excOut n next .keyError
    else if !sparse then excOut n next .typeError
    else if n.sch.info.minreq && keyOptional n k == some false then excOut n next .typeError
    else
      (match findKid n.kids k with
       | some c => ⟨n.withKids (eraseKey n.kids k), next, .node c, [c]⟩
       | none => excOut n next .keyError)
  | .popitem => if sparse then excOut n next .notImplemented else excOut n next .typeError
  | .clear =>
    if sparse then let r := mapReset n next; ⟨r.1, r.2, .ok, n.kids⟩
    else excOut n next .typeError
  | .update pos kw =>
    (match pos with
     | none => mapUpdatePairs n kw next
     | some raw =>
       match toPairs raw with
       | none => excOut n next .unsupported
       | some none => excOut n next (match raw with | .str _ => .valueError | _ => .typeError)
       | some (some kvs) =>
         let r := mapUpdatePairs n kvs next
         match r.out with
         | .exc e => excOut r.node r.next e
         | _ => mapUpdatePairs r.node kw r.next)
  | .updateArgs kvs => mapUpdateArgs n kvs next
  | .ior raw =>
    (match toPairs raw with
     | none => excOut n next .unsupported
     | some none => excOut n next (match raw with | .str _ => .valueError | _ => .typeError)
     | some (some kvs) => mapUpdatePairs n kvs next)
  | .setdefault k d =>
    if !sparse then excOut n next .typeError
    else if !(present k || declared k) then excOut n next .typeError
    else
      (match findKid n.kids k with
       | some child =>
         if !isEmpty child then ⟨n, next, .value (valueOf child), []⟩
         else
           let s := setNode child d none next
           (match s.res with
            | .ok _ => ⟨n.withKids (replaceKid n.kids k s.node), s.next, .value d, []⟩
            | .error e => excOut (n.withKids (replaceKid n.kids k s.node)) s.next e)
       | none =>
         match fieldFor n.sch.subs k with
         | none => excOut n next .typeError
         | some f =>
           let b := blank f none k next
           let el := b.1.withParent (some n.id)
           let s := setNode el d none b.2
           (match s.res with
            | .ok _ => ⟨n.withKids (n.kids ++ [s.node]), s.next, .value d, []⟩
            | .error e => excOut (n.withKids (n.kids ++ [s.node])) s.next e))
  | .get k =>
    (match findKid n.kids k with
     | none => excOut n next .keyError
     | some c => ⟨n, next, .node c, []⟩)
  | .set raw pol =>
    (match pol with
     | some none =>
       -- an explicit `policy=None` argument means "use self.policy"
       let s := setNode n raw none next
       (match s.res with
        | .ok b => ⟨s.node, s.next, .bool b, []⟩
        | .error e => excOut s.node s.next e)
     | some (some p) =>
       let s := setNode n raw (some p) next
       (match s.res with
        | .ok b => ⟨s.node, s.next, .bool b, []⟩
        | .error e => excOut s.node s.next e)
     | none =>
       let s := setNode n raw none next
       (match s.res with
        | .ok b => ⟨s.node, s.next, .bool b, []⟩
        | .error e => excOut s.node s.next e))
  | .setDefault =>
    let s := setDefault n next
    (match s.res with
     | .ok _ => ⟨s.node, s.next, .ok, []⟩
     | .error e => excOut s.node s.next e)
  | .contains k => ⟨n, next, .bool (present k), []⟩
  | .len => ⟨n, next, .nat n.kids.length, []⟩

/-! ## operations anywhere in a tree -/

inductive Op | seq (o : SeqOp) | map (o : MapOp)
  deriving Repr, Inhabited

/-- apply a call to the element itself, according to its kind -/
def nodeStep (n : Node) (op : Op) (next : Nat) : StepR :=
  match op, n.kind with
  | .seq o, .list => seqStep n o next
  | .seq o, .array => seqStep n o next
  | .seq o, .multi => seqStep n o next
  | .map o, .dict => mapStep n o next
  | .map o, .sparse => mapStep n o next
  | _, _ => excOut n next .unsupported

mutual
/-- apply `nodeStep` to the element with id `tid` (first match in preorder) -/
def stepAt : Node → Nat → Op → Nat → Option StepR
  | .mk i s kids, tid, op, next =>
    if i.id = tid then some (nodeStep (.mk i s kids) op next)
    else
      match stepAtL kids tid op next with
      | none => none
      | some (kids', r) => some { r with node := .mk i s kids' }
def stepAtL : List Node → Nat → Op → Nat → Option (List Node × StepR)
  | [], _, _, _ => none
  | k :: ks, tid, op, next =>
    match stepAt k tid op next with
    | some r => some (r.node :: ks, r)
    | none =>
      match stepAtL ks tid op next with
      | none => none
      | some (ks', r) => some (k :: ks', r)
end

end Flatland.Tree
