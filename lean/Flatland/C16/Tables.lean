/-
Shapes of the tables that `harness/extractors/c16.py` regenerates from /repo on every run
(`Flatland/Generated/C16Catalogues.lean`), the decidable well-formedness predicates the proofs
instantiate on them, and the model of `gettext.GNUTranslations.gettext/ngettext` over a parsed
`.po` catalogue (the `.mo` files are checked to be equal to the `.po` text by the extractor).
-/
import Flatland.C16
namespace Flatland.C16

/-- one message attribute of one built-in validator class -/
structure BuiltinMsg where
  cls : String
  attr : String
  single : Str
  plural : Option Str        -- plural form of a `P_(single, plural, n_key)` triple
  nkey : Option Str
  supplied : List Str        -- keyword names of the `note_error` call(s) that can emit it
  vattrs : List Str          -- attributes of the validator (class attributes + set in `__init__`)
  deriving Repr, Inhabited

structure PoEntry where
  msgid : Str
  msgidPlural : Option Str
  msgstr : List Str
  deriving Repr, Inhabited

structure Catalogue where
  lang : String
  nplurals : Nat
  pluralGt1 : Bool           -- Plural-Forms rule: false = `(n != 1)`, true = `(n > 1)`
  header : Str               -- msgstr of the `msgid ""` entry
  entries : List PoEntry     -- all other entries
  deriving Repr, Inhabited

def BuiltinMsg.msg (m : BuiltinMsg) : Msg :=
  match m.plural, m.nkey with
  | some p, some k => .plural m.single p k
  | _, _ => .plain m.single

/-- all templates of a message -/
def BuiltinMsg.forms (m : BuiltinMsg) : List Str :=
  match m.plural with
  | some p => [m.single, p]
  | none => [m.single]

def subset (a b : List Str) : Bool := a.all (fun x => b.contains x)
def sameSet (a b : List Str) : Bool := subset a b && subset b a

/-- a template is inside the modelled `%` fragment and well-formed -/
def wellFormed (s : Str) : Bool :=
  match parseFmt s with
  | .ok _ => true
  | .error _ => false

/-- the source form the `i`-th msgstr translates: msgid for index 0, msgid_plural otherwise -/
def PoEntry.sourceForm (e : PoEntry) (i : Nat) : Str :=
  match i, e.msgidPlural with
  | 0, _ => e.msgid
  | _ + 1, some p => p
  | _ + 1, none => e.msgid

/-- the keys msgstr[i] may use: those of the source form it translates; the *singular* msgstr of a
    plural entry may in addition show the count and whatever else the plural source form shows
    (a catalogue whose plural rule sends counts other than 1 to msgstr[0] has to) -/
def PoEntry.mayKeys (e : PoEntry) (i : Nat) : List Str :=
  match i, e.msgidPlural with
  | 0, some p => placeholders e.msgid ++ placeholders p
  | 0, none => placeholders e.msgid
  | _ + 1, some p => placeholders p
  | _ + 1, none => placeholders e.msgid

/-- both templates are inside the `%` fragment; the translation uses every placeholder of the
    source form and nothing outside `may` -/
def formOK (s src : Str) (may : List Str) : Bool :=
  match parseFmt s, parseFmt src with
  | .ok a, .ok b => subset (placeholdersOf b) (placeholdersOf a) && subset (placeholdersOf a) may
  | _, _ => false

def entryFormsOK (e : PoEntry) : Nat → List Str → Bool
  | _, [] => true
  | i, s :: rest => formOK s (e.sourceForm i) (e.mayKeys i) && entryFormsOK e (i + 1) rest

/-- every msgstr[i] is well-formed, uses every placeholder of its source form and only keys it may use
    (for i ≥ 1 and for plain entries: exactly the placeholders of the source form) -/
def PoEntry.placeholdersOK (e : PoEntry) : Bool := entryFormsOK e 0 e.msgstr

def Catalogue.placeholdersOK (c : Catalogue) : Bool := c.entries.all PoEntry.placeholdersOK

/-- the entry translating a built-in message: same msgid / msgid_plural, the right number of
    non-empty msgstr -/
def entryFor (c : Catalogue) (m : BuiltinMsg) : Option PoEntry :=
  c.entries.find? (fun e => e.msgid == m.single && e.msgidPlural == m.plural)

def Catalogue.covers (c : Catalogue) (m : BuiltinMsg) : Bool :=
  match entryFor c m with
  | none => false
  | some e =>
    e.msgstr.length == (if m.plural.isSome then c.nplurals else 1) &&
    e.msgstr.all (fun s => !s.isEmpty)

def Catalogue.complete (c : Catalogue) (msgs : List BuiltinMsg) : Bool := msgs.all c.covers

/-- every placeholder (and the count key) of a built-in message is a `note_error` keyword, a
    validator attribute or an element attribute -/
def formKeysIn (avail : List Str) (f : Str) : Bool :=
  match parseFmt f with
  | .ok segs => subset (placeholdersOf segs) avail
  | .error _ => false

def BuiltinMsg.keysSupplied (elemAttrs : List Str) (m : BuiltinMsg) : Bool :=
  m.forms.all (formKeysIn (m.supplied ++ m.vattrs ++ elemAttrs)) &&
  (match m.nkey with
   | some k => (m.supplied ++ m.vattrs ++ elemAttrs).contains k
   | none => true)

/-! ### gettext over a catalogue -/

/-- the C expression of `Plural-Forms`, on an int -/
def Catalogue.pluralIndex (c : Catalogue) (n : Int) : Nat :=
  if c.pluralGt1 then (if n > 1 then 1 else 0) else (if n ≠ 1 then 1 else 0)

/-- `GNUTranslations.gettext`: the catalogue maps msgid → msgstr for plain entries and
    (msgid, i) → msgstr[i] for plural entries; a miss on `message` retries `(message, plural(1))`;
    `''` is the header entry -/
def Catalogue.gettext (c : Catalogue) (s : Str) : Str :=
  if s.isEmpty then c.header
  else match c.entries.find? (fun e => e.msgid == s && e.msgidPlural.isNone) with
    | some e => e.msgstr.headD s
    | none =>
      match c.entries.find? (fun e => e.msgid == s && e.msgidPlural.isSome) with
      | some e => (e.msgstr[c.pluralIndex 1]?).getD s
      | none => s

/-- `GNUTranslations.ngettext` for an int count; `none` = the TypeError gettext raises for a
    count that is not a number -/
def Catalogue.ngettextInt (c : Catalogue) (s p : Str) (i : Int) : Str :=
  match c.entries.find? (fun e => e.msgid == s && e.msgidPlural.isSome) with
  | some e => (e.msgstr[c.pluralIndex i]?).getD (if i = 1 then s else p)
  | none => if i = 1 then s else p

def Catalogue.ngettext (c : Catalogue) (s p : Str) (n : Val) : Option Str :=
  match n with
  | .int i => some (c.ngettextInt s p i)
  | .bool b => some (c.ngettextInt s p (if b then 1 else 0))
  | _ => none

end Flatland.C16
