/-
Specification B for C01, general form: the *documented pruning* as a function on element states.

`pr env u s e` is what `from_flat(flatten(e))` is allowed — and, by `Proofs/C01Prune.lean`, bound —
to rebuild from `e`.  `u` says whether an enclosing List prunes (`prune_empty = True`), in which
case pairs with an empty value never reach the element:

* scalars keep their state (a dropped empty pair leaves the fresh scalar, which *is* the empty
  scalar);
* a JoinedString flattens to one pair, its text (its members are never flattened), and `from_flat`
  runs `set(text)` on that pair: it comes back with its text and the members that text splits into
  (`joinedMembers`).  For a settled JoinedString that is its own state.  A fresh, never-set one has
  the empty text and no members; if its kind splits the empty text into one empty member
  (`prune_empty = False`: `''.split(sep) == ['']`) it comes back with that member — the tree
  changes, the flat output does not.  A JoinedString whose text is dropped comes back fresh;
* mappings prune field by field;
* a pruning List keeps exactly the members that still emit a pair (all of whose flattened values are
  not empty), in order, renumbered;
* a non-pruning List keeps its members up to the last one that still emits a pair; members before it
  that emit nothing come back fresh (they have no flat representation);
* Arrays / MultiValues drop members with an empty value when they prune or a List above them does.
-/
import Flatland.Flat
import Flatland.Spec.C01
namespace Flatland.Flat.Spec
open Flatland.Flat

/-- does a flat pair survive an enclosing pruning List? -/
def keepS (u : Bool) (x : Str × Str) : Bool := !u || !x.2.isEmpty

/-- the element still emits a pair when empty values are dropped (`u`) -/
def emitsB (env : Env) (u : Bool) (s : Schema) (e : Elem) : Bool :=
  !((flatten env [] s e).filter (keepS u)).isEmpty

/-- drop the trailing elements that fail `p` -/
def dropTrailing {α} (p : α → Bool) (l : List α) : List α := (l.reverse.dropWhile (fun x => !p x)).reverse

/-- is the Array's own prune filter in force?  (An anonymous Array of anonymous members reached
    through a bare list index is handed the key `None`, for which the filter does not fire.) -/
def arrayPrunes (nm : Option Str) (prune : Bool) (member : Schema) : Bool :=
  prune && !(nm.isNone && member.name.isNone)

mutual
def pr (env : Env) : Bool → Schema → Elem → Elem
  | _, .leaf .., e => e
  | u, .joined _ _ k _, .joined t _ =>
    if u && t.isEmpty then .joined [] [] else .joined t ((env.joinedMembers k t).map Elem.leaf)
  | u, .dict _ _ _ fields, .dict ms => .dict (prFields env u fields ms)
  | u, .compound _ _ _ fields, .dict ms => .dict (prFields env u fields ms)
  | u, .list _ _ prune _ member, .list ms =>
    if prune then
      .list ((ms.filter (emitsB env true member)).map (pr env true member))
    else
      .list ((dropTrailing (emitsB env u member) ms).map
        (fun m => if emitsB env u member m then pr env u member m else blank member))
  | u, .array nm _ prune member, .array ms =>
    .array (ms.filter (fun m => emitsB env (u || arrayPrunes nm prune member) member m))
  | _, _, e => e
def prFields (env : Env) (u : Bool) : List Schema → List (Str × Elem) → List (Str × Elem)
  | f :: fs, (k, e) :: ms => (k, pr env u f e) :: prFields env u fs ms
  | _, ms => ms
end

mutual
/-- conforming, settled element of a schema without SparseDicts — no restriction on pruning or on
    members without a flat representation.  A JoinedString is settled (its members are those its
    text splits into — whatever the kind makes of the empty text, so `prune_empty = False` is
    covered) or fresh (never set: empty text, no members; `from_flat` leaves it so when it sees no
    pair for it). -/
def OkP (env : Env) : Schema → Elem → Prop
  | .leaf _ _ k, .leaf u => env.norm k u = u
  | .joined _ _ k _, .joined u ms => env.norm k u = u ∧
      (ms = (env.joinedMembers k u).map Elem.leaf ∨ (u = [] ∧ ms = []))
  | .dict _ _ mode fields, .dict ms => mode = .dense ∧ OkPFields env fields ms
  | .compound _ _ _ fields, .dict ms => OkPFields env fields ms
  | .list _ _ _ mx member, .list ms =>
    ms.length ≤ mx ∧ (∀ i, i < ms.length → (natStr i).length ≤ env.maxDigits) ∧ ∀ e ∈ ms, OkP env member e
  | .array _ _ _ member, .array ms => (∃ n o k, member = .leaf n o k) ∧ ∀ e ∈ ms, OkP env member e
  | _, _ => False
def OkPFields (env : Env) : List Schema → List (Str × Elem) → Prop
  | [], [] => True
  | f :: fs, (k, e) :: ms => f.name = some k ∧ OkP env f e ∧ OkPFields env fs ms
  | _, _ => False
end

end Flatland.Flat.Spec
