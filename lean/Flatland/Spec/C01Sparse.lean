/-
Specification B for C01 with SparseDicts: what `from_flat(flatten(e))` rebuilds from ANY conforming
state `e` — Dict, Schema, Compound and SparseDict (both `minimum_fields` settings) at any depth.

`prS env sep u s e` = the documented pruning `pr` (Spec/C01Prune.lean) plus what the round trip does
to a mapping whose members are a *subset* of the declared fields, held in *any* order (a SparseDict;
a dense Dict is the special case "all fields, declaration order"):

* the rebuilt mapping first holds the members a fresh element is created with (`minimum_fields`:
  a Dict / Compound all its fields, a SparseDict(minimum_fields='required') its non-optional fields,
  a plain SparseDict none), in declaration order — KF-C01-d: *required ones first*;
* then the other fields that are **touched**, in declaration order — KF-C01-d: *schema order, not
  insertion order*;
* a field is *touched* when some flat pair of the mapping that survives pruning has a key (relative
  to the mapping) that **starts with** the field's name — `Mapping._set_flat`'s `startswith`.  A
  member that emits no (surviving) pair is therefore absent after the round trip (KF-C01-e); and an
  absent field whose name is a prefix of a sibling's key is *materialised* blank (the round-trip face
  of KF-C02-b).  Under `prefixFree` (no field name of a sparse mapping is a prefix of a sibling's)
  touched = "present and still emits a pair";
* a touched field that is present is rebuilt to its own `prS`; one that is absent to a blank element;
  an untouched member of the minimum set comes back blank.

Scalars, JoinedStrings and Arrays / MultiValues (whose members are scalars) are exactly as in `pr`;
Lists as in `pr` with `prS` on the members.  `OkS` is `OkP` with mappings generalised likewise:
distinct keys, every member conforms to the declared field of its key.
-/
import Flatland.Flat
import Flatland.Spec.C01
import Flatland.Spec.C01Prune
namespace Flatland.Flat.Spec
open Flatland.Flat

/-- the fields a fresh mapping is created with: all (Dict, Compound), the non-optional ones
    (`minimum_fields='required'`), none (plain SparseDict) -/
def isReq : DictMode → Schema → Bool
  | .dense, _ => true
  | .sparse, _ => false
  | .sparseReq, f => !f.opt

/-- the flat pairs of a mapping's members with keys relative to the mapping (what `possibles` hands
    to the field loop), those that survive an enclosing pruning List -/
def innerPairs (env : Env) (sep : Str) (u : Bool) (fields : List Schema) (ms : List (Str × Elem)) :
    List (Str × Str) :=
  (flatten env sep (.dict none false .sparse fields) (.dict ms)).filter (keepS u)

/-- `Mapping._set_flat`'s `startswith` test over all pairs -/
def touched (keys : List (Str × Str)) (f : Schema) : Bool :=
  keys.any (fun p => isPrefix (f.name.getD []) p.1)

mutual
def prS (env : Env) (sep : Str) : Bool → Schema → Elem → Elem
  | u, .leaf n o k, e => pr env u (.leaf n o k) e
  | u, .joined n o k m, e => pr env u (.joined n o k m) e
  | u, .array n o p m, e => pr env u (.array n o p m) e
  | u, .dict _ _ mode fields, .dict ms =>
    .dict (prSPick env sep u (isReq mode) (innerPairs env sep u fields ms) ms true fields
        ++ prSPick env sep u (isReq mode) (innerPairs env sep u fields ms) ms false fields)
  | u, .compound _ _ _ fields, .dict ms =>
    .dict (prSPick env sep u (fun _ => true) (innerPairs env sep u fields ms) ms true fields
        ++ prSPick env sep u (fun _ => true) (innerPairs env sep u fields ms) ms false fields)
  | u, .list _ _ prune _ member, .list ms =>
    if prune then
      .list ((ms.filter (emitsB env true member)).map (prS env sep true member))
    else
      .list ((dropTrailing (emitsB env u member) ms).map
        (fun m => if emitsB env u member m then prS env sep u member m else blank member))
  | _, _, e => e
/-- `first = true`: the minimum members, in declaration order (rebuilt when touched, else blank);
    `first = false`: the other touched fields, in declaration order -/
def prSPick (env : Env) (sep : Str) (u : Bool) (req : Schema → Bool) (keys : List (Str × Str))
    (ms : List (Str × Elem)) (first : Bool) : List Schema → List (Str × Elem)
  | [] => []
  | f :: fs =>
    let v : Elem := match lookup (f.name.getD []) ms with
      | some e => prS env sep u f e
      | none => blank f
    let rest := prSPick env sep u req keys ms first fs
    if first then
      (if req f then (f.name.getD [], if touched keys f then v else blank f) :: rest else rest)
    else
      (if !req f && touched keys f then (f.name.getD [], v) :: rest else rest)
end

mutual
/-- conforming, settled element of ANY schema: `OkP` with mappings generalised to "distinct keys,
    every member conforms to the declared field of its key" (any subset, any order). -/
def OkS (env : Env) : Schema → Elem → Prop
  | .leaf n o k, e => OkP env (.leaf n o k) e
  | .joined n o k m, e => OkP env (.joined n o k m) e
  | .array n o p m, e => OkP env (.array n o p m) e
  | .dict _ _ _ fields, .dict ms => (ms.map (·.1)).Nodup ∧ ∀ p ∈ ms, OkSAny env fields p.1 p.2
  | .compound _ _ _ fields, .dict ms => (ms.map (·.1)).Nodup ∧ ∀ p ∈ ms, OkSAny env fields p.1 p.2
  | .list _ _ _ mx member, .list ms =>
    ms.length ≤ mx ∧ (∀ i, i < ms.length → (natStr i).length ≤ env.maxDigits) ∧ ∀ e ∈ ms, OkS env member e
  | _, _ => False
def OkSAny (env : Env) : List Schema → Str → Elem → Prop
  | [], _, _ => False
  | f :: fs, k, e => (f.name = some k ∧ OkS env f e) ∨ OkSAny env fs k e
end

/-! ### normal order -/

/-- position of the declared field named `k` -/
def fieldIdx (k : Str) : List Schema → Nat
  | [] => 0
  | f :: fs => if f.name = some k then 0 else fieldIdx k fs + 1

/-- sort key of a member: minimum members first, then declaration order -/
def memberRank (req : Schema → Bool) (fields : List Schema) (k : Str) : Nat :=
  match findField k fields with
  | some f => (if req f then 0 else fields.length + 1) + fieldIdx k fields
  | none => 2 * fields.length + 2

def rankSorted (req : Schema → Bool) (fields : List Schema) (ms : List (Str × Elem)) : Bool :=
  decide ((ms.map (fun p => memberRank req fields p.1)).Pairwise (· < ·))

mutual
/-- every mapping of the state holds its members in the order a rebuilt one has them: minimum members
    first, then declaration order (decidable; trivially true of dense Dicts in declaration order) -/
def sparseNormal : Schema → Elem → Bool
  | .dict _ _ mode fields, .dict ms => rankSorted (isReq mode) fields ms && sparseNormalMs fields ms
  | .compound _ _ _ fields, .dict ms => rankSorted (fun _ => true) fields ms && sparseNormalMs fields ms
  | .list _ _ _ _ member, .list ms => ms.all (sparseNormal member)
  | _, _ => true
/-- driven by the field list: every member under its own field -/
def sparseNormalMs : List Schema → List (Str × Elem) → Bool
  | [], _ => true
  | f :: fs, ms =>
    (match lookup (f.name.getD []) ms with
      | some e => sparseNormal f e
      | none => true) && sparseNormalMs fs ms
end

mutual
/-- no field name of a mapping is a prefix of a sibling's name (then a field is touched only by its
    own pairs) -/
def prefixFree : Schema → Bool
  | .leaf .. => true
  | .joined .. => true
  | .array .. => true
  | .dict _ _ _ fields => prefixFreeL fields &&
      fields.all (fun f => fields.all (fun g => f.name == g.name || !isPrefix (f.name.getD []) (g.name.getD [])))
  | .compound _ _ _ fields => prefixFreeL fields &&
      fields.all (fun f => fields.all (fun g => f.name == g.name || !isPrefix (f.name.getD []) (g.name.getD [])))
  | .list _ _ _ _ member => prefixFree member
def prefixFreeL : List Schema → Bool
  | [] => true
  | f :: fs => prefixFree f && prefixFreeL fs
end

/-! ### the hypotheses as executable tests (for the runner and for examples) -/

def namesOfS : List Schema → List (Option Str)
  | [] => []
  | f :: fs => f.name :: namesOfS fs

mutual
/-- executable copy of `wf` (Proofs/C02.lean): mapping fields are named, pairwise distinct -/
def wfS : Schema → Bool
  | .leaf .. => true
  | .dict _ _ _ fields => wfSL fields && (namesOfS fields).all Option.isSome && decide (namesOfS fields).Nodup
  | .compound _ _ _ fields => wfSL fields && (namesOfS fields).all Option.isSome && decide (namesOfS fields).Nodup
  | .list _ _ _ _ member => wfS member
  | .array _ _ _ member => wfS member
  | .joined _ _ _ member => wfS member
def wfSL : List Schema → Bool
  | [] => true
  | f :: fs => wfS f && wfSL fs
end

/-- the texts of a list of scalar leaves (`none` if some member is not a leaf) -/
def leavesOf : List Elem → Option (List Str)
  | [] => some []
  | .leaf u :: es => (leavesOf es).map (u :: ·)
  | _ :: _ => none

mutual
/-- executable `OkS` -/
def okSB (env : Env) : Schema → Elem → Bool
  | .leaf _ _ k, .leaf u => env.norm k u == u
  | .joined _ _ k _, .joined u ms =>
    env.norm k u == u && (leavesOf ms == some (env.joinedMembers k u) || (u.isEmpty && ms.isEmpty))
  | .array _ _ _ (.leaf _ _ k), .array ms =>
    ms.all (fun e => match e with | .leaf u => env.norm k u == u | _ => false)
  | .dict _ _ _ fields, .dict ms =>
    decide (ms.map (·.1)).Nodup && ms.all (fun p => okSAnyB env fields p.1 p.2)
  | .compound _ _ _ fields, .dict ms =>
    decide (ms.map (·.1)).Nodup && ms.all (fun p => okSAnyB env fields p.1 p.2)
  | .list _ _ _ mx member, .list ms =>
    decide (ms.length ≤ mx) && (List.range ms.length).all (fun i => decide ((natStr i).length ≤ env.maxDigits))
      && ms.all (fun e => okSB env member e)
  | _, _ => false
def okSAnyB (env : Env) : List Schema → Str → Elem → Bool
  | [], _, _ => false
  | f :: fs, k, e => (f.name == some k && okSB env f e) || okSAnyB env fs k e
end

mutual
def hasSparse : Schema → Bool
  | .dict _ _ mode fields => mode != .dense || hasSparseL fields
  | .compound _ _ _ fields => hasSparseL fields
  | .list _ _ _ _ member => hasSparse member
  | _ => false
def hasSparseL : List Schema → Bool
  | [] => false
  | f :: fs => hasSparse f || hasSparseL fs
end

mutual
/-- every scalar kind of the schema reads the empty text back as the empty text (false of a Boolean
    with a non-empty false token, KF-C01-h): then a blank element is settled, and a member the round
    trip *materialises* blank (KF-C02-b) or re-creates (`minimum_fields`) conforms -/
def blankSettled (env : Env) : Schema → Bool
  | .leaf _ _ k => env.norm k [] == []
  | .joined _ _ k _ => env.norm k [] == []
  | .array _ _ _ member => blankSettled env member
  | .list _ _ _ _ member => blankSettled env member
  | .dict _ _ _ fields => blankSettledL env fields
  | .compound _ _ _ fields => blankSettledL env fields
def blankSettledL (env : Env) : List Schema → Bool
  | [] => true
  | f :: fs => blankSettled env f && blankSettledL env fs
end

end Flatland.Flat.Spec
