/-
Specification B for C18, from the property statement:

* a DateYYYYMMDD's value and text are the date composed from its current year/month/day members —
  None and '' when they do not form a date;
* setting it with a date or date text sets exactly those members;
* a JoinedString's value is the separator-join of its members' texts, and setting that value again
  reproduces the same value;
* a MultiValue's scalar view is its first member;
* a Ref's value and text are those of its target.
-/
import Flatland.C18
namespace Flatland.C18.Spec
open Flatland.Scalar Flatland.C18

/-- the Gregorian date (1 ≤ year ≤ 9999) formed by three member values, if they form one -/
def dateOf (vy vm vd : Native) : Option (Nat × Nat × Nat) :=
  match asInt vy, asInt vm, asInt vd with
  | some y, some m, some d =>
    if 0 ≤ y ∧ 0 ≤ m ∧ 0 ≤ d ∧ validDate y.toNat m.toNat d.toNat = true then some (y.toNat, m.toNat, d.toNat)
    else none
  | _, _, _ => none

/-- documented derivation: `(text, native)` of a DateYYYYMMDD -/
def specCompose (vy vm vd : Native) : Str × Native :=
  match dateOf vy vm vd with
  | some (y, m, d) => (dateText y m d, .date y m d)
  | none => ([], .none)

/-- no member holds an int beyond CPython's digit limit (KF-C04-a outside) -/
def MembersFit (T : Tables) (vy vm vd : Native) : Prop :=
  ∀ v ∈ [vy, vm, vd], ∀ i, v = .int i → intFits T i = true

/-- hypotheses of `joined_reset`: re-splitting the value gives back the member texts (outside:
    KF-C18-c), and under prune_empty no member text is empty (outside: KF-C18-a) -/
def SplitStable (T : Tables) (c : JoinedCfg) (s : JoinedState) : Prop :=
  splitWith T c.sp c.sep (joinedValue c s) = s.map (·.u)

def NoEmptyTextUnderPrune (c : JoinedCfg) (s : JoinedState) : Prop :=
  c.prune = true → ∀ st ∈ s, st.u ≠ []

/-- every member's text is a fixed point of setting it (true of members produced by `set`) -/
def Settled (E : Env) (k : Kind) (s : JoinedState) : Prop :=
  ∀ st ∈ s, ∃ r, setScalar E k (.str st.u) = .ok r ∧ r.st.u = st.u

end Flatland.C18.Spec
