/-
Specification B for C18, from the property statement:

* a DateYYYYMMDD's value and text are the date composed from its current year/month/day members —
  None and '' when they do not form a date;
* setting it with a date or date text sets exactly those members;
* a JoinedString's value is the separator-join of its members' texts, and setting that value again
  reproduces the same value;
* a MultiValue's scalar view is its first member;
* a Ref's value and text are those of its target.
-/
import Flatland.C18
namespace Flatland.C18.Spec
open Flatland.Scalar Flatland.C18

/-- the Gregorian date (1 ≤ year ≤ 9999) formed by three member values, if they form one -/
def dateOf (vy vm vd : Native) : Option (Nat × Nat × Nat) :=
  match asInt vy, asInt vm, asInt vd with
  | some y, some m, some d =>
    if 0 ≤ y ∧ 0 ≤ m ∧ 0 ≤ d ∧ validDate y.toNat m.toNat d.toNat = true then some (y.toNat, m.toNat, d.toNat)
    else none
  | _, _, _ => none

/-- documented derivation: `(text, native)` of a DateYYYYMMDD -/
def specCompose (vy vm vd : Native) : Str × Native :=
  match dateOf vy vm vd with
  | some (y, m, d) => (dateText y m d, .date y m d)
  | none => ([], .none)

/-- no member holds an int beyond CPython's digit limit (KF-C04-a outside) -/
def MembersFit (T : Tables) (vy vm vd : Native) : Prop :=
  ∀ v ∈ [vy, vm, vd], ∀ i, v = .int i → intFits T i = true

/-- hypotheses of `joined_reset`: re-splitting the value gives back the member texts (outside:
    KF-C18-c), and under prune_empty no member text is empty (outside: KF-C18-a) -/
def SplitStable (T : Tables) (c : JoinedCfg) (s : JoinedState) : Prop :=
  splitWith T c.sp c.sep (joinedValue c s) = s.map (·.u)

def NoEmptyTextUnderPrune (c : JoinedCfg) (s : JoinedState) : Prop :=
  c.prune = true → ∀ st ∈ s, st.u ≠ []

/-- every member's text is a fixed point of setting it (true of members produced by `set`) -/
def Settled (E : Env) (k : Kind) (s : JoinedState) : Prop :=
  ∀ st ∈ s, ∃ r, setScalar E k (.str st.u) = .ok r ∧ r.st.u = st.u

/-! ### MultiValue: "a MultiValue's scalar view is always its first member" -/

/-- the scalar view the statement prescribes: text and value of the first member, `''` / None when
    there is no member -/
def firstView (s : MultiState) : Str × Native :=
  match s.head? with
  | none => ([], .none)
  | some m => (m.u, m.value)

/-- a member nobody has set: text `''`, value None -/
def blankMember : SState := ⟨.none, .none, []⟩

/-- writing the view's text writes the first member's text — nothing else; a MultiValue without
    members first gets a blank one -/
def writeFirstU (s : MultiState) (x : Str) : MultiState :=
  match s with
  | [] => [{ blankMember with u := x }]
  | m :: rest => { m with u := x } :: rest

/-- writing the view's value writes the first member's value — nothing else -/
def writeFirstValue (s : MultiState) (x : Native) : MultiState :=
  match s with
  | [] => [{ blankMember with value := x }]
  | m :: rest => { m with value := x } :: rest

/-- a member state that some `set()` of the member type produces (value and text "in tandem") -/
def SetReachable (E : Env) (k : Kind) (m : SState) : Prop :=
  ∃ obj r, setScalar E k obj = .ok r ∧ r.st.value = m.value ∧ r.st.u = m.u

/-! ### JoinedString: "value is always the separator-join of its members' texts" -/

/-- the separator-join of a list of texts (core `List.intercalate`) -/
def sepJoin (sep : Str) (texts : List Str) : Str := sep.intercalate texts

/-! ### flat output: an element that is not flattenable and has no children contributes no pair -/

end Flatland.C18.Spec
