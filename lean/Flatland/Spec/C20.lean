/-
Specification B for C20, written from the property statement and the docstrings of
`keyslice_pairs`, `Dict.slice`, `Dict.update_object`, `Dict.set_by_object`.

* selection: a key is selected by `include` (only these) or by `omit` (all but these); an empty
  `include`/`omit` is "not supplied" (pinned by tests/test_utils.py::test_keyslice_include);
  supplying both is an error;
* "renamed fields are always included under their new key", and "the key function is applied
  first": the destination of a field is a function `outKey` of its name alone;
* `slice()` is the map destination ↦ native value; when several fields share a destination the
  field with the greatest name provides the value (pairs are emitted in sorted order and `dict`
  keeps the last);
* `update_object()` writes exactly that map onto the object, nothing else changes;
* `set_by_object()` looks at exactly the attributes that map to declared fields.
-/
import Flatland.C20
namespace Flatland.C20.Spec
open Flatland.C20

/-- include xor omit; empty = not supplied -/
def selected (a : Args) (k : Str) : Bool :=
  if !a.inc.isEmpty then a.inc.contains k
  else if !a.om.isEmpty then !a.om.contains k
  else true

/-- `rename` seen as a mapping (`dict(rename)`) -/
def renameTo (a : Args) (k : Str) : Option Str := dictGet a.ren k

/-- destination of the field / attribute called `name`, if it is moved at all -/
def outKey (a : Args) (name : Str) : Option Str :=
  let k := match a.key with | some f => f name | none => name   -- key function first
  match renameTo a k with
  | some k' => some k'                                          -- renamed: always, under the new key
  | none => if selected a k then some k else none

def Exclusive (a : Args) : Prop := a.inc = [] ∨ a.om = []

instance (a : Args) : Decidable (Exclusive a) := by unfold Exclusive; exact inferInstance

/-- `(n, v)` is the field that provides the value stored under `k'`: it lands on `k'`, and every
    other field landing there has a smaller name -/
def IsWinner {V} (e : Elem V) (a : Args) (k' : Str) (n : Str) (v : V) : Prop :=
  (n, v) ∈ e ∧ outKey a n = some k' ∧
  ∀ n' v', (n', v') ∈ e → outKey a n' = some k' → n' = n ∨ strLt n' n = true

/-- where an attribute's value is destined: the name the renaming gives it, else its own name -/
def dest (a : Args) (x : Str) : Str :=
  match renameTo a x with
  | some t => t
  | none => x

/-- the attributes `set_by_object` looks at are the attributes whose destination is a declared
    field; `omit` takes names out, except renamed ones ("attributes specified in the mapping will be
    included regardless of include or omit") -/
def readSet (fields : List Str) (a : Args) (x : Str) : Prop :=
  dest a x ∈ fields ∧ ((renameTo a x).isSome = true ∨ x ∉ a.om)

end Flatland.C20.Spec
