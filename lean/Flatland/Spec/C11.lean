/-
Specification B for C11, transcribed from the property statement:

  "the markup produced by the Generator, parsed by a standard HTML parser, is exactly one
   element of the requested tag whose attributes and text content equal the intended unescaped
   strings, with no extra tags or attributes.  The same holds for the escaped sugar forms .x and
   .xa of an element, which unescape to exactly .u."

The parser and the reference decoder are parameters of the specification.
-/
import Flatland.C11
namespace Flatland.C11.Spec
open Flatland.C11 Flatland.Markup

/-- the markup `s` is exactly one element `tag` with exactly the attributes `attrs` (names and
    unescaped values, in order, nothing else) and text content `text` -/
def ParsesTo (dec : Str → Str) (voids : List Str) (s : Str) (tag : Str)
    (attrs : List (Str × Str)) (text : Str) : Prop :=
  parseTag dec voids s = some ⟨tag, attrs, text⟩

/-- `.x` / `.xa` unescape to exactly `.u` -/
def SugarUnescapes (dec : Str → Str) (chain : Chain) : Prop :=
  ∀ u : Str, dec (sugar chain u) = u

end Flatland.C11.Spec
