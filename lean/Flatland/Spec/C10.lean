/-
Specification B for C10, from the property text: a Dict holds exactly one element per declared
field, a SparseDict only declared fields (and always its required ones under
minimum_fields='required'); every stored value is an element of the declared field type, stored
under the field's name, with the mapping as parent; calls naming an undeclared key are rejected
and never add it.
-/
import Flatland.C10
namespace Flatland.C10.Spec
open Flatland.Tree Flatland.PyList Flatland.C10

/-- every stored child is an element of a declared field class, stored under that field's name,
    and its stored parent pointer designates the mapping -/
def KidsOK (pid : Nat) (subs : List Schema) (kids : List Node) : Prop :=
  ∀ c ∈ kids, c.parent = some pid ∧ c.sch ∈ subs ∧ c.key = c.sch.key ∧
    -- the member's own `name` is its field's (no instance-level `name=` override)
    c.ni.nameOv = none

structure MapInv (n : Node) : Prop where
  kids : KidsOK n.id n.sch.subs n.kids
  /-- a Dict has exactly its declared fields, one element each, in declaration order -/
  dense : n.kind = .dict → keys n = n.sch.subs.map Schema.key
  /-- a SparseDict with minimum_fields='required' always has its non-optional fields -/
  required : n.kind = .sparse → n.sch.info.minreq = true →
    ∀ f ∈ n.sch.subs, f.info.optional = false → f.key ∈ keys n

/-- a stored child carries the key as its `.name` (fields are named) -/
def NamedAfterKey (n : Node) : Prop :=
  ∀ c ∈ n.kids, c.name = some c.key

/-- the schema is one `Dict.of` accepts and the generators produce: named fields -/
def FieldsNamed (s : Schema) : Prop := ∀ f ∈ s.subs, f.kind ≠ .slot ∧ ∃ nm, f.info.name = some nm

end Flatland.C10.Spec
