/-
Specification B for C19, written from the property statement.

A history of Generator calls is read as a stack of LEVELS — the generator itself, then one per
open `begin()` block, innermost first — each holding the settings explicitly given at that
level (`begin(**settings)`, and every later `set()/update()/[]=` made while it is the innermost
level; the tabindex counter handed out by tag calls is such a write, too).  Nothing is copied.

* resolution: an option on the tag itself if it says on/off (on = forced), else the innermost
  level that says on/off, else the transform's built-in default; `auto` defers to the next level;
* stack discipline: `end()` drops the innermost level; a rejected call changes nothing.
-/
import Flatland.C19
namespace Flatland.C19.Spec
open Flatland.Markup Flatland.C19

/-- the settings explicitly given at one level, in the order they were given -/
structure Level where
  log : List (Str × CVal)
  deriving Repr

/-- innermost level first; the last one is the generator's own -/
abbrev Hist := List Level

/-- the last value a level gives to `k`, if any -/
def lastAssign : List (Str × CVal) → Str → Option CVal
  | [], _ => none
  | (k', v) :: rest, k =>
    match lastAssign rest k with
    | some w => some w
    | none => if k' = k then some v else none

def Level.given (lv : Level) (k : Str) : Option CVal := lastAssign lv.log k

/-- on / off / auto reading of a stored option value (`none`: not an option value at all) -/
def readTrool (T : Tables) (v : CVal) : Option Trool :=
  match T.parseTroolC v with
  | .ok t => some t
  | .error _ => none

/-- what each level says about an option: `none` = silent, `some auto/on/off` -/
def levelTrools (T : Tables) (h : Hist) (key : Str) : List (Option Trool) :=
  h.map (fun lv => (lv.given key).bind (readTrool T))

/-- every value given for the option is an option value (str / bool / Maybe) -/
def troolValued (T : Tables) (h : Hist) (key : Str) : Bool :=
  h.all (fun lv => match lv.given key with
    | some v => (readTrool T v).isSome
    | none => true)

/-- the innermost level that says on or off -/
def firstOnOff : List (Option Trool) → Option Bool
  | [] => none
  | some .yes :: _ => some true
  | some .no :: _ => some false
  | _ :: rest => firstOnOff rest

/-- THE RULE OF THE STATEMENT: (apply the transform?, forced?) -/
def resolve (default : Bool) (tagOpt : Trool) (levels : List (Option Trool)) : Bool × Bool :=
  match tagOpt with
  | .yes => (true, true)
  | .no => (false, false)
  | .maybe => ((firstOnOff levels).getD default, false)

/-- restriction under which the code follows the rule (KF-C19-a), as weak as it can be: the
    innermost level that MENTIONS the option either says on/off, or says `auto` and the on/off it
    hides (the first one further out) is absent or equals the built-in default `b` anyway -/
def noShadowingAuto (b : Bool) : List (Option Trool) → Bool
  | [] => true
  | some .maybe :: rest => firstOnOff rest == none || firstOnOff rest == some b
  | some _ :: _ => true
  | none :: rest => noShadowingAuto b rest

/-- THE "APPLIES" TABLE shared by the name / id / for / tabindex transforms (documentation:
    "each tag has a set of sane default behaviors", a tag-level `on` forces): once the option
    resolves to on, the attribute is generated iff it is forced, or the tag belongs to the
    transform's own tags (`_auto_tags`) and the author did not give the attribute -/
def applies (T : Tables) (attr tag : Str) (forced given : Bool) : Bool :=
  forced || (!given && T.autoTag attr tag)

/-- append writes to the innermost level -/
def addLog (h : Hist) (xs : List (Str × CVal)) : Hist :=
  match h with
  | [] => []
  | lv :: rest => ⟨lv.log ++ xs⟩ :: rest

/-- how one call changes the levels (accepted calls only; a rejected call changes nothing) -/
def histStep (T : Tables) (R : RenderCfg) (g : Gen) (h : Hist) (op : Op) : Hist :=
  let r := step T R g op
  match op with
  | .begin s => if r.2.err.isNone then ⟨s⟩ :: h else h
  | .end_ => if r.2.err.isNone then h.tail else h
  | .set s =>
    match r.2.err, setUpdates T g.ctx s with
    | none, .ok ups => addLog h ups        -- auto_* values are recorded in their on/off/auto reading
    | _, _ => h
  | .setItem k v => if r.2.err.isNone then addLog h [(k, v)] else h
  | .update s => if r.2.err.isNone then addLog h s else h
  | .tag _ _ _ =>
    -- the only setting a tag call writes is the tabindex counter
    if r.1.ctx = g.ctx then h
    else match r.1.ctx.getItem sTabindex with
      | .ok v => addLog h [(sTabindex, v)]
      | .error _ => h

/-- generator and levels after a history -/
def runS (T : Tables) (R : RenderCfg) (g : Gen) (h : Hist) : List Op → Gen × Hist
  | [] => (g, h)
  | op :: rest => runS T R (step T R g op).1 (histStep T R g h op) rest

/-- the levels right after `Generator(markup, **settings)` -/
def initHist (settings : List (Str × CVal)) : Hist := [⟨settings⟩]

end Flatland.C19.Spec
