/-
Specification B for C19, written from the property statement.

A history of Generator calls is read as a stack of LEVELS — the generator itself, then one per
open `begin()` block, innermost first — each holding the settings explicitly given at that
level (`begin(**settings)`, and every later `set()/update()/[]=` made while it is the innermost
level; the tabindex counter handed out by tag calls is such a write, too).  Nothing is copied.

* resolution: an option on the tag itself if it says on/off (on = forced), else the innermost
  level that says on/off, else the transform's built-in default; `auto` defers to the next level;
* stack discipline: `end()` drops the innermost level; a rejected call changes nothing.
-/
import Flatland.C19
namespace Flatland.C19.Spec
open Flatland.Markup Flatland.C19

/-- the settings explicitly given at one level, in the order they were given -/
structure Level where
  log : List (Str × CVal)
  deriving Repr

/-- innermost level first; the last one is the generator's own -/
abbrev Hist := List Level

/-- the last value a level gives to `k`, if any -/
def lastAssign : List (Str × CVal) → Str → Option CVal
  | [], _ => none
  | (k', v) :: rest, k =>
    match lastAssign rest k with
    | some w => some w
    | none => if k' = k then some v else none

def Level.given (lv : Level) (k : Str) : Option CVal := lastAssign lv.log k

/-- on / off / auto reading of a stored option value (`none`: not an option value at all) -/
def readTrool (T : Tables) (v : CVal) : Option Trool :=
  match T.parseTroolC v with
  | .ok t => some t
  | .error _ => none

/-- what each level says about an option: `none` = silent, `some auto/on/off` -/
def levelTrools (T : Tables) (h : Hist) (key : Str) : List (Option Trool) :=
  h.map (fun lv => (lv.given key).bind (readTrool T))

/-- every value given for the option is an option value (str / bool / Maybe) -/
def troolValued (T : Tables) (h : Hist) (key : Str) : Bool :=
  h.all (fun lv => match lv.given key with
    | some v => (readTrool T v).isSome
    | none => true)

/-- the innermost level that says on or off -/
def firstOnOff : List (Option Trool) → Option Bool
  | [] => none
  | some .yes :: _ => some true
  | some .no :: _ => some false
  | _ :: rest => firstOnOff rest

/-- THE RULE OF THE STATEMENT: (apply the transform?, forced?) -/
def resolve (default : Bool) (tagOpt : Trool) (levels : List (Option Trool)) : Bool × Bool :=
  match tagOpt with
  | .yes => (true, true)
  | .no => (false, false)
  | .maybe => ((firstOnOff levels).getD default, false)

/-- restriction under which the code follows the rule (KF-C19-a), as weak as it can be: the
    innermost level that MENTIONS the option either says on/off, or says `auto` and the on/off it
    hides (the first one further out) is absent or equals the built-in default `b` anyway -/
def noShadowingAuto (b : Bool) : List (Option Trool) → Bool
  | [] => true
  | some .maybe :: rest => firstOnOff rest == none || firstOnOff rest == some b
  | some _ :: _ => true
  | none :: rest => noShadowingAuto b rest

/-- THE "APPLIES" TABLE shared by the name / id / for / tabindex transforms (documentation:
    "each tag has a set of sane default behaviors", a tag-level `on` forces): once the option
    resolves to on, the attribute is generated iff it is forced, or the tag belongs to the
    transform's own tags (`_auto_tags`) and the author did not give the attribute -/
def applies (T : Tables) (attr tag : Str) (forced given : Bool) : Bool :=
  forced || (!given && T.autoTag attr tag)

/-- append writes to the innermost level -/
def addLog (h : Hist) (xs : List (Str × CVal)) : Hist :=
  match h with
  | [] => []
  | lv :: rest => ⟨lv.log ++ xs⟩ :: rest

/-- how one call changes the levels (accepted calls only; a rejected call changes nothing) -/
def histStep (T : Tables) (R : RenderCfg) (g : Gen) (h : Hist) (op : Op) : Hist :=
  let r := step T R g op
  match op with
  | .begin s => if r.2.err.isNone then ⟨s⟩ :: h else h
  | .end_ => if r.2.err.isNone then h.tail else h
  | .set s =>
    match r.2.err, setUpdates T g.ctx s with
    | none, .ok ups => addLog h ups        -- auto_* values are recorded in their on/off/auto reading
    | _, _ => h
  | .setItem k v => if r.2.err.isNone then addLog h [(k, v)] else h
  | .update s => if r.2.err.isNone then addLog h s else h
  | .tag _ _ _ =>
    -- the only setting a tag call writes is the tabindex counter
    if r.1.ctx = g.ctx then h
    else match r.1.ctx.getItem sTabindex with
      | .ok v => addLog h [(sTabindex, v)]
      | .error _ => h

/-- generator and levels after a history -/
def runS (T : Tables) (R : RenderCfg) (g : Gen) (h : Hist) : List Op → Gen × Hist
  | [] => (g, h)
  | op :: rest => runS T R (step T R g op).1 (histStep T R g h op) rest

/-- the levels right after `Generator(markup, **settings)` -/
def initHist (settings : List (Str × CVal)) : Hist := [⟨settings⟩]

/-! ### round h9: what the code DOES, in closed form (no frames, no copies)

The statement's rule (`resolve`) lets `auto` defer to the next level.  The code does not: a level
that assigns `auto` (or `Maybe`, or text that is neither yes nor no) assigns THE BUILT-IN DEFAULT.
So the option in force is decided by the chronologically LAST explicit assignment among the levels
that are still open — whatever it says. -/

/-- every value assigned to `k` at the levels still open, in the order the assignments were made:
    the generator's own settings first, then each open block from the outermost to the innermost,
    each level's `begin(**settings)` followed by its later `set()/update()/[]=` -/
def assignments (h : Hist) (k : Str) : List CVal :=
  h.reverse.flatMap (fun lv => lv.log.filterMap (fun kv => if kv.1 = k then some kv.2 else none))

/-- the last explicit assignment of `k` among the open levels -/
def lastExplicit (h : Hist) (k : Str) : Option CVal := (assignments h k).getLast?

/-- THE RULE THE CODE FOLLOWS (all option values, all stacks): an on/off on the tag decides
    (on = forced); else the last explicit assignment decides, reading on → apply, off → skip, and
    auto / Maybe / unknown text → the built-in default (NOT the next level); no assignment at all
    → the built-in default.  A stored value that is no option value at all (an `int`, stored raw by
    `begin/update/[]=`) makes the tag call raise AttributeError. -/
def codeRule (T : Tables) (default : Bool) (tagOpt : Trool) (last : Option CVal) : Except PyErr (Bool × Bool) :=
  match tagOpt with
  | .yes => .ok (true, true)
  | .no => .ok (false, false)
  | .maybe =>
    match last with
    | none => .ok (default, false)
    | some v =>
      match T.parseTroolC v with
      | .ok .yes => .ok (true, false)
      | .ok .no => .ok (false, false)
      | .ok .maybe => .ok (default, false)
      | .error e => .error e

/-- the same rule on the level readings (innermost first): the innermost level that MENTIONS the
    option decides, `auto` meaning the built-in default -/
def codeRuleL (default : Bool) (tagOpt : Trool) (levels : List (Option Trool)) : Bool × Bool :=
  match tagOpt with
  | .yes => (true, true)
  | .no => (false, false)
  | .maybe =>
    (match levels.findSome? id with
     | some .yes => true
     | some .no => false
     | _ => default, false)

/-- WHERE KF-C19-a BITES: the innermost level that mentions the option says `auto`, and the nearest
    on/off further out is there and differs from the built-in default -/
def ShadowingAuto (b : Bool) (levels : List (Option Trool)) : Prop :=
  ∃ (pre post : List (Option Trool)) (c : Bool),
    levels = pre ++ some .maybe :: post ∧ (∀ x ∈ pre, x = none) ∧ firstOnOff post = some c ∧ c ≠ b

end Flatland.C19.Spec
