/-
Specification B for C05, written from the property statement and the documentation of
`Element.validate`, without a queue:

* visited elements: the root; a child is visited iff its parent is visited and the parent's
  descent verdict is not SkipAll / SkipAllFalse;
* order: breadth-first (level by level) on the way down, the exact reverse on the way up;
* each element's validator list stops at its first failure or Skip;
* every element has its *own* verdict, a function of that element alone;
* validate() is false exactly when some visited element's verdict is false.
-/
import Flatland.C05
namespace Flatland.C05.Spec
open Flatland.C05

/-- number of validators of a list that get invoked: up to and including the first one that
    does not return plain True -/
def invoked : List Outcome → Nat
  | [] => 0
  | .tru :: rest => invoked rest + 1
  | _ :: _ => 1

/-- outcome of a non-empty validator list: that of the first validator not returning True -/
def listVerdict : List Outcome → Ret
  | [] => .tru
  | .tru :: rest => listVerdict rest
  | .none :: _ => .fls
  | .fls :: _ => .fls
  | .skip :: _ => .tru
  | .skipAll :: _ => .skipAll
  | .skipAllFalse :: _ => .skipAllFalse

/-- validators of empty optional elements are skipped; an element without validators is
    valid iff it is not empty -/
def elementVerdict (i : Info) (vs : List Outcome) : Ret × Nat :=
  if i.empty && i.optional then (.tru, 0)
  else match vs with
    | [] => (if i.empty then .fls else .tru, 0)
    | vs => (listVerdict vs, invoked vs)

def downVerdict (i : Info) : Ret × Nat :=
  if i.container then (match i.down with | [] => (.uneval, 0) | d => elementVerdict i d)
  else elementVerdict i i.down

def upVerdict (i : Info) : Ret × Nat :=
  if i.container then elementVerdict i i.up else (.uneval, 0)

/-- is anything below this element skipped? -/
def cutsBelow (i : Info) : Bool := (downVerdict i).1.isSkipAll

mutual
/-- the visited part of the tree: drop everything beneath a SkipAll / SkipAllFalse element -/
def prune : VTree → VTree
  | .node i kids => .node i (if cutsBelow i then [] else pruneL kids)
def pruneL : List VTree → List VTree
  | [] => []
  | t :: ts => prune t :: pruneL ts
end

theorem sizeL_flatMap_kids (q : List VTree) :
    sizeL (q.flatMap VTree.kids) + q.length = sizeL q := by
  induction q with
  | nil => simp [sizeL]
  | cons t ts ih =>
    cases t with
    | node i k =>
      simp [sizeL, VTree.size, VTree.kids, sizeL_append]; omega

/-- breadth-first order, by levels: all elements of one level, then the next level -/
def levelOrder : List VTree → List Info
  | [] => []
  | t :: q => (t :: q).map VTree.info ++ levelOrder ((t :: q).flatMap VTree.kids)
termination_by q => sizeL q
decreasing_by
  have := sizeL_flatMap_kids (t :: q)
  simp only [List.length_cons] at this
  omega

/-- the visited elements, in the documented descent order -/
def visited (t : VTree) : List Info := levelOrder [prune t]

/-- an element's own final verdict -/
def verdict (i : Info) : Valid :=
  let d := (downVerdict i).1
  let u := (upVerdict i).1
  match d, u with
  | .uneval, .uneval => .uneval
  | .uneval, u => .ofBool u.truthy
  | d, .uneval => .ofBool d.truthy
  | d, u => .ofBool (d.truthy && u.truthy)

def expectedLog (t : VTree) : List Call :=
  (visited t).flatMap (fun i => callsOf i.id true (downVerdict i).2)
  ++ (visited t).reverse.flatMap (fun i => callsOf i.id false (upVerdict i).2)

def expectedValids (t : VTree) : List (Nat × Valid) :=
  (visited t).map (fun i => (i.id, verdict i))

/-- False exactly when some visited element ended invalid -/
def expectedRet (t : VTree) : Bool := (visited t).all (fun i => (verdict i).truthy)

def specValidate (t : VTree) : Result :=
  { ret := expectedRet t, valids := expectedValids t, log := expectedLog t }

/-! ### `validate(recurse=False)`

Documented: "if False, do not validate children" — the element gets its OWN verdict by the same rules
(descent list, then ascent list, each cut at its first failure or Skip), nothing else is invoked, no other
element's `.valid` is written. -/

def noRecurseLog (i : Info) : List Call :=
  callsOf i.id true (downVerdict i).2 ++ callsOf i.id false (upVerdict i).2

def specNoRecurse (i : Info) : NoRec := { valid := verdict i, log := noRecurseLog i }

/-- what the branch computed BEFORE repair 10acb0e, said without the assignments: the LAST phase that evaluates
    decides (counter-model only) -/
def lastPhaseVerdict (i : Info) : Valid :=
  match (upVerdict i).1 with
  | .uneval => (match (downVerdict i).1 with
      | .uneval => .uneval
      | d => .ofBool d.truthy)
  | u => .ofBool u.truthy

/-- the old code and the documented verdict coincide unless the descent list failed and the ascent list passed -/
def phasesAgree (i : Info) : Bool :=
  (upVerdict i).1 == .uneval || (downVerdict i).1.truthy || !(upVerdict i).1.truthy

/-! ### the `validator_validated` signal

Documented (`validate_element`): "Emits `validator_validated` after each validator is tested"; the sender is
the validator, `result` its raw return value; the fallback check of an element without validators reports
with sender `NotEmpty`. -/

/-- one signal per validator INVOKED, in list order, with the raw outcome -/
def sigsFrom (id : Nat) (descending : Bool) : Nat → List Outcome → List Signal
  | _, [] => []
  | k, .tru :: rest => ⟨id, .validator descending k, .tru⟩ :: sigsFrom id descending (k + 1) rest
  | k, o :: _ => [⟨id, .validator descending k, o⟩]

def elementSignals (i : Info) (descending : Bool) (vs : List Outcome) : List Signal :=
  if i.empty && i.optional then []
  else match vs with
    | [] => [⟨i.id, .notEmpty, if i.empty then .fls else .tru⟩]
    | vs => sigsFrom i.id descending 0 vs

def downSignals (i : Info) : List Signal :=
  if i.container then (match i.down with | [] => [] | d => elementSignals i true d)
  else elementSignals i true i.down

def upSignals (i : Info) : List Signal :=
  if i.container then elementSignals i false i.up else []

def expectedSignals (t : VTree) : List Signal :=
  (visited t).flatMap downSignals ++ (visited t).reverse.flatMap upSignals

/-- a validator's signal comes right after its invocation; the fallback check invokes nothing -/
def eventsOf (s : Signal) : List Event :=
  match s.sender with
  | .validator d k => [.call (s.id, d, k), .signal s]
  | .notEmpty => [.signal s]

def expectedTrace (t : VTree) : List Event := (expectedSignals t).flatMap eventsOf

def expectedNoRecurseTrace (i : Info) : List Event := (downSignals i ++ upSignals i).flatMap eventsOf

end Flatland.C05.Spec
