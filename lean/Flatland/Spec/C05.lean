/-
Specification B for C05, written from the property statement and the documentation of
`Element.validate`, without a queue:

* visited elements: the root; a child is visited iff its parent is visited and the parent's
  descent verdict is not SkipAll / SkipAllFalse;
* order: breadth-first (level by level) on the way down, the exact reverse on the way up;
* each element's validator list stops at its first failure or Skip;
* every element has its *own* verdict, a function of that element alone;
* validate() is false exactly when some visited element's verdict is false.
-/
import Flatland.C05
namespace Flatland.C05.Spec
open Flatland.C05

/-- number of validators of a list that get invoked: up to and including the first one that
    does not return plain True -/
def invoked : List Outcome → Nat
  | [] => 0
  | .tru :: rest => invoked rest + 1
  | _ :: _ => 1

/-- outcome of a non-empty validator list: that of the first validator not returning True -/
def listVerdict : List Outcome → Ret
  | [] => .tru
  | .tru :: rest => listVerdict rest
  | .none :: _ => .fls
  | .fls :: _ => .fls
  | .skip :: _ => .tru
  | .skipAll :: _ => .skipAll
  | .skipAllFalse :: _ => .skipAllFalse

/-- validators of empty optional elements are skipped; an element without validators is
    valid iff it is not empty -/
def elementVerdict (i : Info) (vs : List Outcome) : Ret × Nat :=
  if i.empty && i.optional then (.tru, 0)
  else match vs with
    | [] => (if i.empty then .fls else .tru, 0)
    | vs => (listVerdict vs, invoked vs)

def downVerdict (i : Info) : Ret × Nat :=
  if i.container then (match i.down with | [] => (.uneval, 0) | d => elementVerdict i d)
  else elementVerdict i i.down

def upVerdict (i : Info) : Ret × Nat :=
  if i.container then elementVerdict i i.up else (.uneval, 0)

/-- is anything below this element skipped? -/
def cutsBelow (i : Info) : Bool := (downVerdict i).1.isSkipAll

mutual
/-- the visited part of the tree: drop everything beneath a SkipAll / SkipAllFalse element -/
def prune : VTree → VTree
  | .node i kids => .node i (if cutsBelow i then [] else pruneL kids)
def pruneL : List VTree → List VTree
  | [] => []
  | t :: ts => prune t :: pruneL ts
end

theorem sizeL_flatMap_kids (q : List VTree) :
    sizeL (q.flatMap VTree.kids) + q.length = sizeL q := by
  induction q with
  | nil => simp [sizeL]
  | cons t ts ih =>
    cases t with
    | node i k =>
      simp [sizeL, VTree.size, VTree.kids, sizeL_append]; omega

/-- breadth-first order, by levels: all elements of one level, then the next level -/
def levelOrder : List VTree → List Info
  | [] => []
  | t :: q => (t :: q).map VTree.info ++ levelOrder ((t :: q).flatMap VTree.kids)
termination_by q => sizeL q
decreasing_by
  have := sizeL_flatMap_kids (t :: q)
  simp only [List.length_cons] at this
  omega

/-- the visited elements, in the documented descent order -/
def visited (t : VTree) : List Info := levelOrder [prune t]

/-- an element's own final verdict -/
def verdict (i : Info) : Valid :=
  let d := (downVerdict i).1
  let u := (upVerdict i).1
  match d, u with
  | .uneval, .uneval => .uneval
  | .uneval, u => .ofBool u.truthy
  | d, .uneval => .ofBool d.truthy
  | d, u => .ofBool (d.truthy && u.truthy)

def expectedLog (t : VTree) : List Call :=
  (visited t).flatMap (fun i => callsOf i.id true (downVerdict i).2)
  ++ (visited t).reverse.flatMap (fun i => callsOf i.id false (upVerdict i).2)

def expectedValids (t : VTree) : List (Nat × Valid) :=
  (visited t).map (fun i => (i.id, verdict i))

/-- False exactly when some visited element ended invalid -/
def expectedRet (t : VTree) : Bool := (visited t).all (fun i => (verdict i).truthy)

def specValidate (t : VTree) : Result :=
  { ret := expectedRet t, valids := expectedValids t, log := expectedLog t }

end Flatland.C05.Spec
