/-
Specification B for C01, flatten-level clauses: which schemas contain no pruning sequence.
-/
import Flatland.Spec.C01Prune
namespace Flatland.Flat.Spec
open Flatland.Flat

mutual
/-- no sequence of the schema prunes: every List has `prune_empty = False`, and no Array's own prune
    filter is in force (`arrayPrunes`).  JoinedStrings are unrestricted: their members are never
    flattened. -/
def noPrune : Schema → Bool
  | .leaf .. => true
  | .joined .. => true
  | .dict _ _ _ fields => noPruneL fields
  | .compound _ _ _ fields => noPruneL fields
  | .list _ _ prune _ member => !prune && noPrune member
  | .array nm _ prune member => !arrayPrunes nm prune member && noPrune member
def noPruneL : List Schema → Bool
  | [] => true
  | f :: fs => noPrune f && noPruneL fs
end

end Flatland.Flat.Spec
