/-
Specification B for the END-TO-END clause composing C12, C02 and C01:

    "a rendered form, submitted unchanged and read back with `from_flat`, rebuilds the element"

The three models share their types already: a `FormTree` (C12: an element tree in which every leaf
says with which control group the form renders it) is a node of the flat model through `embed`,
and `from_flat` / `flatten` of the flat model work on a `(Schema, Elem)` pair whose resolved node is
`resolve env s e`.  The link between the two is therefore the EQUATION

    embed t = resolve env s e          ("the form `t` renders exactly the element `e` of schema `s`")

and the end-to-end statement reads: what a browser posts for the rendered form, handed to
`from_flat`, builds `prS e` — the element up to the documented pruning / sparse normalisation of
C01 (`Flatland/Spec/C01Sparse.lean`).

Everything the statement assumes is a decidable test (so the runner evaluates it on every
generated form case and reports the hit rate):

* `formOk`, `oneSubmitter`, `boolsCanonical` — C12's hypotheses;
* `wfS`, `rootOK`, `okSB`, `envOKB`, `namesSafe` — C01's hypotheses (`namesSafe`: the separator `_`
  occurs in no declared name, no declared name is empty, `_` is not a decimal digit of the
  interpreter: `SepSafe` for a one-character separator);
* `hnodupB` — C02's hereditary "no key twice" (`HNodup`) as an executable test on the element's own
  pairs (it fails for an Array / MultiValue with two or more members);
* `dropSafe` — the condition under which DROPPING an unchecked Boolean's `(key, '')` pair does not
  change what `from_flat` builds: every mapping on the way is a dense Dict (a SparseDict would not
  create the member), every List prunes (`prune_empty = True`, the default: empty values never reach
  a slot; a non-pruning List would lose the slot) and every scalar kind reads `''` as blank
  (`env.norm k '' = ''`; false of a Boolean whose `false` token is not `''`, cf. KF-C01-h).  Only
  required when the form HAS an unchecked Boolean.
-/
import Flatland.C12.Form
import Flatland.Spec.C01Sparse
namespace Flatland.EndToEnd
open Flatland.Flat Flatland.Flat.Spec Flatland.C12
open Flatland.Markup (Tables)

/-- the separator form mode uses (`flattened_name()` default) -/
def usep : Str := ['_']

/-- `EnvOK` as a test -/
def envOKB (env : Env) : Bool := env.ndZeros.head? == some 48

/-- `SepSafe env "_" (Tok s)` as a test: `_` is no decimal digit, occurs in no declared name, and no
    declared name is empty -/
def namesSafe (env : Env) (s : Schema) : Bool :=
  !isNd env '_' && (names s).all (fun t => !t.isEmpty && !t.contains '_')

/-! ### hereditary "no key twice", executable -/

mutual
/-- `HNodup` (Proofs/C02Order.lean) with the quantifier over List slots bounded by the slots the
    pairs address -/
def hnodupB (env : Env) (sep : Str) : Schema → Pairs → Bool
  | .leaf name _ _, ps => decide ((ps.filter (fun p => p.1 == name)).length ≤ 1)
  | .joined name _ _ _, ps => decide ((ps.filter (fun p => p.1 == name)).length ≤ 1)
  | .dict name _ _ fields, ps => hnodupFieldsB env sep fields (possibles sep name ps)
  | .compound name _ _ fields, ps => hnodupFieldsB env sep fields (possibles sep name ps)
  | .list name _ prune _ member, ps =>
    (indexesOf env sep name prune ps).all (fun i => hnodupB env sep member (groupOf env sep name prune i ps))
      && hnodupB env sep member []
  | .array name _ prune member, ps =>
    if !truthy name then decide ((arrayAnon (fun _ => Elem.leaf []) prune member.name ps).length ≤ 1)
    else decide ((arrayNamed (fun _ => Elem.leaf []) sep prune (name.getD []) member.name ps).length ≤ 1)
def hnodupFieldsB (env : Env) (sep : Str) : List Schema → List (Str × Str) → Bool
  | [], _ => true
  | f :: fs, poss =>
    hnodupB env sep f (wrap (poss.filter (fun p => isPrefix (f.name.getD []) p.1)))
      && hnodupFieldsB env sep fs poss
end

/-! ### "no Array / MultiValue with two or more members" -/

mutual
/-- every Array / MultiValue of the state `e` (read against its schema) holds at most one member.
    This is the condition `hnodupB` comes down to on an element's OWN flat pairs
    (`Proofs/Lemmas/EndToEndHNodup.lean`: `hnodup_flatten`); it looks at the state only, not at the keys. -/
def narrowB : Schema → Elem → Bool
  | .array .., .array ms => decide (ms.length ≤ 1)
  | .dict _ _ _ fields, .dict ms => narrowMs fields ms
  | .compound _ _ _ fields, .dict ms => narrowMs fields ms
  | .list _ _ _ _ member, .list ms => ms.all (narrowB member)
  | _, _ => true
/-- driven by the field list: every member under its own field -/
def narrowMs : List Schema → List (Str × Elem) → Bool
  | [], _ => true
  | f :: fs, ms =>
    (match lookup (f.name.getD []) ms with
      | some e => narrowB f e
      | none => true) && narrowMs fs ms
end

/-! ### when dropping pairs with an empty value changes nothing -/

mutual
def dropSafe (env : Env) : Schema → Bool
  | .leaf _ _ k => env.norm k [] == []
  | .joined _ _ k _ => env.norm k [] == [] && (env.joinedMembers k []).isEmpty
  | .dict _ _ mode fields => decide (mode = .dense) && dropSafeL env fields
  | .compound .. => false
  | .list _ _ prune _ _ => prune
  | .array .. => false
def dropSafeL (env : Env) : List Schema → Bool
  | [] => true
  | f :: fs => dropSafe env f && dropSafeL env fs
end

/-! ### the link between the form and the `(schema, state)` pair -/

mutual
def fnodeBeq : FNode → FNode → Bool
  | .mk n f c u s k, .mk n' f' c' u' s' k' =>
    n == n' && f == f' && c == c' && u == u' && s == s' && fnodesBeq k k'
def fnodesBeq : List FNode → List FNode → Bool
  | [], [] => true
  | a :: as, b :: bs => fnodeBeq a b && fnodesBeq as bs
  | _, _ => false
end

/-- "the form `t` renders exactly the element `e` of schema `s`": the same node of the flat model -/
def linked (env : Env) (s : Schema) (e : Elem) (t : FormTree) : Bool :=
  fnodeBeq (embed t) (resolve env s e)

/-- all the decidable hypotheses of `end_to_end_partial` in one test (what the runner reports) -/
def hyps (T : Tables) (env : Env) (s : Schema) (e : Elem) (t : FormTree) : Bool :=
  linked env s e t && formOk T [] t && oneSubmitter t && boolsCanonical t
    && wfS s && rootOK s && okSB env s e && envOKB env && namesSafe env s
    && hnodupB env usep s (wrap (formPairs [] t ++ uncheckedPairs [] t))
    && ((uncheckedPairs [] t).isEmpty || dropSafe env s)

/-- `hyps` with the key-level test `hnodupB` replaced by the state-level test `narrowB` ("no Array /
    MultiValue with two or more members"): the hypotheses of `end_to_end_narrow_partial`.
    `hypsN → hyps` is `hypsN_hyps` (Proofs/EndToEnd.lean). -/
def hypsN (T : Tables) (env : Env) (s : Schema) (e : Elem) (t : FormTree) : Bool :=
  linked env s e t && formOk T [] t && oneSubmitter t && boolsCanonical t
    && wfS s && rootOK s && okSB env s e && envOKB env && namesSafe env s
    && narrowB s e
    && ((uncheckedPairs [] t).isEmpty || dropSafe env s)

/-- the hypotheses every form of the clause has to meet: the form is of the kind C12 covers and is
    submitted through its only submitter, the state conforms to the schema (C01) -/
def baseHyps (T : Tables) (env : Env) (s : Schema) (e : Elem) (t : FormTree) : Bool :=
  linked env s e t && formOk T [] t && oneSubmitter t && wfS s && rootOK s && okSB env s e && envOKB env && namesSafe env s

/-! ### Arrays / MultiValues of any size (`end_to_end_arrays_partial`)

`from_flat` reads the members of an Array in the order of its pairs, so the composition must know that
document order and `flatten()` order agree THERE.  The test: -/

/-- the pairs of every key occur in the same relative order in both lists (`KRel` of
    Proofs/Lemmas/EndToEndKRel.lean without the permutation, executable) -/
def keySameB (ps ps' : List (Str × Str)) : Bool :=
  (ps.map (·.1)).all (fun k => ps.filter (fun p => p.1 == k) == ps'.filter (fun p => p.1 == k))

/-- the hypotheses of `end_to_end_arrays_partial`: `hypsN` WITHOUT `narrowB` (Arrays / MultiValues of
    any size), without `boolsCanonical` / `dropSafe` — instead the form has NO unchecked box at all
    (`dropSafe` is false of every schema that contains an Array, so unchecked boxes and Arrays do not
    combine: `dropSafe_array_false`) — and with `keySameB`: pairs that carry the same key come in the same
    order in `flatten()` and in the form.  On canonical keys only the members of ONE Array share a key,
    and both orders are member order; that this ALWAYS holds is measured (c12.py), not proved. -/
def hypsA (T : Tables) (env : Env) (s : Schema) (e : Elem) (t : FormTree) : Bool :=
  linked env s e t && formOk T [] t && oneSubmitter t
    && wfS s && rootOK s && okSB env s e && envOKB env && namesSafe env s
    && (uncheckedPairs [] t).isEmpty
    && keySameB (flatten env usep s e) (formPairs [] t)

/-! ### which `(schema, state)` pairs a `FormTree` can be linked to

`FormTree` has constructors for text scalars, Booleans, Arrays / MultiValues of strings, JoinedStrings,
Dicts (dense or sparse) and Lists — and NONE for a Compound (`DateYYYYMMDD`, …) rendered as its parts'
inputs.  `linked` is the equation `embed t = resolve env s e`; every node of `embed t` that emits its own
pair AND lets `flatten()` descend (`fl && cfl`) has no children, whereas a Compound holding at least one
member resolves to such a node WITH children.  So every end-to-end theorem here is about schemas built
from String-like scalars, Booleans, Arrays, JoinedStrings, Dicts, SparseDicts and Lists; a Compound can
only occur with no member present in the state (then it flattens like a scalar).  `formLike` is that
shape test, `linked_formLike` / `compound_not_linked` (Proofs/EndToEndArrays.lean) the statements. -/

mutual
/-- the shape of every `embed t`: a node that emits its own pair and is descended into is childless -/
def formLike : FNode → Bool
  | .mk _ fl cfl _ _ kids => (!(fl && cfl) || kids.isEmpty) && formLikeL kids
def formLikeL : List FNode → Bool
  | [] => true
  | k :: ks => formLike k && formLikeL ks
end

end Flatland.EndToEnd
