/-
Specification B for C01: the elements and schemas the exact round trip speaks about.

`Ok env s e` — "an element of schema `s` populated with set()", as a predicate on the element's
state:
* it conforms to the schema (a Dict holds exactly its declared fields in declaration order, list
  members conform to the member schema and fit under `maximum_set_flat_members`, Array members are
  scalars);
* every scalar leaf is *settled*: its text is what its own `set()` makes of that text
  (`norm k u = u`, C04's re-set law; for a JoinedString also its members are those its text splits
  into);
* no pruning is in force (`prune_empty = False` on every sequence), every list member emits at
  least one flat pair (a member without any flat representation cannot come back), and list
  indexes stay below CPython's int-digit limit;
* no SparseDict (KF-C01-d/e).

`Tok` — the tokens flat keys are made of: declared names and decimal indexes.
-/
import Flatland.Flat
namespace Flatland.Flat.Spec
open Flatland.Flat

/-- the element has a flat representation: its `flatten()` output is not empty (this does not depend
    on the separator) -/
def emitsAny (env : Env) (s : Schema) (e : Elem) : Prop := flatten env [] s e ≠ []

mutual
def Ok (env : Env) : Schema → Elem → Prop
  | .leaf _ _ k, .leaf u => env.norm k u = u
  | .joined _ _ k _, .joined u ms => env.norm k u = u ∧ ms = (env.joinedMembers k u).map Elem.leaf
  | .dict _ _ mode fields, .dict ms => mode = .dense ∧ OkFields env fields ms
  | .compound _ _ _ fields, .dict ms => OkFields env fields ms
  | .list _ _ prune mx member, .list ms =>
    prune = false ∧ ms.length ≤ mx ∧ (∀ i, i < ms.length → (natStr i).length ≤ env.maxDigits) ∧
      ∀ e ∈ ms, Ok env member e ∧ emitsAny env member e
  | .array _ _ prune member, .array ms =>
    prune = false ∧ (∃ n o k, member = .leaf n o k) ∧ ∀ e ∈ ms, Ok env member e
  | _, _ => False
def OkFields (env : Env) : List Schema → List (Str × Elem) → Prop
  | [], [] => True
  | f :: fs, (k, e) :: ms => f.name = some k ∧ Ok env f e ∧ OkFields env fs ms
  | _, _ => False
end

mutual
/-- all names declared in a schema -/
def names : Schema → List Str
  | .leaf n .. => n.toList
  | .dict n _ _ fields => n.toList ++ namesL fields
  | .compound n _ _ fields => n.toList ++ namesL fields
  | .list n _ _ _ member => n.toList ++ names member
  | .array n _ _ member => n.toList ++ names member
  | .joined n _ _ member => n.toList ++ names member
def namesL : List Schema → List Str
  | [] => []
  | f :: fs => names f ++ namesL fs
end

/-- tokens of flat keys: declared names and decimal list indexes -/
def Tok (s : Schema) (t : Str) : Prop := t ∈ names s ∨ ∃ i, t = natStr i

/-- internal key of a token path: the empty path is the `None` a bare index leaves behind -/
def tokKey (sep : Str) (π : List Str) : Key :=
  match π with
  | [] => none
  | _ => some (joinSep sep π)

def toKeys (sep : Str) (l : List (List Str × Str)) : Pairs := l.map (fun x => (tokKey sep x.1, x.2))

/-- the root is a container or a named element (an Array at the root carries a name, its own or its
    members') -/
def rootOK : Schema → Bool
  | .leaf n .. => n.isSome
  | .joined n .. => n.isSome
  | .compound n .. => n.isSome
  | .array n _ _ member => n.isSome || member.name.isSome
  | _ => true

end Flatland.Flat.Spec
