/-
Specification B for C16, written from the property statement and the "Message Templating",
"Message Pluralization" and "Message Internationalization" sections of docs/source/validation/api.rst
and the docstring of `Validator.find_transformer` — no targets, no item-then-attribute loop.

* a key is resolved from five sources in priority order: note_error keywords, state items,
  state attributes, validator attributes, element attributes;
* a plural triple uses the singular form exactly when the resolved count equals 1;
* the translator is the first one found on the state (attribute or item), the element, its
  nearest ancestor, builtins; it is applied to the message and to every substituted value;
* the result is the chosen (translated) template with every `%(key)s` replaced by the text of
  its (translated) value and `%%` by `%`.
-/
import Flatland.C16
namespace Flatland.C16.Spec
open Flatland.C16

/-- the five documented sources of a key -/
structure Sources where
  kwargs : Str → Option Val
  stateItems : Str → Option Val
  stateAttrs : Str → Option Val
  validatorAttrs : Str → Option Val
  elementAttrs : Str → Option Val

/-- in documented priority order -/
def Sources.ordered (s : Sources) : List (Str → Option Val) :=
  [s.kwargs, s.stateItems, s.stateAttrs, s.validatorAttrs, s.elementAttrs]

/-- value of the first source that defines `k` -/
def lookup (s : Sources) (k : Str) : Option Val :=
  s.ordered.findSome? (fun src => src k)

/-- the number a looked-up count stands for (`none`: it is not a number) -/
def countOf : Val → Option Int
  | .int i => some i
  | .bool b => some (if b then 1 else 0)
  | .str s => parseInt s
  | .none => none
  | .elem _ => none
  | .method _ _ => none

/-- "If the value n equals 1, the singular form will be used.  Otherwise the plural." -/
def useSingular (n : Option Val) : Bool :=
  match n with
  | some v => countOf v == some 1
  | none => false

/-- candidates for a transformer, in documented order.  A state attribute or item is returned
    as is (even `None`); elements and ancestors contribute only a set (true) value; builtins
    last. -/
def transformer {α} (stateAttr stateItem : Option (Option α)) (ancestry : List (Option α))
    (builtin : Option (Option α)) : Option α :=
  match stateAttr with
  | some v => v
  | none => match stateItem with
    | some v => v
    | none => match ancestry.findSome? id with
      | some f => some f
      | none => match builtin with
        | some v => v
        | none => none

/-- the substitution the documentation describes: every placeholder is replaced by the text of
    its translated value -/
def substitute (tr : Option UTr) (s : Sources) : List Seg → Option Str
  | [] => some []
  | .ch c :: r => (substitute tr s r).map (c :: ·)
  | .ph k :: r =>
    match lookup s k, substitute tr s r with
    | some v, some rest =>
      some (pyStr (match tr with | some f => applyTr f v | none => v) ++ rest)
    | _, _ => none

/-- expansion of a plain message -/
def expandPlain (tr : Option UTr) (s : Sources) (tmpl : Str) : Option Str :=
  let text := match tr with | some f => f tmpl | none => tmpl
  match parseFmt text with
  | .ok segs => substitute tr s segs
  | .error _ => none

/-- expansion of a plural triple when no `ungettext` is available: Flatland chooses the form -/
def expandPlural (tr : Option UTr) (s : Sources) (single plural nkey : Str) : Option Str :=
  let n := (lookup s nkey).map (fun v => match tr with | some f => applyTr f v | none => v)
  expandPlain tr s (if useSingular n then single else plural)

end Flatland.C16.Spec
