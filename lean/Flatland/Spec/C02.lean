/-
Specification B for C02's "confined" clause: when does a flat key *address* something in a schema?

"Pairs whose key does not follow declared field names down to a leaf or to an index of a declared
list have no effect."  `addr s key` is the decidable reading of "follows declared field names down
to a leaf or to an index of a declared list", by recursion on the schema:

* scalar / joined value named `n`: the key is exactly `n`;
* mapping named `n`: the key is `n ++ sep ++ rest` and `rest` addresses one of the declared fields
  (an unnamed mapping passes the whole key on);
* list named `n`: the key is `n ++ sep ++ digits`, followed by nothing or by `sep ++ anything`
  (the key *reaches an index of a declared list*; what follows is the member's business);
* array named `n` of members named `m`: the key is `n ++ sep ++ m` (`n` itself for unnamed members).

Keys are `Option Str` because a List hands the remainder `None` to the member a bare index
addresses.
-/
import Flatland.Flat
namespace Flatland.Flat.Spec
open Flatland.Flat

/-- strip the mapping's own `name ++ sep` -/
def stripName (sep : Str) (name : Option Str) (k : Str) : Option Str :=
  match name with
  | none => some k
  | some n => if isPrefix (n ++ sep) k then some (k.drop (n ++ sep).length) else none

/-- does `key` reach a member of an unnamed Array whose members are named `cn`? -/
def arrayAddrAnon (cn : Option Str) (key : Key) : Bool :=
  let key' : Key := if key == some [] then none else key
  if truthy cn then key' == cn else key'.isNone

/-- does `key` reach a member of the Array named `name`? -/
def arrayAddrNamed (sep name : Str) (cn : Option Str) (key : Key) : Bool :=
  match key with
  | none => false
  | some k =>
    match arrayRemainder sep name k with
    | none => false
    | some rem => rem == cn

mutual
def addr (env : Env) (sep : Str) : Schema → Key → Bool
  | .leaf name _ _, key => key == name
  | .joined name _ _ _, key => key == name
  | .dict name _ _ fields, key =>
    match key with
    | none => false
    | some k => match stripName sep name k with
      | none => false
      | some rest => addrFields env sep fields rest
  | .compound name _ _ fields, key =>
    match key with
    | none => false
    | some k => match stripName sep name k with
      | none => false
      | some rest => addrFields env sep fields rest
  | .list name _ _ _ _, key => (listAddr env sep name key).isSome
  | .array name _ _ member, key =>
    if !truthy name then arrayAddrAnon member.name key
    else arrayAddrNamed sep (name.getD []) member.name key
def addrFields (env : Env) (sep : Str) : List Schema → Str → Bool
  | [], _ => false
  | f :: fs, rest =>
    (isPrefix (f.name.getD []) rest && addr env sep f (some rest)) || addrFields env sep fs rest
end

mutual
/-- no SparseDict anywhere in the schema -/
def dense : Schema → Bool
  | .leaf .. => true
  | .dict _ _ mode fields => decide (mode = .dense) && denseL fields
  | .compound _ _ _ fields => denseL fields
  | .list _ _ _ _ member => dense member
  | .array _ _ _ member => dense member
  | .joined _ _ _ member => dense member
def denseL : List Schema → Bool
  | [] => true
  | f :: fs => dense f && denseL fs
end

end Flatland.Flat.Spec
