/-
Specification B for C17, written from the property statement:

* every view (schema class or element instance) has a *layer*: the writes and deletions made
  through that view, per key (`Layer`); nothing else is stored anywhere;
* what a view shows is the overlay of the layers of its inheritance chain, from the most basic
  class down to the view itself (`visible`); a class made with `using(properties=…)` starts a
  fresh mapping (its chain ends there); an instance assigned a plain mapping shows that mapping
  and nothing else;
* the mutating methods have Python `dict` semantics on the visible mapping (`dictApply`,
  `dictResult`, `ItemsOf`) and are recorded in the layer of the view they were made through, and
  only there (`applyOp`, `step`).

Mappings and layers are functions `Key → Option _`: no order, no frames, no descriptors.
-/
import Flatland.C17
namespace Flatland.C17.Spec
open Flatland.C17

abbrev Mapping := Key → Option Val
abbrev Layer := Key → Option Slot

def Mapping.empty : Mapping := fun _ => none
def Layer.empty : Layer := fun _ => none

def upd (m : Mapping) (k : Key) (v : Option Val) : Mapping := fun k' => if k' = k then v else m k'
def Layer.set (l : Layer) (k : Key) (s : Slot) : Layer := fun k' => if k' = k then some s else l k'

/-- one layer on top of what is inherited -/
def overlay (below : Mapping) (l : Layer) : Mapping := fun k =>
  match l k with
  | some (.val v) => some v
  | some .deleted => none
  | none => below k

/-- layers listed from the view upwards; the most basic one is applied first -/
def overlayAll : List Layer → Mapping
  | [] => Mapping.empty
  | l :: above => overlay (overlayAll above) l

/-! ### Python `dict` semantics on a mapping -/

def dictApply : Op → Mapping → Mapping
  | .setitem k v, m => upd m k (some v)
  | .delitem k, m => upd m k none                       -- KeyError when absent: nothing changes
  | .clear, _ => Mapping.empty
  | .pop k _, m => upd m k none
  | .setdefault k d, m => if (m k).isSome then m else upd m k (some d)
  | .update pairs, m => pairs.foldl (fun m kv => upd m kv.1 (some kv.2)) m
  | _, m => m

/-- results that do not depend on iteration order -/
def dictResult : Op → Mapping → Option Res
  | .getitem k, m => some (match m k with | some v => .val v | none => .err .keyError)
  | .setitem _ _, _ => some .unit
  | .delitem k, m => some (if (m k).isSome then .unit else .err .keyError)
  | .clear, _ => some .unit
  | .pop k dflt, m =>
    some (match m k, dflt with
      | some v, _ => .val v
      | none, some d => .val d
      | none, none => .err .keyError)
  | .setdefault k d, m => some (.val ((m k).getD d))
  | .update _, _ => some .unit
  | .get k d, m => some (.val ((m k).getD d))
  | .contains k, m => some (.bool (m k).isSome)
  | .popitem, _ => some (.err .notImplemented)
  | _, _ => none

/-- `l` lists the mapping `m`: each key once, exactly the pairs of `m` -/
def ItemsOf (m : Mapping) (l : List (Key × Val)) : Prop :=
  (l.map (·.1)).Nodup ∧ ∀ k v, (k, v) ∈ l ↔ m k = some v

/-- results of the iterating methods, given a listing `l` of the mapping in the order the view
    chose and a listing `l'` in the order `copy()` chose -/
def iterResult (l : List (Key × Val)) : Op → Option Res
  | .items => some (.items l)
  | .keys => some (.keys (l.map (·.1)))
  | .values => some (.vals (l.map (·.2)))
  | .copy => some (.items l)
  | .bool => some (.bool (!l.isEmpty))
  | .eq other => some (.bool (dictEq l (AList.ofPairs other)))
  | .ne other => some (.bool (!(dictEq l (AList.ofPairs other))))
  | _ => none

/-! ### the layered store of the property text -/

inductive SInst
  | attached (c : ClassId) (l : Layer)
  | detached (c : ClassId) (m : Dict Val)

structure SState where
  nclasses : Nat
  /-- linearised inheritance chain of a class, itself first -/
  mro : ClassId → List ClassId
  /-- the class starts a fresh mapping (`using(properties=…)`, or the root of the hierarchy) -/
  fresh : ClassId → Bool
  layer : ClassId → Layer
  insts : List SInst

/-- the part of the chain a class inherits properties from: up to the nearest fresh start -/
def cut (fresh : ClassId → Bool) : List ClassId → List ClassId
  | [] => []
  | c :: r => if fresh c then [c] else c :: cut fresh r

def chain (s : SState) (c : ClassId) : List ClassId := cut s.fresh (s.mro c)

def classVisible (s : SState) (c : ClassId) : Mapping := overlayAll ((chain s c).map s.layer)

def visible (s : SState) : View → Mapping
  | .cls c => classVisible s c
  | .inst i =>
    match s.insts[i]? with
    | none => Mapping.empty
    | some (.attached c l) => overlay (classVisible s c) l
    | some (.detached _ m) => fun k => AList.get? m k

/-- how an operation made through a view whose visible mapping is `m` is recorded in that
    view's own layer `l`: writes as values, deletions (del / pop / clear of a visible key) as
    tombstones; failed or read-only operations record nothing -/
def applyOp (m : Mapping) (l : Layer) : Op → Layer
  | .setitem k v => l.set k (.val v)
  | .delitem k => if (m k).isSome then l.set k .deleted else l
  | .clear => fun k => if (m k).isSome then some .deleted else l k
  | .pop k _ => if (m k).isSome then l.set k .deleted else l
  | .setdefault k d => if (m k).isSome then l else l.set k (.val d)
  | .update pairs => pairs.foldl (fun l kv => l.set kv.1 (.val kv.2)) l
  | _ => l

def layerOfPairs (pairs : List (Key × Val)) : Layer :=
  pairs.foldl (fun l kv => l.set kv.1 (.val kv.2)) Layer.empty

def fupd {β : Type} (f : Nat → β) (n : Nat) (b : β) : Nat → β := fun x => if x = n then b else f x

def addClass (s : SState) (mroTail : List ClassId) (fresh : Bool) (l : Layer) : SState :=
  { s with nclasses := s.nclasses + 1,
           mro := fupd s.mro s.nclasses (s.nclasses :: mroTail),
           fresh := fupd s.fresh s.nclasses fresh,
           layer := fupd s.layer s.nclasses l }

def step (s : SState) : Cmd → SState
  | .op (.cls c) o =>
    if c < s.nclasses then
      { s with layer := fupd s.layer c (applyOp (classVisible s c) (s.layer c) o) }
    else s
  | .op (.inst i) o =>
    match s.insts[i]? with
    | none => s
    | some (.attached c l) =>
      { s with insts := s.insts.set i (.attached c (applyOp (overlay (classVisible s c) l) l o)) }
    | some (.detached c m) => { s with insts := s.insts.set i (.detached c (plainOp m o).1) }
  | .subclass p => if p < s.nclasses then addClass s (s.mro p) false Layer.empty else s
  | .subclassMI tail =>
    if tail.all (· < s.nclasses) then addClass s tail false Layer.empty else s
  | .usingProps p init =>
    if p < s.nclasses then addClass s (s.mro p) true (layerOfPairs init) else s
  | .usingShared p owner init =>
    -- a fresh mapping that starts as a copy of the initial mapping the Properties object was built with
    if p < s.nclasses ∧ s.fresh owner ∧ owner < s.nclasses then
      addClass s (s.mro p) true (layerOfPairs init) else s
  | .withProps p pairs =>
    if p < s.nclasses then addClass s (s.mro p) false (layerOfPairs pairs) else s
  | .newInst c =>
    if c < s.nclasses then { s with insts := s.insts ++ [.attached c Layer.empty] } else s
  | .newInstWith c m =>
    if c < s.nclasses then { s with insts := s.insts ++ [.detached c (AList.ofPairs m)] } else s
  | .assign i m =>
    match s.insts[i]? with
    | none => s
    | some (.attached c _) => { s with insts := s.insts.set i (.detached c (AList.ofPairs m)) }
    | some (.detached c _) => { s with insts := s.insts.set i (.detached c (AList.ofPairs m)) }
  | .newInstCompound c m =>
    if c < s.nclasses then
      let s1 := addClass s (s.mro c) true (layerOfPairs m)
      { s1 with insts := s1.insts ++ [.attached s.nclasses Layer.empty] }
    else s

/-- a whole history on the layered store -/
def run (s : SState) (cmds : List Cmd) : SState := cmds.foldl step s

/-! ### abstraction of a model state: which layer each view holds -/

def frameLayer (f : Frame) : Layer := fun k => AList.get? f k

def absLayer (σ : State) (c : ClassId) : Layer :=
  match σ.descOf c with
  | none => Layer.empty
  | some d => frameLayer (σ.baseFrame c d)

def absInst (x : Inst) : SInst :=
  match x.loc with
  | .storage f => .attached x.cls (frameLayer f)
  | .plain m => .detached x.cls m

def abs (σ : State) : SState :=
  { nclasses := σ.classes.length,
    mro := σ.mroOf,
    fresh := fun c => (σ.ownOf c).isSome,
    layer := absLayer σ,
    insts := σ.insts.map absInst }

/-! ### decidable side conditions used by the theorems and by the runner -/

/-- no `Properties` object sits in the `__dict__` of two classes -/
def noShared (σ : State) : Bool :=
  (List.range σ.classes.length).all (fun c =>
    (List.range σ.classes.length).all (fun c' =>
      c == c' || σ.ownOf c == none || σ.ownOf c != σ.ownOf c'))

/-- every class of the chain of `c` resolves `properties` to the same descriptor as `c` does
    (always true with single inheritance) -/
def coherentAt (σ : State) (c : ClassId) : Bool :=
  (σ.descOf c).isSome &&
    (cut (fun x => (σ.ownOf x).isSome) (σ.mroOf c)).all (fun x => σ.descOf x == σ.descOf c)

def coherent (σ : State) : Bool := (List.range σ.classes.length).all (coherentAt σ)

/-- `instance.properties.clear()` while the instance's local storage holds a key that the class
    lookup does not show: `local.clear()` forgets that key (value or tombstone) instead of
    recording a deletion -/
def badClear (σ : State) : Cmd → Bool
  | .op (.inst i) .clear =>
    match σ.insts[i]? with
    | some ⟨c, .storage f⟩ =>
      match σ.descOf c with
      | some d => f.any (fun kv => (tGet σ c d kv.1).toOption.isNone)
      | none => false
    | _ => false
  | _ => false

end Flatland.C17.Spec
