/-
Specification B for C13, from the property statement: for every element of a tree,
`find(el.fq_name())` evaluated from the root — or from any other element — returns exactly
that one element, and the root's `fq_name()` is `/`.

`addressable` is the restriction under which the statement is true of the code as it is
(KF-C13-a/b): the path grammar has no escape for a backslash, so
  * an element under a Dict/Compound whose name is empty has no spelling at all,
  * a name ending in a backslash swallows the `/` that follows it, so nothing *below* such an
    element can be addressed (the element itself can).
  * [KeyIsName] `find` looks a step up among the *keys* of a mapping while `fq_name` prints the
    element's *name*; they differ after a SparseDict item assignment of an instance of a renamed
    subclass of the field schema (KF-C10-a state, KF-C13-c), so `addressable` demands
    `key = name` of every mapping child on the way — an explicit hypothesis, not an invariant.
(A backslash directly before `.` or `]` inside a name used to be a further case; since b49b3eb
`fq_name` doubles that backslash and the name is read back unchanged.)
-/
import Flatland.Path
namespace Flatland.C13.Spec
open Flatland.Path

/-- the law at one (start, element) pair -/
def isInverseAt (root : Node) (start pos : Pos) : Bool :=
  match find root start (fqName root pos) false true with
  | .many [p] => p == pos
  | _ => false

/-- the full property: every element, from every start -/
def Inverse (root : Node) : Prop :=
  fqName root [] = ['/'] ∧
  ∀ start pos, (root.get? start).isSome → (root.get? pos).isSome → isInverseAt root start pos = true

def endsWithBackslash (s : Str) : Bool := s.getLast? == some '\\'

/-- names on the way from the root to `pos` that `fq_name` emits (children of mappings) can be
    spelled: `last` = this is the final segment -/
def addressableFrom : Node → Pos → Bool
  | _, [] => true
  | .mk k _ _ kids, i :: p =>
    match kids[i]? with
    | none => false
    | some c =>
      (k != .map ||
        (c.key == some c.name   -- [KeyIsName]
          && !c.name.isEmpty && (p.isEmpty || !endsWithBackslash c.name))
        || (c.key == none && c.name.isEmpty))   -- an unnamed field: the empty step looks up `None` (05c4adc)
      && addressableFrom c p

def addressable (root : Node) (pos : Pos) : Bool := addressableFrom root pos

/-- the part of `addressable` that is about spelling alone: the position exists and every Dict child
    on the way has a non-empty name, only the last of which may end in a backslash.  On such
    positions `addressable` is EXACT (`find_fq_iff`): the inverse law holds iff, in addition, every
    Dict child on the way is stored under its own name. -/
def spellableFrom : Node → Pos → Bool
  | _, [] => true
  | .mk k _ _ kids, i :: p =>
    match kids[i]? with
    | none => false
    | some c =>
      (k != .map || (!c.name.isEmpty && (p.isEmpty || !endsWithBackslash c.name))
        || (c.key == none && c.name.isEmpty))     -- an unnamed field is spelled by the empty step
      && spellableFrom c p

def spellable (root : Node) (pos : Pos) : Bool := spellableFrom root pos

end Flatland.C13.Spec
