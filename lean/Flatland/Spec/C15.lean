/-
Specification B for C15: the *documented* condition of each built-in validator, written from the
class docstrings (docs/source/validation + src/flatland/validation/*.py "Emitted if …" clauses)
as a predicate on the element view — no loops over siblings with flags, no `note_error`, no
two-digits-at-a-time arithmetic.

`documented v e = none` means the documentation makes no promise (operands that cannot be ordered,
a validator applied to an element kind it is not documented for, the URL validators whose
shape is delegated to `urlparse`).  For `IsEmail` the idna conversion is an opaque input of the
view, but *where* each documented condition is applied (on the converted text) is specified.
-/
import Flatland.C15
namespace Flatland.C15.Spec
open Flatland.C16 Flatland.C15

/-! ### ordering of comparable natives -/

/-- texts compare lexicographically by code point -/
def textCmp : Str → Str → Ordering
  | [], [] => .eq
  | [], _ :: _ => .lt
  | _ :: _, [] => .gt
  | a :: as, b :: bs =>
    match compare a.toNat b.toNat with
    | .eq => textCmp as bs
    | o => o

/-- numbers (bool is a number in Python) compare by value, texts lexicographically; anything
    else is not comparable -/
def cmp (a b : Val) : Option Ordering :=
  match numOf a, numOf b with
  | some x, some y => some (compare x y)
  | _, _ => match a, b with
    | .str x, .str y => some (textCmp x y)
    | _, _ => none

/-- equality of natives as Python sees it -/
def same (a b : Val) : Bool :=
  match cmp a b with
  | some .eq => true
  | some _ => false
  | none => (a == .none && b == .none)

/-! ### Luhn, textbook form -/

/-- decimal digits, least significant first -/
def digits (n : Nat) : List Nat :=
  if h : n = 0 then [] else n % 10 :: digits (n / 10)
termination_by n
decreasing_by omega

/-- a doubled digit, reduced to one digit by adding its digits -/
def doubled (d : Nat) : Nat := if 2 * d > 9 then 2 * d - 9 else 2 * d

/-- from the right: the check digit as is, every second digit doubled -/
def luhnSum : List Nat → Nat
  | [] => 0
  | [d] => d
  | d :: d' :: rest => d + doubled d' + luhnSum rest

def luhnSpec (ds : List Nat) : Bool := luhnSum ds % 10 == 0

/-! ### the documented conditions -/

/-- all referenced fields exist -/
def allResolved : List (Option FieldView) → Option (List FieldView)
  | [] => some []
  | none :: _ => none
  | some f :: rest => (allResolved rest).map (f :: ·)

/-- is the key one of the declared field names? -/
def declared (schemaKeys : List Str) (k : Val) : Bool := schemaKeys.any (fun a => same k (.str a))

/-- is the field name among the given keys? -/
def given (ks : List Val) (a : Str) : Bool := ks.any (fun k => same (.str a) k)

/-- the labels that go into the MapEqual message are texts -/
def textLabels (l : List FieldView) : Bool :=
  l.all (fun f => match f.label with | .str _ => true | _ => false)

/-- IsEmail, from its docstring.  Given **local-part@domain**: exactly one `@`; the local part
    has at least one non-whitespace character (and matches `local_part_pattern` when one is
    set); the domain "will be converted to IDN representation *before* length assertions are
    applied": the conversion must succeed and every remaining condition is on the converted
    text `idna` — at most 253 characters, the domain pattern, each dot-separated component 63
    characters or less, and at least two components when `non_local`.
    (`idna` and `localOk` are the results of the opaque idna codec / regular expression.) -/
def emailDocumented (nonLocal : Bool) (addr : Str) (localOk : Option Bool) (idna : Option Str) :
    Bool :=
  addr.count '@' == 1 &&
  (match splitOnChar '@' addr with
   | [l, _] => l.any (fun c => !isSpaceChar c)
   | _ => false) &&
  localOk != some false &&
  (match idna with
   | none => false
   | some d =>
     decide (d.length ≤ 253) && domainMatches d &&
     (!nonLocal || decide (2 ≤ (splitOnChar '.' d).length)) &&
     (splitOnChar '.' d).all (fun l => decide (l.length ≤ 63)))

def documented (v : V) (e : View) : Option Bool :=
  match v with
  | .present => some (e.u != [])
  | .isTrue => some (truthy e.value)
  | .isFalse => some (!truthy e.value)
  | .converted => some (e.value != .none)
  | .valueIn options => some (options.any (fun o => same e.value o))
  -- a text container: the value is "in" it when it occurs at some offset; a value that is not
  -- text is in no text
  | .valueInText container =>
    match e.value with
    | .str s => some ((List.range (container.length + 1)).any
        (fun i => (container.drop i).take s.length == s))
    | _ => some false
  | .shorterThan maxlength => some (decide ((e.u.length : Int) ≤ maxlength))
  | .longerThan minlength => some (decide (minlength ≤ (e.u.length : Int)))
  | .lengthBetween lo hi => some (decide (lo ≤ (e.u.length : Int) ∧ (e.u.length : Int) ≤ hi))
  -- "no value ⇒ not within bounds"
  | .valueLessThan b =>
    if e.value == .none then some false else (cmp e.value b).map (· == .lt)
  | .valueAtMost m =>
    if e.value == .none then some false else (cmp e.value m).map (· != .gt)
  | .valueGreaterThan b =>
    if e.value == .none then some false else (cmp e.value b).map (· == .gt)
  | .valueAtLeast m =>
    if e.value == .none then some false else (cmp e.value m).map (· != .lt)
  | .valueBetween lo hi inclusive =>
    if e.value == .none then some false
    else match cmp lo e.value, cmp e.value hi with
      | some a, some b =>
        some (if inclusive then a != .gt && b != .gt else a == .lt && b == .lt)
      | some a, none =>
        -- below the lower bound already decides it
        if (if inclusive then a != .gt else a == .lt) then none else some false
      | none, _ => none
  | .mapEqual k =>
    -- all referenced fields are equal (under the class's transform)
    match allResolved e.fields with
    | none => none
    | some [] => none
    | some (first :: rest) =>
      if !textLabels (first :: rest) then none else
      some (rest.all (fun f => match k with
        | .element => same f.value first.value && f.u == first.u
        | .value => same f.value first.value
        | .u => f.u == first.u))
  | .notDuplicated =>
    -- invalid exactly when some *earlier* sibling compares equal
    match e.hasParent, e.pos with
    | true, some p =>
      some (!((e.siblings.take p).any (fun s => same e.value s.1 && e.u == s.2)))
    | _, _ => none
  | .hasAtLeast minimum =>
    if !e.isSequence then none
    else match e.valueLen with
      | some n => some (decide (minimum ≤ (n : Int)))
      | none => none            -- a sequence element always has a list value
  | .hasAtMost maximum =>
    if !e.isSequence || maximum < 0 then none
    else match e.valueLen with
      | some n => some (decide ((n : Int) ≤ maximum))
      | none => some true
  | .hasBetween lo hi =>
    if !e.isSequence then none
    else
      some (decide (lo ≤ lenOrZero e.valueLen ∧ lenOrZero e.valueLen ≤ hi))
  | .setWithKnownFields =>
    match e.raw with
    | .pairs ks => some (ks.all (declared e.schemaKeys))
    | _ => some true            -- raw not available / not an iterable of pairs: deemed valid
  | .setWithAllFields =>
    match e.raw with
    | .pairs ks => some (ks.all (declared e.schemaKeys) && e.schemaKeys.all (given ks))
    | _ => some true
  | .luhn10 =>
    match e.value with
    | .none => some false
    | v => match numOf v with
      | some n => some (decide (0 ≤ n) && luhnSpec (digits n.toNat))
      | none => none
  | .isEmail nonLocal =>
    match e.value with
    | .none => some false
    | .str addr => some (emailDocumented nonLocal addr e.localOk e.idna)
    | _ => none
  | .urlValidator _ _ => none
  | .httpURL _ _ => none
  | .urlCanonicalizer _ => none

end Flatland.C15.Spec
