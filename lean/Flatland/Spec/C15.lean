/-
Specification B for C15: the *documented* condition of each built-in validator, written from the
class docstrings (docs/source/validation + src/flatland/validation/*.py "Emitted if …" clauses)
as a predicate on the element view — no loops over siblings with flags, no `note_error`, no
two-digits-at-a-time arithmetic.

`documented v e = none` means the documentation makes no promise (operands that cannot be ordered,
a validator applied to an element kind it is not documented for).  The URL validators are
specified over the parts of the parse result (`Parsed`, the opaque record `urlparse` returns):
what "valid" means in terms of those parts, with no order of checks.  For `IsEmail` the idna conversion is an opaque input of the
view, but *where* each documented condition is applied (on the converted text) is specified.
-/
import Flatland.C15
namespace Flatland.C15.Spec
open Flatland.C16 Flatland.C15

/-! ### ordering of comparable natives -/

/-- texts compare lexicographically by code point -/
def textCmp : Str → Str → Ordering
  | [], [] => .eq
  | [], _ :: _ => .lt
  | _ :: _, [] => .gt
  | a :: as, b :: bs =>
    match compare a.toNat b.toNat with
    | .eq => textCmp as bs
    | o => o

/-- numbers (bool is a number in Python) compare by value, texts lexicographically; anything
    else is not comparable -/
def cmp (a b : Val) : Option Ordering :=
  match numOf a, numOf b with
  | some x, some y => some (compare x y)
  | _, _ => match a, b with
    | .str x, .str y => some (textCmp x y)
    | _, _ => none

/-- equality of natives as Python sees it -/
def same (a b : Val) : Bool :=
  match cmp a b with
  | some .eq => true
  | some _ => false
  | none => (a == .none && b == .none)

/-! ### Luhn, textbook form -/

/-- decimal digits, least significant first -/
def digits (n : Nat) : List Nat :=
  if h : n = 0 then [] else n % 10 :: digits (n / 10)
termination_by n
decreasing_by omega

/-- a doubled digit, reduced to one digit by adding its digits -/
def doubled (d : Nat) : Nat := if 2 * d > 9 then 2 * d - 9 else 2 * d

/-- from the right: the check digit as is, every second digit doubled -/
def luhnSum : List Nat → Nat
  | [] => 0
  | [d] => d
  | d :: d' :: rest => d + doubled d' + luhnSum rest

def luhnSpec (ds : List Nat) : Bool := luhnSum ds % 10 == 0

/-! ### the documented conditions -/

/-- all referenced fields exist -/
def allResolved : List (Option FieldView) → Option (List FieldView)
  | [] => some []
  | none :: _ => none
  | some f :: rest => (allResolved rest).map (f :: ·)

/-- is the key one of the declared field names? -/
def declared (schemaKeys : List Str) (k : Val) : Bool := schemaKeys.any (fun a => same k (.str a))

/-- is the field name among the given keys? -/
def given (ks : List Val) (a : Str) : Bool := ks.any (fun k => same (.str a) k)

/-- the labels that go into the MapEqual message are texts -/
def textLabels (l : List FieldView) : Bool :=
  l.all (fun f => match f.label with | .str _ => true | _ => false)

/-- IsEmail, from its docstring.  Given **local-part@domain**: exactly one `@`; the local part
    has at least one non-whitespace character (and matches `local_part_pattern` when one is
    set); the domain "will be converted to IDN representation *before* length assertions are
    applied": the conversion must succeed and every remaining condition is on the converted
    text `idna` — at most 253 characters, the domain pattern, each dot-separated component 63
    characters or less, and at least two components when `non_local`.
    (`idna` and `localOk` are the results of the opaque idna codec / regular expression.) -/
def emailDocumented (nonLocal : Bool) (addr : Str) (localOk : Option Bool) (idna : Option Str) :
    Bool :=
  addr.count '@' == 1 &&
  (match splitOnChar '@' addr with
   | [l, _] => l.any (fun c => !isSpaceChar c)
   | _ => false) &&
  localOk != some false &&
  (match idna with
   | none => false
   | some d =>
     decide (d.length ≤ 253) && domainMatches d &&
     (!nonLocal || decide (2 ≤ (splitOnChar '.' d).length)) &&
     (splitOnChar '.' d).all (fun l => decide (l.length ≤ 63)))

/-! ### URL validators: the documented predicate over the parsed parts -/

/-- "Restrict URLs to just this sequence of named schemes, or allow all schemes with ('*',)":
    the docstring names exactly the one-item sequence `('*',)` as the wildcard (so `('*', 'x')` is a
    restriction to the two names `*` and `x`); otherwise "blocked_scheme: emitted if the URL
    `scheme:` is not present in `allowed_schemes`" — membership, also for the empty scheme of a
    scheme-relative URL when `''` is listed.  With the wildcard every *scheme* is allowed; a URL
    without a scheme has none to allow. -/
def schemeAllowed (allowedSchemes : List Str) (scheme : Str) : Bool :=
  if allowedSchemes == [['*']] then scheme != [] else allowedSchemes.contains scheme

/-- URLValidator, from its docstring.  The URL (the value without surrounding white space) must be
    parseable ("bad_format: emitted for an unparseable URL"); its `scheme:` must be present in
    `allowed_schemes` (`schemeAllowed`); and it must have no component (non-empty part) that is not
    present in `allowed_parts`. -/
def urlDocumented (allowedSchemes allowedParts : List Str) (r : ParseResult) : Option Bool :=
  match r with
  | .missing => none
  | .raises _ => some false
  | .ok p =>
    some (schemeAllowed allowedSchemes p.six.scheme &&
          UrlPart.all.all (fun part => p.six.get part == [] || allowedParts.contains part.name))

/-- class of KF-C15-g: the URL has no scheme and `''` is one of the listed `allowed_schemes` — the
    docstring's membership test allows it, the code blocks every scheme-less URL -/
def emptySchemeListed (allowedSchemes : List Str) (r : ParseResult) : Bool :=
  match r with
  | .ok p => p.six.scheme == [] && allowedSchemes != [['*']] && allowedSchemes.contains []
  | _ => false

/-- the part names of `urlparse`'s vocabulary for HTTP-like URLs -/
def httpVocabulary : List Str :=
  ["scheme".toList, "netloc".toList, "path".toList, "params".toList, "query".toList,
   "fragment".toList, "username".toList, "password".toList, "hostname".toList, "port".toList]

/-- the value of each named part of a parsed URL, as the rules of `required_parts` /
    `forbidden_parts` see it: a text, no value, or unreadable (the port as decimal text) -/
def partTable (p : Parsed) : List (Str × PartVal) :=
  [("scheme".toList, .str p.six.scheme), ("netloc".toList, .str p.six.netloc),
   ("path".toList, .str p.six.path), ("params".toList, .str p.six.params),
   ("query".toList, .str p.six.query), ("fragment".toList, .str p.six.fragment),
   ("username".toList, p.username), ("password".toList, p.password),
   ("hostname".toList, p.hostname),
   ("port".toList, match p.port with
      | .raises => .raises | .none => .none | .int i => .str (intStr i))]

/-- **"the URL has the part"** — stated once, for all ten names and for both mappings: the part
    has a non-empty value.  ("required_part: emitted if URL is *missing* a part", "forbidden_part:
    emitted if URL *contains* a part".)  The six tuple items of a parse result are `''` when the URL
    does not have them, the derived attributes `None` (or `''`: `http://@h/` has no user name). -/
def partPresent : PartVal → Bool
  | .str s => s != []
  | _ => false

/-- "If value is True, the part is required.  The value may also be a sequence of strings; the
    value of the part must be present in this collection to validate."  An empty collection has no
    member, so nothing validates against it.  (`False` / `None`: no rule.) -/
def requiredHolds (rule : Option PartRule) (part : PartVal) : Bool :=
  match rule, part with
  | some .always, v => partPresent v
  | some (.oneOf l), .str s => l.contains s
  | some (.oneOf _), _ => false
  | _, _ => true

/-- "If value is True, the part is forbidden and validation fails.  The value may also be a
    sequence of strings; the value of the part must not be present in this collection." -/
def forbiddenHolds (rule : Option PartRule) (part : PartVal) : Bool :=
  match rule, part with
  | some .always, v => !partPresent v
  | some (.oneOf l), .str s => !l.contains s
  | _, _ => true

/-- HTTPURLValidator, from its docstring, for a URL that parses: every known part (`all_parts`)
    is readable, satisfies its entry of `required_parts` and does not violate its entry of
    `forbidden_parts`.  No promise when `all_parts` names something outside the vocabulary. -/
def httpPartsDocumented (allParts : List Str) (required forbidden : List (Str × PartRule))
    (table : List (Str × PartVal)) : Option Bool :=
  if !allParts.all (fun k => httpVocabulary.contains k) then none
  else some (allParts.all (fun k =>
    match table.lookup k with
    | some .raises => false
    | some v => requiredHolds (required.lookup k) v && forbiddenHolds (forbidden.lookup k) v
    | none => true))

/-- … and for any element value: an element without a value has no part at all (so a required
    part cannot be there — KF-C15-a is that the code says True); an unparseable URL is invalid -/
def httpDocumented (allParts : List Str) (required forbidden : List (Str × PartRule))
    (value : Option Str) (lib : UrlLib) : Option Bool :=
  match value with
  | none => httpPartsDocumented allParts required forbidden (httpVocabulary.map (fun k => (k, PartVal.none)))
  | some url =>
    match lib.urlparse url with
    | .missing => none
    | .raises .valueError => some false
    | .raises _ => none                         -- "emitted for an unparseable URL": a ValueError
    | .ok p => httpPartsDocumented allParts required forbidden (partTable p)

/-- the URL's parts with the unwanted ones removed: membership in `discard_parts`, no order -/
def keptParts (discardParts : List Str) (u : Six) : Six :=
  let keep (part : UrlPart) : Str := if discardParts.contains part.name then [] else u.get part
  { scheme := keep .scheme, netloc := keep .netloc, path := keep .path,
    params := keep .params, query := keep .query, fragment := keep .fragment }

/-- URLCanonicalizer, from its docstring, the VERDICT: "Given a valid URL, re-writes it with
    unwanted parts removed" / "bad_format: emitted for an unparseable URL" — true unless the URL is
    unparseable; nothing to do without a value or without unwanted parts.  No promise for part names
    outside the six-name vocabulary.  (What is promised about the RESULT is `canonFaithful`.) -/
def canonDocumented (discardParts : List Str) (value : Option Str) (lib : UrlLib) : Option Bool :=
  if discardParts.isEmpty then some true
  else match value with
    | none => some true
    | some url =>
      match lib.urlparse url with
      | .missing => none
      | .raises _ => some false
      | .ok p =>
        if !discardParts.all (fun k => (UrlPart.all.map UrlPart.name).contains k) then none
        else match lib.urlunparse (keptParts discardParts p.six) with
          | .ok _ => some true
          | .error _ => none                     -- a stand-in `urlunparse` that raises

/-- URLCanonicalizer, from its docstring, the RESULT: "re-writes it with unwanted parts removed" —
    the URL the element holds afterwards (`r`), read as a URL again, (a) has none of the discarded
    parts and (b) has every other part exactly as the original had it.  `none`: no promise (no text
    value, unparseable, names outside the vocabulary, a `urlunparse` that raises or returns something
    that is not text, or no parse entry for `r`). -/
def canonFaithful (discardParts : List Str) (value : Val) (lib : UrlLib) : Option Bool :=
  if discardParts.isEmpty then none
  else if !discardParts.all (fun k => (UrlPart.all.map UrlPart.name).contains k) then none
  else match value with
    | .str url =>
      match lib.urlparse url with
      | .ok p =>
        (match lib.urlunparse (keptParts discardParts p.six) with
         | .ok (.str r) =>
           (match lib.urlparse r with
            | .ok p' => some (UrlPart.all.all (fun part =>
                if discardParts.contains part.name then p'.six.get part == []      -- (a)
                else p'.six.get part == p.six.get part))                           -- (b)
            | .raises _ => some false
            | .missing => none)
         | _ => none)
      | _ => none
    | _ => none

/-- the value URLCanonicalizer leaves behind: the rebuild of the kept parts when it succeeds -/
def canonValue (discardParts : List Str) (value : Val) (lib : UrlLib) : Val :=
  if discardParts.isEmpty then value
  else match value with
    | .str url =>
      match lib.urlparse url with
      | .ok p =>
        (match lib.urlunparse (keptParts discardParts p.six) with
         | .ok v => v
         | .error _ => value)
      | _ => value
    | _ => value

def documented (v : V) (e : View) : Option Bool :=
  match v with
  | .present => some (e.u != [])
  | .isTrue => some (truthy e.value)
  | .isFalse => some (!truthy e.value)
  | .converted => some (e.value != .none)
  | .valueIn options => some (options.any (fun o => same e.value o))
  -- a text container: the value is "in" it when it occurs at some offset; a value that is not
  -- text is in no text
  | .valueInText container =>
    match e.value with
    | .str s => some ((List.range (container.length + 1)).any
        (fun i => (container.drop i).take s.length == s))
    | _ => some false
  | .shorterThan maxlength => some (decide ((e.u.length : Int) ≤ maxlength))
  | .longerThan minlength => some (decide (minlength ≤ (e.u.length : Int)))
  | .lengthBetween lo hi => some (decide (lo ≤ (e.u.length : Int) ∧ (e.u.length : Int) ≤ hi))
  -- "no value ⇒ not within bounds"
  | .valueLessThan b =>
    if e.value == .none then some false else (cmp e.value b).map (· == .lt)
  | .valueAtMost m =>
    if e.value == .none then some false else (cmp e.value m).map (· != .gt)
  | .valueGreaterThan b =>
    if e.value == .none then some false else (cmp e.value b).map (· == .gt)
  | .valueAtLeast m =>
    if e.value == .none then some false else (cmp e.value m).map (· != .lt)
  | .valueBetween lo hi inclusive =>
    if e.value == .none then some false
    else match cmp lo e.value, cmp e.value hi with
      | some a, some b =>
        some (if inclusive then a != .gt && b != .gt else a == .lt && b == .lt)
      | some a, none =>
        -- below the lower bound already decides it
        if (if inclusive then a != .gt else a == .lt) then none else some false
      | none, _ => none
  | .mapEqual k =>
    -- all referenced fields are equal (under the class's transform)
    match allResolved e.fields with
    | none => none
    | some [] => none
    | some (first :: rest) =>
      if !textLabels (first :: rest) then none else
      some (rest.all (fun f => match k with
        | .element => same f.value first.value && f.u == first.u
        | .value => same f.value first.value
        | .u => f.u == first.u))
  | .notDuplicated =>
    -- invalid exactly when some *earlier* sibling compares equal
    match e.hasParent, e.pos with
    | true, some p =>
      some (!((e.siblings.take p).any (fun s => same e.value s.1 && e.u == s.2)))
    | _, _ => none
  | .hasAtLeast minimum =>
    if !e.isSequence then none
    else match e.valueLen with
      | some n => some (decide (minimum ≤ (n : Int)))
      | none => none            -- a sequence element always has a list value
  | .hasAtMost maximum =>
    if !e.isSequence || maximum < 0 then none
    else match e.valueLen with
      | some n => some (decide ((n : Int) ≤ maximum))
      | none => some true
  | .hasBetween lo hi =>
    if !e.isSequence then none
    else
      some (decide (lo ≤ lenOrZero e.valueLen ∧ lenOrZero e.valueLen ≤ hi))
  | .setWithKnownFields =>
    match e.raw with
    | .pairs ks => some (ks.all (declared e.schemaKeys))
    | _ => some true            -- raw not available / not an iterable of pairs: deemed valid
  | .setWithAllFields =>
    match e.raw with
    | .pairs ks => some (ks.all (declared e.schemaKeys) && e.schemaKeys.all (given ks))
    | _ => some true
  | .luhn10 =>
    match e.value with
    | .none => some false
    | v => match numOf v with
      | some n => some (decide (0 ≤ n) && luhnSpec (digits n.toNat))
      | none => none
  | .isEmail nonLocal =>
    match e.value with
    | .none => some false
    | .str addr => some (emailDocumented nonLocal addr e.localOk e.idna)
    | _ => none
  | .urlValidator allowedSchemes allowedParts =>
    match e.value with
    | .none => some false                        -- no value: not a URL
    | .str value => urlDocumented allowedSchemes allowedParts (e.lib.urlparse (pyStrip value))
    | _ => none
  | .httpURL allParts required forbidden =>
    match e.value with
    | .none => httpDocumented allParts required forbidden none e.lib
    | .str url => httpDocumented allParts required forbidden (some url) e.lib
    | _ => none
  | .urlCanonicalizer discardParts =>
    match e.value with
    | .none => canonDocumented discardParts none e.lib
    | .str url => canonDocumented discardParts (some url) e.lib
    | _ => none

/-- the class of KF-C15-a: `HTTPURLValidator` on an element without a value, promised False -/
def httpNoValue (v : V) (e : View) (d : Bool) : Bool :=
  match v with
  | .httpURL _ _ _ => e.value == .none && !d
  | _ => false

/-- **the open findings as one class**: the (validator, view, promised verdict) triples on which
    the code is known not to decide the docstring's predicate —
    KF-C15-a (`HTTPURLValidator`, no value, promised False),
    KF-C15-g (`URLValidator`: no scheme, `''` listed in `allowed_schemes`, promised True).
    (KF-C15-c / -d, the `required_parts` readings, are repaired in /repo and left this class.)
    `decides_partial` proves the property for everything outside this class. -/
def excluded (v : V) (e : View) (d : Bool) : Bool :=
  match v with
  | .httpURL _ _ _ => e.value == .none && !d
  | .urlValidator s _ =>
    match e.value with
    | .str value => d && emptySchemeListed s (e.lib.urlparse (pyStrip value))
    | _ => false
  | _ => false

/-- the values the URL validators are documented for ("Given a valid URL …"): a text, or no value.
    `HTTPURLValidator` and `URLCanonicalizer` hand anything else to `urlparse` as it is (a falsy
    number or `b''` is parsed as bytes — `URLCanonicalizer` then stores `b''` in the element — any
    other number raises AttributeError); the model does not follow them there
    (`Raise.unsupported`), and the theorems about them carry `textOrNone` as a hypothesis. -/
def textOrNone : Val → Bool
  | .none => true
  | .str _ => true
  | _ => false

def inModel (v : V) (e : View) : Bool :=
  match v with
  | .httpURL _ _ _ => textOrNone e.value
  | .urlCanonicalizer _ => textOrNone e.value
  | _ => true

end Flatland.C15.Spec
