/-
Specification B for C12, from the property statement:

 "For every flattenable element with a non-empty flat name bound to a generated control, the
  control a browser would submit carries name = the element's flattened name and value = the
  element's text: text-like inputs and buttons in their value attribute, textareas in their
  content, checkboxes/radios/options by being checked/selected exactly when their literal value
  matches the element (or one member of a bound Array).  A label generated for a bind (and
  literal value) targets exactly the id generated for the control of that bind (and value)."
-/
import Flatland.C12
namespace Flatland.C12.Spec
open Flatland.Markup Flatland.C12

/-- the documented flattened name: the names on the path, `None`s dropped, joined by `_` -/
def flattenedName (path : List (Option Str)) : Str :=
  match path.filterMap id with
  | [] => []
  | n :: rest => n ++ (rest.map (fun x => '_' :: x)).flatten

/-- a control that carries the element: it posts exactly the element's flat pair -/
def PostsFlatPair (posted : Option (Str × Str)) (b : Bind) : Prop := posted = some (b.flatName, b.u)

/-- a check-type control with literal `lit`: posts `(name, lit)` iff `lit` matches the element -/
def PostsIffMatches (posted : Option (Str × Str)) (b : Bind) (lit : Str) (matches_ : Bool) : Prop :=
  posted = if matches_ then some (b.flatName, lit) else none

end Flatland.C12.Spec
