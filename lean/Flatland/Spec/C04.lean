/-
Specification B for C04, from the property statement and the docstring of `Scalar.set`:

  set() does not raise and returns True exactly when the input was adapted; on success `.u` is the
  type's text form of `.value` ('' for None) and setting that text again reproduces the same `.u`
  (and the same `.value` for exactly-serialising types); on failure `.value` is None and `.u` is the
  input's text; element_set is emitted exactly once, with adapted = the returned flag.

The predicates below name the hypotheses under which the clauses are claimed.
-/
import Flatland.Scalar
namespace Flatland.Scalar.Spec
open Flatland.Scalar

/-- native values that Python can construct -/
def Native.WF : Native → Bool
  | .date y m d => validDate y m d
  | .time h mi s us => validTime h mi s && us < 1000000
  | .datetime y m d h mi s us => validDate y m d && validTime h mi s && us < 1000000
  | _ => true

/-- the opaque conversion table answers every question (no harness error) -/
def EnvTotal (E : Env) : Prop := ∀ dec x, E.conv dec x ≠ none

/-- text of a float / Decimal value: `'%f' % x`, or `str(x)` when the format raises -/
def tokText (t : Tok) : Str := match t.fmt with | some s => s | none => t.str

/-- the opaque conversion `float()` (`dec = false`) / `Decimal()` (`dec = true`) is text-stable
    (checked on the recorded table of every case): the empty text does not convert, and converting
    the text of a value it produced either fails or gives a value with the same text -/
def OpaqueStable (E : Env) (dec : Bool) : Prop :=
  E.conv dec (.str []) = some none ∧
  ∀ x t, E.conv dec x = some (some t) →
    E.conv dec (.str (strip E.T (tokText t))) = some none ∨
    ∃ t', E.conv dec (.str (strip E.T (tokText t))) = some (some t') ∧ tokText t' = tokText t

/-- text-stability of the conversions a kind uses -/
def OpaqueOK (E : Env) : Kind → Prop
  | .float _ => OpaqueStable E false
  | .decimal _ => OpaqueStable E true
  | .constrained c _ => OpaqueOK E c
  | _ => True

/-- the conversion function of a case: a finite table of recorded `float()` / `Decimal()` results -/
def tableConv (entries : List (Bool × Native × Option Tok)) (dec : Bool) (x : Native) : Option (Option Tok) :=
  (entries.find? fun e => e.1 == dec && e.2.1 == x).map (·.2.2)

/-- `OpaqueStable ⟨T, tableConv entries⟩ dec` for every `dec` that occurs in the table, decided on
    the table (this is what both sides of the correspondence evaluate on every case): the empty
    text is recorded and does not convert; the text of every recorded result is itself recorded,
    and converts to nothing or to a value with the same text -/
def opaqueStableOn (T : Tables) (entries : List (Bool × Native × Option Tok)) : Bool :=
  (entries.all fun e => match tableConv entries e.1 (.str []) with
                        | some none => true
                        | _ => false) &&
  entries.all fun e =>
    match e.2.2 with
    | none => true
    | some t =>
      match tableConv entries e.1 (.str (strip T (tokText t))) with
      | none => false
      | some none => true
      | some (some t') => tokText t' == tokText t

/-- no `int` that the code would print exceeds CPython's digit limit (KF-C04-a outside) -/
def NoHuge (T : Tables) : Native → Bool
  | .int i => intFits T i
  | .float t => match t.toInt with | some i => intFits T i | none => true
  | .decimal t => match t.toInt with | some i => intFits T i | none => true
  | _ => true

/-- kinds whose conversions are modelled exactly (no float / Decimal inside) -/
def Modelled : Kind → Bool
  | .float _ => false
  | .decimal _ => false
  | .constrained c _ => Modelled c
  | _ => true

/-- a Boolean's false text must not read back as true (KF-C04-c outside) -/
def Coherent : Kind → Bool
  | .boolean tru fls trueSyn _ => fls != tru && !trueSyn.contains fls
  | .constrained c _ => Coherent c
  | _ => true

/-- the text `''` of a None value must not read back as a value with another text: a Boolean
    for which `''` is a synonym must have `''` as the corresponding text (KF-C04-c outside) -/
def CoherentNone : Kind → Bool
  | .boolean tru fls trueSyn falseSyn =>
    if [] == tru || trueSyn.contains [] then tru == []
    else if [] == fls || falseSyn.contains [] then fls == []
    else true
  | .constrained c _ => CoherentNone c
  | _ => true

/-- custom `%0Ni` widths stay below the digit limit -/
def WidthOK (T : Tables) : Kind → Bool
  | .integer _ w => decide (w ≤ T.maxDigits)
  | .constrained c _ => WidthOK T c
  | _ => true

/-- native temporal inputs that their text form represents completely (KF-C04-b outside) -/
def ExactInput : Kind → Native → Bool
  | .date _, .datetime .. => false
  | .time _, .time _ _ _ us => us == 0
  | .datetime _, .datetime _ _ _ _ _ _ us => us == 0
  | .constrained c _, x => ExactInput c x
  | _, _ => true

/-- one coherent outcome of `set(x)` -/
structure Outcome (E : Env) (k : Kind) (x : Native) (r : SetResult) : Prop where
  flag_iff_adapted : r.flag = true ↔ ∃ v, adapt E k x = .ok (some v)
  success : r.flag = true → ∃ v, adapt E k x = .ok (some v) ∧ r.st.value = v ∧ uOfValue E k v = .ok r.st.u
  failure : r.flag = false → r.st.value = .none ∧ uOfFailed E.T x = .ok r.st.u
  signal_once : r.signals = [r.flag]
  raw : r.st.raw = x

end Flatland.Scalar.Spec
