/-
Specification B for C08, from the property text.

The *local* invariant `WP` ("well-parented"): the stored parent pointer of every child (slot or
element) is the id of the node that holds it, all the way down.  The *global* clauses of the
property are stated against the shape of the tree alone (`Anc`: the actual ancestors of a
node): following stored pointers from any node walks exactly its ancestors, nearest first, and
ends at the root, whose pointer is None; `root` and `path` follow.
-/
import Flatland.C08
namespace Flatland.C08.Spec
open Flatland.Tree Flatland.PyList Flatland.C08

mutual
/-- every child's stored parent pointer designates its holder, recursively -/
def wp : Node → Bool
  | .mk i _ kids => wpL i.id kids
def wpL : Nat → List Node → Bool
  | _, [] => true
  | p, k :: ks => (k.parent == some p) && wp k && wpL p ks
end

/-- `Anc root x as`: `x` occurs in the tree below `root` and `as` are the nodes that hold it,
    nearest first, ending with `root` -/
inductive Anc (root : Node) : Node → List Node → Prop
  | root : Anc root root []
  | kid {p c : Node} {as : List Node} : Anc root p as → c ∈ p.kids → Anc root c (p :: as)

/-- the stored pointers of `x` and of the listed nodes form the chain `x → as₀ → as₁ → … → None` -/
def StoredChain : Node → List Node → Prop
  | x, [] => x.parent = none
  | x, p :: as => x.parent = some p.id ∧ StoredChain p as

/-- the tree invariant of the property: every node of the tree (`Anc`) has a stored parent chain
    that is exactly its list of holders up to the root -/
def TreeInv (root : Node) : Prop :=
  ∀ x as, Anc root x as → StoredChain x as

/-- the same with the Python navigation API (`parents` follows pointers through the object
    store): `x.parents` are the holders, `x.root` is the tree root, `x.path` runs from the root
    to `x` -/
def NavInv (root : Node) : Prop :=
  ∀ x as, Anc root x as →
    parentsOf [root] as.length x = as ∧
    rootOf [root] as.length x = root ∧
    pathOf [root] as.length x = as.reverse ++ [x]

/-- Element arguments handed to a call are fresh or detached, internally well-parented subtrees
    (an element held by two containers is aliasing no tree can represent) -/
def ArgWP : Arg → Prop
  | .plain _ => True
  | .elem e => wp e = true

/-- the property for histories (stated; see Proofs/C08.lean for what is proved) -/
def C08_Full : Prop :=
  ∀ (s : HState) (hs : List HOp), wp s.root = true → s.root.parent = none →
    (∀ h ∈ hs, match h.op with
      | .seq (.append a) | .seq (.insert _ a) | .seq (.setitem _ a) => ArgWP a
      | .seq (.extend as) | .seq (.iadd as) | .seq (.setslice _ as) => ∀ a ∈ as, ArgWP a
      | .map (.setitem _ a) => ArgWP a
      | _ => True) →
    TreeInv (hrun s hs).root

end Flatland.C08.Spec
