/-
Specification B for C08, from the property text.

The *local* invariant `WP` ("well-parented"): the stored parent pointer of every child (slot or
element) is the id of the node that holds it, all the way down.  The *global* clauses of the
property are stated against the shape of the tree alone (`Anc`: the actual ancestors of a
node): following stored pointers from any node walks exactly its ancestors, nearest first, and
ends at the root, whose pointer is None; `root` and `path` follow.
-/
import Flatland.C08
namespace Flatland.C08.Spec
open Flatland.Tree Flatland.PyList Flatland.C08

mutual
/-- every child's stored parent pointer designates its holder, recursively -/
def wp : Node → Bool
  | .mk i _ kids => wpL i.id kids
def wpL : Nat → List Node → Bool
  | _, [] => true
  | p, k :: ks => (k.parent == some p) && wp k && wpL p ks
end

/-- `Anc root x as`: `x` occurs in the tree below `root` and `as` are the nodes that hold it,
    nearest first, ending with `root` -/
inductive Anc (root : Node) : Node → List Node → Prop
  | root : Anc root root []
  | kid {p c : Node} {as : List Node} : Anc root p as → c ∈ p.kids → Anc root c (p :: as)

/-- the stored pointers of `x` and of the listed nodes form the chain `x → as₀ → as₁ → … → None` -/
def StoredChain : Node → List Node → Prop
  | x, [] => x.parent = none
  | x, p :: as => x.parent = some p.id ∧ StoredChain p as

/-- the tree invariant of the property: every node of the tree (`Anc`) has a stored parent chain
    that is exactly its list of holders up to the root -/
def TreeInv (root : Node) : Prop :=
  ∀ x as, Anc root x as → StoredChain x as

/-- the same with the Python navigation API (`parents` follows the stored pointers through the
    object store): `x.parents` are exactly the holders, `x.root` is the tree root, `x.path` runs
    from the root to `x` — for every bound on the walk that is at least the depth (the walk ends
    because the root's pointer is None, not because the bound cuts it off) -/
def NavInv (root : Node) : Prop :=
  ∀ x as, Anc root x as → ∀ fuel, as.length ≤ fuel →
    parentsOf [root] fuel x = as ∧
    rootOf [root] fuel x = root ∧
    pathOf [root] fuel x = as.reverse ++ [x]

/-! ### `all_children` -/

theorem sizeL_flatMap_children (q : List Node) : sizeL (q.flatMap children) + q.length ≤ sizeL q := by
  induction q with
  | nil => simp [sizeL]
  | cons e q ih =>
    have := sizeL_children_lt e
    simp only [List.flatMap_cons, sizeL_append, List.length_cons, sizeL]
    omega

/-- breadth-first order by levels: all elements of one level (in order), then all their
    children (in order), and so on -/
def levelOrder : List Node → List Node
  | [] => []
  | e :: q => (e :: q) ++ levelOrder ((e :: q).flatMap children)
termination_by q => sizeL q
decreasing_by
  have := sizeL_flatMap_children (e :: q)
  simp only [List.length_cons] at this
  omega

/-- `Reach root x`: `x` is reachable from `root` through `children` (`root` itself included) -/
inductive Reach (root : Node) : Node → Prop
  | root : Reach root root
  | child {p c : Node} : Reach root p → c ∈ children p → Reach root c

/-- `x` is a proper descendant of `root`: a child of something reachable -/
def Below (root x : Node) : Prop := ∃ p, Reach root p ∧ x ∈ children p

/-- the `all_children` clause of the property: the elements below `root`, level by level,
    each identity once, the root not among them, nothing else -/
def AllChildrenSpec (root : Node) : Prop :=
  allChildren root = levelOrder (children root) ∧
  ((allChildren root).map Node.id).Nodup ∧
  (∀ x ∈ allChildren root, x.id ≠ root.id) ∧
  (∀ x, x ∈ allChildren root ↔ Below root x) ∧
  (∀ x, x ∈ allChildren root ↔ Reach root x ∧ x ≠ root)

/-- object identities are unique: no node occurs twice in the tree (no aliasing) -/
def UniqueIds (root : Node) : Prop := (ids root).Nodup

/-- Element arguments handed to a call are internally well-parented subtrees -/
def ArgWP : Arg → Prop
  | .plain _ => True
  | .elem e => wp e = true

/-- the Element arguments of one call of a history -/
def OpArgsWP : Op → Prop
  | .seq (.append a) | .seq (.insert _ a) | .seq (.setitem _ a) => ArgWP a
  | .seq (.extend as) | .seq (.iadd as) | .seq (.setslice _ as) => ∀ a ∈ as, ArgWP a
  | .map (.setitem _ a) => ArgWP a
  | .map (.updateArgs kvs) => ∀ p ∈ kvs, ArgWP p.2
  | _ => True

/-! ### keys: what uniqueness of identities depends on in a mapping

`replaceKid` (dict item assignment in the model) overwrites *every* child stored under the key,
and `_reset()` makes one child per declared field: a mapping node holding two children under
one key, or a mapping class declaring one key twice, makes the model store one element twice.
Python's dict cannot be in that state; the model's `Node` type can, so the identity theorems
carry `kok` (a decidable check of the tree, preserved by every call). -/

def isMap : SKind → Bool
  | .dict | .sparse => true
  | _ => false

mutual
/-- a class whose mapping classes (at any depth) declare every key once -/
def swf : Schema → Bool
  | .mk info _ subs => (!isMap info.kind || decide ((subs.map Schema.key).Nodup)) && swfL subs
def swfL : List Schema → Bool
  | [] => true
  | f :: fs => swf f && swfL fs
end

mutual
/-- a tree whose mappings hold at most one child per key, all of whose classes are `swf` -/
def kok : Node → Bool
  | .mk _ s kids => swf s && (!isMap s.kind || decide ((kids.map Node.key).Nodup)) && kokL kids
def kokL : List Node → Bool
  | [] => true
  | k :: ks => kok k && kokL ks
end

/-- identities are unique, all below the allocation counter, keys unique in every mapping -/
structure IdInv (s : HState) : Prop where
  uniq : UniqueIds s.root
  below : ∀ a ∈ ids s.root, a < s.next
  keys : kok s.root = true

/-! ### Element arguments that a call places -/

def argElems : Arg → List Node
  | .plain _ => []
  | .elem e => [e]

/-- the Element arguments a list-protocol call puts into the sequence (searching calls —
    `remove`, `index`, `count`, `in` — only read theirs) -/
def placedSeq : SeqOp → List Node
  | .append a | .insert _ a | .setitem _ a => argElems a
  | .extend as | .iadd as | .setslice _ as => as.flatMap argElems
  | _ => []

def placedMap : MapOp → List Node
  | .setitem _ a => argElems a
  | .updateArgs kvs => kvs.flatMap (fun p => argElems p.2)
  | _ => []

def placedArgs : Op → List Node
  | .seq o => placedSeq o
  | .map o => placedMap o

/-- the Element arguments a call places are fresh or detached objects: none of their identities
    occurs in the tree or twice among them, all were allocated before (below the counter: the
    next fresh identity cannot collide with them), and they are key-well-formed themselves -/
def ArgsFresh (s : HState) (op : Op) : Prop :=
  ((placedArgs op).flatMap ids ++ ids s.root).Nodup ∧
  (∀ a ∈ (placedArgs op).flatMap ids, a < s.next) ∧
  ∀ e ∈ placedArgs op, kok e = true

/-- `ArgsFresh` for every call of a history, each in the state it is applied to -/
def HistFresh : HState → List HOp → Prop
  | _, [] => True
  | s, h :: hs => ArgsFresh s h.op ∧ HistFresh (hstep s h) hs

/-- `e` (an Element handed to a call) sits in the container `n'` as a direct child with its
    stored parent pointer designating the container: for a List through the ListSlot that holds
    it (the slot is listed by the List, points to it, and holds exactly `e`, which points to the
    slot); for an Array / MultiValue / mapping directly -/
def PlacedIn (n' : Node) (e : Node) : Prop :=
  match n'.kind with
  | .list => ∃ slot ∈ n'.kids, slot.parent = some n'.id ∧ slot.kids = [e.withParent (some slot.id)]
  | .array | .multi => e.withParent (some n'.id) ∈ n'.kids
  | .dict | .sparse => ∃ key, (e.withParent (some n'.id)).withKey key ∈ n'.kids
  | _ => False

def IsSeq (k : SKind) : Prop := k = .list ∨ k = .array ∨ k = .multi

/-- the call `op` on container `n` stores the Element `e` itself (rather than a copy of its value
    or nothing): every Element argument of a placing list-protocol call; for a SparseDict an
    element of the declared field class assigned to a declared key — by `update` / `|=` the one
    given last for that key.  (A dense Dict never stores the argument: it sets its existing child.) -/
def Places (n : Node) (op : Op) (e : Node) : Prop :=
  match op with
  | .seq o => IsSeq n.kind ∧ e ∈ placedSeq o
  | .map (.setitem k (.elem e')) =>
    e' = e ∧ n.kind = .sparse ∧ ∃ f, fieldFor n.sch.subs k = some f ∧ isInstance e f = true
  | .map (.updateArgs kvs) =>
    n.kind = .sparse ∧ ∃ pre post k f, kvs = pre ++ (k, .elem e) :: post ∧ (∀ p ∈ post, p.1 ≠ k) ∧
      fieldFor n.sch.subs k = some f ∧ isInstance e f = true
  | _ => False

/-- the call returned normally -/
def noExc : Out → Prop
  | .exc _ => False
  | _ => True

instance (o : Out) : Decidable (noExc o) := by
  cases o <;> simp only [noExc] <;> infer_instance

/-- **C08 for histories** (stored-pointer clause): from any well-parented tree, after any sequence
    of list-protocol and dict-protocol calls applied to any of its elements — with plain values or with
    internally well-parented Element arguments — every node's stored parent chain is exactly its
    chain of holders up to the root.

    What this does not say: that identities stay unique.  The model hands an Element argument
    over as a value, so an argument that is *already in the tree* (`l.append(l[0])`, aliasing)
    appears twice in the model where the real object appears once with one parent pointer; such
    histories are outside the property's quantifier ("fresh or detached arguments"), and the
    navigation clauses `NavInv` are derived under `UniqueIds`, which is a hypothesis here, not a
    preserved invariant. -/
def C08_Full : Prop :=
  ∀ (s : HState) (hs : List HOp), wp s.root = true → s.root.parent = none →
    (∀ h ∈ hs, OpArgsWP h.op) → TreeInv (hrun s hs).root

end Flatland.C08.Spec
