/-
Specification B for C09, from the property text: "a plain Python list that received the same
operations on the adapted values".  The reference is a `List α` driven by the CPython list
functions of `Flatland/PyList.lean`; `α` is what a member is abstracted to.

* `α = Sig` (the member's `(value, u)`, which is what `Element.__eq__` compares): the refinement
  holds — `Proofs.C09`.
  `ROp.sortNoKey` is `sort()` on a list of objects without ordering (a list of elements, not of
  ints: recorded non-defect); `ROp.imul count re` is `l *= count` where each repeated item is a
  fresh `member_schema(value)` of the old member's value (`re`), `re = id` being CPython's.
* `α = Raw` (the member's `.value` alone, the literal reading of the statement): `C09_Full`
  below; false of the code as it is, because an unadaptable member (value None, u = the text)
  is not equal to a member holding None.
-/
import Flatland.C09
namespace Flatland.C09.Spec
open Flatland.Tree Flatland.PyList

/-- list-protocol calls on a plain Python list whose items have type `α` -/
inductive ROp (α : Type)
  | append (a : α) | extend (as : List α) | insert (i : Int) (a : α)
  | setitem (i : Int) (a : α) | setslice (s : Slice) (as : List α)
  | delitem (i : Int) | delslice (s : Slice) | pop (i : Option Int) | remove (a : α)
  | reverse | sort (le : α → α → Bool)
  | sortNoKey                                -- `l.sort()` on items that define no ordering (elements do not)
  | imul (count : Int) (re : α → α)          -- `l *= count`, every repeated item passed through `re` (`id` for a plain list)
  | assign (as : List α)                     -- `l[:] = as` (what `set(iterable)` / `clear` / `set_default` amount to)
  | len | getitem (i : Int) | getslice (s : Slice)
  | contains (a : α) | index (a : α) | count (a : α)

/-- what such a call returns -/
inductive ROut (α : Type)
  | ok | exc (e : Exc) | nat (n : Nat) | bool (b : Bool) | item (a : α) | items (as : List α)
  deriving DecidableEq

/-- the reference semantics: CPython `list` -/
def refStep {α : Type} [BEq α] (l : List α) : ROp α → List α × ROut α
  | .append a => (l ++ [a], .ok)
  | .extend as => (l ++ as, .ok)
  | .insert i a => (insertAt l i a, .ok)
  | .setitem i a =>
    (match setItem l i a with
     | none => (l, .exc .indexError)
     | some l' => (l', .ok))
  | .setslice s as =>
    (match setSlice l s as with
     | .error e => (l, .exc e)
     | .ok l' => (l', .ok))
  | .delitem i =>
    (match delItem l i with
     | none => (l, .exc .indexError)
     | some l' => (l', .ok))
  | .delslice s =>
    (match delSlice l s with
     | .error e => (l, .exc e)
     | .ok l' => (l', .ok))
  | .pop i =>
    (match popAt l (i.getD (-1)) with
     | none => (l, .exc .indexError)
     | some (x, l') => (l', .item x))
  | .remove a =>
    (match removeFirst (fun x => x == a) l with
     | none => (l, .exc .valueError)
     | some l' => (l', .ok))
  | .reverse => (l.reverse, .ok)
  | .sort le => (sortBy le l, .ok)
  | .sortNoKey =>
    -- no comparison is made for fewer than two items; the first comparison raises TypeError and
    -- leaves the list as it was
    (l, if l.length ≤ 1 then .ok else .exc .typeError)
  | .imul count re =>
    -- `count <= 0` empties the list; otherwise `count - 1` copies of the items are appended
    if count ≤ 0 then ([], .ok)
    else (l ++ (List.replicate (count.toNat - 1) (l.map re)).flatten, .ok)
  | .assign as => (as, .ok)
  | .len => (l, .nat l.length)
  | .getitem i =>
    (match getItem l i with
     | none => (l, .exc .indexError)
     | some x => (l, .item x))
  | .getslice s =>
    (match getSlice l s with
     | .error e => (l, .exc e)
     | .ok xs => (l, .items xs))
  | .contains a => (l, .bool (containsBy (fun x => x == a) l))
  | .index a =>
    (match indexOf (fun x => x == a) l with
     | none => (l, .exc .valueError)
     | some k => (l, .nat k))
  | .count a => (l, .nat (countOf (fun x => x == a) l))

/-- slot `i` of a List is named `i`: flat names and `find('<i>')` address member `i` -/
def Positional (n : Node) : Prop :=
  n.kind = .list → slotNames n = (List.range n.kids.length).map (fun k => (toString k).toList)

/-- every member is an element of the declared member schema -/
def MembersTyped (n : Node) : Prop :=
  ∀ m, n.sch.member = some m → ∀ e ∈ members n, e.sch = m

end Flatland.C09.Spec
