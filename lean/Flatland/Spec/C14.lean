/-
Specification B for C14, written from the property statement and docs/source/schema/traversal.rst
("Path Lookups", "Path Syntax"), with no tokenizer, no operation list and no work list:

* a path is an optional leading `/` (start at the root) and a sequence of steps;
* `name` steps to the child of that name — for a sequence the index number is the name;
  with strict lookups a missing child raises `LookupError`, otherwise it selects nothing;
* `..` steps to the parent (the List for a list member) and stays put at the root; `.` is a no-op;
* `[a:b]` / `[a:b:c]` select the children the Python slice selects; `[-n]` is the one-element
  slice holding the n-th child from the end; neither ever raises;
* the result is the list obtained by applying each step to every element selected so far,
  in order (so results are in sequence order);
* `single=True`: the sole match, `None` for none, `LookupError` for several when strict, else
  the first.

The concrete syntax (`CPath`, `print`) lists the spellings the documentation allows: leading and
trailing slash, `[n]` or `/n` for an index, bracket steps attached with or without a slash,
omitted slice bounds, escaped punctuation.

Python's `int(str)` and list slicing are taken as given (`pyInt`, `pyListIndex`, `pySlice` of
Flatland.Path; see DESIGN.md section 3).
-/
import Flatland.Path
namespace Flatland.C14.Spec
open Flatland.Path

inductive Step
  | up | here
  | name (s : Str)                                   -- `s`, or `[s]` for an index
  | negidx (n : Nat)                                 -- `[-n]`
  | slice (a b : Option Int) (c : Option (Option Int)) -- `[a:b]` (c = none) or `[a:b:c]`
  deriving DecidableEq, Repr, Inhabited

structure Path where
  top : Bool
  steps : List Step
  deriving Repr

/-! ## denotation -/

/-- the child of `n` that the path step `s` names -/
def childNamed (n : Node) (s : Str) : Option Nat :=
  match n.kind with
  | .scalar => none
  | .map => let i := n.kids.findIdx (fun k => k.key == some s); if i < n.kids.length then some i else none
  | _ => (pyInt s).bind (pyListIndex n.kids.length)

def nodeAt (root : Node) (el : Pos) : Node := (root.get? el).getD (.mk .scalar none [] [])

/-- step of a slice: `[a:b]` has none, `[a:b:]` has an omitted one -/
def Step.stride (c : Option (Option Int)) : Option Int := c.bind id

def stepDen (root : Node) (strict : Bool) (s : Step) (el : Pos) : Except Err (List Pos) :=
  let n := nodeAt root el
  match s with
  | .up => .ok [el.dropLast]
  | .here => .ok [el]
  | .name s =>
    match childNamed n s with
    | some i => .ok [el ++ [i]]
    | none => if strict then .error .lookup else .ok []
  | .negidx k => .ok ((pyListIndex n.kids.length (-(k : Int))).toList.map (fun i => el ++ [i]))
  | .slice a b c =>
    -- the Python slice a:b:c; a zero step is Python's `ValueError: slice step cannot be zero`
    if Step.stride c == some 0 then .error .value
    else .ok ((pySlice n.kids.length a b (Step.stride c)).map (fun i => el ++ [i]))

/-- apply `f` to every element in order and concatenate; the first error wins -/
def flatMapM {α β : Type} (f : α → Except Err (List β)) : List α → Except Err (List β)
  | [] => .ok []
  | x :: xs =>
    match f x with
    | .error e => .error e
    | .ok ys =>
      match flatMapM f xs with
      | .error e => .error e
      | .ok zs => .ok (ys ++ zs)

def denoteSteps (root : Node) (strict : Bool) : List Step → List Pos → Except Err (List Pos)
  | [], cur => .ok cur
  | s :: rest, cur =>
    match flatMapM (stepDen root strict s) cur with
    | .error e => .error e
    | .ok next => denoteSteps root strict rest next

def denote (p : Path) (root : Node) (el : Pos) (strict : Bool) : Except Err (List Pos) :=
  denoteSteps root strict p.steps [if p.top then [] else el]

/-- The same reading on operation lists (what `test_tokenize` documents as the compiled form of
    a path): depth-first, one element at a time; a slice continues with each selected child in
    turn.  `evalOps_denotes` shows the FIFO work list of the code computes exactly this. -/
def denOps (root : Node) (strict : Bool) : List Op → Pos → Except Err (List Pos)
  | [], el => .ok [el]
  | .top :: r, _ => denOps root strict r []
  | .up :: r, el => denOps root strict r el.dropLast
  | .here :: r, el => denOps root strict r el
  | .name d :: r, el =>
    match indexAt root el d with
    | some i => denOps root strict r (el ++ [i])
    | none => if strict then .error .lookup else .ok []
  | .slice a b c :: r, el =>
    if c == some 0 then .error .value
    else flatMapM (denOps root strict r) ((pySlice (kidsAt root el).length a b c).map (fun i => el ++ [i]))

/-! ## which error, when several steps of one evaluation fail

`denOps` and `denote` say *that* an evaluation raises whenever some step on some selected element
fails; when a strict lookup fails on one element and a slice step written as 0 is reached on
another, they do not say which of the two exceptions is the one raised.  `denOrd` does: every error
carries the number of slice steps passed before it (its depth); an error at a smaller depth comes
before one at a larger depth, and two errors at the same depth come in sequence order.  (The
evaluator works through the matches of one slice step completely before it continues with any of
their children — `evalOps_denotes_gen`.) -/

/-- an outcome whose error remembers the depth (number of slice steps passed) at which it arose -/
inductive Ranked
  | ok (l : List Pos)
  | err (depth : Nat) (e : Err)
  deriving DecidableEq, Repr

/-- the outcomes of two siblings, the first one earlier in sequence order: any error beats success;
    of two errors the one at the smaller depth, on a tie the earlier one -/
def Ranked.merge : Ranked → Ranked → Ranked
  | .ok a, .ok b => .ok (a ++ b)
  | .ok _, .err d e => .err d e
  | .err d e, .ok _ => .err d e
  | .err d e, .err d' e' => if d' < d then .err d' e' else .err d e

def flatMapR (f : Pos → Ranked) : List Pos → Ranked
  | [] => .ok []
  | x :: xs => (f x).merge (flatMapR f xs)

def Ranked.forget : Ranked → Except Err (List Pos)
  | .ok l => .ok l
  | .err _ e => .error e

/-- the depth-first reading `denOps` with the precedence of errors made explicit; `d` = slice
    steps passed so far -/
def denOrd (root : Node) (strict : Bool) : List Op → Nat → Pos → Ranked
  | [], _, el => .ok [el]
  | .top :: r, d, _ => denOrd root strict r d []
  | .up :: r, d, el => denOrd root strict r d el.dropLast
  | .here :: r, d, el => denOrd root strict r d el
  | .name s :: r, d, el =>
    match indexAt root el s with
    | some i => denOrd root strict r d (el ++ [i])
    | none => if strict then .err d .lookup else .ok []
  | .slice a b c :: r, d, el =>
    if c == some 0 then .err d .value
    else flatMapR (denOrd root strict r (d + 1)) ((pySlice (kidsAt root el).length a b c).map (fun i => el ++ [i]))

/-! ### spec B with the precedence of errors: the AST read depth-first

`denote` applies each step to the WHOLE selection before the next step, so when two steps fail on
different elements it meets the error of the earlier STEP first — a third order, neither the code's
nor `denOrd`'s.  `denoteStepsR` reads the same AST one element at a time and ranks errors exactly as
`denOrd` does: every error carries the number of bracket steps (`[a:b:c]`, `[-n]`: the steps that
select among the children of an element) passed before it; the smaller number wins, on a tie the
error that is earlier in sequence order.  Where only one kind of error can arise it forgets to
`denote` (`denoteR_forget_of_uni`). -/

/-- a bracket step that selects among the children (compiled to a SLICE operation) -/
def Step.isSlice : Step → Bool
  | .negidx _ => true
  | .slice _ _ _ => true
  | _ => false

def denoteStepsR (root : Node) (strict : Bool) : List Step → Nat → Pos → Ranked
  | [], _, el => .ok [el]
  | s :: rest, d, el =>
    match stepDen root strict s el with
    | .error e => .err d e
    | .ok next => flatMapR (denoteStepsR root strict rest (if s.isSlice then d + 1 else d)) next

def denoteR (p : Path) (root : Node) (el : Pos) (strict : Bool) : Ranked :=
  denoteStepsR root strict p.steps 0 (if p.top then [] else el)

/-- the `single=` table of `find` -/
def singleOf (strict : Bool) (r : Except Err (List Pos)) : FindRes :=
  match r with
  | .error e => .err e
  | .ok [] => .one none
  | .ok [p] => .one (some p)
  | .ok (p :: _ :: _) => if strict then .err .lookup else .one (some p)

def findSpec (p : Path) (root : Node) (el : Pos) (single strict : Bool) : FindRes :=
  if single then singleOf strict (denote p root el strict)
  else match denote p root el strict with
    | .error e => .err e
    | .ok l => .many l

/-- `findSpec` over the ranked reading: which exception `find` raises is part of the statement -/
def findSpecR (p : Path) (root : Node) (el : Pos) (single strict : Bool) : FindRes :=
  if single then singleOf strict (denoteR p root el strict).forget
  else match (denoteR p root el strict).forget with
    | .error e => .err e
    | .ok l => .many l

/-! ## well-formedness and the `X/..` restriction (KF-C14-a) -/

def Step.isUp : Step → Bool | .up => true | _ => false
def Step.isHere : Step → Bool | .here => true | _ => false

/-- no slice step written as zero (Python's slice raises `ValueError` for it, and so does the
    code since 9884fd3; with strict lookups a path can then raise either error first, so the
    strict theorems assume `Step.wf`, the non-strict ones do not) -/
def Step.wf : Step → Bool
  | .slice _ _ (some (some c)) => c != 0
  | _ => true

/-- `Canon`: ignoring `.` steps, every `..` comes before every other step, i.e. no `..`
    follows (directly or after `.`s) a name, index or slice step.  `seenOther` = some step
    other than `.`/`..` has been seen. -/
def canonFrom (seenOther : Bool) : List Step → Bool
  | [] => true
  | .here :: r => canonFrom seenOther r
  | .up :: r => !seenOther && canonFrom seenOther r
  | _ :: r => canonFrom true r

def Canon (p : Path) : Bool := canonFrom false p.steps

/-! ## what the code evaluates outside the Canon domain (KF-C14-a, stated exactly) -/

/-- one step of cancelling: `.` disappears, `..` deletes the step before it (unless that is
    itself a `..`), a leading `..` stays only on a relative path; `acc` is reversed -/
def cancelStep (top : Bool) (acc : List Step) (s : Step) : List Step :=
  match s with
  | .here => acc
  | .up =>
    match acc with
    | [] => if top then [] else [.up]
    | .up :: _ => .up :: acc
    | _ :: rest => rest
  | s => s :: acc

/-- the path with every `X/..` pair (and every `.`) deleted -/
def cancel (p : Path) : Path :=
  { top := p.top, steps := (p.steps.foldl (cancelStep p.top) []).reverse }

/-! ## compilation to the operation list `tokenize` is documented (by test_tokenize) to produce,
    before canonicalisation -/

def compileStep : Step → Op
  | .up => .up
  | .here => .here
  | .name s => .name (some s)
  | .negidx n =>
    if n = 1 then .slice (some (-1)) none none
    else .slice (some (-(n : Int))) (some (-(n : Int) + 1)) none
  | .slice none none none => .slice none none none                      -- `[:]`
  | .slice none none (some none) => .slice none none none               -- `[::]`
  | .slice a b none => .slice (some (a.getD 0)) b none                  -- `[a:b]`
  | .slice a b (some c) => .slice a b (some (c.getD 1))                 -- `[a:b:c]`

def compile (p : Path) : List Op :=
  (if p.top then [.top] else []) ++ p.steps.map compileStep

/-! ## concrete syntax -/

structure Spelling where
  bracket : Bool := false    -- an all-digit name written `[n]` instead of `n`
  sep : Bool := false        -- a bracket step attached with `/` (`a/[0]`) instead of directly
  escAll : Bool := false     -- every `.` and `]` of a name escaped, not only the necessary ones
  deriving Repr, Inhabited

structure CStep where
  step : Step
  sp : Spelling
  deriving Repr, Inhabited

structure CPath where
  top : Bool
  trail : Bool               -- trailing slash
  steps : List CStep
  deriving Repr

def CPath.abstract (p : CPath) : Path := { top := p.top, steps := p.steps.map (·.step) }

def isAsciiDigit (c : Char) : Bool := '0' ≤ c && c ≤ '9'

def intStr (i : Int) : Str := if i < 0 then '-' :: natStr i.natAbs else natStr i.toNat

def optIntStr : Option Int → Str
  | none => []
  | some i => intStr i

/-- escape a name: `/` and `[` always; `.` and `]` when a backslash precedes them (an
    unescaped `\.` would be read as an escaped dot) or when `escAll`; `.` and `..` entirely -/
def escapeFrom (escAll : Bool) (prevBackslash : Bool) : Str → Str
  | [] => []
  | c :: r =>
    let esc := c == '/' || c == '[' || ((c == '.' || c == ']') && (prevBackslash || escAll))
    (if esc then ['\\', c] else [c]) ++ escapeFrom escAll (c == '\\') r

def escapeSeg (escAll : Bool) (s : Str) : Str :=
  if s == ['.'] then ['\\', '.']
  else if s == ['.', '.'] then ['\\', '.', '\\', '.']
  else escapeFrom escAll false s

/-- the text of one step and whether it is a bracket token -/
def CStep.text (c : CStep) : Str × Bool :=
  match c.step with
  | .up => (['.', '.'], false)
  | .here => (['.'], false)
  | .name s =>
    if c.sp.bracket && !s.isEmpty && s.all isAsciiDigit then ('[' :: s ++ [']'], true)
    else (escapeSeg c.sp.escAll s, false)
  | .negidx n => ('[' :: '-' :: natStr n ++ [']'], true)
  | .slice a b none => ('[' :: optIntStr a ++ ':' :: optIntStr b ++ [']'], true)
  | .slice a b (some c) => ('[' :: optIntStr a ++ ':' :: optIntStr b ++ ':' :: optIntStr c ++ [']'], true)

def printSteps (first : Bool) : List CStep → Str
  | [] => []
  | c :: r =>
    let t := c.text
    (if first || (t.2 && !c.sp.sep) then t.1 else '/' :: t.1) ++ printSteps false r

def print (p : CPath) : Str :=
  (if p.top then ['/'] else []) ++ printSteps true p.steps
    ++ (if p.trail && !p.steps.isEmpty then ['/'] else [])

/-- names the grammar can spell in any position: non-empty and not ending in a backslash (a
    backslash cannot itself be escaped, so it would swallow the separator that follows) -/
def GoodName (s : Str) : Bool := !s.isEmpty && s.getLast? != some '\\'

def CStep.wf (c : CStep) : Bool :=
  match c.step with
  | .name s => GoodName s
  | _ => true

/-- the very last step of a path without a trailing slash has nothing after it, so there a
    name may end in a backslash (`find('/x\\')` works) -/
def CStep.wfLast (c : CStep) : Bool :=
  match c.step with
  | .name s => !s.isEmpty
  | _ => true

def wfSteps (trail : Bool) : List CStep → Bool
  | [] => true
  | [c] => if trail then c.wf else c.wfLast
  | c :: r => c.wf && wfSteps trail r

def CPath.wf (p : CPath) : Bool := wfSteps p.trail p.steps

end Flatland.C14.Spec
