/-
Specification B for C06, from the property statement.

* **frame**: a constructor call or an instantiation leaves every observable attribute (lists
  followed to their contents), and the properties, of every class that existed before unchanged.
  The one documented exception is the *lazy preparation* of a compound type: its first plain
  instantiation fills in `field_schema` of that class (seen by the classes that inherit it).
* **instance-local**: an overriding instantiation of a non-compound type changes no class at all.
* **schema fields**: a declarative Schema's fields, as a mapping name ↦ element, are its bases'
  fields (left-most base first, first seen wins) overlaid by its own `field_schema` and then by
  its attribute declarations; each name appears once.
-/
import Flatland.C06
namespace Flatland.C06.Spec
open Flatland.C06

def allAttrs : List Attr :=
  [.name, .optional, .default, .validators, .descentValidators, .memberSchema, .fieldSchema,
   .validValues, .targetPath, .policy]

/-- everything an observer can read off class `c` -/
def observe (σ : State) (c : ClassId) : List DVal × List (Str × Int) :=
  (allAttrs.map (deepLookup σ c), propsOf σ c)

def observeNoFields (σ : State) (c : ClassId) : List DVal × List (Str × Int) :=
  ((allAttrs.filter (· != .fieldSchema)).map (deepLookup σ c), propsOf σ c)

def isPrepared (σ : State) (c : ClassId) : Bool := σ.isPrepared c

/-- the step is the first plain instantiation of a compound class: it prepares that class -/
def lazyPrep (σ : State) : Step → Option ClassId
  | .inst c kw =>
    if σ.kindOf c == .compound && (kw.filter (fun p => p.1 != .bogus)).isEmpty && !isPrepared σ c
    then some c else none
  | _ => none

/-- the frame condition between two stores, as a decidable check (used by the runner) -/
def frameHolds (σ σ' : State) (s : Step) : Bool :=
  (List.range σ.classes.length).all (fun c =>
    match lazyPrep σ s with
    | some p =>
      if (σ.mroOf c).contains p then observeNoFields σ' c == observeNoFields σ c
      else observe σ' c == observe σ c
    | none => observe σ' c == observe σ c)

/-- decidable well-formedness of a store (ids in range), checked by the runner after every step -/
def wfB (σ : State) : Bool :=
  (List.range σ.classes.length).all (fun c =>
    (σ.mroOf c).all (· < σ.classes.length) &&
    (σ.ownOf c).all (fun av => match av.2 with
      | .list r | .tuple r | .anonDict r => decide (r < σ.heap.length)
      | _ => true))

/-! ### declarative schemas -/

def lastWith (name : Option Str) : List Field → Option Str
  | [] => none
  | f :: rest => match lastWith name rest with
    | some t => some t
    | none => if f.1 = name then some f.2 else none

def firstWith (name : Option Str) : List Field → Option Str
  | [] => none
  | f :: rest => if f.1 = name then some f.2 else firstWith name rest

/-- the field a Schema class has under `name`: own attribute declaration, else own
    `field_schema` entry, else the first base (left to right) that has one -/
def specField (bases : List (List Field)) (explicit declared : List Field) (name : Option Str) : Option Str :=
  match lastWith name declared with
  | some t => some t
  | none => match lastWith name explicit with
    | some t => some t
    | none => firstWith name bases.flatten

def schemaFieldsOK (bases : List (List Field)) (explicit declared fs : List Field) : Bool :=
  let names := (bases.flatten ++ explicit ++ declared ++ fs).map (·.1)
  (fs.map (·.1)).eraseDups.length == fs.length &&
    names.all (fun n => firstWith n fs == specField bases explicit declared n)

end Flatland.C06.Spec
