/-
Model of `out/generic.py`: `Context` (frames copied on push), `parse_trool`, `_pop_toggle`, the
five attribute transforms + the filter toggle, `_generate_raw_domid`, `_sanitize_domid_suffix`.
Follows the code line by line; shared by C11 (what reaches the serialiser), C19 (option
resolution) and C12 (what a browser would post).

All tables (`YES/NO/MAYBE`, `_default_context`, `_auto_tags`, whitespace) come in through a
`Tables` record; `Tables.current` is the one regenerated from the source on every run.
-/
import Flatland.Markup.Basic
import Flatland.C11
import Flatland.Generated.C19Tables
namespace Flatland.Markup
open Flatland.C11 (markupEscape Chain)

structure Tables where
  yes : List Str
  no : List Str
  maybe : List Str
  defaultContext : Frame
  defaultSettings : Frame
  autoTags : List (Str × List Str)
  spaces : List Nat
  textChain : Chain

def Tables.current : Tables where
  yes := Flatland.Generated.C19.yes
  no := Flatland.Generated.C19.no
  maybe := Flatland.Generated.C19.maybe
  defaultContext := Flatland.Generated.C19.defaultContext
  defaultSettings := Flatland.Generated.C19.defaultSettings
  autoTags := Flatland.Generated.C19.autoTags
  spaces := Flatland.Generated.C19.spaces
  textChain := Flatland.Generated.C11.textChain

def Tables.isSpace (T : Tables) (c : Char) : Bool := T.spaces.contains c.toNat
def Tables.strip (T : Tables) (s : Str) : Str := stripWith T.isSpace s

/-- `tagname in _auto_tags[name]` -/
def Tables.autoTag (T : Tables) (name tag : Str) : Bool :=
  match Dict.get? T.autoTags name with
  | some tags => tags.contains tag
  | none => false

/-! ### trool -/

inductive Trool | yes | no | maybe
  deriving DecidableEq, Repr

/-- `parse_trool` on a `str`: lower, then YES / NO / MAYBE in that order, else Maybe -/
def Tables.troolOfStr (T : Tables) (s : Str) : Trool :=
  let v := asciiLower s
  if T.yes.contains v then .yes
  else if T.no.contains v then .no
  else if T.maybe.contains v then .maybe
  else .maybe

def Tables.parseTrool (T : Tables) : Val → Trool
  | .bool true => .yes
  | .bool false => .no
  | .maybe => .maybe
  | .text s => T.troolOfStr s
  | .markup s => T.troolOfStr s

/-- `parse_trool` on a stored context value (`int.lower` does not exist) -/
def Tables.parseTroolC (T : Tables) : CVal → Except PyErr Trool
  | .bool true => pure .yes
  | .bool false => pure .no
  | .maybe => pure .maybe
  | .text s => pure (T.troolOfStr s)
  | .markup s => pure (T.troolOfStr s)
  | .int _ => throw .attributeError
  | .opaque _ => throw .attributeError

def Trool.toCVal : Trool → CVal
  | .yes => .bool true | .no => .bool false | .maybe => .maybe

/-! ### Context: a non-empty stack of frames; `top` is `_frames[-1]`, `below` the rest (nearest first) -/

structure Ctx where
  top : Frame
  below : List Frame
  deriving DecidableEq, Repr

namespace Ctx

/-- `len(self._frames)` -/
def depth (c : Ctx) : Nat := c.below.length + 1

/-- `Context.__init__` -/
def init (T : Tables) : Ctx := ⟨T.defaultContext, []⟩

/-- `self[key]` -/
def getItem (c : Ctx) (k : Str) : Except PyErr CVal :=
  match Dict.get? c.top k with
  | some v => pure v
  | none => throw .keyError

/-- `key in self` -/
def has (c : Ctx) (k : Str) : Bool := Dict.contains c.top k

/-- `self[key] = value` -/
def setItem (c : Ctx) (k : Str) (v : CVal) : Except PyErr Ctx :=
  if c.has k then pure { c with top := Dict.set c.top k v } else throw .keyError

/-- second loop of `update` -/
def setAll (c : Ctx) : List (Str × CVal) → Except PyErr Ctx
  | [] => pure c
  | (k, v) :: rest => do
    let c' ← c.setItem k v
    setAll c' rest

/-- `Context.update(**kwargs)`: reject unknown keys first, then assign in order -/
def update (c : Ctx) (kw : List (Str × CVal)) : Except PyErr Ctx :=
  if kw.all (fun kv => c.has kv.1) then c.setAll kw else throw .keyError

/-- `Context.pop` -/
def pop (c : Ctx) : Except PyErr Ctx :=
  match c.below with
  | [] => throw .runtimeError
  | f :: rest => pure ⟨f, rest⟩

/-- `Context.push(**options)`: copy the top frame, update; on KeyError pop again and re-raise.
    The second component is the context left behind when an exception escapes. -/
def push (c : Ctx) (kw : List (Str × CVal)) : Except (PyErr × Ctx) Ctx :=
  let pushed : Ctx := ⟨c.top, c.top :: c.below⟩
  match pushed.update kw with
  | .ok c' => .ok c'
  | .error .keyError => .error (.keyError, c)        -- `except KeyError: self.pop(); raise`
  | .error e => .error (e, pushed)

end Ctx

/-! ### what the transforms need to know about the bound element -/

inductive BindKind
  | scalar
  | boolean (tru : Str)                                   -- `Boolean`, with its `.true`
  | array (strip : Bool) (members : List (Option Str))    -- `Array` of `String(strip=…)`: member values
  deriving DecidableEq, Repr

structure Bind where
  flatName : Str      -- `bind.flattened_name()`
  u : Str             -- `bind.u`
  kind : BindKind
  deriving DecidableEq, Repr

/-- `current in bind` (Array: wrap in a member element and compare value and u) or
    `current == bind.u` (everything else).  `cur = none` is Python `None`. -/
def Bind.matches (T : Tables) (b : Bind) (cur : Option Val) : Except PyErr Bool :=
  match b.kind with
  | .array strip members =>
    match cur with
    | none => pure (members.contains none)
    | some v =>
      match v.str? with
      | some s => pure (members.contains (some (if strip then T.strip s else s)))
      | none => throw .typeError        -- outside the modelled domain (never generated)
  | _ =>
    match cur with
    | none => pure false
    | some v => pure (v.eqStr b.u)

/-! ### `fmt % raw_id` for a `str` argument: `%s`, `%%`; a lone trailing `%` is a ValueError;
    any other conversion is outside the model (never generated) -/

def pyFormatAux (arg : Str) : Str → Bool → Except PyErr (Str × Bool)
  | [], used => pure ([], used)
  | '%' :: 's' :: rest, used =>
    if used then throw .typeError            -- not enough arguments for format string
    else do
      let (r, u) ← pyFormatAux arg rest true
      pure (arg ++ r, u)
  | '%' :: '%' :: rest, used => do
    let (r, u) ← pyFormatAux arg rest used
    pure ('%' :: r, u)
  | ['%'], _ => throw .valueError             -- incomplete format
  | '%' :: _ :: _, _ => throw .notImplementedError
  | c :: rest, used => do
    let (r, u) ← pyFormatAux arg rest used
    pure (c :: r, u)

def pyFormat (fmt arg : Str) : Except PyErr Str := do
  let (r, used) ← pyFormatAux arg fmt false
  if used then pure r else throw .typeError   -- not all arguments converted

/-- `context["domid_format"] % raw_id` -/
def formatDomid (fmt : CVal) (raw : Str) : Except PyErr Str :=
  match fmt with
  | .text f => pyFormat f raw
  | .markup f => pyFormat f raw
  | _ => throw .typeError

/-- `_id_invalid_re = [^A-Za-z0-9_:.\-]` (pinned by the extractor) -/
def idValidChar (c : Char) : Bool :=
  ('A' ≤ c && c ≤ 'Z') || ('a' ≤ c && c ≤ 'z') || ('0' ≤ c && c ≤ '9') ||
  c = '_' || c = ':' || c = '.' || c = '-'

/-- `_sanitize_domid_suffix` -/
def sanitizeSuffix (v : Val) : Except PyErr Str :=
  match v.str? with
  | some s => pure (s.filter idValidChar)
  | none => throw .typeError

def sChecked : Str := "checked".toList
def sSelected : Str := "selected".toList

/-- `_generate_raw_domid`; `none` is Python `None` (no basis) -/
def generateRawDomid (tag : Str) (attrs : Attrs) (bind : Option Bind) : Except PyErr (Option Str) := do
  let basis : Str ← match bind with
    | some b => pure b.flatName
    | none =>
      match Dict.get? attrs "name".toList with
      | none => pure []
      | some (.text s) => pure s
      | some (.markup s) => pure s
      | some (.bool false) => pure []
      | some _ => throw .notImplementedError       -- outside the modelled domain
  if basis.isEmpty then return none
  let valueOrEmpty := (Dict.get? attrs "value".toList).getD (.text [])
  let mut suffix : Str := []
  let isCheckable : Bool :=
    match Dict.get? attrs "type".toList with
    | some t => t.lowerKw.eqStr "checkbox".toList || t.lowerKw.eqStr "radio".toList
    | none => false
  if tag == "input".toList && isCheckable then
    suffix ← sanitizeSuffix valueOrEmpty
  if tag == "label".toList then
    suffix ← sanitizeSuffix valueOrEmpty
  if suffix.isEmpty then return some basis
  return some (basis ++ '_' :: suffix)

/-! ### the transforms.  State = attributes (dict order), contents, context (tabindex is written back). -/

structure TState where
  attrs : Attrs
  contents : Option Val      -- `None`, `str` or `Markup`
  ctx : Ctx
  deriving DecidableEq, Repr

/-- `_pop_toggle(key, attributes, context)` → (attributes without the key, proceed, forced) -/
def popToggle (T : Tables) (key : Str) (attrs : Attrs) (ctx : Ctx) : Except PyErr (Attrs × Bool × Bool) := do
  let v0 := T.parseTrool ((Dict.get? attrs key).getD .maybe)
  let attrs' := Dict.erase attrs key
  let forced := v0 == .yes
  let v1 ← match v0 with
    | .maybe => T.parseTroolC (← ctx.getItem key)
    | v => pure v
  match v1 with
  | .yes => pure (attrs', true, forced)
  | .no => pure (attrs', false, forced)
  | .maybe =>
    match Dict.get? T.defaultContext key with
    | some (.bool b) => pure (attrs', b, forced)
    | some _ => throw .notImplementedError         -- a non-bool default (extractor checks there is none)
    | none => throw .keyError

def sName : Str := "name".toList
def sValue : Str := "value".toList
def sId : Str := "id".toList
def sFor : Str := "for".toList
def sType : Str := "type".toList
def sTabindex : Str := "tabindex".toList
def sInput : Str := "input".toList
def sOption : Str := "option".toList
def sTextarea : Str := "textarea".toList
def sLabel : Str := "label".toList

def transformName (T : Tables) (tag : Str) (bind : Option Bind) (st : TState) : Except PyErr TState := do
  let (attrs, proceed, forced) ← popToggle T "auto_name".toList st.attrs st.ctx
  let st := { st with attrs := attrs }
  match bind with
  | none => pure st
  | some b =>
    if !proceed then pure st else
    if b.flatName.isEmpty then pure st else
    let current := Dict.get? attrs sName
    if forced || (current.isNone && T.autoTag sName tag) then
      pure { st with attrs := Dict.set attrs sName (.text b.flatName) }
    else pure st

/-- set/clear a boolean attribute such as `checked="checked"` -/
def toggleAttr (attrs : Attrs) (k : Str) (on : Bool) : Attrs :=
  if on then Dict.set attrs k (.text k) else Dict.erase attrs k

def transformValue (T : Tables) (tag : Str) (bind : Option Bind) (st : TState) : Except PyErr TState := do
  let (attrs, proceed, forced) ← popToggle T "auto_value".toList st.attrs st.ctx
  let st := { st with attrs := attrs }
  match bind with
  | none => pure st
  | some b =>
    if !proceed then pure st else
    if !forced && !T.autoTag sValue tag then pure st else
    if tag = sInput then
      let subtype := ((Dict.get? attrs sType).getD (.text [])).lowerKw
      let isCheckbox := subtype.eqStr "checkbox".toList
      if subtype.eqStr "radio".toList || isCheckbox then
        let (attrs, current) : Attrs × Option Val :=
          if isCheckbox then
            match Dict.get? attrs sValue, b.kind with
            | none, .boolean tru => (Dict.set attrs sValue (.text tru), some (.text tru))
            | cur, _ => (attrs, cur)
          else (attrs, some ((Dict.get? attrs sValue).getD (.text [])))
        let toggle ← b.matches T current
        pure { st with attrs := toggleAttr attrs sChecked toggle }
      else if subtype.eqStr "password".toList || subtype.eqStr "file".toList || subtype.eqStr "image".toList then
        if forced then pure { st with attrs := Dict.set attrs sValue (.text b.u) } else pure st
      else
        if (Dict.get? attrs sValue).isNone || forced then
          pure { st with attrs := Dict.set attrs sValue (.text b.u) }
        else pure st
    else if tag = sOption then
      let value : Val :=
        match Dict.get? attrs sValue with
        | some cur => cur
        | none =>
          match st.contents with
          | some (.text s) => .text (T.strip s)
          | some (.markup s) => .text (T.strip s)
          | none => .text []
          | some other => other
      let toggle ← b.matches T (some value)
      pure { st with attrs := toggleAttr attrs sSelected toggle }
    else if tag = sTextarea then
      if st.contents.isNone || forced then
        pure { st with contents := some (.markup (markupEscape T.textChain b.u)) }
      else pure st
    else
      if (Dict.get? attrs sValue).isNone || forced then
        pure { st with attrs := Dict.set attrs sValue (.text b.u) }
      else pure st

def transformDomid (T : Tables) (tag : Str) (bind : Option Bind) (st : TState) : Except PyErr TState := do
  let (attrs, proceed, forced) ← popToggle T "auto_domid".toList st.attrs st.ctx
  let st := { st with attrs := attrs }
  if !proceed then pure st else
  let current := Dict.get? attrs sId
  if forced || (current.isNone && T.autoTag sId tag) then
    match ← generateRawDomid tag attrs bind with
    | some raw =>
      let fmt ← st.ctx.getItem "domid_format".toList
      let v ← formatDomid fmt raw
      pure { st with attrs := Dict.set attrs sId (.text v) }
    | none => pure st
  else pure st

def transformFor (T : Tables) (tag : Str) (bind : Option Bind) (st : TState) : Except PyErr TState := do
  let (attrs, proceed, forced) ← popToggle T "auto_for".toList st.attrs st.ctx
  let attrs ←
    if proceed && bind.isSome then
      let current := Dict.get? attrs sFor
      if forced || (current.isNone && T.autoTag sFor tag) then
        match ← generateRawDomid tag attrs bind with
        | some raw =>
          let fmt ← st.ctx.getItem "domid_format".toList
          let v ← formatDomid fmt raw
          pure (Dict.set attrs sFor (.text v))
        | none => pure attrs
      else pure attrs
    else pure attrs
  let attrs := if tag = sLabel then Dict.erase attrs sValue else attrs
  pure { st with attrs := attrs }

/-- `str(n)` -/
def intRepr (n : Int) : Str := (toString n).toList

def transformTabindex (T : Tables) (tag : Str) (_bind : Option Bind) (st : TState) : Except PyErr TState := do
  let (attrs, proceed, forced) ← popToggle T "auto_tabindex".toList st.attrs st.ctx
  let st := { st with attrs := attrs }
  if !proceed then pure st else
  let tabindex ← st.ctx.getItem sTabindex
  match tabindex with
  | .int n =>
    if n = 0 then pure st else
    let current := Dict.get? attrs sTabindex
    if forced || (current.isNone && T.autoTag sTabindex tag) then
      let attrs := Dict.set attrs sTabindex (.text (intRepr n))
      if n > 0 then
        let ctx ← st.ctx.setItem sTabindex (.int (n + 1))
        pure { st with attrs := attrs, ctx := ctx }
      else pure { st with attrs := attrs }
    else pure st
  | _ => throw .notImplementedError        -- non-int tabindex: outside the modelled domain

/-- `transform_filters` with the default empty `filters` tuple: only the toggle is consumed -/
def transformFilters (T : Tables) (_tag : Str) (_bind : Option Bind) (st : TState) : Except PyErr TState := do
  let (attrs, _, _) ← popToggle T "auto_filter".toList st.attrs st.ctx
  let _ ← st.ctx.getItem "filters".toList
  pure { st with attrs := attrs }

/-- `transform(tagname, attributes, contents, context, bind)`: the six, in registration order -/
def transform (T : Tables) (tag : Str) (bind : Option Bind) (st : TState) : Except PyErr TState := do
  let st ← transformName T tag bind st
  let st ← transformValue T tag bind st
  let st ← transformDomid T tag bind st
  let st ← transformFor T tag bind st
  let st ← transformTabindex T tag bind st
  transformFilters T tag bind st

end Flatland.Markup
