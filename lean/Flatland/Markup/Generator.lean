/-
Model of `out/markup.py`: `Generator.__init__/begin/end/set`, item access, and a complete tag
call `Tag.__call__` = `_transform_keys` → `transform` → `_open` serialisation → closer.
-/
import Flatland.Markup.Transform
import Flatland.C11
namespace Flatland.Markup
open Flatland.C11 (Chain renderTag orderPairs transformKeys)

structure Gen where
  xml : Bool
  ctx : Ctx
  deriving DecidableEq, Repr

/-- `dict.update` on the base frame (plain dict: new keys are appended) -/
def frameUpdate (f : Frame) (kw : List (Str × CVal)) : Frame :=
  kw.foldl (fun d kv => Dict.set d kv.1 kv.2) f

/-- `Generator.__init__(markup, **settings)`.  An exception leaves no object behind. -/
def Gen.init (T : Tables) (markup : Str) (settings : List (Str × CVal)) : Except PyErr Gen := do
  let c0 := Ctx.init T
  let xml ←
    if markup = "html".toList then pure false
    else if markup = "xhtml".toList || markup = "xml".toList then pure true
    else throw .typeError
  let c1 : Ctx := { c0 with top := frameUpdate c0.top T.defaultSettings }
  let c2 ← match c1.push [] with
    | .ok c => pure c
    | .error (e, _) => throw e
  let c3 ← c2.update settings
  pure ⟨xml, c3⟩

/-- result of a mutating call: the generator afterwards (also when it raised) and the outcome -/
structure Step where
  gen : Gen
  err : Option PyErr
  deriving DecidableEq, Repr

/-- `Generator.begin(**settings)` -/
def Gen.begin (g : Gen) (settings : List (Str × CVal)) : Step :=
  match g.ctx.push settings with
  | .ok c => ⟨{ g with ctx := c }, none⟩
  | .error (e, c) => ⟨{ g with ctx := c }, some e⟩

/-- `Generator.end()` -/
def Gen.end_ (g : Gen) : Step :=
  if g.ctx.depth = 2 then ⟨g, some .runtimeError⟩
  else match g.ctx.pop with
    | .ok c => ⟨{ g with ctx := c }, none⟩
    | .error e => ⟨g, some e⟩

/-- first loop of `Generator.set`: validate every key, normalise `auto_*` values -/
def setUpdates (T : Tables) (c : Ctx) : List (Str × CVal) → Except PyErr (List (Str × CVal))
  | [] => pure []
  | (k, v) :: rest => do
    if !c.has k then throw .typeError
    let v' ← if startsWith k "auto_".toList then (do pure (← T.parseTroolC v).toCVal) else pure v
    let more ← setUpdates T c rest
    pure ((k, v') :: more)

/-- `Generator.set(**settings)` -/
def Gen.set (T : Tables) (g : Gen) (settings : List (Str × CVal)) : Step :=
  match setUpdates T g.ctx settings with
  | .error e => ⟨g, some e⟩
  | .ok ups =>
    match g.ctx.setAll ups with
    | .ok c => ⟨{ g with ctx := c }, none⟩
    | .error e => ⟨g, some e⟩        -- unreachable: every key was checked

/-- `generator[key] = value` -/
def Gen.setItem (g : Gen) (k : Str) (v : CVal) : Step :=
  match g.ctx.setItem k v with
  | .ok c => ⟨{ g with ctx := c }, none⟩
  | .error e => ⟨g, some e⟩

/-- `generator.update(**kw)` -/
def Gen.update (g : Gen) (kw : List (Str × CVal)) : Step :=
  match g.ctx.update kw with
  | .ok c => ⟨{ g with ctx := c }, none⟩
  | .error e => ⟨g, some e⟩

/-- everything `Tag.__call__` computes before serialising -/
structure TagResult where
  pairs : List (Str × Val)       -- attributes in output order
  contents : Str                 -- final contents markup ("" for None / empty)
  ctx : Ctx
  deriving DecidableEq, Repr

/-- keyword arguments → transformed, ordered attributes and contents -/
def prepareTag (T : Tables) (order : List Str) (g : Gen) (tag : Str) (bind : Option Bind)
    (kwargs : List (Str × Val)) : Except PyErr TagResult := do
  let contents := Dict.get? kwargs "contents".toList
  let attrs := transformKeys (Dict.erase kwargs "contents".toList)
  let st ← transform T tag bind ⟨attrs, contents, g.ctx⟩
  let newContents : Str ← match st.contents with
    | none => pure []
    | some (.text s) => pure s
    | some (.markup s) => pure s
    | some (.bool false) => pure []
    | some _ => throw .notImplementedError        -- outside the modelled domain
  let ordered ← match ← st.ctx.getItem "ordered_attributes".toList with
    | .bool b => pure b
    | .int n => pure (n != 0)
    | .text s => pure (!s.isEmpty)
    | .markup s => pure (!s.isEmpty)
    | _ => throw .notImplementedError
  pure ⟨orderPairs order ordered st.attrs, newContents, st.ctx⟩

/-- the transforms up to and including the tabindex counter write -/
def transformPrefix (T : Tables) (tag : Str) (bind : Option Bind) (st : TState) : Except PyErr TState := do
  let st ← transformName T tag bind st
  let st ← transformValue T tag bind st
  let st ← transformDomid T tag bind st
  let st ← transformFor T tag bind st
  transformTabindex T tag bind st

/-- the generator left behind by a tag call that RAISES: the only setting a tag call writes is the
    tabindex counter (in `transform_tabindex`); if the exception comes later (filter toggle,
    contents, serialisation of a non-string value) the counter has already been advanced -/
def Gen.afterFailedTag (T : Tables) (g : Gen) (tag : Str) (bind : Option Bind) (kwargs : List (Str × Val)) : Gen :=
  match transformPrefix T tag bind ⟨transformKeys (Dict.erase kwargs "contents".toList),
      Dict.get? kwargs "contents".toList, g.ctx⟩ with
  | .ok st5 => { g with ctx := st5.ctx }
  | .error _ => g

/-- `str(generator.<tag>(bind, **kwargs))` and the generator afterwards (tabindex counter).
    For a call that raises, the generator afterwards is `Gen.afterFailedTag`. -/
def Gen.callTag (T : Tables) (attrChain : Chain) (voids order : List Str) (g : Gen) (tag : Str)
    (bind : Option Bind) (kwargs : List (Str × Val)) : Except PyErr (Str × Gen) := do
  let r ← prepareTag T order g tag bind kwargs
  let s ← renderTag attrChain voids g.xml tag r.pairs r.contents
  pure (s, { g with ctx := r.ctx })

/-- the ways a `Tag` object is used to render -/
inductive How
  | call          -- `tag(bind, **kw)`
  | open_         -- `tag.open(bind, **kw)`; `tag.contents` is then the body to print
  | close         -- `tag.close()`
  | openClose     -- `tag.open(...)` + `tag.contents` + `tag.close()`
  deriving DecidableEq, Repr

/-- One rendering through a `Tag` object, whichever object it is: a fresh one from `gen.<tag>`, a
    held reference used before, or the still-open one `gen.<tag>` hands back.  `Tag._open` ALWAYS
    stores the new contents (`""` when there are none), so a Tag carries nothing from one rendering
    to the next and the result depends on the arguments and the generator only.  `open()`/`close()`
    refuse void elements (ValueError) before doing anything.
    Returns (markup, `tag.contents` after an `open`) and the generator afterwards. -/
def Gen.renderHow (T : Tables) (attrChain : Chain) (voids order : List Str) (g : Gen) (how : How) (tag : Str)
    (bind : Option Bind) (kwargs : List (Str × Val)) : Except PyErr (Str × Option Str) × Gen :=
  match how with
  | .call =>
    match g.callTag T attrChain voids order tag bind kwargs with
    | .ok (s, g') => (.ok (s, none), g')
    | .error e => (.error e, g.afterFailedTag T tag bind kwargs)
  | .close =>
    if voids.contains tag then (.error .valueError, g) else (.ok ('<' :: '/' :: tag ++ ['>'], none), g)
  | .open_ | .openClose =>
    if voids.contains tag then (.error .valueError, g) else
    match prepareTag T order g tag bind kwargs with
    | .error e => (.error e, g.afterFailedTag T tag bind kwargs)
    | .ok r =>
      match Flatland.C11.renderOpen attrChain tag r.pairs with
      | .error e => (.error e, g.afterFailedTag T tag bind kwargs)
      | .ok header =>
        let g' := { g with ctx := r.ctx }
        if how = .open_ then (.ok (header ++ ['>'], some r.contents), g')
        else (.ok (header ++ '>' :: r.contents ++ '<' :: '/' :: tag ++ ['>'], none), g')

end Flatland.Markup
