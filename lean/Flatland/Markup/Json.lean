/-
JSON glue shared by the runners of C11, C19, C12 (not part of any theorem).
Values: {"t":"s","v":str} text, {"t":"m","v":str} Markup, {"t":"b","v":bool}, {"t":"maybe"},
{"t":"i","v":int}.
-/
import Flatland.JsonUtil
import Flatland.Markup.Generator
open Lean Flatland.J
namespace Flatland.Markup.Json
open Flatland.Markup

def parseVal (j : Json) : Except String Val := do
  match (← sfld j "t") with
  | "s" => return .text (← cfld j "v")
  | "m" => return .markup (← cfld j "v")
  | "b" => return .bool (← bfld j "v")
  | "maybe" => return .maybe
  | t => throw s!"bad Val tag {t}"

def parseCVal (j : Json) : Except String CVal := do
  match (← sfld j "t") with
  | "s" => return .text (← cfld j "v")
  | "m" => return .markup (← cfld j "v")
  | "b" => return .bool (← bfld j "v")
  | "maybe" => return .maybe
  | "i" => return .int (← ifld j "v")
  | t => throw s!"bad CVal tag {t}"

def parsePairs {α} (f : Json → Except String α) (j : Json) : Except String (List (Str × α)) := do
  (← arr j).mapM (fun p => do
    match (← arr p) with
    | [k, v] => return ((← chars k), (← f v))
    | _ => throw "pair expected")

def parseBind (j : Json) : Except String (Option Bind) := do
  if isNull j then return none
  let name ← cfld j "name"
  let u ← cfld j "u"
  let kind ← match (← sfld j "kind") with
    | "scalar" => pure BindKind.scalar
    | "bool" => pure (BindKind.boolean (← cfld j "true"))
    | "array" => do
      let ms ← (← afld j "members").mapM (optOf chars)
      pure (BindKind.array (← bfld j "strip") ms)
    | k => throw s!"bad bind kind {k}"
  return some ⟨name, u, kind⟩

/-- The driver prints one JSON document per line and the harness splits its output with
    `str.splitlines()`, which also splits at U+0085, U+2028 and U+2029 (Lean's JSON printer leaves
    them raw).  Output strings therefore carry these three characters (and the marker itself) as
    U+E000 + hex code + ';'.  `markup_common.safe` does the same on the Python side. -/
def safeChars (s : Str) : Str :=
  s.flatMap (fun c =>
    if c.toNat = 0x85 || c.toNat = 0x2028 || c.toNat = 0x2029 || c.toNat = 0xE000 then
      Char.ofNat 0xE000 :: (Nat.toDigits 16 c.toNat) ++ [';']
    else [c])

/-- a model string as a JSON string, line-safe -/
def ofStr (s : Str) : Json := Json.str (String.ofList (safeChars s))

def ofCVal : CVal → Json
  | .text s => obj [("t", Json.str "s"), ("v", ofStr s)]
  | .markup s => obj [("t", Json.str "m"), ("v", ofStr s)]
  | .bool b => obj [("t", Json.str "b"), ("v", Json.bool b)]
  | .maybe => obj [("t", Json.str "maybe")]
  | .int n => obj [("t", Json.str "i"), ("v", ofInt n)]
  | .opaque s => obj [("t", Json.str "o"), ("v", ofStr s)]

def parseHow (j : Json) : Except String How := do
  match fldD j "how" (Json.str "call") with
  | Json.str "call" => return .call
  | Json.str "open" => return .open_
  | Json.str "close" => return .close
  | Json.str "openclose" => return .openClose
  | _ => throw "bad how"

def ofErr (e : Option PyErr) : Json :=
  match e with
  | none => Json.null
  | some e => Json.str e.name

end Flatland.Markup.Json
