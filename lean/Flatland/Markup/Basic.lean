/-
Shared base of the markup models (C11, C19, C12): strings as character lists, the values a
template author can pass as keyword arguments, Python-dict-ordered attribute maps, option
frames.  Core Lean only.
-/
namespace Flatland.Markup

abbrev Str := List Char

/-- exception classes the modelled code can raise (class name only is ever compared) -/
inductive PyErr
  | keyError | typeError | runtimeError | attributeError | valueError | notImplementedError
  deriving DecidableEq, Repr

def PyErr.name : PyErr → String
  | .keyError => "KeyError" | .typeError => "TypeError" | .runtimeError => "RuntimeError"
  | .attributeError => "AttributeError" | .valueError => "ValueError"
  | .notImplementedError => "NotImplementedError"

/-- keyword-argument values: `str`, `Markup(str)` (has `__html__`), `True/False`, `Maybe` -/
inductive Val
  | text (s : Str)
  | markup (s : Str)
  | bool (b : Bool)
  | maybe
  deriving DecidableEq, Repr

/-- the characters of a string-like value (`Markup` is a `str` subclass) -/
def Val.str? : Val → Option Str
  | .text s => some s
  | .markup s => some s
  | _ => none

/-- Python `v == s` for a `str` `s` -/
def Val.eqStr (v : Val) (s : Str) : Bool :=
  match v.str? with
  | some t => t == s
  | none => false

/-- values stored in option frames -/
inductive CVal
  | text (s : Str)
  | markup (s : Str)
  | bool (b : Bool)
  | maybe
  | int (n : Int)
  | opaque (what : Str)      -- `Markup` class, the empty filter tuple
  deriving DecidableEq, Repr

def Val.toCVal : Val → CVal
  | .text s => .text s | .markup s => .markup s | .bool b => .bool b | .maybe => .maybe

/-! ### Python dict with insertion order, as an association list with distinct keys -/

abbrev Dict (β : Type) := List (Str × β)

namespace Dict
variable {β : Type}

def get? (d : Dict β) (k : Str) : Option β :=
  match d with
  | [] => none
  | (k', v) :: rest => if k' = k then some v else get? rest k

def contains (d : Dict β) (k : Str) : Bool := (get? d k).isSome

/-- `d[k] = v`: overwrite in place, or append at the end -/
def set (d : Dict β) (k : Str) (v : β) : Dict β :=
  match d with
  | [] => [(k, v)]
  | (k', v') :: rest => if k' = k then (k, v) :: rest else (k', v') :: set rest k v

/-- `d.pop(k, None)` (the dictionary part) -/
def erase (d : Dict β) (k : Str) : Dict β :=
  match d with
  | [] => []
  | (k', v') :: rest => if k' = k then rest else (k', v') :: erase rest k

def keys (d : Dict β) : List Str := d.map (·.1)

end Dict

abbrev Attrs := Dict Val
abbrev Frame := Dict CVal

/-! ### ASCII lower-casing (justified for the trool tables by the extractor) and `str.strip()` -/

def asciiLowerChar (c : Char) : Char :=
  if 'A' ≤ c ∧ c ≤ 'Z' then Char.ofNat (c.toNat + 32) else c

def asciiLower (s : Str) : Str := s.map asciiLowerChar

/-- `str.lower()` as far as comparisons with ASCII keywords go: besides A-Z, the only code point whose
    lower-casing consists of ASCII letters is U+212A KELVIN SIGN -> 'k' (checked by the extractor
    over all code points) -/
def kwLowerChar (c : Char) : Char := if c.toNat = 0x212A then 'k' else asciiLowerChar c
def kwLower (s : Str) : Str := s.map kwLowerChar

/-- `if isinstance(v, str): v = v.lower()` (a `Markup` lower-cases to a plain `str`) -/
def Val.lowerKw : Val → Val
  | .text s => .text (kwLower s)
  | .markup s => .text (kwLower s)
  | v => v

def dropWhileEnd (p : Char → Bool) (s : Str) : Str := (s.reverse.dropWhile p).reverse

/-- `str.strip()` for a given whitespace predicate -/
def stripWith (isSpace : Char → Bool) (s : Str) : Str := dropWhileEnd isSpace (s.dropWhile isSpace)

/-- `key.rstrip("_")` -/
def rstripUnderscore (s : Str) : Str := dropWhileEnd (· == '_') s

/-- `s.startswith(p)` -/
def startsWith (s p : Str) : Bool := p.isPrefixOf s

/-! ### string ordering (code points), insertion sort -/

def strLt : Str → Str → Bool
  | [], [] => false
  | [], _ :: _ => true
  | _ :: _, [] => false
  | a :: as, b :: bs => if a.toNat < b.toNat then true else if b.toNat < a.toNat then false else strLt as bs

def insertBy {α} (lt : α → α → Bool) (x : α) : List α → List α
  | [] => [x]
  | y :: ys => if lt y x then y :: insertBy lt x ys else x :: y :: ys

/-- stable insertion sort (equal elements keep their order) -/
def sortBy {α} (lt : α → α → Bool) : List α → List α
  | [] => []
  | x :: xs => insertBy lt x (sortBy lt xs)

end Flatland.Markup
