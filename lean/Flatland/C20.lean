/-
Model A for C20: `keyslice_pairs` (src/flatland/util.py) and `Dict.slice`, `Dict.update_object`,
`Dict.set_by_object` (src/flatland/schema/containers.py), as written.

Everything is generic in the type `V` of native values: the only thing the three methods do with
a value is move it (`element.value` → dict → `setattr`; `getattr` → dict → `member.set`).  The
effect of `member.set(x)` on `.value` is the parameter `Schema.setF` (C04 is about that function).

Python objects are attribute stores `List (Str × Option V)`: `(a, some v)` is a readable
attribute, `(a, none)` a property whose getter raises AttributeError (so `hasattr` is False),
a name that is not listed is simply absent.
-/
namespace Flatland.C20

abbrev Str := List Char

inductive Err | typeError | keyError | valueError | attributeError
  deriving DecidableEq, Repr, Inhabited

/-- the four keyword arguments; `[]` stands for both `None` and an empty collection, because the
    code only ever tests their truthiness (`if include and omit`, `if include`, `if rename`) -/
structure Args where
  inc : List Str := []
  om : List Str := []
  ren : List (Str × Str) := []
  key : Option (Str → Str) := none

/-! ### Python `dict` as an insertion-ordered association list -/

/-- `dict(pairs)[k]`: the last pair with key `k` wins -/
def dictGet {β} : List (Str × β) → Str → Option β
  | [], _ => none
  | (k', v) :: rest, k =>
    match dictGet rest k with
    | some w => some w
    | none => if k' = k then some v else none

/-- `d[k] = v` -/
def dictSet {β} : List (Str × β) → Str → β → List (Str × β)
  | [], k, v => [(k, v)]
  | (k', v') :: rest, k, v => if k' = k then (k', v) :: rest else (k', v') :: dictSet rest k v

/-- `dict(pairs)` / `{k: v for k, v in pairs}` -/
def dictOf {β} (ps : List (Str × β)) : List (Str × β) :=
  ps.foldl (fun d p => dictSet d p.1 p.2) []

/-- `d.get(k)` on a built dict (keys are distinct, so the first hit is the only one) -/
def lookup {β} : List (Str × β) → Str → Option β
  | [], _ => none
  | (k', v) :: rest, k => if k' = k then some v else lookup rest k

def keys {β} (d : List (Str × β)) : List Str := d.map (·.1)

/-! ### `sorted()` on pairs with distinct string keys -/

/-- Python's `str.__lt__`: lexicographic by code point -/
def strLt : Str → Str → Bool
  | [], [] => false
  | [], _ :: _ => true
  | _ :: _, [] => false
  | a :: as, b :: bs =>
    if a.toNat < b.toNat then true else if b.toNat < a.toNat then false else strLt as bs

def insertSorted {β} (p : Str × β) : List (Str × β) → List (Str × β)
  | [] => [p]
  | q :: rest => if strLt p.1 q.1 then p :: q :: rest else q :: insertSorted p rest

def sortByKey {β} (l : List (Str × β)) : List (Str × β) := l.foldr insertSorted []

/-! ### keyslice_pairs -/

/-- the body of the `for key, value in pairs` loop for one pair: `none` = `continue` -/
def keysliceOne (a : Args) (k : Str) : Option Str :=
  let k := match a.key with | some f => f k | none => k     -- `if keyfunc: key = keyfunc(key)`
  match dictGet a.ren k with                                -- `if rename and key in rename`
  | some k' => some k'                                      --   `yield (rename[key], value); continue`
  | none =>
    if !a.inc.isEmpty then                                  -- `if include:`
      (if a.inc.contains k then some k else none)
    else if !a.om.isEmpty then                            -- `elif omit:`
      (if a.om.contains k then none else some k)
    else some k

/-- `list(keyslice_pairs(pairs, include, omit, rename, key))` -/
def keyslicePairs {V} (a : Args) (pairs : List (Str × V)) : Except Err (List (Str × V)) :=
  if !a.inc.isEmpty && !a.om.isEmpty then .error .typeError   -- `if include and omit: raise TypeError`
  else .ok (pairs.filterMap fun p => (keysliceOne a p.1).map (·, p.2))

/-! ### elements and objects -/

inductive Policy | subset | strict | duck
  deriving DecidableEq, Repr, Inhabited

structure Schema (V : Type) where
  fields : List Str          -- `field_schema` names, in declaration order
  blank : V                  -- `.value` of a member just created by `_reset()`
  setF : Str → V → V         -- `.value` of member `n` after `member.set(x)`
  policy : Policy := .subset
  sparse : Bool := false     -- SparseDict (minimum_fields = None): only members that were set exist

/-- a Dict element: `(name, member.value)` in `dict` order (= declaration order) -/
abbrev Elem (V : Type) := List (Str × V)

abbrev Obj (V : Type) := List (Str × Option V)

/-- `getattr(obj, a)` guarded by `hasattr(obj, a)` -/
def Obj.get {V} : Obj V → Str → Option V
  | [], _ => none
  | (a', v) :: rest, a => if a' = a then v else Obj.get rest a

/-- `setattr(obj, a, v)` (plain attribute, or a property whose setter stores the value) -/
def Obj.set {V} : Obj V → Str → V → Obj V
  | [], a, v => [(a, some v)]
  | (a', v') :: rest, a, v => if a' = a then (a', some v) :: rest else (a', v') :: Obj.set rest a v

/-- `Dict.slice` -/
def slice {V} (e : Elem V) (a : Args) : Except Err (List (Str × V)) :=
  -- pairs = ((key, element.value) for key, element in sorted(self.items()))
  match keyslicePairs a (sortByKey e) with
  | .error x => .error x
  | .ok sliced => .ok (dictOf sliced)           -- `return dict(sliced)`

/-- `Dict.update_object` -/
def updateObject {V} (e : Elem V) (o : Obj V) (a : Args) : Except Err (Obj V) :=
  match slice e a with
  | .error x => .error x
  | .ok data => .ok (data.foldl (fun o p => o.set p.1 p.2) o)   -- `for attribute, value in data.items(): setattr(...)`

/-- `renamed = dict(rename)`; `attributes = fields - renamed.keys()` then
    `attributes.update([key for key, value in renamed.items() if value in fields])` (fix 786474b):
    a renamed name counts only through its rename target -/
def renAttrs (fields : List Str) (ren : List (Str × Str)) : List Str :=
  (fields.filter fun f => !(keys (dictOf ren)).contains f) ++
    ((dictOf ren).filter fun p => fields.contains p.2).map (·.1)

def sortStrs (l : List Str) : List Str := (sortByKey (l.map fun s => (s, ()))).map (·.1)

structure SetByResult (V : Type) where
  reads : List Str              -- attribute names looked at on the object (each once, in order)
  exc : Option Err
  elem : Elem V

/-- `Dict.set(final)` for a dict `final` whose keys are all declared fields -/
def dictSetValue {V} (S : Schema V) (final : List (Str × V)) : Option Err × Elem V :=
  if S.sparse then
    -- SparseDict: `_reset()` empties the mapping; members are created as the pairs arrive
    if S.policy == .strict && !(S.fields.all fun f => (keys final).contains f) then (some .typeError, [])
    else (none, final.map fun p => (p.1, S.setF p.1 p.2))
  else
  let blank : Elem V := S.fields.map (·, S.blank)                    -- `self._reset()`
  -- strict: `required - given` non-empty raises TypeError after the reset
  if S.policy == .strict && !(S.fields.all fun f => (keys final).contains f) then
    (some .typeError, blank)
  else
    (none, S.fields.map fun f => (f, match lookup final f with
                                     | some x => S.setF f x       -- `self[key].set(value)`
                                     | none => S.blank))

/-- `sorted(attributes)` after the rename scan and the removal of omitted names -/
def candidates (fields : List Str) (a : Args) : List Str :=
  let attrs := renAttrs fields a.ren
  -- `if omit: attributes.difference_update([key for key in omit if key not in renamed])`
  sortStrs (attrs.filter fun x => !(a.om.contains x && !(keys (dictOf a.ren)).contains x))

/-- `((attr, getattr(obj, attr)) for attr in sorted(attributes) if hasattr(obj, attr))` -/
def readable {V} (o : Obj V) (cand : List Str) : List (Str × V) :=
  cand.filterMap fun x => (o.get x).map (x, ·)

/-- `Dict.set_by_object` on an element in state `e` -/
def setByObject {V} (S : Schema V) (e : Elem V) (o : Obj V) (a : Args) : SetByResult V :=
  let fields := S.fields                                   -- `set(self.field_schema_mapping)`
  let cand := candidates fields a
  -- keyslice_pairs is a generator: its `include and omit` test runs at the first `next()`,
  -- before `possible` is advanced, so nothing has been read from the object yet
  if !a.inc.isEmpty && !a.om.isEmpty then ⟨[], some .typeError, e⟩
  else
    match keyslicePairs { a with key := none } (readable o cand) with
    | .error x => ⟨cand, some x, e⟩
    | .ok sliced =>
      let final := dictOf (sliced.filter fun p => fields.contains p.1)  -- `if key in fields`
      let r := dictSetValue S final
      ⟨cand, r.1, r.2⟩

/-! ### failure paths (h10)

The functions above take a key function that always returns (`Str → Str`) and well-formed
arguments.  The `…P` versions below follow the same code with everything that can raise on the
way: a key function that raises for some names (a lookup table without an entry: KeyError; an
unhashable result: TypeError at `key in rename` / `key in include` / `key in omit` / `dict(sliced)`,
whichever comes first — all inside `slice()`), `include` / `omit` / `rename` in a form that `set()` /
`dict(to_pairs())` reject, a `setattr` that the object rejects, an attribute read that raises
something else than AttributeError.  `Proofs/C20Fail.lean` shows that they coincide with the
functions above when nothing raises. -/

/-- `keyfunc(key)` as it may turn out: a key, or the exception that comes out of the call / of the
    first use of an unhashable result.  The `key` field of `Args` is not used by the `…P` functions. -/
abbrev PKey := Str → Except Err Str

/-- arguments in forms that cannot be used: `set(include)` / `set(omit)` raise TypeError,
    `dict(to_pairs(rename))` raises `badRen`; such arguments are truthy -/
structure Setup where
  badInc : Bool := false
  badOm : Bool := false
  badRen : Option Err := none

/-- the `for key, value in pairs` loop consumed to the end (`dict(sliced)`): the first pair (in the
    order of `pairs`) whose key cannot be computed ends it with that exception -/
def keysliceLoopP {V} (a : Args) (pk : PKey) : List (Str × V) → Except Err (List (Str × V))
  | [] => .ok []
  | (k, v) :: rest =>
    match pk k with                                          -- `key = keyfunc(key)`
    | .error x => .error x
    | .ok k1 =>
      match keysliceLoopP a pk rest with
      | .error x => .error x
      | .ok out =>
        match keysliceOne { a with key := none } k1 with
        | none => .ok out                                    -- `continue`
        | some k2 => .ok ((k2, v) :: out)                    -- `yield`

/-- `list(keyslice_pairs(...))` with the preparation that precedes the loop, line by line -/
def keyslicePairsP {V} (su : Setup) (a : Args) (pk : PKey) (pairs : List (Str × V)) :
    Except Err (List (Str × V)) :=
  if (!a.inc.isEmpty || su.badInc) && (!a.om.isEmpty || su.badOm) then .error .typeError
  else if su.badInc then .error .typeError                   -- `include = set(include)`
  else if su.badOm then .error .typeError                    -- `omit = set(omit)`
  else match su.badRen with                                  -- `rename = dict(to_pairs(rename))`
    | some x => .error x
    | none => keysliceLoopP a pk pairs

/-- `Dict.slice` -/
def sliceP {V} (su : Setup) (a : Args) (pk : PKey) (e : Elem V) : Except Err (List (Str × V)) :=
  match keyslicePairsP su a pk (sortByKey e) with
  | .error x => .error x
  | .ok sliced => .ok (dictOf sliced)

/-- outcome of `update_object`: the exception that came out (if any) and the object afterwards -/
structure UpdResult (V : Type) where
  exc : Option Err
  obj : Obj V

/-- `for attribute, value in data.items(): setattr(obj, attribute, value)` on an object whose
    `setattr` raises `rej a` for some names (read-only property, `__slots__`, `__setattr__`) -/
def writeAll {V} (rej : Str → Option Err) : Obj V → List (Str × V) → UpdResult V
  | o, [] => ⟨none, o⟩
  | o, (k, v) :: rest =>
    match rej k with
    | some x => ⟨some x, o⟩
    | none => writeAll rej (o.set k v) rest

/-- `Dict.update_object`: the slice first, completely; then the writes -/
def updateObjectP {V} (su : Setup) (a : Args) (pk : PKey) (rej : Str → Option Err)
    (e : Elem V) (o : Obj V) : UpdResult V :=
  match sliceP su a pk e with
  | .error x => ⟨some x, o⟩
  | .ok data => writeAll rej o data

/-- COUNTER-MODEL (not the code): selection and writes interleaved — each pair is keyed, renamed,
    filtered and written before the next one is looked at (what iterating the `keyslice_pairs`
    generator directly would do) -/
def lazyLoop {V} (a : Args) (pk : PKey) (rej : Str → Option Err) : Obj V → List (Str × V) → UpdResult V
  | o, [] => ⟨none, o⟩
  | o, (k, v) :: rest =>
    match pk k with
    | .error x => ⟨some x, o⟩
    | .ok k1 =>
      match keysliceOne { a with key := none } k1 with
      | none => lazyLoop a pk rej o rest
      | some k2 =>
        match rej k2 with
        | some x => ⟨some x, o⟩
        | none => lazyLoop a pk rej (o.set k2 v) rest

def lazyUpdate {V} (su : Setup) (a : Args) (pk : PKey) (rej : Str → Option Err)
    (e : Elem V) (o : Obj V) : UpdResult V :=
  match keyslicePairsP su a (fun k => .ok k) ([] : List (Str × V)) with   -- the preparation alone
  | .error x => ⟨some x, o⟩
  | .ok _ => lazyLoop a pk rej o (sortByKey e)

/-- `for attr in sorted(attributes) if hasattr(obj, attr)`: `hasattr` lets every exception but
    AttributeError through.  Returns the names looked at and the exception, if one came out. -/
def scanReads (bad : Str → Option Err) : List Str → List Str × Option Err
  | [] => ([], none)
  | x :: rest =>
    match bad x with
    | some err => ([x], some err)
    | none => let r := scanReads bad rest; (x :: r.1, r.2)

/-- `Dict.set_by_object` with everything that can raise before `self.set(final)` -/
def setByObjectP {V} (S : Schema V) (su : Setup) (bad : Str → Option Err) (e : Elem V) (o : Obj V)
    (a : Args) : SetByResult V :=
  match su.badRen with                                       -- `rename = list(to_pairs(rename))`, `dict(rename)`
  | some x => ⟨[], some x, e⟩
  | none =>
    if su.badOm then ⟨[], some .typeError, e⟩                -- `omit = list(omit)` / `key not in renamed`
    else if (!a.inc.isEmpty || su.badInc) && !a.om.isEmpty then ⟨[], some .typeError, e⟩
    else if su.badInc then ⟨[], some .typeError, e⟩          -- `include = set(include)` at the first `next()`
    else
      let r := scanReads bad (candidates S.fields a)
      match r.2 with
      | some err => ⟨r.1, some err, e⟩                       -- the comprehension is abandoned; `self.set` never runs
      | none => setByObject S e o a

end Flatland.C20
