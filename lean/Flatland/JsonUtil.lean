/-
JSON glue for the line-protocol driver.  Not part of any theorem: a bug here shows up as a
correspondence disagreement (false alarm to be fixed in the machinery), never as a hidden
violation, because the Python oracles do not go through it.
-/
import Lean.Data.Json
open Lean

namespace Flatland.J

abbrev Str := List Char

def fld (j : Json) (k : String) : Except String Json := j.getObjVal? k
def fldD (j : Json) (k : String) (d : Json) : Json := (j.getObjVal? k).toOption.getD d
def str (j : Json) : Except String String := j.getStr?
def chars (j : Json) : Except String Str := do return (← j.getStr?).toList
def nat (j : Json) : Except String Nat := j.getNat?
def int (j : Json) : Except String Int := j.getInt?
def bool (j : Json) : Except String Bool := j.getBool?
def arr (j : Json) : Except String (List Json) := do return (← j.getArr?).toList
def isNull (j : Json) : Bool := match j with | .null => true | _ => false

def optOf {α} (f : Json → Except String α) (j : Json) : Except String (Option α) :=
  if isNull j then pure none else do return some (← f j)

def listOf {α} (f : Json → Except String α) (j : Json) : Except String (List α) := do
  (← arr j).mapM f

def sfld (j : Json) (k : String) : Except String String := do str (← fld j k)
def cfld (j : Json) (k : String) : Except String Str := do chars (← fld j k)
def nfld (j : Json) (k : String) : Except String Nat := do nat (← fld j k)
def ifld (j : Json) (k : String) : Except String Int := do int (← fld j k)
def bfld (j : Json) (k : String) : Except String Bool := do bool (← fld j k)
def afld (j : Json) (k : String) : Except String (List Json) := do arr (← fld j k)

def ofChars (s : Str) : Json := Json.str (String.ofList s)
def ofList {α} (f : α → Json) (l : List α) : Json := Json.arr (l.map f).toArray
def ofOpt {α} (f : α → Json) : Option α → Json
  | none => Json.null
  | some a => f a
def ofNat (n : Nat) : Json := Json.num (JsonNumber.fromNat n)
def ofInt (n : Int) : Json := Json.num (JsonNumber.fromInt n)
def obj (l : List (String × Json)) : Json := Json.mkObj l

end Flatland.J
