/-
Model A for C18, MultiValue as the code has it (src/flatland/schema/containers.py, class
`MultiValue(Array, Scalar)`; MRO: MultiValue, Array, Sequence, Container, Scalar, Element, list):

* the member list is a Python `list` of member elements; the list operations are the CPython ones
  (`Flatland.PyList`, shared with C09) wrapped by `Sequence.append/insert/extend/__setitem__`, which
  turn a plain value into `member_schema(value=x)` — `Element.__init__` ends with `self.set(x)`;
* `u` / `value` GETTERS as written: `if not self: return ''` / `None`, `else: return self[0].u` /
  `.value`, where `not self` is `MultiValue.__bool__` = `bool(len(self))`;
* `u` / `value` SETTERS as written: `if not self: self.append(None)`, then `self[0].u = value` —
  a plain attribute assignment on the member object: it does NOT go through the member's `set()`,
  assigns exactly one attribute and leaves the member's other attribute (and `raw`) as they were;
* `set()` is `Sequence.set` (the C04 model), `set_flat` is `Array._set_flat` (both already in
  `Flatland.C18.multiStep`); `is_empty` is `Sequence.is_empty` (`not any(True for _ in self.children)`),
  not `Element.is_empty`.

Members are distinct objects (every list operation of the model is given a plain value, so a new
member is created); `mv.extend(mv)` / appending an element that is already a member would alias two
positions and is outside this model.
-/
import Flatland.C18
import Flatland.PyList
namespace Flatland.C18.Multi
open Flatland.Scalar Flatland.C18 Flatland.PyList

inductive MRaise
  | indexError                                  -- `list` index out of range / pop from empty list
  | valueError                                  -- slice step 0
  | c04 (e : Flatland.C04.CRaise)               -- whatever leaves a member's or the element's `set()`
  deriving DecidableEq, Repr, Inhabited

/-- `member_schema(value=x)`: `Element.__init__` → `self.set(x)` on a new member -/
def newMember (E : Env) (k : Kind) (x : Native) : Except MRaise SState :=
  match setScalar E k x with
  | .ok r => .ok r.st
  | .error e => .error (.c04 (.scalar e))

/-- `Sequence.extend`: `for value in list(iterable): self.append(value)` -/
def newMembers (E : Env) (k : Kind) : List Native → Except MRaise (List SState)
  | [] => .ok []
  | x :: xs =>
    match newMember E k x with
    | .error e => .error e
    | .ok m => match newMembers E k xs with
               | .error e => .error e
               | .ok ms => .ok (m :: ms)

/-- `MultiValue.__bool__`: `bool(len(self))` -/
def truth (s : MultiState) : Bool := s.length != 0

/-- `MultiValue.u` (getter): `if not self: return ''` / `else: return self[0].u` -/
def getU (s : MultiState) : Except MRaise Str :=
  if !truth s then .ok []
  else match getItem s 0 with
       | some m => .ok m.u
       | none => .error .indexError

/-- `MultiValue.value` (getter): `if not self: return None` / `else: return self[0].value` -/
def getValue (s : MultiState) : Except MRaise Native :=
  if !truth s then .ok .none
  else match getItem s 0 with
       | some m => .ok m.value
       | none => .error .indexError

/-- the first two lines of both setters: `if not self: self.append(None)` -/
def ensureFirst (E : Env) (k : Kind) (s : MultiState) : Except MRaise MultiState :=
  if !truth s then
    match newMember E k .none with
    | .ok m => .ok (s ++ [m])                    -- `Sequence.append` → `list.append`
    | .error e => .error e
  else .ok s

/-- attribute assignment on the object `self[i]` -/
def assignAt (s : MultiState) (i : Int) (f : SState → SState) : Except MRaise MultiState :=
  match getItem s i with                          -- `self[i]`
  | none => .error .indexError
  | some m => match setItem s i (f m) with        -- the object at that position now has the new attribute
              | some s' => .ok s'
              | none => .error .indexError

/-- `MultiValue._set_u`: `if not self: self.append(None)`; `self[0].u = value` — only `.u` of the
    member is assigned, `.value` and `.raw` stay -/
def setU (E : Env) (k : Kind) (s : MultiState) (x : Str) : Except MRaise MultiState :=
  match ensureFirst E k s with
  | .error e => .error e
  | .ok s1 => assignAt s1 0 fun m => { m with u := x }

/-- `MultiValue._set_value`: `if not self: self.append(None)`; `self[0].value = value` — only
    `.value` of the member is assigned, `.u` and `.raw` stay -/
def setValue (E : Env) (k : Kind) (s : MultiState) (x : Native) : Except MRaise MultiState :=
  match ensureFirst E k s with
  | .error e => .error e
  | .ok s1 => assignAt s1 0 fun m => { m with value := x }

/-- `Sequence.is_empty`: `not any(True for _ in self.children)` -/
def isEmpty (s : MultiState) : Bool := !(s.any fun _ => true)

inductive Op
  | set (x : Flatland.C04.Input)                                         -- `mv.set(x)` (`Sequence.set`)
  | setFlat (pairs : List (Str × Str)) (name sep : Str) (prune : Bool)   -- `mv.set_flat(pairs)` (`Array._set_flat`)
  | member (i : Int) (x : Native)                                        -- `mv[i].set(x)`
  | append (x : Native)                                                  -- `mv.append(x)`
  | insert (i : Int) (x : Native)                                        -- `mv.insert(i, x)`
  | extend (xs : List Native)                                            -- `mv.extend(xs)` / `mv += xs`
  | setItem (i : Int) (x : Native)                                       -- `mv[i] = x`
  | delItem (i : Int)                                                    -- `del mv[i]`
  | pop (i : Int)                                                        -- `mv.pop(i)`
  | delSlice (sl : Slice)                                                -- `del mv[a:b:c]`
  | writeU (x : Str)                                                     -- `mv.u = x`
  | writeValue (x : Native)                                              -- `mv.value = x`
  deriving Inhabited

def liftC04 (r : Except Flatland.C04.CRaise (MultiState × Option Bool)) : Except MRaise (MultiState × Option Bool) :=
  match r with
  | .ok p => .ok p
  | .error e => .error (.c04 e)

/-- one operation on a `MultiValue.of(<scalar kind k>)`; the `Option Bool` is what the call returns
    when that is a flag -/
def step (E : Env) (k : Kind) (s : MultiState) : Op → Except MRaise (MultiState × Option Bool)
  | .set x => liftC04 (multiStep E k s (.set x))
  | .setFlat pairs name sep prune => liftC04 (multiStep E k s (.setFlat pairs name sep prune))
  | .member i x =>
    match getItem s i with                       -- `mv[i]`
    | none => .error .indexError
    | some _ =>
      match setScalar E k x with                 -- `.set(x)` on that member
      | .error e => .error (.c04 (.scalar e))
      | .ok r => match setItem s i r.st with
                 | some s' => .ok (s', some r.flag)
                 | none => .error .indexError
  | .append x =>
    match newMember E k x with
    | .error e => .error e
    | .ok m => .ok (s ++ [m], none)
  | .insert i x =>
    match newMember E k x with
    | .error e => .error e
    | .ok m => .ok (insertAt s i m, none)
  | .extend xs =>
    match newMembers E k xs with
    | .error e => .error e
    | .ok ms => .ok (s ++ ms, none)
  | .setItem i x =>
    match newMember E k x with                   -- the member is built before `list.__setitem__` looks at the index
    | .error e => .error e
    | .ok m => match setItem s i m with
               | some s' => .ok (s', none)
               | none => .error .indexError
  | .delItem i =>
    match delItem s i with
    | some s' => .ok (s', none)
    | none => .error .indexError
  | .pop i =>
    match popAt s i with
    | some (_, s') => .ok (s', none)
    | none => .error .indexError
  | .delSlice sl =>
    match delSlice s sl with
    | .ok s' => .ok (s', none)
    | .error _ => .error .valueError
  | .writeU x =>
    match setU E k s x with
    | .ok s' => .ok (s', none)
    | .error e => .error e
  | .writeValue x =>
    match setValue E k s x with
    | .ok s' => .ok (s', none)
    | .error e => .error e

/-- a MultiValue implementation: how one operation changes the member list and how the scalar view
    is read (the code's, or a counter-model's) -/
structure Machine where
  step : MultiState → Op → Except MRaise (MultiState × Option Bool)
  getU : MultiState → Except MRaise Str
  getValue : MultiState → Except MRaise Native

/-- the code -/
def code (E : Env) (k : Kind) : Machine := ⟨step E k, getU, getValue⟩

/-! #### counter-models (each is one realistic edit of the code) -/

/-- setters that write to the LAST member (`self[-1].u = value`) -/
def lastWriter (E : Env) (k : Kind) : Machine :=
  { code E k with
    step := fun s op => match op with
      | .writeU x => match ensureFirst E k s with
                     | .error e => .error e
                     | .ok s1 => match assignAt s1 (-1) fun m => { m with u := x } with
                                 | .ok s' => .ok (s', none)
                                 | .error e => .error e
      | .writeValue x => match ensureFirst E k s with
                         | .error e => .error e
                         | .ok s1 => match assignAt s1 (-1) fun m => { m with value := x } with
                                     | .ok s' => .ok (s', none)
                                     | .error e => .error e
      | op => step E k s op }

/-- getters that read the LAST member (`return self[-1].u`) -/
def lastReader (E : Env) (k : Kind) : Machine :=
  { code E k with
    getU := fun s => if !truth s then .ok [] else match getItem s (-1) with | some m => .ok m.u | none => .error .indexError
    getValue := fun s => if !truth s then .ok .none else match getItem s (-1) with | some m => .ok m.value | none => .error .indexError }

/-- a `u` setter that goes through the member's `set()` (so that it also changes `.value`) -/
def setterViaSet (E : Env) (k : Kind) : Machine :=
  { code E k with
    step := fun s op => match op with
      | .writeU x => match ensureFirst E k s with
                     | .error e => .error e
                     | .ok s1 => match step E k s1 (.member 0 (.str x)) with
                                 | .ok (s', _) => .ok (s', none)
                                 | .error e => .error e
      | op => step E k s op }

end Flatland.C18.Multi
