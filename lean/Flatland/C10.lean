/-
Model A for C10: a Dict / SparseDict element under a history of dict-protocol calls.  The calls
are `Flatland.Tree.mapStep` (shared model, following `Mapping` / `Dict` / `SparseDict` of
containers.py method by method); this file adds the history semantics.
-/
import Flatland.Tree
namespace Flatland.C10
open Flatland.Tree Flatland.PyList

structure MState where
  node : Node
  next : Nat
  deriving Inhabited

def step (s : MState) (op : MapOp) : MState :=
  let r := mapStep s.node op s.next
  ⟨r.node, r.next⟩

def run (s : MState) (ops : List MapOp) : MState := ops.foldl step s

/-- the keys of the underlying dict, in insertion order -/
def keys (n : Node) : List Str := n.kids.map Node.key

/-- the hypothesis of the key theorems (`FieldsNodup`: the class declares every field name once), as a
    Boolean the runner reports beside every trace — the implementation reports the same of the real class -/
def fieldsNodupB (s : Schema) : Bool := decide ((s.subs.map Schema.key).Nodup)

end Flatland.C10
