/-
Model A for C16: message expansion of `flatland.validation.base` as written —
`as_format_mapping` (ordered targets, item-then-attribute per target, optional transform),
`Validator.find_transformer` + `schema.util.find_i18n_function` / `search_ancestry`,
`Validator.expand_message` (callable messages are resolved by the caller, plural triples with
`int(n)`, `ungettext` vs `ugettext`-then-choose) and Python's `str % mapping` restricted to
`%(key)s` and `%%` (every other conversion is reported as `Raise.unsupported`, a modelling
boundary, never produced by the generators for cases that are compared).

Core Lean only.  `Str = List Char`.
-/
namespace Flatland.C16

abbrev Str := List Char

/-- values that can be looked up and substituted (what the harness puts into the sources) -/
inductive Val
  | none
  | str (s : Str)
  | int (i : Int)
  | bool (b : Bool)
  | elem (u : Str)   -- a child *element* (what a Mapping element's `[key]` yields); `str()` is its `.u`
  | method (owner name : Str)  -- a bound built-in method of a dict / list target (`kwargs.items`, …)
  deriving DecidableEq, Repr, Inhabited

/-- exception classes the real code can let escape -/
inductive Raise
  | keyError | valueError | typeError | attributeError | runtimeError | lookupError | assertionError
  | unsupported   -- not a Python exception: a `%` conversion outside the modelled fragment
  deriving DecidableEq, Repr, Inhabited

def Raise.name : Raise → String
  | .keyError => "KeyError" | .valueError => "ValueError" | .typeError => "TypeError"
  | .attributeError => "AttributeError" | .runtimeError => "RuntimeError"
  | .lookupError => "LookupError" | .assertionError => "AssertionError"
  | .unsupported => "Unsupported"

/-! ### Python `str()` of the substituted values -/

def natStr (n : Nat) : Str := Nat.toDigits 10 n

def intStr (i : Int) : Str :=
  match i with
  | .ofNat n => natStr n
  | .negSucc n => '-' :: natStr (n + 1)

/-- `'%s' % v` -/
def pyStr : Val → Str
  | .none => "None".toList
  | .str s => s
  | .int i => intStr i
  | .bool true => "True".toList
  | .bool false => "False".toList
  | .elem u => u
  -- `<built-in method items of dict object at 0x…>`; the harness strips the address
  | .method owner name =>
    "<built-in method ".toList ++ name ++ " of ".toList ++ owner ++ " object>".toList

/-! ### `int(n)` on the resolved count (ASCII fragment of CPython's `int(str)`) -/

def isPySpace (c : Char) : Bool :=
  c = ' ' || c = '\t' || c = '\n' || c = '\r' || c = '\x0b' || c = '\x0c' ||
  c = '\x1c' || c = '\x1d' || c = '\x1e' || c = '\x1f' || c = '\u0085' || c = '\u00a0'

def stripL : Str → Str
  | [] => []
  | c :: cs => if isPySpace c then stripL cs else c :: cs

def strip (s : Str) : Str := (stripL (stripL s).reverse).reverse

def digitVal (c : Char) : Option Nat :=
  if '0' ≤ c ∧ c ≤ '9' then some (c.toNat - '0'.toNat) else none

/-- digits with single underscores between digits; `afterDigit` = previous char was a digit -/
def parseDigits : Str → Nat → Bool → Option Nat
  | [], acc, afterDigit => if afterDigit then some acc else none
  | c :: cs, acc, afterDigit =>
    if c = '_' then (if afterDigit && !cs.isEmpty then
        (match cs with
         | d :: _ => if (digitVal d).isSome then parseDigits cs acc false else none
         | [] => none) else none)
    else match digitVal c with
      | some d => parseDigits cs (acc * 10 + d) true
      | none => none

/-- `int(s)` for a text: `none` = ValueError.  (The 4300-digit limit is not modelled.) -/
def parseInt (s : Str) : Option Int :=
  match strip s with
  | '-' :: ds => (parseDigits ds 0 false).map (fun n => - (Int.ofNat n))
  | '+' :: ds => (parseDigits ds 0 false).map Int.ofNat
  | ds => (parseDigits ds 0 false).map Int.ofNat

/-- `try: n = int(n)  except (TypeError, ValueError): pass` — a count that is not a number
    stays what it is -/
def coerceCount : Val → Val
  | .int i => .int i
  | .bool b => .int (if b then 1 else 0)
  | .none => .none
  | .elem u => .elem u                       -- `int(element)` is a TypeError
  | .method o n => .method o n               -- so is `int(method)`
  | .str s => match parseInt s with
    | some i => .int i
    | none => .str s                         -- ValueError, caught since b2dcb3b

/-- `n == 1` -/
def isOne : Val → Bool
  | .int 1 => true
  | .bool true => true
  | _ => false

/-! ### `as_format_mapping` -/

/-- one lookup target: `target[item]` (only when it has `__getitem__`; LookupError/TypeError
    are swallowed) and then `getattr(target, item)` (AttributeError swallowed) -/
structure Target where
  subscriptable : Bool
  items : List (Str × Val)
  attrs : List (Str × Val)
  deriving Repr, Inhabited

def Target.item (t : Target) (k : Str) : Option Val :=
  if t.subscriptable then t.items.lookup k else none

def Target.attr (t : Target) (k : Str) : Option Val := t.attrs.lookup k

/-- the body of the `for target in self.targets` loop -/
def Target.get (t : Target) (k : Str) : Option Val :=
  match t.item k with
  | some v => some v
  | none => t.attr k

/-- `as_format_mapping.__getitem__` without the transform: first target that yields a value -/
def rawLookup (targets : List Target) (k : Str) : Option Val :=
  targets.findSome? (fun t => t.get k)

/-- public attributes of a `dict` (what `getattr(kwargs, key)` finds when `kwargs[key]` misses);
    pinned against the running interpreter by the extractor -/
def dictMethodNames : List Str :=
  ["clear".toList, "copy".toList, "fromkeys".toList, "get".toList, "items".toList, "keys".toList,
   "pop".toList, "popitem".toList, "setdefault".toList, "update".toList, "values".toList]

/-- public attributes of a `list` -/
def listMethodNames : List Str :=
  ["append".toList, "clear".toList, "copy".toList, "count".toList, "extend".toList,
   "index".toList, "insert".toList, "pop".toList, "remove".toList, "reverse".toList,
   "sort".toList]

def methodAttrs (owner : Str) (names : List Str) : List (Str × Val) :=
  -- `dict.fromkeys` is a classmethod: bound to the type, not to the instance
  names.map (fun n => (n, Val.method (if n = "fromkeys".toList then "type".toList else owner) n))

/-- `**extra_format_args`: a plain dict — `target[item]` first, then `getattr(target, item)`,
    which finds the dict's own methods -/
def kwTarget (kw : List (Str × Val)) : Target :=
  { subscriptable := true, items := kw, attrs := methodAttrs "dict".toList dictMethodNames }

/-- a `ugettext`-like callable restricted to what the harness supplies: a text → text function;
    non-text values pass through unchanged (as `GNUTranslations.gettext` does for keys that
    are not in its catalogue) -/
def applyTr (f : Str → Str) : Val → Val
  | .str s => .str (f s)
  | v => v

/-- `format_map[item]` -/
def fmLookup (targets : List Target) (tr : Option (Str → Str)) (k : Str) : Except Raise Val :=
  match rawLookup targets k with
  | none => .error .keyError
  | some v => match tr with
    | some f => .ok (applyTr f v)
    | none => .ok v

/-! ### Python `template % mapping`, fragment `%(key)s` / `%%` -/

inductive Seg
  | ch (c : Char)
  | ph (key : Str)
  deriving DecidableEq, Repr, Inhabited

/-- scanner state of the `%` formatter -/
inductive PState
  | text
  | pct                                  -- just saw `%`
  | key (depth : Nat) (acc : Str)        -- inside `%( … `, `acc` reversed, `depth` = open parens - 1
  | conv (key : Str)                     -- saw the closing `)`, expecting the conversion
  deriving Repr

/-- one left-to-right scan: the segments recognised so far and, if the scan stopped, why.
    (Python formats while it scans, so a failing lookup *before* a malformed tail wins.) -/
def parseGo : PState → List Seg → List Char → List Seg × Option Raise
  | .text, out, [] => (out.reverse, none)
  | .text, out, c :: cs => if c = '%' then parseGo .pct out cs else parseGo .text (.ch c :: out) cs
  | .pct, out, [] => (out.reverse, some .valueError)               -- "incomplete format"
  | .pct, out, c :: cs =>
    if c = '%' then parseGo .text (.ch '%' :: out) cs
    else if c = '(' then parseGo (.key 0 []) out cs
    else (out.reverse, some .unsupported)                          -- `%s`, `%d`, flags …
  | .key _ _, out, [] => (out.reverse, some .valueError)           -- "incomplete format key"
  | .key d acc, out, c :: cs =>
    if c = ')' then
      (match d with
       | 0 => parseGo (.conv acc.reverse) out cs
       | d' + 1 => parseGo (.key d' (c :: acc)) out cs)
    else if c = '(' then parseGo (.key (d + 1) (c :: acc)) out cs
    else parseGo (.key d (c :: acc)) out cs
  -- CPython fetches `mapping[key]` as soon as the `)` is read, before it looks at the conversion:
  -- an undefined key is a KeyError even when the conversion is missing or not modelled
  | .conv k, out, [] => ((Seg.ph k :: out).reverse, some .valueError)   -- "incomplete format"
  | .conv k, out, c :: cs =>
    if c = 's' then parseGo .text (.ph k :: out) cs
    else ((Seg.ph k :: out).reverse, some .unsupported)

def scanFmt (s : Str) : List Seg × Option Raise := parseGo .text [] s

/-- the template as segments; an error when it is malformed or outside the fragment -/
def parseFmt (s : Str) : Except Raise (List Seg) :=
  match scanFmt s with
  | (segs, none) => .ok segs
  | (_, some e) => .error e

def placeholdersOf : List Seg → List Str
  | [] => []
  | .ch _ :: r => placeholdersOf r
  | .ph k :: r => k :: placeholdersOf r

/-- placeholders of a template (`[]` when the template is outside the fragment) -/
def placeholders (s : Str) : List Str :=
  match parseFmt s with
  | .ok segs => placeholdersOf segs
  | .error _ => []

/-- substitute left to right; the first failing lookup aborts -/
def render (m : Str → Except Raise Val) : List Seg → Except Raise Str
  | [] => .ok []
  | .ch c :: r => do let rest ← render m r; pure (c :: rest)
  | .ph k :: r => do
    let v ← m k
    let rest ← render m r
    pure (pyStr v ++ rest)

/-- `message % format_map` -/
def pyFormat (tmpl : Str) (m : Str → Except Raise Val) : Except Raise Str :=
  match scanFmt tmpl with
  | (segs, err) =>
    match render m segs with
    | .error e => .error e
    | .ok out => match err with
      | none => .ok out
      | some e => .error e

/-! ### `find_transformer` -/

/-- an attribute or item slot that may hold a callable: absent / present with value (possibly
    `None`) -/
inductive Slot (α : Type)
  | absent
  | present (v : Option α)
  deriving Repr, Inhabited

/-- `state[type]` -/
inductive ItemSlot (α : Type)
  | notSubscriptable          -- no `__getitem__`
  | keyError                  -- dict-like without the key
  | typeError                 -- list / str / tuple state: `state['ugettext']` raises TypeError (caught)
  | found (v : Option α)
  deriving Repr, Inhabited

/-- what `find_transformer` reads from the state for one transformer type -/
structure StateSlots (α : Type) where
  attr : Slot α
  item : ItemSlot α
  deriving Repr, Inhabited

/-- what `attrgetter(type)` reads on one element of the ancestry: an instance attribute shadows
    the class attribute (default `None` on `Element`) -/
structure AncSlots (α : Type) where
  inst : Slot α
  cls : Option α
  deriving Repr, Inhabited

def AncSlots.resolved {α} (a : AncSlots α) : Option α :=
  match a.inst with
  | .present v => v
  | .absent => a.cls

/-- `search_ancestry(element, finder)`: first truthy value along element, parent, grandparent… -/
def searchAncestry {α} : List (AncSlots α) → Option α
  | [] => none
  | a :: rest => match a.resolved with
    | some f => some f
    | none => searchAncestry rest

/-- `find_i18n_function(element, finder)` -/
def findI18n {α} (anc : List (AncSlots α)) (builtin : Slot α) : Option α :=
  match searchAncestry anc with
  | some f => some f
  | none => match builtin with
    | .present v => v          -- `finder(builtins)`, returned whatever it is
    | .absent => none          -- AttributeError → None

/-- `Validator.find_transformer(type, element, state, message)`; `state = None` is
    `StateSlots.mk .absent .notSubscriptable` -/
def findTransformer {α} (st : StateSlots α) (anc : List (AncSlots α)) (builtin : Slot α) :
    Except Raise (Option α) :=
  match st.attr with
  | .present v => .ok v                               -- `if hasattr(state, type): return getattr(...)`
  | .absent =>
    match st.item with
    | .found v => .ok v
    | .typeError => .ok (findI18n anc builtin)        -- (KeyError, TypeError, IndexError) are caught
    | .keyError => .ok (findI18n anc builtin)
    | .notSubscriptable => .ok (findI18n anc builtin)

/-! ### `expand_message` -/

inductive Msg
  | plain (s : Str)
  | plural (single plural nkey : Str)
  deriving DecidableEq, Repr, Inhabited

abbrev UTr := Str → Str                  -- ugettext
abbrev NTr := Str → Str → Val → Except Raise Str   -- ungettext (gettext's raises TypeError on a non-number)

structure Env where
  targets : List Target                  -- kwargs, state, validator, element — `None` dropped
  uState : StateSlots UTr
  nState : StateSlots NTr
  uAnc : List (AncSlots UTr)
  nAnc : List (AncSlots NTr)
  uBuiltin : Slot UTr
  nBuiltin : Slot NTr

/-- the count `n` of a plural triple:
    `try: n = format_map[n_key]; try: n = int(n) except (TypeError, ValueError): pass
     except KeyError: n = n_key` -/
def resolveCount (targets : List Target) (u : Option UTr) (nkey : Str) : Except Raise Val :=
  match fmLookup targets u nkey with
  | .error .keyError => .ok (.str nkey)
  | .error e => .error e
  | .ok v => .ok (coerceCount v)

/-- the message text after pluralisation/translation, before `%` -/
def chooseMessage (e : Env) (u : Option UTr) : Msg → Except Raise Str
  | .plain s => .ok (match u with | some f => f s | none => s)
  | .plural single plural nkey => do
    let ungettext ← findTransformer e.nState e.nAnc e.nBuiltin
    let n ← resolveCount e.targets u nkey
    match ungettext with
    | some g => g single plural n
    | none =>
      let single' := match u with | some f => f single | none => single
      let plural' := match u with | some f => f plural | none => plural
      pure (if isOne n then single' else plural')

/-- `Validator.expand_message(element, state, message, **extra_format_args)` -/
def expandMessage (e : Env) (m : Msg) : Except Raise Str := do
  let u ← findTransformer e.uState e.uAnc e.uBuiltin
  let text ← chooseMessage e u m
  pyFormat text (fmLookup e.targets u)

/-! ### `note_error` / `add_error` -/

/-- `Element.add_error`: append unless already present -/
def addError (errors : List Str) (m : Str) : List Str :=
  if errors.contains m then errors else errors ++ [m]

/-- is the message object truthy (`if message:`)? -/
def Msg.truthy : Msg → Bool
  | .plain s => !s.isEmpty
  | .plural _ _ _ => true

/-- `note_error(element, state, key, **info)` with the message already fetched (a callable
    message object is always truthy): new error list -/
def noteError (e : Env) (errors : List Str) (m : Msg) (callable : Bool := false) :
    Except Raise (List Str) :=
  if callable || m.truthy then do
    let s ← expandMessage e m
    pure (addError errors s)
  else .ok errors

end Flatland.C16
