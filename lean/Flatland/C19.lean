/-
Model A for C19 — histories of Generator calls.  The operations themselves (`begin`, `end`,
`set`, `[]=`, `update`, tag calls with `_pop_toggle` and the five transforms) are modelled in
`Flatland/Markup/Transform.lean` and `Flatland/Markup/Generator.lean`, following
`out/generic.py` / `out/markup.py` line by line; this file runs a whole history and records what
the property observes after every step.
-/
import Flatland.Markup.Generator
import Flatland.Generated.C11Tables
namespace Flatland.C19
open Flatland.Markup

inductive Op
  | begin (settings : List (Str × CVal))
  | end_
  | set (settings : List (Str × CVal))
  | setItem (key : Str) (value : CVal)
  | update (settings : List (Str × CVal))
  | tag (name : Str) (bind : Option Bind) (kwargs : List (Str × Val))
  deriving Repr

/-- what one step shows: exception class (if any) and, for tag calls, the markup -/
structure StepObs where
  err : Option PyErr
  out : Option Str
  deriving Repr

/-- the serialiser configuration regenerated from the source -/
structure RenderCfg where
  attrChain : Flatland.C11.Chain
  voids : List Str
  order : List Str

def RenderCfg.current : RenderCfg :=
  ⟨Flatland.Generated.C11.attrChain, Flatland.Generated.C11.voidElements,
   Flatland.Generated.C11.staticAttributeOrder⟩

/-- one operation: the generator afterwards and what was observed.  An operation that raises
    leaves the generator as the modelled code leaves it. -/
def step (T : Tables) (R : RenderCfg) (g : Gen) : Op → Gen × StepObs
  | .begin s => let r := g.begin s; (r.gen, ⟨r.err, none⟩)
  | .end_ => let r := g.end_; (r.gen, ⟨r.err, none⟩)
  | .set s => let r := g.set T s; (r.gen, ⟨r.err, none⟩)
  | .setItem k v => let r := g.setItem k v; (r.gen, ⟨r.err, none⟩)
  | .update s => let r := g.update s; (r.gen, ⟨r.err, none⟩)
  | .tag name bind kwargs =>
    match g.callTag T R.attrChain R.voids R.order name bind kwargs with
    | .ok (s, g') => (g', ⟨none, some s⟩)
    | .error e => (g.afterFailedTag T name bind kwargs, ⟨some e, none⟩)

/-- run a history; returns the final generator and, per step, the observation together with the
    generator right after the step -/
def run (T : Tables) (R : RenderCfg) (g : Gen) : List Op → Gen × List (StepObs × Gen)
  | [] => (g, [])
  | op :: rest =>
    let (g1, o) := step T R g op
    let (gf, more) := run T R g1 rest
    (gf, (o, g1) :: more)

/-- the generator after a history (observations dropped) -/
def runGen (T : Tables) (R : RenderCfg) (g : Gen) (ops : List Op) : Gen := (run T R g ops).1

/-- number of `end()` calls that succeed before one raises (how many blocks are open) -/
def openBlocks (g : Gen) : Nat := g.ctx.depth - 2

end Flatland.C19
