/-
JSON glue shared by the runners of C08 / C09 / C10: case parsing, the history executor (target
resolution, Element arguments from a pool of detached elements, identity labels assigned in
observation order) and the common observation encoders.  Not mentioned by any theorem.
-/
import Flatland.JsonUtil
import Flatland.C08
open Lean Flatland.J
namespace Flatland.TreeJson
open Flatland.Tree Flatland.PyList Flatland.C08

partial def parseRaw (j : Json) : Except String Raw := do
  match j with
  | .null => pure .none
  | .str s => pure (.str s.toList)
  | .num _ => pure (.int (← int j))
  | _ =>
    if let .ok l := fld j "l" then
      return .list (← (← arr l).mapM parseRaw)
    let kvs (x : Json) : Except String (List (Tree.Str × Raw)) := do
      (← arr x).mapM (fun p => do
        match (← arr p) with
        | [k, v] => pure ((← chars k), (← parseRaw v))
        | _ => throw "bad pair")
    if let .ok d := fld j "d" then return .dict (← kvs d)
    if let .ok d := fld j "p" then return .pairs (← kvs d)
    throw s!"bad raw {j.compress}"

partial def rawJson : Raw → Json
  | .none => .null
  | .int n => ofInt n
  | .str s => ofChars s
  | .list xs => obj [("l", Json.arr (xs.map rawJson).toArray)]
  | .dict kvs => obj [("d", Json.arr (kvs.map (fun p => Json.arr #[ofChars p.1, rawJson p.2])).toArray)]
  | .pairs kvs =>   -- a list of 2-tuples, rendered as the harness renders a Python list of tuples
    obj [("l", Json.arr (kvs.map (fun p => obj [("l", Json.arr #[ofChars p.1, rawJson p.2])])).toArray)]

def parsePolicy (s : String) : Except String Policy :=
  match s with
  | "strict" => pure .strict | "subset" => pure .subset | "duck" => pure .duck
  | "none" => pure .off
  | _ => throw s!"bad policy {s}"

def parseKind (s : String) : Except String SKind :=
  match s with
  | "integer" => pure .integer | "string" => pure .string | "list" => pure .list
  | "array" => pure .array | "multi" => pure .multi | "dict" => pure .dict
  | "sparse" => pure .sparse
  | "schema" => pure .dict      -- a declarative `class F(Schema)` is a Dict
  | "sparse_schema" => pure .sparse
  | _ => throw s!"bad kind {s}"

partial def parseSchema (j : Json) : Except String Schema := do
  let info : SInfo := {
    cid := ← nfld j "cid",
    isa := ← (← afld j "isa").mapM nat,
    kind := ← parseKind (← sfld j "k"),
    name := ← optOf chars (← fld j "name"),
    optional := ← bfld j "opt",
    policy := ← parsePolicy (← sfld j "policy"),
    minreq := ← bfld j "minreq" }
  let dflt ← parseRaw (← fld j "default")
  let subs ← (← afld j "subs").mapM parseSchema
  return .mk info dflt subs

def parseSlice (j : Json) : Except String Slice := do
  match (← arr j) with
  | [a, b, c] => pure ⟨← optOf int a, ← optOf int b, ← optOf int c⟩
  | _ => throw "bad slice"

/-- how a fresh Element argument is built: from a subclass of the needed class (`.named(…)` and/or
    `.using(optional=…)`, with a class id of its own), with instance-level keyword overrides
    (`cls(value, optional=…, name=…)`), owned by another container -/
structure NewOpts where
  sub : Option (Option Tree.Str × Option Bool × Nat) := none
  instOpt : Option Bool := none
  instName : Option Tree.Str := none
  foreign : Bool := false

/-- an argument as written in the case, before Element arguments are materialised -/
inductive ArgSpec
  | plain (r : Raw)
  | new (r : Option Raw) (o : NewOpts)
  | pool (k : Nat)

def parseArg (j : Json) : Except String ArgSpec := do
  if let .ok v := fld j "v" then return .plain (← parseRaw v)
  if let .ok k := fld j "pool" then return .pool (← nat k)
  if let .ok v := fld j "new" then
    let rn ← optOf chars (fldD j "rename" .null)
    let so ← optOf bool (fldD j "sub_optional" .null)
    let sub ← if rn.isSome || so.isSome then pure (some (rn, so, ← nfld j "cid")) else pure none
    let o : NewOpts := {
      sub := sub,
      instOpt := ← optOf bool (fldD j "inst_optional" .null),
      instName := ← optOf chars (fldD j "inst_name" .null),
      foreign := (fldD j "foreign" (.bool false)) == .bool true }
    if (fldD j "blank" (.bool false)) == .bool true then return .new none o
    return .new (some (← parseRaw v)) o
  throw s!"bad arg {j.compress}"

def excName : Exc → String
  | .indexError => "IndexError" | .valueError => "ValueError" | .typeError => "TypeError"
  | .keyError => "KeyError" | .notImplemented => "NotImplementedError"
  | .runtimeError => "RuntimeError" | .assertionError => "AssertionError"
  | .unsupported => "UNSUPPORTED"

/-! ### executor state -/

structure St where
  root : Node
  next : Nat
  pool : List Node := []
  labels : List (Nat × Nat) := []     -- node id ↦ label
  unsupported : Bool := false

def St.label? (s : St) (id : Nat) : Option Nat := (s.labels.find? (·.1 == id)).map (·.2)

def St.see (s : St) (id : Nat) : St :=
  match s.label? id with
  | some _ => s
  | none => { s with labels := s.labels ++ [(id, s.labels.length)] }

def St.univ (s : St) : List Node := s.root :: s.pool

def fuelOf (_s : St) : Nat := 64

/-- label every reachable element (queue order), then every object on their parent chains -/
def St.observe (s : St) : St :=
  let els := reach [s.root]
  let s1 := els.foldl (fun st e => st.see e.id) s
  els.foldl (fun st e => (parentsOf st.univ (fuelOf st) e).foldl (fun st' p => st'.see p.id) st) s1

def lab (s : St) (id : Nat) : Json :=
  match s.label? id with
  | some l => ofNat l
  | none => Json.str "?"

/-- elements with the element whose `children` yielded them, in queue order -/
def reachWithContainer (root : Node) : List (Node × Option Nat) :=
  let els := reach [root]
  els.map (fun e => (e, (els.find? (fun c => (children c).any (fun k => k.id == e.id))).map Node.id))

/-- after a call: elements that were reachable and no longer are, whose container still is,
    join the pool (in their old queue order) with the state they had -/
def St.collectDetached (old : Node) (detached : List Node) (s : St) : St :=
  let newIds := (reach [s.root]).map Node.id
  let oldEls := reachWithContainer old
  let gone := oldEls.filter (fun p => !newIds.contains p.1.id)
  let goneIds := gone.map (fun p => p.1.id)
  let top := gone.filter (fun p => match p.2 with | some c => !goneIds.contains c | none => false)
  -- the state an element had when it left (a call may set it in place first and replace it later)
  let leftAs (e : Node) : Node := ((detached.flatMap nodes).find? (fun d => d.id == e.id)).getD e
  { s with pool := s.pool ++ top.map (fun p => leftAs p.1) }

/-- the class of an Element argument: member schema of a sequence, field schema for a key -/
def neededSchema (target : Node) (key : Option Tree.Str) : Option Schema :=
  match target.kind with
  | .list | .array | .multi => target.sch.member
  | .dict | .sparse =>
    (match key.bind (fieldFor target.sch.subs) with
     | some f => some f
     | none => target.sch.subs.head?)
  | _ => none

/-- `cls.named(nm)` / `cls.using(optional=o)`: a subclass with a class id of its own -/
def subclassSchema (s : Schema) (nm : Option Tree.Str) (o : Option Bool) (newCid : Nat) : Schema :=
  .mk { s.info with cid := newCid, isa := s.info.cid :: s.info.isa,
                    name := (match nm with | some x => some x | none => s.info.name),
                    optional := o.getD s.info.optional } s.dflt s.subs

/-- materialise one argument; `Except.error` = the op is skipped with that reason -/
def mkArg (s : St) (target : Node) (key : Option Tree.Str) (a : ArgSpec) : Except String (Arg × St) :=
  match a with
  | .plain r => .ok (.plain r, s)
  | .new r o =>
    (match neededSchema target key with
     | none => .error "noschema"
     | some sch0 =>
       let sch := match o.sub with | some (nm, so, cid) => subclassSchema sch0 nm so cid | none => sch0
       -- `foreign`: the element currently belongs to another container (an object outside the
       -- tree, with an id of its own): its stored parent pointer is that container
       let par : Option Nat := if o.foreign then some s.next else none
       let nx := if o.foreign then s.next + 1 else s.next
       match r with
       | none => let b := blank sch par [] nx; .ok (.elem (b.1.withOverrides o.instOpt o.instName), { s with next := b.2 })
       | some raw =>
         match construct sch raw par [] nx with
         | (.ok e, n1) => .ok (.elem (e.withOverrides o.instOpt o.instName), { s with next := n1 })
         | (.error .unsupported, _) => .error "UNSUPPORTED"
         | (.error e, _) => .error ("argerr:" ++ excName e))
  | .pool k =>
    if s.pool.isEmpty then .error "nopool"
    else
      let idx := k % s.pool.length
      match s.pool[idx]?, neededSchema target key with
      | some e, some sch =>
        if e.sch.info.cid == sch.info.cid then
          .ok (.elem e, { s with pool := s.pool.eraseIdx idx })
        else .error "pooltype"
      | _, _ => .error "nopool"

def mkItemArgs (s : St) (target : Node) : List (Tree.Str × ArgSpec) → Except String (List (Tree.Str × Arg) × St)
  | [] => .ok ([], s)
  | (k, a) :: rest => do
    let (x, s1) ← mkArg s target (some k) a
    let (xs, s2) ← mkItemArgs s1 target rest
    return ((k, x) :: xs, s2)

def mkArgs (s : St) (target : Node) (key : Option Tree.Str) : List ArgSpec → Except String (List Arg × St)
  | [] => .ok ([], s)
  | a :: as => do
    let (x, s1) ← mkArg s target key a
    let (xs, s2) ← mkArgs s1 target key as
    return (x :: xs, s2)

/-- a parsed op before argument materialisation -/
inductive SeqSpec
  | append (a : ArgSpec) | extend (as : List ArgSpec) | iadd (as : List ArgSpec)
  | insert (i : Int) (a : ArgSpec) | setitem (i : Int) (a : ArgSpec)
  | setslice (s : Slice) (as : List ArgSpec)
  | remove (a : ArgSpec) | contains (a : ArgSpec) | index (a : ArgSpec) | count (a : ArgSpec)
  | direct (o : SeqOp)
  | observe            -- the harness only READS navigation properties here: no call on the model
  | raises             -- `seq *= <not an integer>`: operator.index raises TypeError before anything happens

inductive MapSpec
  | setitem (k : Tree.Str) (a : ArgSpec)
  | updateItems (items : List (Tree.Str × ArgSpec))
  | observe
  | direct (o : MapOp)

def parseSeqOp (j : Json) : Except String SeqSpec := do
  let args : Except String (List ArgSpec) := do (← afld j "as").mapM parseArg
  let a : Except String ArgSpec := do parseArg (← fld j "a")
  match (← sfld j "op") with
  | "append" => return .append (← a)
  | "extend" => return .extend (← args)
  | "iadd" => return .iadd (← args)
  | "insert" => return .insert (← ifld j "i") (← a)
  | "setitem" => return .setitem (← ifld j "i") (← a)
  | "setslice" => return .setslice (← parseSlice (← fld j "sl")) (← args)
  | "delitem" => return .direct (.delitem (← ifld j "i"))
  | "delslice" => return .direct (.delslice (← parseSlice (← fld j "sl")))
  | "pop" => return .direct (.pop (← optOf int (fldD j "i" .null)))
  | "remove" => return .remove (← a)
  | "reverse" => return .direct .reverse
  | "reversed" => return .direct (.getslice ⟨none, none, some (-1)⟩)   -- list(reversed(l)) is l[::-1]
  | "imul_bad" => return .raises
  | "observe" => return .observe
  | "clear" => return .direct .clear
  | "imul" => return .direct (.imul (← ifld j "n"))
  | "sort" =>
    let key ← optOf str (fldD j "key" .null)
    let k ← match key with
      | none => pure none
      | some "u" => pure (some SortKey.u)
      | some "ulen" => pure (some SortKey.ulen)
      | some "len" => pure (some SortKey.len)
      | some "field" => pure (some SortKey.field)
      | some s => throw s!"bad sort key {s}"
    return .direct (.sort k (← bfld j "rev"))
  | "set" => return .direct (.set (← parseRaw (← fld j "v")))
  | "set_default" => return .direct .setDefault
  | "len" => return .direct .len
  | "getitem" => return .direct (.getitem (← ifld j "i"))
  | "getslice" => return .direct (.getslice (← parseSlice (← fld j "sl")))
  | "contains" => return .contains (← a)
  | "index" => return .index (← a)
  | "count" => return .count (← a)
  | s => throw s!"bad seq op {s}"

def parseKvs (j : Json) : Except String (List (Tree.Str × Raw)) := do
  (← arr j).mapM (fun p => do
    match (← arr p) with
    | [k, v] => pure ((← chars k), (← parseRaw v))
    | _ => throw "bad pair")

def parseMapOp (j : Json) : Except String MapSpec := do
  match (← sfld j "op") with
  | "setitem" => return .setitem (← cfld j "k") (← parseArg (← fld j "a"))
  | "delitem" => return .direct (.delitem (← cfld j "k"))
  | "pop" => return .direct (.pop (← cfld j "k"))
  | "popitem" => return .direct .popitem
  | "observe" => return .observe
  | "clear" => return .direct .clear
  | "update" =>
    let pos ← match fld j "pos" with
      | .ok p => pure (some (← parseRaw p))
      | .error _ => pure none
    return .direct (.update pos (← parseKvs (fldD j "kw" (Json.arr #[]))))
  | "update_items" =>
    let items ← (← afld j "items").mapM (fun p => do
      match (← arr p) with
      | [k, a] => pure ((← chars k), (← parseArg a))
      | _ => throw "bad item")
    return .updateItems items
  | "ior" => return .direct (.ior (← parseRaw (← fld j "v")))
  | "setdefault" => return .direct (.setdefault (← cfld j "k") (← parseRaw (← fld j "d")))
  | "get" => return .direct (.get (← cfld j "k"))
  | "set" =>
    let pol ← match fld j "policy" with
      | .error _ => pure none
      | .ok .null => pure (some none)
      | .ok p => pure (some (some (← parsePolicy (← str p))))
    return .direct (.set (← parseRaw (← fld j "v")) pol)
  | "set_default" => return .direct .setDefault
  | "contains" => return .direct (.contains (← cfld j "k"))
  | "len" => return .direct .len
  | s => throw s!"bad map op {s}"

structure OpSpec where
  t : Nat
  s : Option SeqSpec
  m : Option MapSpec

def parseOp (j : Json) : Except String OpSpec := do
  let s ← match fld j "s" with | .ok x => pure (some (← parseSeqOp x)) | .error _ => pure none
  let m ← match fld j "m" with | .ok x => pure (some (← parseMapOp x)) | .error _ => pure none
  return ⟨← nfld j "t", s, m⟩

def isSeqKind (k : SKind) : Bool := k == .list || k == .array || k == .multi
def isMapKind (k : SKind) : Bool := k == .dict || k == .sparse

/-- reachable container elements, queue order -/
def containers (root : Node) : List Node :=
  (reach [root]).filter (fun e => isSeqKind e.kind || isMapKind e.kind)

/-- resolve target and arguments; `.error reason` = skipped -/
def materialise (s : St) (o : OpSpec) : Except String (Node × Op × St) := do
  let cs := containers s.root
  if cs.isEmpty then throw "notarget"
  let some target := cs[o.t % cs.length]? | throw "notarget"
  if isSeqKind target.kind then
    let some sp := o.s | throw "nokindop"
    match sp with
    | .observe => throw "OBSERVE"
    | .raises => throw "TYPEERROR"
    | .direct op => return (target, .seq op, s)
    | .append a => let (x, s1) ← mkArg s target none a; return (target, .seq (.append x), s1)
    | .extend as => let (xs, s1) ← mkArgs s target none as; return (target, .seq (.extend xs), s1)
    | .iadd as => let (xs, s1) ← mkArgs s target none as; return (target, .seq (.iadd xs), s1)
    | .insert i a => let (x, s1) ← mkArg s target none a; return (target, .seq (.insert i x), s1)
    | .setitem i a => let (x, s1) ← mkArg s target none a; return (target, .seq (.setitem i x), s1)
    | .setslice sl as => let (xs, s1) ← mkArgs s target none as; return (target, .seq (.setslice sl xs), s1)
    | .remove a => let (x, s1) ← mkArg s target none a; return (target, .seq (.remove x), s1)
    | .contains a => let (x, s1) ← mkArg s target none a; return (target, .seq (.contains x), s1)
    | .index a => let (x, s1) ← mkArg s target none a; return (target, .seq (.index x), s1)
    | .count a => let (x, s1) ← mkArg s target none a; return (target, .seq (.count x), s1)
  else
    let some mp := o.m | throw "nokindop"
    match mp with
    | .observe => throw "OBSERVE"
    | .direct op => return (target, .map op, s)
    | .setitem k a => let (x, s1) ← mkArg s target (some k) a; return (target, .map (.setitem k x), s1)
    | .updateItems items => let (xs, s1) ← mkItemArgs s target items; return (target, .map (.updateArgs xs), s1)

def outJson (s : St) : Out → Json
  | .ok => Json.str "ok"
  | .exc e => obj [("exc", Json.str (excName e))]
  | .nat n => obj [("n", ofNat n)]
  | .bool b => obj [("b", Json.bool b)]
  | .node n => obj [("el", lab s n.id)]
  | .nodes ns => obj [("els", Json.arr (ns.map (fun n => lab s n.id)).toArray)]
  | .value r => obj [("val", rawJson r)]

/-- Element arguments of a materialised op -/
def argElems : Op → List Node
  | .seq (.append (.elem e)) | .seq (.insert _ (.elem e)) | .seq (.setitem _ (.elem e)) => [e]
  | .seq (.extend as) | .seq (.iadd as) | .seq (.setslice _ as) =>
    as.filterMap (fun a => match a with | .elem e => some e | _ => none)
  | .map (.setitem _ (.elem e)) => [e]
  | .map (.updateArgs kvs) => kvs.filterMap (fun p => match p.2 with | .elem e => some e | _ => none)
  | _ => []

structure StepObs where
  st : St
  out : Json            -- what the call returned / raised, or {"skip": reason}
  target : Option Nat   -- id of the target element
  placed : List Nat     -- ids of Element arguments handed to a placing call

/-- run one op of a history -/
def execOp (s : St) (o : OpSpec) : StepObs :=
  match materialise s o with
  | .error "UNSUPPORTED" => ⟨{ s with unsupported := true }, Json.str "unsupported", none, []⟩
  | .error "OBSERVE" => ⟨s, Json.str "ok", none, []⟩
  | .error "TYPEERROR" => ⟨s, obj [("exc", Json.str "TypeError")], none, []⟩
  | .error reason => ⟨s, obj [("skip", Json.str reason)], none, []⟩
  | .ok (target, op, s1) =>
    match stepAt s1.root target.id op s1.next with
    | none => ⟨s1, obj [("skip", Json.str "notarget")], none, []⟩
    | some r =>
      let unsup := match r.out with | .exc .unsupported => true | _ => false
      let s2 : St := { s1 with root := r.node, next := r.next, unsupported := s1.unsupported || unsup }
      let s3 := (s2.collectDetached s1.root r.detached).observe
      -- a returned object that was never reachable (cannot happen for the modelled calls) stays "?"
      let s4 := match r.out with
        | .node n => s3.see n.id
        | _ => s3
      ⟨s4, outJson s4 r.out, some target.id, (argElems op).map Node.id⟩

/-- the construction routes -/
def initState (schema : Schema) (route : String) (value : Raw) : Except String (St × Json) := do
  let start (n : Node) (next : Nat) (out : Json) : St × Json := (St.observe { root := n, next := next }, out)
  match route with
  | "ctor" =>
    let b := blank schema none [] 1
    return start b.1 b.2 (Json.str "ok")
  | "ctor_value" =>
    match construct schema value none [] 1 with
    | (.ok n, next) => return start n next (Json.str "ok")
    | (.error .unsupported, next) =>
      let b := blank schema none [] next
      return ({ root := b.1, next := b.2, unsupported := true }, Json.str "unsupported")
    | (.error e, next) =>
      -- the constructor raised: the harness falls back to a blank element
      let b := blank schema none [] next
      return start b.1 b.2 (obj [("exc", Json.str (excName e))])
  | "set" =>
    let b := blank schema none [] 1
    let r := setNode b.1 value none b.2
    match r.res with
    | .ok ok => return start r.node r.next (obj [("b", Json.bool ok)])
    | .error .unsupported => return ({ root := r.node, next := r.next, unsupported := true }, Json.str "unsupported")
    | .error e => return start r.node r.next (obj [("exc", Json.str (excName e))])
  | "from_defaults" =>
    let r := fromDefaults schema none [] 1
    match r.res with
    | .ok _ => return start r.node r.next (Json.str "ok")
    | .error .unsupported => return ({ root := r.node, next := r.next, unsupported := true }, Json.str "unsupported")
    | .error e =>
      let b := blank schema none [] r.next
      return start b.1 b.2 (obj [("exc", Json.str (excName e))])
  | "set_default" =>
    let b := blank schema none [] 1
    let r := setDefault b.1 b.2
    match r.res with
    | .ok _ => return start r.node r.next (Json.str "ok")
    | .error .unsupported => return ({ root := r.node, next := r.next, unsupported := true }, Json.str "unsupported")
    | .error e => return start r.node r.next (obj [("exc", Json.str (excName e))])
  | r => throw s!"bad route {r}"

structure Case where
  schema : Schema
  route : String
  value : Raw
  ops : List OpSpec

def parseCase (j : Json) : Except String Case := do
  let init ← fld j "init"
  return {
    schema := ← parseSchema (← fld j "schema"),
    route := ← sfld init "route",
    value := ← parseRaw (fldD init "value" .null),
    ops := ← (← afld j "ops").mapM parseOp }

/-- run a whole case; `view` renders the property-specific observation of a state -/
def runCase (c : Case) (view : St → Option StepObs → Json) : Except String Json := do
  let (s0, out0) ← initState c.schema c.route c.value
  if s0.unsupported then return obj [("unsupported", Json.bool true)]
  let mut s := s0
  let mut steps : Array Json := #[obj [("out", out0), ("view", view s0 none)]]
  for o in c.ops do
    let r := execOp s o
    s := r.st
    if s.unsupported then return obj [("unsupported", Json.bool true)]
    steps := steps.push (obj [("out", r.out), ("view", view s (some r))])
  return obj [("steps", Json.arr steps)]

end Flatland.TreeJson
