/-
Model A for the whole-form clause of C12: "a rendered form, submitted unchanged, posts the
element's own flat pairs".

* `FormTree` — an element tree (Dict / List / text scalar / Boolean / Array or MultiValue of
  strings / JoinedString) in which every leaf also says with which control group the form
  renders it.  The control groups are the ones form mode of `harness/props/c12.py` generates
  (`_control_for(..., form_mode=True)`):
    scalar       → one text-like `<input>` | `<textarea>` | `<button>` |
                   a radio group (one `<input type=radio value=l>` per literal) |
                   `<select>` + one `<option value=l>` per literal
    Boolean      → `<input type=checkbox>` without `value=`
    Array/Multi  → one `<input type=checkbox value=m>` per member occurrence |
                   `<select multiple>` + one `<option value=m>` per member occurrence
    JoinedString → one `<input type=text|hidden>`
  every control bound to its element; `extras` are author attributes already sitting on the
  i-th tag of the group (the stale `checked=` / `selected=` the transform must override).
* `renderForm` — the tag calls of the form, leaf by leaf in document order, each with the `Bind`
  of its element (flat name = names on the path, `None` skipped, list slots by index).
* `browserPost` — what a browser submits: every control through the transforms
  (`Flatland.Markup.transform`) and the successful-control rule (`submitted`, `submittedOption`
  of `Flatland/C12.lean`); an `<option>` posts under the `name` its `<select>` came out with.
* `formPairs` — the element's own flat pairs as far as a form can carry them: `(name, u)` for a
  scalar, `(name, true)` for a Boolean whose text is its true value and nothing otherwise (an
  unchecked box is not a successful control), one pair per Array member.
* `embed` — the same tree as a node of the flat model (`Flatland/Flat.lean`), so that
  `formPairs` can be compared with `flatten()`.
-/
import Flatland.C12
import Flatland.Flat
namespace Flatland.C12
open Flatland.Markup

abbrev Pair := Str × Str

def sButton : Str := "button".toList
def sSelect : Str := "select".toList
def sCheckbox : Str := "checkbox".toList
def sMultiple : Str := "multiple".toList

/-- how a scalar leaf is rendered -/
inductive ScalarWidget
  | input (ty : Option Str)               -- `<input type=ty>`; `none`: no `type=` at all
  | textarea
  | button
  | radios (ty : Str) (lits : List Str)   -- one `<input type=ty value=l>` per literal (ty: radio / checkbox)
  | select (lits : List Str)              -- `<select>` and one `<option value=l>` per literal

/-- how an Array / MultiValue of strings is rendered -/
inductive ArrayWidget
  | checkboxes                            -- one `<input type=checkbox value=m>` per member occurrence
  | selectMultiple                        -- `<select multiple>` and one `<option value=m>` per member occurrence

inductive FormTree
  | text (name : Option Str) (u : Str) (w : ScalarWidget) (extras : List Attrs)
  | bool (name : Option Str) (tru : Str) (u : Str) (extras : List Attrs)
  | array (name : Option Str) (strip : Bool) (members : List Str) (w : ArrayWidget) (extras : List Attrs)
  /-- JoinedString: ONE flattenable leaf whose text `u` is the members joined; always a text-like input -/
  | joined (name : Option Str) (u : Str) (members : List Str) (ty : Option Str) (extras : List Attrs)
  | dict (name : Option Str) (fields : List FormTree)
  | list (name : Option Str) (members : List FormTree)     -- members sit in slots named 0,1,2…

/-- one control group of the rendered form -/
inductive Control
  /-- `gen.<tag>(bind, **kwargs)` for input / textarea / button -/
  | single (tag : Str) (b : Bind) (kwargs : Attrs)
  /-- `gen.select(bind, **kwargs)` around `gen.option(bind, **kw)` for every `kw` -/
  | select (b : Bind) (kwargs : Attrs) (options : List Attrs)

/-! ### rendering -/

/-- keyword arguments of a check control with a literal -/
def kwCheck (ty lit : Str) (extra : Attrs) : Attrs := (sType, .text ty) :: (sValue, .text lit) :: extra

/-- keyword arguments of an `<option value=lit>` -/
def kwOption (lit : Str) (extra : Attrs) : Attrs := (sValue, .text lit) :: extra

/-- keyword arguments of a text-like `<input>` -/
def kwInput (ty : Option Str) (extra : Attrs) : Attrs :=
  match ty with
  | none => extra
  | some t => (sType, .text t) :: extra

/-- one `<input type=ty value=l>` per literal, the i-th with the i-th extras -/
def checkGroup (b : Bind) (ty : Str) : List Str → List Attrs → List Control
  | [], _ => []
  | l :: ls, es => .single sInput b (kwCheck ty l (es.headD [])) :: checkGroup b ty ls es.tail

/-- one `<option value=l>` per literal, the i-th with the i-th extras -/
def optionGroup : List Str → List Attrs → List Attrs
  | [], _ => []
  | l :: ls, es => kwOption l (es.headD []) :: optionGroup ls es.tail

def scalarControls (b : Bind) (w : ScalarWidget) (extras : List Attrs) : List Control :=
  match w with
  | .input ty => [.single sInput b (kwInput ty (extras.headD []))]
  | .textarea => [.single sTextarea b (extras.headD [])]
  | .button => [.single sButton b (extras.headD [])]
  | .radios ty lits => checkGroup b ty lits extras
  | .select lits => [.select b [] (optionGroup lits extras)]

def arrayControls (b : Bind) (members : List Str) (w : ArrayWidget) (extras : List Attrs) : List Control :=
  match w with
  | .checkboxes => checkGroup b sCheckbox members extras
  | .selectMultiple => [.select b [(sMultiple, .text sMultiple)] (optionGroup members extras)]

/-- `str(index)`, as in the flat model -/
abbrev slotName (i : Nat) : Str := Flatland.Flat.natStr i

/- the binds: `flattened_name()` of the path `pre ++ [name]`, the element's text, its kind -/
def textBind (pre : List (Option Str)) (n : Option Str) (u : Str) : Bind := ⟨flatName (pre ++ [n]), u, .scalar⟩
def boolBind (pre : List (Option Str)) (n : Option Str) (tru u : Str) : Bind := ⟨flatName (pre ++ [n]), u, .boolean tru⟩
/-- an Array bound as a whole; `shown` is its display text (never posted, never compared) -/
def arrayBind (pre : List (Option Str)) (n : Option Str) (strip : Bool) (ms : List Str) (shown : Str) : Bind :=
  ⟨flatName (pre ++ [n]), shown, .array strip (ms.map some)⟩

mutual
/-- the controls of the form in document order; `pre` = names on the path above the node -/
def renderForm (pre : List (Option Str)) : FormTree → List Control
  | .text n u w ex => scalarControls (textBind pre n u) w ex
  | .bool n tru u ex => [.single sInput (boolBind pre n tru u) ((sType, .text sCheckbox) :: ex.headD [])]
  | .array n strip ms w ex => arrayControls (arrayBind pre n strip ms []) ms w ex
  | .joined n u ms ty ex => [.single sInput (arrayBind pre n true ms u) (kwInput ty (ex.headD []))]
  | .dict n fields => renderFields (pre ++ [n]) fields
  | .list n members => renderSlots (pre ++ [n]) 0 members
def renderFields (pre : List (Option Str)) : List FormTree → List Control
  | [] => []
  | t :: ts => renderForm pre t ++ renderFields pre ts
def renderSlots (pre : List (Option Str)) (i : Nat) : List FormTree → List Control
  | [] => []
  | t :: ts => renderForm (pre ++ [some (slotName i)]) t ++ renderSlots pre (i + 1) ts
end

/-! ### the browser side -/

/-- what a browser reads from one rendered tag: its attributes and its text content -/
abbrev Seen := List (Str × Str) × Str

/-- the contents markup a `Tag` prints (as in `prepareTag`) -/
def bodyOf : Option Val → Except PyErr Str
  | none => pure []
  | some (.text s) => pure s
  | some (.markup s) => pure s
  | some (.bool false) => pure []
  | some _ => throw .notImplementedError        -- outside the modelled domain

/-- `gen.<tag>(bind, **kwargs)` on a generator whose context is `ctx` (no explicit contents): the
    transforms, then the contents as `Tag` prints them, read back by the HTML parser -/
def seenOf (T : Tables) (ctx : Ctx) (tag : Str) (b : Bind) (kwargs : Attrs) : Except PyErr Seen := do
  let st ← transform T tag (some b) ⟨kwargs, none, ctx⟩
  let body ← bodyOf st.contents
  pure (strAttrs st.attrs, Flatland.C11.decodeRefs body)

/-- the same tag call as the runner (`Flatland/Run/C12.lean`) makes it: `prepareTag` on the generator
    (keyword arguments re-keyed, attributes in output order), the contents read back by the parser -/
def seenVia (T : Tables) (order : List Str) (g : Gen) (tag : Str) (b : Bind) (kwargs : Attrs) : Except PyErr Seen := do
  let r ← prepareTag T order g tag (some b) kwargs
  pure (strAttrs r.pairs, Flatland.C11.decodeRefs r.contents)

/-- concatenation of what each item posts -/
def postsAll {α} (f : α → Except PyErr (List Pair)) : List α → Except PyErr (List Pair)
  | [] => pure []
  | c :: cs => do
    let p ← f c
    let ps ← postsAll f cs
    pure (p ++ ps)

/-- what one control group posts -/
def Control.posts (see : Str → Bind → Attrs → Except PyErr Seen) : Control → Except PyErr (List Pair)
  | .single tag b kw => do
    let (attrs, text) ← see tag b kw
    pure (submitted tag attrs text).toList
  | .select b kw options => do
    let (sattrs, _) ← see sSelect b kw
    let selectName := (attr? sattrs sName).getD []
    postsAll (fun okw => do
      let (attrs, text) ← see sOption b okw
      pure (submittedOption selectName attrs text).toList) options

/-- the name/value pairs a browser submits for the rendered form, in document order -/
def browserPost (see : Str → Bind → Attrs → Except PyErr Seen) (cs : List Control) : Except PyErr (List Pair) :=
  postsAll (Control.posts see) cs

/-! ### submission through an activated submitter

`browserPost` takes every control as successful and every submitter (`<button>`, `<input
type=submit>`) as THE activated one.  A browser activates at most one: `browserSubmit act` is the
submission in which the `act`-th submitter of the document (counting submitters only, from 0) was
pressed — `none`: the form was submitted without one (Enter in a text field, `form.submit()`) —
and every other submitter posts nothing. -/

/-- does a browser read the rendered tag as a submitter? -/
def Control.isSub (see : Str → Bind → Attrs → Except PyErr Seen) : Control → Except PyErr Bool
  | .single tag b kw => do
    let (attrs, _) ← see tag b kw
    pure (isSubmitter tag attrs)
  | .select .. => pure false

/-- the number of submitters among the rendered controls, as a browser reads them -/
def subCount (see : Str → Bind → Attrs → Except PyErr Seen) : List Control → Except PyErr Nat
  | [] => pure 0
  | c :: cs => do
    let s ← c.isSub see
    let n ← subCount see cs
    pure ((if s then 1 else 0) + n)

/-- the name/value pairs a browser submits when the `act`-th submitter was activated -/
def browserSubmit (see : Str → Bind → Attrs → Except PyErr Seen) : Option Nat → List Control → Except PyErr (List Pair)
  | _, [] => pure []
  | act, c :: cs => do
    let p ← c.posts see
    let s ← c.isSub see
    if s then
      match act with
      | some 0 => do
        let ps ← browserSubmit see none cs
        pure (p ++ ps)
      | some (k + 1) => browserSubmit see (some k) cs
      | none => browserSubmit see none cs
    else do
      let ps ← browserSubmit see act cs
      pure (p ++ ps)

/-- the same reading on the keyword arguments of the call (the transforms leave `type` alone) -/
def kwSubmitter (tag : Str) (kw : Attrs) : Bool :=
  let ty := (Dict.get? kw sType).bind Val.str?
  if tag = "button".toList then !buttonNeverPosts (asciiLower (ty.getD "submit".toList))
  else tag = sInput && asciiLower (ty.getD "text".toList) = "submit".toList

def Control.kwSub : Control → Bool
  | .single tag _ kw => kwSubmitter tag kw
  | .select .. => false

/-! ### the element's own flat pairs, as far as a form carries them -/

mutual
def formPairs (pre : List (Option Str)) : FormTree → List Pair
  | .text n u _ _ => [(flatName (pre ++ [n]), u)]
  | .bool n tru u _ => if tru = u then [(flatName (pre ++ [n]), u)] else []
  | .array n _ ms _ _ => ms.map (fun m => (flatName (pre ++ [n, none]), m))     -- members are anonymous
  | .joined n u _ _ _ => [(flatName (pre ++ [n]), u)]
  | .dict n fields => fieldPairs (pre ++ [n]) fields
  | .list n members => slotPairs (pre ++ [n]) 0 members
def fieldPairs (pre : List (Option Str)) : List FormTree → List Pair
  | [] => []
  | t :: ts => formPairs pre t ++ fieldPairs pre ts
def slotPairs (pre : List (Option Str)) (i : Nat) : List FormTree → List Pair
  | [] => []
  | t :: ts => formPairs (pre ++ [some (slotName i)]) t ++ slotPairs pre (i + 1) ts
end

mutual
/-- the flat pairs of the Booleans whose box is not checked (`flatten()` has them, a form does not) -/
def uncheckedPairs (pre : List (Option Str)) : FormTree → List Pair
  | .bool n tru u _ => if tru = u then [] else [(flatName (pre ++ [n]), u)]
  | .dict n fields => uncheckedFields (pre ++ [n]) fields
  | .list n members => uncheckedSlots (pre ++ [n]) 0 members
  | _ => []
def uncheckedFields (pre : List (Option Str)) : List FormTree → List Pair
  | [] => []
  | t :: ts => uncheckedPairs pre t ++ uncheckedFields pre ts
def uncheckedSlots (pre : List (Option Str)) (i : Nat) : List FormTree → List Pair
  | [] => []
  | t :: ts => uncheckedPairs (pre ++ [some (slotName i)]) t ++ uncheckedSlots pre (i + 1) ts
end

/-! ### what the theorem asks of a form (decidable) -/

/-- attribute names an author attribute of a generated control must not use: the ones the control
    kind fixes itself, the explicit body, and the per-tag options -/
def reservedKeys : List Str :=
  [sName, sValue, sType, "contents".toList, "auto_name".toList, "auto_value".toList, "auto_domid".toList,
   "auto_for".toList, "auto_tabindex".toList, "auto_filter".toList]

/-- author attributes: distinct names, written as they are to appear (no trailing `_` for
    `_transform_keys` to strip), none of the reserved ones -/
def extraOk (a : Attrs) : Bool :=
  decide (Dict.keys a).Nodup && (Dict.keys a).all (fun k => !reservedKeys.contains k && rstripUnderscore k == k)

/-- a text-like `<input>` type: not checkbox/radio, not password (KF-C12-a), not one of the types
    whose `value` a browser never posts (file, image, reset, button), and read the same way by the
    library (`str.lower`) and by a browser (ASCII case-insensitive).  `submit` is text-like; it
    counts as a submitter (`submitters`). -/
def textLikeTy (ty : Option Str) : Bool :=
  match ty with
  | none => true
  | some s =>
    let k := kwLower s
    let a := asciiLower s
    !(k == "radio".toList || k == sCheckbox || k == "password".toList || k == "file".toList || k == "image".toList) &&
    !(a == sCheckbox || a == "radio".toList) && !inputNeverPosts a

/-- a check type (`radio` / `checkbox` in any case), read the same way by library and browser -/
def checkTy (ty : Str) : Bool :=
  (kwLower ty == "radio".toList || kwLower ty == sCheckbox) && asciiLower ty == kwLower ty

/-- the group offers the element's text exactly once -/
def offersOnce (lits : List Str) (u : Str) : Bool := decide lits.Nodup && lits.contains u

def startsWithLF : Str → Bool
  | '\n' :: _ => true
  | _ => false

def widgetOk (u : Str) : ScalarWidget → Bool
  | .input ty => textLikeTy ty
  | .textarea => !startsWithLF u                    -- KF-C12-f
  | .button => true
  | .radios ty lits => checkTy ty && offersOnce lits u
  | .select lits => offersOnce lits u

mutual
/-- every leaf has a non-empty flat name; the controls are of the kinds the property covers
    (no password/file/image: KF-C12-a; options carry `value=`: KF-C12-b/e, by construction; a
    JoinedString is only ever a text-like input: KF-C12-d; no `<textarea>` for a text starting with
    LF: KF-C12-f); a radio group / select offers the element's text exactly once; Array members are
    values of their member schema (stripped when it strips); author attributes stay clear of the
    generated ones -/
def formOk (T : Tables) (pre : List (Option Str)) : FormTree → Bool
  | .text n u w ex => !(flatName (pre ++ [n])).isEmpty && widgetOk u w && ex.all extraOk
  | .bool n _ _ ex => !(flatName (pre ++ [n])).isEmpty && ex.all extraOk
  | .array n strip ms _ ex =>
    !(flatName (pre ++ [n])).isEmpty && ms.all (fun m => !strip || T.strip m == m) && ex.all extraOk
  | .joined n _ _ ty ex => !(flatName (pre ++ [n])).isEmpty && textLikeTy ty && ex.all extraOk
  | .dict n fields => fieldsOk T (pre ++ [n]) fields
  | .list n members => slotsOk T (pre ++ [n]) 0 members
def fieldsOk (T : Tables) (pre : List (Option Str)) : List FormTree → Bool
  | [] => true
  | t :: ts => formOk T pre t && fieldsOk T pre ts
def slotsOk (T : Tables) (pre : List (Option Str)) (i : Nat) : List FormTree → Bool
  | [] => true
  | t :: ts => formOk T (pre ++ [some (slotName i)]) t && slotsOk T pre (i + 1) ts
end

/-- is this `<input type=…>` a submit button? -/
def submitTy (ty : Option Str) : Bool :=
  match ty with
  | none => false
  | some s => asciiLower s == "submit".toList

mutual
/-- the number of SUBMITTER controls the form renders bound data as: `<button>`s and
    `<input type=submit>`s.  A browser posts a submitter only when it is the control that was
    activated, and at most one is: `browserPost` lets every submitter post as the activated one,
    so the form theorems are about forms with AT MOST ONE of them (`oneSubmitter`).  An element
    rendered only as a button that is not the one pressed is simply not posted. -/
def submitters : FormTree → Nat
  | .text _ _ (.button) _ => 1
  | .text _ _ (.input ty) _ => if submitTy ty then 1 else 0
  | .text _ _ _ _ => 0
  | .joined _ _ _ ty _ => if submitTy ty then 1 else 0
  | .bool .. => 0
  | .array .. => 0
  | .dict _ fields => submittersL fields
  | .list _ members => submittersL members
def submittersL : List FormTree → Nat
  | [] => 0
  | t :: ts => submitters t + submittersL ts
end

/-- a form submission has at most one activated submitter -/
def oneSubmitter (t : FormTree) : Bool := decide (submitters t ≤ 1)

/-- is the leaf rendered as a submitter? -/
def FormTree.isSubmitterLeaf : FormTree → Bool
  | .text _ _ (.button) _ => true
  | .text _ _ (.input ty) _ => submitTy ty
  | .joined _ _ _ ty _ => submitTy ty
  | _ => false

mutual
/-- the element's pairs a submission WITHOUT an activated submitter carries: `formPairs` minus the
    leaves rendered as a `<button>` / `<input type=submit>` -/
def quietPairs (pre : List (Option Str)) : FormTree → List Pair
  | .dict n fields => quietFieldPairs (pre ++ [n]) fields
  | .list n members => quietSlotPairs (pre ++ [n]) 0 members
  | .text n u w ex => if (FormTree.text n u w ex).isSubmitterLeaf then [] else formPairs pre (.text n u w ex)
  | .joined n u ms ty ex => if submitTy ty then [] else formPairs pre (.joined n u ms ty ex)
  | .bool n tru u ex => formPairs pre (.bool n tru u ex)
  | .array n strip ms w ex => formPairs pre (.array n strip ms w ex)
def quietFieldPairs (pre : List (Option Str)) : List FormTree → List Pair
  | [] => []
  | t :: ts => quietPairs pre t ++ quietFieldPairs pre ts
def quietSlotPairs (pre : List (Option Str)) (i : Nat) : List FormTree → List Pair
  | [] => []
  | t :: ts => quietPairs (pre ++ [some (slotName i)]) t ++ quietSlotPairs pre (i + 1) ts
end

mutual
/-- every Boolean shows its true text or the empty text (`Boolean.false` is `''`): what `.u` of a
    Boolean can be after `set()`; then an unchecked box stands for a flat pair with value `''` -/
def boolsCanonical : FormTree → Bool
  | .bool _ tru u _ => u == tru || u.isEmpty
  | .dict _ fields => allCanonical fields
  | .list _ members => allCanonical members
  | _ => true
def allCanonical : List FormTree → Bool
  | [] => true
  | t :: ts => boolsCanonical t && allCanonical ts
end

/-! ### the same tree as the case description of the runner (`Tree`, `select` of `Flatland/C12.lean`) -/

mutual
/-- forget the widgets.  A JoinedString is described as an Array node (its members) whose display
    text is supplied with the render, as in the case JSON -/
def FormTree.tree : FormTree → Tree
  | .text n u _ _ => .leaf n u
  | .bool n tru u _ => .bool n tru u
  | .array n strip ms _ _ => .array n strip (ms.map some)
  | .joined n _ ms _ _ => .array n true (ms.map some)
  | .dict n fields => .dict n (treesOf fields)
  | .list n members => .list n (treesOf members)
def treesOf : List FormTree → List Tree
  | [] => []
  | t :: ts => t.tree :: treesOf ts
end

/-- the element a control group is bound to -/
def Control.bind : Control → Bind
  | .single _ b _ => b
  | .select b _ _ => b

/-! ### the same tree in the flat model -/

open Flatland.Flat (FNode)

def memberNode (m : Str) : FNode := .mk none true true m false []

mutual
def embed : FormTree → FNode
  | .text n u _ _ => .mk n true true u false []
  | .bool n _ u _ => .mk n true true u false []
  | .array n _ ms _ _ => .mk n false true [] false (ms.map memberNode)
  | .joined n u ms _ _ => .mk n true false u false (ms.map memberNode)
  | .dict n fields => .mk n false true [] false (embedAll fields)
  | .list n members => .mk n false true [] true (embedAll members)
def embedAll : List FormTree → List FNode
  | [] => []
  | t :: ts => embed t :: embedAll ts
end

end Flatland.C12
