/-
Model A for C19, round h9 — `transform_filters` AS WRITTEN (`out/generic.py`), and the tag call /
history runner that use it.

The shared model (`Markup/Transform.lean`, also used by C11 / C12) knows `transform_filters` only
with the default empty `filters` tuple.  Here the `filters` setting is a real value: a frame stores
`.opaque name`, and an environment `FilterEnv` (part of the case) says which list of filters that
name stands for.  A filter is a finite description the harness realises as a real Python callable
(`harness/props/c19.py: make_filter`):

    def fn(tagname, attributes, contents, context, bind):
        for k in dels: attributes.pop(k, None)
        for k, v in sets: attributes[k] = v
        return <act>(contents, tagname)
    fn.tags = tags          # only when `tags` is not None

`transformFiltersF` follows the code's statement order: `_pop_toggle`, `context["filters"]`,
`if not proceed: return`, then the loop with `want = getattr(fn, "tags", None)`,
`if want and tagname not in want: continue`, `contents = fn(...)`.
-/
import Flatland.C19
namespace Flatland.C19
open Flatland.Markup
open Flatland.C11 (orderPairs transformKeys renderTag renderOpen)

/-- what a filter returns as the new contents -/
inductive ContentsAct
  | keep                  -- `return contents`
  | append (m : Str)      -- `return m if contents is None else contents + m`
  | replace (v : Val)     -- `return v`
  | drop                  -- `return None`
  | appendTag             -- `return tagname if contents is None else contents + tagname`
  deriving DecidableEq, Repr

structure Filter where
  tags : Option (List Str)      -- the callable's `tags` attribute; `none` = it has none
  dels : List Str
  sets : List (Str × Val)
  act : ContentsAct
  deriving DecidableEq, Repr

/-- `want = getattr(fn, "tags", None); if want and tagname not in want: continue` — an absent or
    EMPTY `tags` means every tag -/
def Filter.wanted (f : Filter) (tag : Str) : Bool :=
  match f.tags with
  | none => true
  | some ts => ts.isEmpty || ts.contains tag

/-- `contents + m` for what contents can be (`Markup.__add__` is `str.__add__`: a plain `str`) -/
def appendContents (c : Option Val) (m : Str) : Except PyErr (Option Val) :=
  match c with
  | none => pure (some (.text m))
  | some (.text s) => pure (some (.text (s ++ m)))
  | some (.markup s) => pure (some (.text (s ++ m)))
  | some _ => throw .typeError

/-- the attribute writes of one filter -/
def Filter.writeAttrs (f : Filter) (a : Attrs) : Attrs :=
  f.sets.foldl (fun d kv => Dict.set d kv.1 kv.2) (f.dels.foldl (fun d k => Dict.erase d k) a)

/-- what the filter returns -/
def Filter.newContents (f : Filter) (tag : Str) (c : Option Val) : Except PyErr (Option Val) :=
  match f.act with
  | .keep => pure c
  | .append m => appendContents c m
  | .replace v => pure (some v)
  | .drop => pure none
  | .appendTag => appendContents c tag

/-- one call `fn(tagname, attributes, contents, context, bind)`: attributes changed in place, new contents returned;
    the context is not touched -/
def Filter.apply (f : Filter) (tag : Str) (st : TState) : Except PyErr TState := do
  let contents ← f.newContents tag st.contents
  pure { st with attrs := f.writeAttrs st.attrs, contents := contents }

/-- the filter assigns the attribute `k` -/
def Filter.writes (f : Filter) (k : Str) : Bool := f.sets.any (fun kv => kv.1 == k)

/-- the loop of `transform_filters` -/
def runFilters (tag : Str) : List Filter → TState → Except PyErr TState
  | [], st => pure st
  | f :: rest, st =>
    if f.wanted tag then do
      let st' ← f.apply tag st
      runFilters tag rest st'
    else runFilters tag rest st

/-- which filter list a stored `filters` value stands for -/
abbrev FilterEnv := Dict (List Filter)

/-- `for fn in filters` on what a frame can hold: a named list of callables; the default `()`;
    a `str` iterates its characters and CALLS the first one (TypeError) unless it is empty;
    int / bool / Maybe are not iterable (TypeError) -/
def filtersOf (E : FilterEnv) : CVal → Except PyErr (List Filter)
  | .opaque n =>
    match Dict.get? E n with
    | some fs => pure fs
    | none => if n = "()".toList then pure [] else throw .notImplementedError
  | .text s => if s.isEmpty then pure [] else throw .typeError
  | .markup s => if s.isEmpty then pure [] else throw .typeError
  | _ => throw .typeError

abbrev sAutoFilter : Str := "auto_filter".toList
abbrev sFilters : Str := "filters".toList

/-- `transform_filters(tagname, attributes, contents, context, bind)` -/
def transformFiltersF (E : FilterEnv) (T : Tables) (tag : Str) (_bind : Option Bind) (st : TState) :
    Except PyErr TState := do
  let (attrs, proceed, _) ← popToggle T sAutoFilter st.attrs st.ctx
  let fv ← st.ctx.getItem sFilters
  let st := { st with attrs := attrs }
  if !proceed then pure st else
  let fs ← filtersOf E fv
  runFilters tag fs st

/-- `transform(...)`: the five attribute transforms, then the filters (registration order, pinned by
    the extractor) -/
def transformF (E : FilterEnv) (T : Tables) (tag : Str) (bind : Option Bind) (st : TState) : Except PyErr TState := do
  let st ← transformPrefix T tag bind st
  transformFiltersF E T tag bind st

/-- `Tag._open` up to the ordered attribute pairs (as `prepareTag`, with the filters) -/
def prepareTagF (E : FilterEnv) (T : Tables) (order : List Str) (g : Gen) (tag : Str) (bind : Option Bind)
    (kwargs : List (Str × Val)) : Except PyErr TagResult := do
  let contents := Dict.get? kwargs "contents".toList
  let attrs := transformKeys (Dict.erase kwargs "contents".toList)
  let st ← transformF E T tag bind ⟨attrs, contents, g.ctx⟩
  let newContents : Str ← match st.contents with
    | none => pure []
    | some (.text s) => pure s
    | some (.markup s) => pure s
    | some (.bool false) => pure []
    | some _ => throw .notImplementedError        -- outside the modelled domain
  let ordered ← match ← st.ctx.getItem "ordered_attributes".toList with
    | .bool b => pure b
    | .int n => pure (n != 0)
    | .text s => pure (!s.isEmpty)
    | .markup s => pure (!s.isEmpty)
    | _ => throw .notImplementedError
  pure ⟨orderPairs order ordered st.attrs, newContents, st.ctx⟩

def callTagF (E : FilterEnv) (T : Tables) (R : RenderCfg) (g : Gen) (tag : Str)
    (bind : Option Bind) (kwargs : List (Str × Val)) : Except PyErr (Str × Gen) := do
  let r ← prepareTagF E T R.order g tag bind kwargs
  let s ← renderTag R.attrChain R.voids g.xml tag r.pairs r.contents
  pure (s, { g with ctx := r.ctx })

/-- as `Gen.renderHow`, with the filters -/
def renderHowF (E : FilterEnv) (T : Tables) (R : RenderCfg) (g : Gen) (how : How) (tag : Str)
    (bind : Option Bind) (kwargs : List (Str × Val)) : Except PyErr (Str × Option Str) × Gen :=
  match how with
  | .call =>
    match callTagF E T R g tag bind kwargs with
    | .ok (s, g') => (.ok (s, none), g')
    | .error e => (.error e, g.afterFailedTag T tag bind kwargs)
  | .close =>
    if R.voids.contains tag then (.error .valueError, g) else (.ok ('<' :: '/' :: tag ++ ['>'], none), g)
  | .open_ | .openClose =>
    if R.voids.contains tag then (.error .valueError, g) else
    match prepareTagF E T R.order g tag bind kwargs with
    | .error e => (.error e, g.afterFailedTag T tag bind kwargs)
    | .ok r =>
      match renderOpen R.attrChain tag r.pairs with
      | .error e => (.error e, g.afterFailedTag T tag bind kwargs)
      | .ok header =>
        let g' := { g with ctx := r.ctx }
        if how = .open_ then (.ok (header ++ ['>'], some r.contents), g')
        else (.ok (header ++ '>' :: r.contents ++ '<' :: '/' :: tag ++ ['>'], none), g')

/-- one operation of a history, filters included -/
def stepF (E : FilterEnv) (T : Tables) (R : RenderCfg) (g : Gen) : Op → Gen × StepObs
  | .tag name bind kwargs =>
    match callTagF E T R g name bind kwargs with
    | .ok (s, g') => (g', ⟨none, some s⟩)
    | .error e => (g.afterFailedTag T name bind kwargs, ⟨some e, none⟩)
  | op => step T R g op

def runF (E : FilterEnv) (T : Tables) (R : RenderCfg) (g : Gen) : List Op → Gen × List (StepObs × Gen)
  | [] => (g, [])
  | op :: rest =>
    let (g1, o) := stepF E T R g op
    let (gf, more) := runF E T R g1 rest
    (gf, (o, g1) :: more)

/-! ### tabindex: the counter semantics as the code has them (KF-C19-b), stated as a function -/

/-- what `transform_tabindex` does with the counter `n` once it decided to write the attribute:
    the value handed out and the counter afterwards.  Positive counters advance; non-positive ones
    ("stop numbers") are handed out and stay.  (0 never gets here: it blocks the assignment.) -/
def handOut (n : Int) : Int × Int := (n, if n > 0 then n + 1 else n)

end Flatland.C19
