/-
Model A for C15, network.py part 2: `URLValidator`, `HTTPURLValidator`, `URLCanonicalizer` as
written.

What `self.urlparse.urlparse(text)` returns is an *opaque input record* (`Parsed`): the six generic
parts of the result tuple plus the four derived attributes `username`, `password`, `hostname`,
`port` as attribute access yields them (a text, `None`, or "raises ValueError").  The validators
only ever see `self.urlparse` through `urlparse(text)` and `urlunparse(parts)`; both are finite
tables here (`UrlLib`), filled by the harness from the real `urllib.parse` (or from a stand-in
object given as the `urlparse=` attribute), so every theorem is about *all* such libraries.
`urllib.parse.urlunparse` itself is also modelled (`stdUnparse`, from the standard library's
source, pinned by the extractor) and is what the model uses when the validator has the standard
module.

Assumption of this file: the six items of a parse result are texts (with the standard library and
a text argument they always are); the `current is not None` test of `URLCanonicalizer` therefore
always holds.
-/
import Flatland.C16
import Flatland.Generated.C15Url
namespace Flatland.C15
open Flatland.C16

/-! ### the `note_error` call of a failing validator -/

/-- the `note_error(element, state, key, **info)` call of a failing validator -/
structure Note where
  key : String
  info : List (Str × Val) := []
  deriving Repr, Inhabited

abbrev Verdict := Bool × Option Note

def pass : Except Raise Verdict := .ok (true, none)
def fail (key : String) (info : List (Str × Val) := []) : Except Raise Verdict :=
  .ok (false, some { key := key, info := info })

/-! ### Python text primitives -/

/-- `str.isspace` code points (pinned against the running interpreter by the extractor) -/
def isSpaceChar (c : Char) : Bool :=
  let n := c.toNat
  (9 ≤ n && n ≤ 13) || (28 ≤ n && n ≤ 32) || n == 133 || n == 160 || n == 5760 ||
  (8192 ≤ n && n ≤ 8202) || n == 8232 || n == 8233 || n == 8239 || n == 8287 || n == 12288

/-- `s.strip()` -/
def pyStrip (s : Str) : Str :=
  ((s.dropWhile isSpaceChar).reverse.dropWhile isSpaceChar).reverse

/-! ### the parse result -/

/-- the generic URL part names, in `_url_parts` order -/
inductive UrlPart
  | scheme | netloc | path | params | query | fragment
  deriving Repr, DecidableEq, Inhabited

/-- `_url_parts` -/
def UrlPart.all : List UrlPart := [.scheme, .netloc, .path, .params, .query, .fragment]

def UrlPart.name : UrlPart → Str
  | .scheme => "scheme".toList | .netloc => "netloc".toList | .path => "path".toList
  | .params => "params".toList | .query => "query".toList | .fragment => "fragment".toList

/-- `_url_parts.index(name)`; `none` = ValueError -/
def UrlPart.ofName? (n : Str) : Option UrlPart :=
  UrlPart.all.find? (fun p => p.name == n)

/-- the 6-tuple `(scheme, netloc, path, params, query, fragment)` -/
structure Six where
  scheme : Str := []
  netloc : Str := []
  path : Str := []
  params : Str := []
  query : Str := []
  fragment : Str := []
  deriving Repr, DecidableEq, Inhabited

def Six.get (u : Six) : UrlPart → Str
  | .scheme => u.scheme | .netloc => u.netloc | .path => u.path
  | .params => u.params | .query => u.query | .fragment => u.fragment

/-- `url[idx] = x` -/
def Six.set (u : Six) (p : UrlPart) (x : Str) : Six :=
  match p with
  | .scheme => { u with scheme := x } | .netloc => { u with netloc := x }
  | .path => { u with path := x } | .params => { u with params := x }
  | .query => { u with query := x } | .fragment => { u with fragment := x }

def Six.toList (u : Six) : List Str := UrlPart.all.map u.get

/-- one derived attribute of a parse result as `getattr(parsed, name)` yields it -/
inductive PartVal
  | raises                     -- ValueError
  | none
  | str (s : Str)
  deriving Repr, Inhabited, DecidableEq

/-- `parsed.port` -/
inductive PortVal
  | raises                     -- ValueError: not a number (`http://h:x/`), out of range (`:99999`)
  | none
  | int (i : Int)
  deriving Repr, Inhabited, DecidableEq

/-- what the validators can read off `urlparse(text)` -/
structure Parsed where
  six : Six := {}
  username : PartVal := .none
  password : PartVal := .none
  hostname : PartVal := .none
  port : PortVal := .none
  deriving Repr, DecidableEq, Inhabited

/-- `urlparse(text)` -/
inductive ParseResult
  | missing                    -- the harness supplied no entry for this text (not a Python outcome)
  | raises (r : Raise)
  | ok (p : Parsed)
  deriving Repr, Inhabited, DecidableEq

/-- `self.urlparse` as far as a validator can tell -/
structure UrlLib where
  /-- `urlparse(text)` for the texts it is called on; a raise is `Sum.inl` -/
  parse : List (Str × (Raise ⊕ Parsed)) := []
  /-- `urlunparse(parts)`; `none`: the standard library's (`stdUnparse`) -/
  unparse : Option (List (List Str × (Raise ⊕ Val))) := none
  deriving Repr, Inhabited

def UrlLib.urlparse (lib : UrlLib) (text : Str) : ParseResult :=
  match lib.parse.lookup text with
  | none => .missing
  | some (.inl r) => .raises r
  | some (.inr p) => .ok p

/-! ### `urllib.parse.urlunparse` (standard library, CPython 3.12) -/

def usesNetloc : List Str := Flatland.Generated.C15.usesNetloc

/-- `urlunsplit((scheme, netloc, url, query, fragment))` on texts -/
def stdUnsplit (scheme netloc url query fragment : Str) : Str :=
  -- if netloc or (scheme and scheme in uses_netloc and url[:2] != '//'):
  let url :=
    if !netloc.isEmpty || (!scheme.isEmpty && usesNetloc.contains scheme && url.take 2 != ['/', '/']) then
      -- if url and url[:1] != '/': url = '/' + url
      let url := if !url.isEmpty && url.take 1 != ['/'] then '/' :: url else url
      -- url = '//' + (netloc or '') + url
      ['/', '/'] ++ netloc ++ url
    else url
  let url := if !scheme.isEmpty then scheme ++ [':'] ++ url else url
  let url := if !query.isEmpty then url ++ ['?'] ++ query else url
  let url := if !fragment.isEmpty then url ++ ['#'] ++ fragment else url
  url

/-- `urlunparse(components)` on six texts -/
def stdUnparse (u : Six) : Str :=
  -- if params: url = "%s;%s" % (url, params)
  let url := if !u.params.isEmpty then u.path ++ [';'] ++ u.params else u.path
  stdUnsplit u.scheme u.netloc url u.query u.fragment

/-- `self.urlparse.urlunparse(url)` -/
def UrlLib.urlunparse (lib : UrlLib) (u : Six) : Except Raise Val :=
  match lib.unparse with
  | none => .ok (.str (stdUnparse u))
  | some table =>
    match table.lookup u.toList with
    | none => .error .unsupported
    | some (.inl r) => .error r
    | some (.inr v) => .ok v

/-! ### URLValidator -/

/-- the `for part in _url_parts` loop of `URLValidator.validate` -/
def urlPartsLoop (allowedParts : List Str) (url : Six) : List UrlPart → Except Raise Verdict
  | [] => pass
  | part :: rest =>
    -- if part not in self.allowed_parts and getattr(url, part) != "":
    if !allowedParts.contains part.name && url.get part != [] then fail "blocked_part"
    else urlPartsLoop allowedParts url rest

/-- `URLValidator.validate` from `url = self.urlparse.urlparse(element.value.strip())` on -/
def urlValidate (allowedSchemes allowedParts : List Str) (lib : UrlLib) (value : Str) :
    Except Raise Verdict :=
  match lib.urlparse (pyStrip value) with
  | .missing => .error .unsupported
  | .raises _ => fail "bad_format"                                -- except Exception
  | .ok url =>
    if url.six.scheme == [] then fail "blocked_scheme"
    else if allowedSchemes != [['*']] && !allowedSchemes.contains url.six.scheme then
      fail "blocked_scheme"
    else urlPartsLoop allowedParts url.six UrlPart.all

/-! ### HTTPURLValidator -/

/-- an entry of `required_parts` / `forbidden_parts` -/
inductive PartRule
  | always                     -- `True`
  | oneOf (l : List Str)       -- a collection of strings
  | off                        -- `False` / `None`: as if the key were absent
  deriving Repr, Inhabited, DecidableEq

/-- `HTTPURLValidator.all_parts` (the class default): regenerated from /repo's current source -/
def httpPartNames : List Str := Flatland.Generated.C15.httpAllParts

def PartVal.get : PartVal → Except Raise (Option Str)
  | .raises => .error .valueError
  | .none => .ok Option.none
  | .str s => .ok (some s)

/-- `value = getattr(parsed, part)` followed by
    `if part == "port": value = None if value is None else str(value)` -/
def Parsed.attr (p : Parsed) (part : Str) : Except Raise (Option Str) :=
  if part = "scheme".toList then .ok (some p.six.scheme)
  else if part = "netloc".toList then .ok (some p.six.netloc)
  else if part = "path".toList then .ok (some p.six.path)
  else if part = "params".toList then .ok (some p.six.params)
  else if part = "query".toList then .ok (some p.six.query)
  else if part = "fragment".toList then .ok (some p.six.fragment)
  else if part = "username".toList then p.username.get
  else if part = "password".toList then p.password.get
  else if part = "hostname".toList then p.hostname.get
  else if part = "port".toList then
    match p.port with
    | .raises => .error .valueError
    | .none => .ok none
    | .int i => .ok (some (intStr i))
  else .error .attributeError

/-- the `required` half of the loop body: does it return `required_part`?  (after the repair of
    KF-C15-c / -d: `if required is True: if not value`, `elif required is not None and required is
    not False: if value not in required`) -/
def reqFails (required : Option PartRule) (value : Option Str) : Bool :=
  match required with
  | some .always => (match value with | some s => s.isEmpty | none => true)      -- `if not value`
  | some (.oneOf l) =>                                              -- `elif required is not None and required is not False:`
    !(match value with | some s => l.contains s | none => false)    -- `value not in required`
  | some .off => false
  | none => false

/-- the `forbidden` half: does it return `forbidden_part`? -/
def forbFails (forbidden : Option PartRule) (value : Option Str) : Bool :=
  match forbidden with
  | some .always => (match value with | some s => !s.isEmpty | none => false)   -- `if value:`
  | some (.oneOf l) =>
    !l.isEmpty && (match value with | some s => l.contains s | none => false)  -- `value in forbidden`
  | some .off => false
  | none => false

/-- the `for part in self.all_parts` loop of `HTTPURLValidator.validate` -/
def httpPartsLoop (required forbidden : List (Str × PartRule)) (parsed : Parsed) :
    List Str → Except Raise Verdict
  | [] => pass
  | part :: rest =>
    match parsed.attr part with
    | .error .valueError => fail "bad_format"                     -- except ValueError
    | .error r => .error r
    | .ok value =>
      if reqFails (required.lookup part) value then fail "required_part"
      else if forbFails (forbidden.lookup part) value then fail "forbidden_part"
      else httpPartsLoop required forbidden parsed rest

/-- `HTTPURLValidator.validate` from `parsed = self.urlparse.urlparse(url)` on -/
def httpValidate (allParts : List Str) (required forbidden : List (Str × PartRule)) (lib : UrlLib)
    (url : Str) : Except Raise Verdict :=
  match lib.urlparse url with
  | .missing => .error .unsupported
  | .raises .valueError => fail "bad_format"                      -- except ValueError
  | .raises r => .error r
  | .ok parsed => httpPartsLoop required forbidden parsed allParts

/-! ### URLCanonicalizer -/

/-- the `for part in self.discard_parts` loop: `idx = _url_parts.index(part)` (ValueError for a
    name that is not one of the six), `url[idx] = ""` -/
def blankLoop : List Str → Six → Except Raise Six
  | [], u => .ok u
  | part :: rest, u =>
    match UrlPart.ofName? part with
    | none => .error .valueError
    | some idx => blankLoop rest (u.set idx [])

inductive CanonResult
  | badFormat                  -- `note_error(…, "bad_format")`, value untouched
  | rewritten (v : Val)        -- `element.value = v`, True
  deriving Repr, Inhabited

/-- `URLCanonicalizer.validate` after the `if not self.discard_parts or element.value is None`
    guard, on a text value -/
def canonicalize (discardParts : List Str) (lib : UrlLib) (value : Str) : Except Raise CanonResult :=
  match lib.urlparse value with
  | .missing => .error .unsupported
  | .raises _ => .ok .badFormat                                   -- except Exception
  | .ok url =>
    match blankLoop discardParts url.six with
    | .error r => .error r
    | .ok blanked =>
      match lib.urlunparse blanked with
      | .error r => .error r
      | .ok v => .ok (.rewritten v)

end Flatland.C15
