/-
Model A of the scalar element types of src/flatland/schema/scalars.py, as written:
`Scalar.set`, and the `adapt` / `serialize` pairs of String, Number (Integer/Long, Float,
Decimal), Boolean, Constrained/Enum and Temporal (Date, Time, DateTime).

CPython is reproduced as executable functions (validated by correspondence, not proved against
C sources): `str.strip()`, `int(str)`, `'%i'`/`'%0Ni'`, `str(obj)`, the three Temporal regexes,
`datetime.date/time` validity.  They are parametric in a `Tables` record (Unicode whitespace,
the zero code points of the `Nd` decades, `sys.get_int_max_str_digits()`) that is regenerated
from the running interpreter into `Flatland/Generated/C04Tables.lean`.

`float` and `decimal.Decimal` are opaque: a value of those types is a token carrying the results
of the standard-library operations the code applies to it, and constructing one from another
value is the parameter `Env.conv`.
-/
namespace Flatland.Scalar

abbrev Str := List Char

structure Tables where
  ws : List Nat          -- code points with `str.isspace()`
  zeros : List Nat       -- code points of the digit zero of every Unicode `Nd` decade
  maxDigits : Nat        -- `sys.get_int_max_str_digits()`
  deriving Repr

/-! ### Python string primitives -/

def isWs (T : Tables) (c : Char) : Bool := T.ws.contains c.toNat

def lstrip (T : Tables) (s : Str) : Str := s.dropWhile (isWs T)
def rstrip (T : Tables) (s : Str) : Str := (s.reverse.dropWhile (isWs T)).reverse
/-- `str.strip()` -/
def strip (T : Tables) (s : Str) : Str := rstrip T (lstrip T s)

/-- decimal value of a character of category `Nd` (what `int()` and `\d` accept) -/
def digitVal (T : Tables) (c : Char) : Option Nat :=
  T.zeros.findSome? fun z => if z ≤ c.toNat ∧ c.toNat < z + 10 then some (c.toNat - z) else none

def isDigit (T : Tables) (c : Char) : Bool := (digitVal T c).isSome

def digitChar (d : Nat) : Char := Char.ofNat (48 + d)

/-- decimal digits of a natural number, most significant first -/
def natDigits (n : Nat) : Str :=
  if n < 10 then [digitChar n] else natDigits (n / 10) ++ [digitChar (n % 10)]
termination_by n
decreasing_by omega

/-- value of a list of decimal digits -/
def digitsVal (ds : List Nat) : Nat := ds.foldl (fun acc d => acc * 10 + d) 0

/-- `s.split(sep)` for a non-empty `sep`: `skip` counts the characters of a separator occurrence
    still to be dropped, `acc` is the current piece, reversed -/
def splitGo (sep : Str) : Str → Nat → Str → List Str
  | [], _, acc => [acc.reverse]
  | _ :: rest, skip + 1, acc => splitGo sep rest skip acc
  | c :: rest, 0, acc =>
    if sep.isPrefixOf (c :: rest) then acc.reverse :: splitGo sep rest (sep.length - 1) []
    else splitGo sep rest 0 (c :: acc)

def splitStr (sep : Str) (s : Str) : List Str := splitGo sep s 0 []

/-- how a JoinedString splits incoming text: `value.split(separator)`, or `separator_regex.split(value)`
    for the two regular expressions the checks use -/
inductive Splitter
  | static                      -- no separator_regex
  | commaWs                     -- `\s*,\s*`
  | anyOf (cs : List Char)      -- `[...]`, a class of single characters
  deriving Repr, Inhabited

/-- length of a match of `\s*,\s*` at the start of `s` (leading whitespace, comma, trailing whitespace) -/
def matchCommaWs (T : Tables) (s : Str) : Option Nat :=
  let lead := s.takeWhile (isWs T)
  match s.drop lead.length with
  | ',' :: rest => some (lead.length + 1 + (rest.takeWhile (isWs T)).length)
  | _ => none

/-- `re.split` for a pattern that never matches the empty string: `m s` = length of the match at
    the start of `s`, if any -/
def splitRe (m : Str → Option Nat) : Str → Nat → Str → List Str
  | [], _, acc => [acc.reverse]
  | _ :: rest, skip + 1, acc => splitRe m rest skip acc
  | c :: rest, 0, acc =>
    match m (c :: rest) with
    | some (n + 1) => acc.reverse :: splitRe m rest n []
    | _ => splitRe m rest 0 (c :: acc)

def splitWith (T : Tables) (sp : Splitter) (sep : Str) (s : Str) : List Str :=
  match sp with
  | .static => splitStr sep s
  | .commaWs => splitRe (matchCommaWs T) s 0 []
  | .anyOf cs => splitRe (fun t => match t with | c :: _ => if cs.contains c then some 1 else none | [] => none) s 0 []

/-- `sep.join(parts)` -/
def joinStr (sep : Str) : List Str → Str
  | [] => []
  | [x] => x
  | x :: rest => x ++ sep ++ joinStr sep rest

/-- uncaught exceptions that can leave `set()` -/
inductive Raise
  | valueError        -- CPython's int -> str digit limit
  | tableMiss         -- harness error: the opaque conversion table has no entry (never in theorems)
  deriving DecidableEq, Repr, Inhabited

/-- `str(i)` / `'%i' % i` for an `int`: raises ValueError beyond the digit limit -/
def intFits (T : Tables) (i : Int) : Bool := i.natAbs < 10 ^ T.maxDigits

/-- `'%0Ni' % i` (`width = 0` is `'%i'`): sign, then zeros up to the width, then the digits -/
def fmtInt (width : Nat) (i : Int) : Str :=
  let ds := natDigits i.natAbs
  let sign : Str := if i < 0 then ['-'] else []
  sign ++ List.replicate (width - sign.length - ds.length) '0' ++ ds

def pyFmtInt (T : Tables) (width : Nat) (i : Int) : Except Raise Str :=
  if intFits T i then .ok (fmtInt width i) else .error .valueError

/-- the rest of the digit string of `int()` after a digit: the end, or a digit, or one underscore
    followed by a digit -/
def digitsAfter (T : Tables) : Str → Option (List Nat)
  | [] => some []
  | '_' :: c :: rest =>
    match digitVal T c with
    | some d => (digitsAfter T rest).map (d :: ·)
    | none => none
  | c :: rest =>
    match digitVal T c with
    | some d => (digitsAfter T rest).map (d :: ·)
    | none => none

/-- the digit string of `int()`: digits with single underscores between them -/
def parseDigitBody (T : Tables) : Str → Option (List Nat)
  | [] => none
  | c :: rest =>
    match digitVal T c with
    | some d => (digitsAfter T rest).map (d :: ·)
    | none => none

/-- optional sign of `int()` -/
def splitSign : Str → Bool × Str
  | '-' :: r => (true, r)
  | '+' :: r => (false, r)
  | r => (false, r)

/-- `int(s)` for a `str` without surrounding whitespace: `none` = ValueError -/
def pyIntOfStr (T : Tables) (s : Str) : Option Int :=
  match parseDigitBody T (splitSign s).2 with
  | none => none
  | some ds =>
    if ds.length > T.maxDigits then none          -- "Exceeds the limit (4300 digits)"
    else some (if (splitSign s).1 then - (digitsVal ds : Int) else (digitsVal ds : Int))

/-! ### native values -/

/-- what the code does with a `float` / `Decimal` value, precomputed by the standard library -/
structure Tok where
  id : Str                 -- identity of the value (bit pattern / `str`), only compared
  str : Str                -- `str(x)`
  fmt : Option Str         -- `'%f' % x`; none = ValueError / ArithmeticError
  neg : Option Bool        -- `x < type(x)()`; none = ArithmeticError (Decimal NaN)
  truthy : Bool            -- `bool(x)`
  toInt : Option Int       -- `int(x)`; none = ValueError / OverflowError
  deriving DecidableEq, Repr, Inhabited

inductive Native
  | none
  | str (s : Str)
  | int (i : Int)
  | bool (b : Bool)
  | date (y m d : Nat)
  | time (h mi s us : Nat)
  | datetime (y m d h mi s us : Nat)
  | float (t : Tok)
  | decimal (t : Tok)
  | other (text : Str) (truthy : Bool)      -- any other object: its `str()` and `bool()`
  deriving DecidableEq, Repr, Inhabited

structure Env where
  T : Tables
  /-- `float(x)` (`false`) / `decimal.Decimal(x)` (`true`) of a None-free, stripped input:
      outer `none` = table miss, inner `none` = ValueError / TypeError / ArithmeticError -/
  conv : Bool → Native → Option (Option Tok)

def pad2 (n : Nat) : Str := fmtInt 2 n
def pad4 (n : Nat) : Str := fmtInt 4 n

def dateText (y m d : Nat) : Str := pad4 y ++ ['-'] ++ pad2 m ++ ['-'] ++ pad2 d
def timeText (h mi s : Nat) : Str := pad2 h ++ [':'] ++ pad2 mi ++ [':'] ++ pad2 s

/-- `str(obj)` -/
def pyStr (T : Tables) : Native → Except Raise Str
  | .none => .ok "None".toList
  | .str s => .ok s
  | .int i => pyFmtInt T 0 i
  | .bool true => .ok "True".toList
  | .bool false => .ok "False".toList
  | .date y m d => .ok (dateText y m d)
  | .time h mi s us => .ok (timeText h mi s ++ (if us = 0 then [] else '.' :: fmtInt 6 us))
  | .datetime y m d h mi s us =>
    .ok (dateText y m d ++ [' '] ++ timeText h mi s ++ (if us = 0 then [] else '.' :: fmtInt 6 us))
  | .float t => .ok t.str
  | .decimal t => .ok t.str
  | .other text _ => .ok text

/-- `bool(obj)` -/
def pyTruthy : Native → Bool
  | .none => false
  | .str s => !s.isEmpty
  | .int i => i != 0
  | .bool b => b
  | .date .. => true
  | .time .. => true
  | .datetime .. => true
  | .float t => t.truthy
  | .decimal t => t.truthy
  | .other _ b => b

/-- `a == b` as used by `value in valid_values` -/
def pyEq : Native → Native → Bool
  | .int a, .int b => a == b
  | .int a, .bool b => a == (if b then 1 else 0)
  | .bool a, .int b => (if a then 1 else 0) == b
  | a, b => a == b

/-! ### datetime validity -/

def isLeap (y : Nat) : Bool := y % 4 == 0 && (y % 100 != 0 || y % 400 == 0)

def daysInMonth (y m : Nat) : Nat :=
  match m with
  | 1 => 31 | 2 => if isLeap y then 29 else 28 | 3 => 31 | 4 => 30 | 5 => 31 | 6 => 30
  | 7 => 31 | 8 => 31 | 9 => 30 | 10 => 31 | 11 => 30 | 12 => 31 | _ => 0

/-- `datetime.date(y, m, d)` does not raise ValueError -/
def validDate (y m d : Nat) : Bool := 1 ≤ y && y ≤ 9999 && 1 ≤ m && m ≤ 12 && 1 ≤ d && d ≤ daysInMonth y m

/-- `datetime.time(h, mi, s)` does not raise ValueError -/
def validTime (h mi s : Nat) : Bool := h < 24 && mi < 60 && s < 60

/-! ### the Temporal regexes, as recognisers

`\d` is any `Nd` character; `$` also matches before a final `'\n'`; `re.match` anchors at 0. -/

def takeDigits (T : Tables) : Nat → Str → Option (List Nat × Str)
  | 0, s => some ([], s)
  | n + 1, c :: s =>
    match digitVal T c, takeDigits T n s with
    | some d, some (ds, rest) => some (d :: ds, rest)
    | _, _ => none
  | _ + 1, [] => none

def takeChar (c : Char) : Str → Option Str
  | c' :: s => if c' = c then some s else none
  | [] => none

/-- `$` -/
def atEnd (s : Str) : Bool := s == [] || s == ['\n']

/-- `(?P<a>\d{n1})<sep>(?P<b>\d{n2})<sep>(?P<c>\d{n3})` followed by the continuation -/
def match3 (T : Tables) (n1 n2 n3 : Nat) (sep : Char) (s : Str) : Option ((Nat × Nat × Nat) × Str) := do
  let (a, s) ← takeDigits T n1 s
  let s ← takeChar sep s
  let (b, s) ← takeDigits T n2 s
  let s ← takeChar sep s
  let (c, s) ← takeDigits T n3 s
  -- `int(match.group(f))`
  pure ((digitsVal a, digitsVal b, digitsVal c), s)

def matchDate (T : Tables) (s : Str) : Option (Nat × Nat × Nat) :=
  match match3 T 4 2 2 '-' s with
  | some (r, rest) => if atEnd rest then some r else none
  | none => none

def matchTime (T : Tables) (s : Str) : Option (Nat × Nat × Nat) :=
  match match3 T 2 2 2 ':' s with
  | some (r, rest) => if atEnd rest then some r else none
  | none => none

def matchDateTime (T : Tables) (s : Str) : Option ((Nat × Nat × Nat) × (Nat × Nat × Nat)) :=
  match match3 T 4 2 2 '-' s with
  | some (d, rest) =>
    match takeChar ' ' rest with
    | some rest =>
      match match3 T 2 2 2 ':' rest with
      | some (t, rest) => if atEnd rest then some (d, t) else none
      | none => none
    | none => none
  | none => none

/-! ### scalar kinds -/

inductive Valid
  | never                      -- `Constrained.valid_value` default
  | always
  | oneOf (vs : List Native)   -- `Enum.valid_values` / `value in (...)`
  deriving Repr, Inhabited

inductive Kind
  | string (strip : Bool)
  | integer (signed : Bool) (width : Nat)      -- Integer / Long; `format = '%0<width>i'`, 0 = `'%i'`
  | float (signed : Bool)
  | decimal (signed : Bool)
  | boolean (tru fls : Str) (trueSyn falseSyn : List Str)
  | date (strip : Bool)
  | time (strip : Bool)
  | datetime (strip : Bool)
  | constrained (child : Kind) (valid : Valid)  -- Constrained / Enum
  deriving Repr, Inhabited

def Valid.holds : Valid → Native → Bool
  | .never, _ => false
  | .always, _ => true
  | .oneOf vs, v => vs.any (fun w => pyEq w v)

/-- Number.adapt after `type_(value)` succeeded: the `signed` check -/
def checkSigned (signed : Bool) (neg : Option Bool) (v : Native) : Option Native :=
  if signed then some v
  else match neg with
    | none => none               -- ArithmeticError comparing (Decimal NaN)
    | some true => none
    | some false => some v

/-- opaque Float / Decimal construction, after `None` and `strip` have been handled -/
def adaptTok (E : Env) (dec : Bool) (signed : Bool) (x : Native) : Except Raise (Option Native) :=
  match E.conv dec x with
  | none => .error .tableMiss
  | some none => .ok none
  | some (some t) => .ok (checkSigned signed t.neg (if dec then .decimal t else .float t))

/-- Temporal.adapt on text -/
def adaptTemporalText (T : Tables) (which : Nat) (s : Str) : Option Native :=
  match which with
  | 0 => match matchDate T s with
         | some (y, m, d) => if validDate y m d then some (.date y m d) else none
         | none => none
  | 1 => match matchTime T s with
         | some (h, mi, sec) => if validTime h mi sec then some (.time h mi sec 0) else none
         | none => none
  | _ => match matchDateTime T s with
         | some ((y, m, d), (h, mi, sec)) =>
           if validDate y m d && validTime h mi sec then some (.datetime y m d h mi sec 0) else none
         | none => none

/-- `adapt`: `.ok none` is AdaptationError, `.error` an exception that escapes `set()` -/
def adapt (E : Env) : Kind → Native → Except Raise (Option Native)
  | .string strp, x =>
    match x with
    | .none => .ok (some .none)
    | .str s => .ok (some (.str (if strp then strip E.T s else s)))
    | x => match pyStr E.T x with                                   -- `value = str(value)`
           | .error e => .error e
           | .ok s => .ok (some (.str (if strp then strip E.T s else s)))
  | .integer signed _, x =>
    match x with
    | .none => .ok (some .none)
    | .str s => match pyIntOfStr E.T (strip E.T s) with
                | none => .ok none
                | some i => .ok (checkSigned signed (some (decide (i < 0))) (.int i))
    | .int i => .ok (checkSigned signed (some (decide (i < 0))) (.int i))
    | .bool b => .ok (some (.int (if b then 1 else 0)))
    | .float t => match t.toInt with
                  | none => .ok none
                  | some i => .ok (checkSigned signed (some (decide (i < 0))) (.int i))
    | .decimal t => match t.toInt with
                    | none => .ok none
                    | some i => .ok (checkSigned signed (some (decide (i < 0))) (.int i))
    | _ => .ok none                                                  -- TypeError from int()
  | .float signed, x =>
    match x with
    | .none => .ok (some .none)
    | .str s => adaptTok E false signed (.str (strip E.T s))
    | .date .. | .time .. | .datetime .. | .other .. => .ok none     -- TypeError from float()
    | x => adaptTok E false signed x
  | .decimal signed, x =>
    match x with
    | .none => .ok (some .none)
    | .str s => adaptTok E true signed (.str (strip E.T s))
    | .date .. | .time .. | .datetime .. | .other .. => .ok none
    | x => adaptTok E true signed x
  | .boolean tru fls trueSyn falseSyn, x =>
    match x with
    | .none => .ok (some .none)                                     -- `if value is None: return None`
    | .str s =>
      if s = tru || trueSyn.contains s then .ok (some (.bool true))
      else if s = fls || falseSyn.contains s then .ok (some (.bool false))
      else .ok none
    | x => .ok (some (.bool (pyTruthy x)))
  | .date strp, x =>
    match x with
    | .none => .ok (some .none)
    | .date y m d => .ok (some (.date y m d))
    | .datetime y m d h mi s us => .ok (some (.datetime y m d h mi s us))   -- datetime is a date
    | .str s => .ok (adaptTemporalText E.T 0 (if strp then strip E.T s else s))
    | _ => .ok none
  | .time strp, x =>
    match x with
    | .none => .ok (some .none)
    | .time h mi s us => .ok (some (.time h mi s us))
    | .str s => .ok (adaptTemporalText E.T 1 (if strp then strip E.T s else s))
    | _ => .ok none
  | .datetime strp, x =>
    match x with
    | .none => .ok (some .none)
    | .datetime y m d h mi s us => .ok (some (.datetime y m d h mi s us))
    | .str s => .ok (adaptTemporalText E.T 2 (if strp then strip E.T s else s))
    | _ => .ok none
  | .constrained child valid, x =>
    match adapt E child x with
    | .error e => .error e
    | .ok none => .ok none
    | .ok (some v) => if valid.holds v then .ok (some v) else .ok none

/-- `serialize(value)` for a value that `adapt` produced (never called with None by `set`) -/
def serialize (E : Env) : Kind → Native → Except Raise Str
  | .string strp, v =>
    match v with
    | .none => .ok []
    | .str s => .ok (if strp then strip E.T s else s)
    | v => match pyStr E.T v with
           | .error e => .error e
           | .ok s => .ok (if strp then strip E.T s else s)
  | .integer _ width, v =>
    match v with
    | .int i => pyFmtInt E.T width i      -- `'%i' % value`; beyond the limit `str(value)` raises too
    | v => pyStr E.T v
  | .float _, v =>
    match v with
    | .float t => .ok (match t.fmt with | some s => s | none => t.str)
    | v => pyStr E.T v
  | .decimal _, v =>
    match v with
    | .decimal t => .ok (match t.fmt with | some s => s | none => t.str)
    | v => pyStr E.T v
  | .boolean tru fls _ _, v => .ok (if pyTruthy v then tru else fls)
  | .date _, v =>
    match v with
    | .date y m d => .ok (dateText y m d)
    | .datetime y m d _ _ _ _ => .ok (dateText y m d)
    | v => pyStr E.T v
  | .time _, v =>
    match v with
    | .time h mi s _ => .ok (timeText h mi s)
    | v => pyStr E.T v
  | .datetime _, v =>
    match v with
    | .datetime y m d h mi s _ => .ok (dateText y m d ++ [' '] ++ timeText h mi s)
    | v => pyStr E.T v
  | .constrained child _, v => serialize E child v

/-- the observable state of a scalar element -/
structure SState where
  raw : Native
  value : Native
  u : Str
  deriving DecidableEq, Repr, Inhabited

/-- result of one `set()`: final state, returned flag, `adapted` of every `element_set.send` -/
structure SetResult where
  st : SState
  flag : Bool
  signals : List Bool
  deriving DecidableEq, Repr, Inhabited

/-- success branch: `if obj is None: self.u = '' else: self.u = self.serialize(obj)` -/
def uOfValue (E : Env) (k : Kind) : Native → Except Raise Str
  | .none => .ok []
  | v => serialize E k v

/-- failure branch: `''` for None, the text itself, else `str(obj)` -/
def uOfFailed (T : Tables) : Native → Except Raise Str
  | .none => .ok []
  | .str s => .ok s
  | o => pyStr T o

/-- `Scalar.set(obj)` -/
def setScalar (E : Env) (k : Kind) (obj : Native) : Except Raise SetResult :=
  match adapt E k obj with
  | .error e => .error e
  | .ok (some v) =>
    match uOfValue E k v with
    | .error e => .error e
    | .ok u => .ok ⟨⟨obj, v, u⟩, true, [true]⟩
  | .ok none =>
    -- AdaptationError: value None
    match uOfFailed E.T obj with
    | .error e => .error e
    | .ok u => .ok ⟨⟨obj, .none, u⟩, false, [false]⟩

/-- `norm k text` = the text left in `.u` by `K().set(text)` (the text itself if `set` raised) -/
def norm (E : Env) (k : Kind) (s : Str) : Str :=
  match setScalar E k (.str s) with
  | .ok r => r.st.u
  | .error _ => s

end Flatland.Scalar
