/-
Model A for C18, "the Ref itself never appears in flat output": the forms of the Ref histories
(`Flatland.C18.Tree` + one Ref field) as `Element.flatten` sees them — the queue loop is the flat
model's `Flatland.Flat.bfsFlat` (shared with C01/C07), every node carries the `flattenable` /
`children_flattenable` flags of its CLASS as read from the current source
(`Flatland.Generated.C18`, harness/extractors/c18.py).  A Ref is a Scalar: `Element.children` is
empty for it, so its node has no children.
-/
import Flatland.C18
import Flatland.Flat
import Flatland.Generated.C18Flags
namespace Flatland.C18.Flat
open Flatland.Scalar Flatland.C18 Flatland.Generated.C18
open Flatland.Flat (FNode flattenNode)

/-- a Ref field as `flatten` sees it: the flags of class Ref, the text it would show (its
    target's), no children -/
def refNode (name : Str) (u : Str) : FNode :=
  .mk (some name) refFlattenable refChildrenFlattenable u false []

mutual
/-- a scalar / Dict / List of the form, under the given name -/
def treeNode (name : Option Str) : Tree → FNode
  | .leaf _ _ st => .mk name scalarFlattenable scalarChildrenFlattenable st.u false []
  | .dict names ms => .mk name dictFlattenable dictChildrenFlattenable [] false (dictKids names ms)
  | .list _ ms => .mk name listFlattenable listChildrenFlattenable [] true (listKids ms)
def dictKids : List Str → List Tree → List FNode
  | n :: ns, t :: ts => treeNode (some n) t :: dictKids ns ts
  | _, _ => []
def listKids : List Tree → List FNode
  | [] => []
  | t :: ts => treeNode none t :: listKids ts
end

/-- add a field at the end of a node's children (`Dict.of(..., Ref.named(name))`) -/
def withField (n : FNode) (f : FNode) : FNode :=
  match n with
  | .mk nm fl cfl u sl kids => .mk nm fl cfl u sl (kids ++ [f])

/-- the text a Ref at `path` shows (only read by `flatten` if a Ref were flattenable) -/
def refText (t : Tree) (path : List PStep) : Str :=
  match denoted t path with
  | some (_, u) => u
  | none => []

/-- the form of the Ref histories: the fields of `t`, then the Ref field `r` -/
def formNode (t : Tree) (path : List PStep) : FNode :=
  withField (treeNode none t) (refNode ['r'] (refText t path))

/-- `form.flatten()` -/
def formFlat (t : Tree) (path : List PStep) : List (Str × Str) := flattenNode ['_'] (formNode t path)

end Flatland.C18.Flat
