/-
Model A for C03: `set()` of containers with native (Python) values and the `.value` export
(`Sequence.set`, `Dict.set` with its policies, `SparseDict`, `Mapping.value`, `Sequence.value`;
schema/containers.py, `to_pairs` of util.py), over *table-driven leaf-likes*: what a scalar, a
JoinedString or a DateYYYYMMDD in state `st` makes of a native input is
`env.adapt k st x = (adapted?, value, text, parts)`, computed by the harness from the real classes
in isolation.

`setNative env s cur x` is `el.set(x)` on an element of schema `s` that is in state `cur` (a fresh
element is `blank env s`).  The current state matters where the real code keeps it: `Dict.set`
returns False *before* `_reset()` when `list(to_pairs(value))` raises, so a member that is set a
second time through a duplicate key keeps what the first `set()` built; a DateYYYYMMDD given None
keeps its members.  It returns the exception class where the real `set()` raises (unknown keys
under the subset/strict policy, missing keys under strict, unhashable keys).
-/
namespace Flatland.C03

abbrev Str := List Char

/-- native Python values, as far as containers look into them -/
inductive Native
  | none
  | atom (tag : Str)                    -- an opaque, hashable, non-iterable scalar (int, bool, date, Decimal, …)
  | text (s : Str)
  | list (xs : List Native)             -- list; also a generator / iterator (consumed once by `set`)
  | tuple (xs : List Native)            -- tuple (hashable when its items are)
  | dict (kvs : List (Native × Native)) -- dict, insertion order
  | ntuple (kvs : List (Str × Native))  -- namedtuple: field names and values
  | junk                                -- hashable, neither iterable nor dict-like, no scalar takes it
  deriving Inhabited

/-! ### decidable equality of natives (the nested type has no derive handler) -/

mutual
def Native.beq : Native → Native → Bool
  | .none, .none => true
  | .atom a, .atom b => a == b
  | .text a, .text b => a == b
  | .list a, .list b => Native.beqL a b
  | .tuple a, .tuple b => Native.beqL a b
  | .dict a, .dict b => Native.beqD a b
  | .ntuple a, .ntuple b => Native.beqN a b
  | .junk, .junk => true
  | _, _ => false
def Native.beqL : List Native → List Native → Bool
  | [], [] => true
  | a :: as, b :: bs => Native.beq a b && Native.beqL as bs
  | _, _ => false
def Native.beqD : List (Native × Native) → List (Native × Native) → Bool
  | [], [] => true
  | (a, a') :: as, (b, b') :: bs => Native.beq a b && Native.beq a' b' && Native.beqD as bs
  | _, _ => false
def Native.beqN : List (Str × Native) → List (Str × Native) → Bool
  | [], [] => true
  | (a, a') :: as, (b, b') :: bs => a == b && Native.beq a' b' && Native.beqN as bs
  | _, _ => false
end

mutual
theorem Native.beq_iff : ∀ a b : Native, Native.beq a b = true ↔ a = b
  | .none, b => by cases b <;> simp [Native.beq]
  | .junk, b => by cases b <;> simp [Native.beq]
  | .atom a, b => by cases b <;> simp [Native.beq]
  | .text a, b => by cases b <;> simp [Native.beq]
  | .list a, b => by cases b <;> simp [Native.beq, Native.beqL_iff a]
  | .tuple a, b => by cases b <;> simp [Native.beq, Native.beqL_iff a]
  | .dict a, b => by cases b <;> simp [Native.beq, Native.beqD_iff a]
  | .ntuple a, b => by cases b <;> simp [Native.beq, Native.beqN_iff a]
theorem Native.beqL_iff : ∀ a b : List Native, Native.beqL a b = true ↔ a = b
  | [], b => by cases b <;> simp [Native.beqL]
  | a :: as, b => by
    cases b with
    | nil => simp [Native.beqL]
    | cons b bs => simp [Native.beqL, Native.beq_iff a, Native.beqL_iff as]
theorem Native.beqD_iff : ∀ a b : List (Native × Native), Native.beqD a b = true ↔ a = b
  | [], b => by cases b <;> simp [Native.beqD]
  | (a, a') :: as, b => by
    cases b with
    | nil => simp [Native.beqD]
    | cons b bs =>
      obtain ⟨b, b'⟩ := b
      simp [Native.beqD, Native.beq_iff a, Native.beq_iff a', Native.beqD_iff as, and_assoc]
theorem Native.beqN_iff : ∀ a b : List (Str × Native), Native.beqN a b = true ↔ a = b
  | [], b => by cases b <;> simp [Native.beqN]
  | (a, a') :: as, b => by
    cases b with
    | nil => simp [Native.beqN]
    | cons b bs =>
      obtain ⟨b, b'⟩ := b
      simp [Native.beqN, Native.beq_iff a', Native.beqN_iff as, and_assoc]
end

instance : DecidableEq Native := fun a b => decidable_of_iff _ (Native.beq_iff a b)

inductive Policy | strict | subset | duck | off
  deriving DecidableEq, Repr, Inhabited

inductive DictMode | dense | sparse | sparseReq
  deriving DecidableEq, Repr, Inhabited

inductive Schema
  | leaf (name : Option Str) (opt : Bool) (k : Nat)      -- Scalar / JoinedString / DateYYYYMMDD
  | dict (name : Option Str) (opt : Bool) (mode : DictMode) (policy : Policy) (fields : List Schema)
  | seq (name : Option Str) (opt : Bool) (member : Schema)   -- List / Array
  deriving Inhabited

/-- element state: leaves carry value, text and the texts of the parts `flatten()` shows
    (DateYYYYMMDD fields; the members of a JoinedString are visible to none of `.value`, `.u`,
    `==` and `flatten()`) -/
inductive Elem
  | leaf (v : Native) (u : Str) (parts : List Str)
  | dict (ms : List (Str × Elem))
  | seq (ms : List Elem)
  deriving Inhabited

/-- the state of a leaf-like: `.value`, `.u`, texts of the parts -/
abbrev LeafState := Native × Str × List Str

structure Env where
  /-- `el.set(x)` on a leaf-like of kind `k` in state `st`: returned flag and new state -/
  adapt : Nat → LeafState → Native → Bool × LeafState
  /-- a freshly constructed leaf-like: `K()` -/
  blankLeaf : Nat → LeafState

def Schema.name : Schema → Option Str
  | .leaf n .. => n | .dict n .. => n | .seq n .. => n
def Schema.opt : Schema → Bool
  | .leaf _ o _ => o | .dict _ o .. => o | .seq _ o _ => o

mutual
def blank (env : Env) : Schema → Elem
  | .leaf _ _ k => let b := env.blankLeaf k; .leaf b.1 b.2.1 b.2.2
  | .dict _ _ .dense _ fields => .dict (blankFields env fields)
  | .dict _ _ .sparse _ _ => .dict []
  | .dict _ _ .sparseReq _ fields => .dict (blankRequired env fields)
  | .seq .. => .seq []
def blankFields (env : Env) : List Schema → List (Str × Elem)
  | [] => []
  | f :: fs => (f.name.getD [], blank env f) :: blankFields env fs
def blankRequired (env : Env) : List Schema → List (Str × Elem)
  | [] => []
  | f :: fs => if f.opt then blankRequired env fs else (f.name.getD [], blank env f) :: blankRequired env fs
end

/-- the members `_reset()` leaves: every field (Dict), none (SparseDict), the required ones
    (SparseDict with `minimum_fields='required'`) -/
def blankMs (env : Env) (mode : DictMode) (fields : List Schema) : List (Str × Elem) :=
  match mode with
  | .dense => blankFields env fields
  | .sparse => []
  | .sparseReq => blankRequired env fields

/-- what iterating a native yields; `none` = TypeError (not iterable) -/
def iterate : Native → Option (List Native)
  | .list xs => some xs
  | .tuple xs => some xs
  | .text s => some (s.map (fun c => .text [c]))
  | .dict kvs => some (kvs.map (·.1))
  | .ntuple kvs => some (kvs.map (·.2))
  | _ => none

/-- `((key, value) for key, value in dictlike)`: every item is unpacked into exactly two;
    `none` = TypeError (item not iterable) / ValueError (wrong arity) -/
def unpackPairs : List Native → Option (List (Native × Native))
  | [] => some []
  | item :: rest =>
    match iterate item with
    | some [k, v] =>
      match unpackPairs rest with
      | some ps => some ((k, v) :: ps)
      | none => none
    | _ => none

/-- `list(to_pairs(value))`; `none` = TypeError / ValueError (caught by Dict.set: adapted False) -/
def toPairs : Native → Option (List (Native × Native))
  | .dict kvs => some kvs                                          -- `.items()`
  | .ntuple kvs => some (kvs.map (fun p => (.text p.1, p.2)))      -- `._asdict().items()`
  | x =>
    match iterate x with
    | none => none
    | some items => unpackPairs items

mutual
/-- `hash(x)` does not raise -/
def hashable : Native → Bool
  | .list _ => false
  | .dict _ => false
  | .tuple xs => hashableL xs
  | .ntuple kvs => hashableN kvs
  | _ => true
def hashableL : List Native → Bool
  | [] => true
  | x :: xs => hashable x && hashableL xs
def hashableN : List (Str × Native) → Bool
  | [] => true
  | (_, x) :: xs => hashable x && hashableN xs
end

def findField (key : Str) : List Schema → Option Schema
  | [] => none
  | f :: fs => if f.name = some key then some f else findField key fs

def lookup (key : Str) : List (Str × Elem) → Option Elem
  | [] => none
  | (k, e) :: rest => if k = key then some e else lookup key rest

def replace (key : Str) (e : Elem) : List (Str × Elem) → List (Str × Elem)
  | [] => []
  | (k, x) :: rest => if k = key then (k, e) :: rest else (k, x) :: replace key e rest

def fieldNames : List Schema → List Str
  | [] => []
  | f :: fs => f.name.getD [] :: fieldNames fs

inductive Raise | keyError | typeError
  deriving DecidableEq, Repr, Inhabited

/-- is the key the name of a field (`key in fields`; only a text equals a field name) -/
def isField (fields : List Schema) : Native → Bool
  | .text k => (fieldNames fields).contains k
  | _ => false

def isText (n : Str) : Native → Bool
  | .text k => k == n
  | _ => false

/-- the policy check of `Dict.set`: the exception it raises, if any.  Building the set of given
    keys raises TypeError on an unhashable key. -/
def policyRaise (policy : Policy) (fields : List Schema) (keys : List Native) : Option Raise :=
  let extra := !keys.all (isField fields)
  let missing := !(fieldNames fields).all (fun n => keys.any (isText n))
  let unhashable := !keys.all hashable
  match policy with
  | .strict => if unhashable then some .typeError else if extra then some .keyError
               else if missing then some .typeError else none
  | .subset => if unhashable then some .typeError else if extra then some .keyError else none
  | .duck => none
  | .off => none

/-- the state of the leaf-like the element is (a fresh one's, should the element be no leaf) -/
def leafStateOf (env : Env) (k : Nat) : Elem → LeafState
  | .leaf v u p => (v, u, p)
  | _ => env.blankLeaf k

mutual
/-- `flag = el.set(x)` on an element in state `cur`: the new state and the returned flag, or the
    exception `set()` raises -/
def setNative (env : Env) : Schema → Elem → Native → Except Raise (Elem × Bool)
  | .leaf _ _ k, cur, x =>
    let r := env.adapt k (leafStateOf env k cur) x
    .ok (.leaf r.2.1 r.2.2.1 r.2.2.2, r.1)
  | .dict _ _ mode policy fields, cur, x =>
    match toPairs x with
    | none => .ok (cur, false)                    -- adapted=False, before `_reset()`: state kept
    | some kvs =>
      match policyRaise policy fields (kvs.map (·.1)) with
      | some r => .error r
      | none =>
        match setPairs env fields (blankMs env mode fields) kvs with
        | .ok (ms, flag) => .ok (.dict ms, flag)
        | .error r => .error r
  | .seq _ _ member, _, x =>                      -- `del self[:]` comes first
    match iterate x with
    | none => .ok (.seq [], false)
    | some xs =>
      match setMembers env member xs with
      | .ok (ms, flag) => .ok (.seq ms, flag)
      | .error .typeError => .ok (.seq [], false)        -- `except TypeError:` in Sequence.set
      | .error r => .error r
/-- `for key, value in pairs: if key not in fields: continue; …[key].set(value)` -/
def setPairs (env : Env) (fields : List Schema) :
    List (Str × Elem) → List (Native × Native) → Except Raise (List (Str × Elem) × Bool)
  | ms, [] => .ok (ms, true)
  | ms, (key, v) :: rest =>
    if hashable key = false then .error .typeError        -- `key not in fields`: unhashable
    else match key with
    | .text k =>
      match setOne env fields k (lookup k ms) v with
      | none => setPairs env fields ms rest                 -- `if key not in fields: continue`
      | some (.error r) => .error r
      | some (.ok (e, f)) =>
        let ms' := match lookup k ms with
          | some _ => replace k e ms
          | none => ms ++ [(k, e)]
        match setPairs env fields ms' rest with
        | .ok (ms'', f') => .ok (ms'', f && f')
        | .error r => .error r
    | _ => setPairs env fields ms rest                      -- no field has a non-text name
/-- set the field named `key` (first declared field of that name): the member that is there
    (`cur`), else a fresh one; `none` = no such field -/
def setOne (env : Env) : List Schema → Str → Option Elem → Native → Option (Except Raise (Elem × Bool))
  | [], _, _, _ => none
  | f :: fs, key, cur, v =>
    if f.name = some key then some (setNative env f (cur.getD (blank env f)) v) else setOne env fs key cur v
def setMembers (env : Env) (member : Schema) : List Native → Except Raise (List Elem × Bool)
  | [] => .ok ([], true)
  | x :: xs =>
    match setNative env member (blank env member) x with
    | .error r => .error r
    | .ok (e, f) =>
      match setMembers env member xs with
      | .error r => .error r
      | .ok (es, f') => .ok (e :: es, f && f')
end

/-- `.value` -/
def value : Elem → Native
  | .leaf v _ _ => v
  | .dict ms => .dict (valueMembers ms)
  | .seq ms => .list (valueList ms)
where
  valueMembers : List (Str × Elem) → List (Native × Native)
    | [] => []
    | (k, e) :: rest => (.text k, value e) :: valueMembers rest
  valueList : List Elem → List Native
    | [] => []
    | e :: es => value e :: valueList es

mutual
/-- the hypothesis of the re-import theorem, evaluated on the leaves that occur in the element:
    a fresh leaf-like of the same kind, set with the leaf's exported value, gets into the leaf's
    state (value, text, parts).  With `needFlag` it must also report True. -/
def leafStable (env : Env) (needFlag : Bool) : Schema → Elem → Bool
  | .leaf _ _ k, .leaf v u p =>
    decide ((env.adapt k (env.blankLeaf k) v).2 = (v, u, p)) && (!needFlag || (env.adapt k (env.blankLeaf k) v).1)
  | .dict _ _ _ _ fields, .dict ms => leafStableMs env needFlag fields ms
  | .seq _ _ member, .seq ms => leafStableL env needFlag member ms
  | _, _ => false
def leafStableMs (env : Env) (needFlag : Bool) (fields : List Schema) : List (Str × Elem) → Bool
  | [] => true
  | (k, m) :: rest =>
    (match findField k fields with
     | some f => leafStable env needFlag f m
     | none => false) && leafStableMs env needFlag fields rest
def leafStableL (env : Env) (needFlag : Bool) (member : Schema) : List Elem → Bool
  | [] => true
  | m :: rest => leafStable env needFlag member m && leafStableL env needFlag member rest
end

/-! ### the history of an element: what happened to it before the `set()` the property talks about

The element need not be fresh.  Earlier calls — `set()` on the element, a member's own `set()`
(`el['x'].set(v)`), item assignment (`el['x'] = v`, `el[0] = v`) — are compositions of `setNative`
on sub-states and are run here; `set_flat()` is not modelled here (C01's subject): the state it
leaves is taken from the real element and checked with `shapedB`. -/

inductive Key | name (k : Str) | idx (i : Nat)
  deriving DecidableEq, Inhabited

/-- what a step of the history raises: `set()`'s exceptions, and the lookups' (`el[key]`, `el[i]`) -/
inductive StepRaise | keyError | typeError | indexError
  deriving DecidableEq, Repr, Inhabited

def Raise.toStep : Raise → StepRaise
  | .keyError => .keyError
  | .typeError => .typeError

def liftSet (r : Except Raise (Elem × Bool)) : Except StepRaise (Elem × Bool) :=
  match r with
  | .ok p => .ok p
  | .error e => .error e.toStep

/-- `op(el[p1][p2]…)`: the whole element after an operation on the member at `path`.  A Dict
    member that is not there is a KeyError (`dict.__getitem__`), a sequence index out of range an
    IndexError. -/
def updateAt (op : Schema → Elem → Except StepRaise (Elem × Bool)) :
    Schema → Elem → List Key → Except StepRaise (Elem × Bool)
  | s, cur, [] => op s cur
  | .dict _ _ _ _ fields, .dict ms, .name k :: rest =>
    match lookup k ms, findField k fields with
    | some m, some f =>
      match updateAt op f m rest with
      | .ok (m', fl) => .ok (.dict (replace k m' ms), fl)
      | .error r => .error r
    | _, _ => .error .keyError
  | .seq _ _ member, .seq ms, .idx i :: rest =>
    match ms[i]? with
    | some m =>
      match updateAt op member m rest with
      | .ok (m', fl) => .ok (.seq (ms.set i m'), fl)
      | .error r => .error r
    | none => .error .indexError
  | _, _, _ :: _ => .error .typeError

/-- `el[key] = x` with a native `x`.
    `Mapping.__setitem__` (Dict): `key not in self` → TypeError, else `self[key].set(x)`.
    `SparseDict.__setitem__`: a key that is there: `self[key].set(x)`; a declared field that is not:
    `schema(x, parent=self)` is stored (a fresh member set with `x`; should that `set()` raise,
    nothing is stored); no such field: TypeError.  Both are `Dict.set`'s loop body for the single
    pair `(key, x)` (`setPairs`), behind the membership test.
    `List.__setitem__` (`fresh = false`): `self[i].set(x)`.
    `Sequence.__setitem__` (Array, `fresh = true`): `member_schema(value=x)` replaces the member;
    the IndexError of `list.__setitem__` comes after the member was built.
    Nothing is returned: the flag is reported as true. -/
def itemAssign (env : Env) (key : Key) (fresh : Bool) (x : Native) : Schema → Elem → Except StepRaise (Elem × Bool)
  | .dict _ _ mode _ fields, .dict ms =>
    match key with
    | .name k =>
      if (lookup k ms).isNone && (decide (mode = .dense) || (findField k fields).isNone) then .error .typeError
      else match setPairs env fields ms [(.text k, x)] with
        | .ok (ms', _) => .ok (.dict ms', true)
        | .error r => .error r.toStep
    | .idx _ => .error .typeError
  | .seq _ _ member, .seq ms =>
    match key with
    | .idx i =>
      if fresh then
        match setNative env member (blank env member) x with
        | .error r => .error r.toStep
        | .ok (m, _) => if i < ms.length then .ok (.seq (ms.set i m), true) else .error .indexError
      else
        match ms[i]? with
        | none => .error .indexError
        | some m =>
          match setNative env member m x with
          | .error r => .error r.toStep
          | .ok (m', _) => .ok (.seq (ms.set i m'), true)
    | .name _ => .error .typeError
  | _, _ => .error .typeError

inductive Step
  | set (path : List Key) (x : Native)                               -- `el[p1][p2]….set(x)`
  | setItem (path : List Key) (key : Key) (fresh : Bool) (x : Native) -- `el[p1][p2]…[key] = x`

def applyStep (env : Env) (s : Schema) (cur : Elem) : Step → Except StepRaise (Elem × Bool)
  | .set path x => updateAt (fun s' c => liftSet (setNative env s' c x)) s cur path
  | .setItem path key fresh x => updateAt (itemAssign env key fresh x) s cur path

/-- a history that raised nowhere -/
def runSteps (env : Env) (s : Schema) : Elem → List Step → Except StepRaise Elem
  | cur, [] => .ok cur
  | cur, st :: rest =>
    match applyStep env s cur st with
    | .ok (e, _) => runSteps env s e rest
    | .error r => .error r

/-- the always-present keys come first and in place, keys distinct (`Proofs.C03.KeysOk`) -/
def keysOkB (B ms : List (Str × Elem)) : Bool :=
  decide (ms.map (·.1)).Nodup && decide ((ms.map (·.1)).take B.length = B.map (·.1))

mutual
/-- `Proofs.C03.Shaped` as a function: the state conforms to the schema.  The runner evaluates it
    on states taken from the real element (after `set_flat()`, after a step that raised). -/
def shapedB (env : Env) : Schema → Elem → Bool
  | .leaf .., .leaf .. => true
  | .dict _ _ mode _ fields, .dict ms => keysOkB (blankMs env mode fields) ms && shapedMsB env fields ms
  | .seq _ _ member, .seq ms => shapedLB env member ms
  | _, _ => false
def shapedMsB (env : Env) (fields : List Schema) : List (Str × Elem) → Bool
  | [] => true
  | (k, m) :: rest =>
    (match findField k fields with
     | some f => shapedB env f m
     | none => false) && shapedMsB env fields rest
def shapedLB (env : Env) (member : Schema) : List Elem → Bool
  | [] => true
  | m :: rest => shapedB env member m && shapedLB env member rest
end

end Flatland.C03
