/-
Model A for C03: `set()` of containers with native (Python) values and the `.value` export
(`Sequence.set`, `Dict.set` with its policies, `SparseDict`, `Mapping.value`, `Sequence.value`;
schema/containers.py), over *table-driven leaf-likes*: what a scalar, a JoinedString or a
DateYYYYMMDD makes of a native input is `env.adapt k x = (adapted?, value, text, parts)` — the
subject of C04 / C18, computed by the harness from the real classes in isolation.

`setNative` returns the exception class where the real `set()` raises (unknown keys under the
subset/strict policy, missing keys under strict); C03 only speaks about calls that *returned
True*.
-/
namespace Flatland.C03

abbrev Str := List Char

/-- native Python values, as far as containers look into them -/
inductive Native
  | none
  | atom (tag : Str)                    -- an opaque scalar native (int, bool, date, Decimal, …)
  | text (s : Str)
  | list (xs : List Native)             -- list / tuple
  | dict (kvs : List (Str × Native))    -- dict with text keys, insertion order
  | pairs (kvs : List (Str × Native))   -- a list of (key, value) 2-tuples
  | junk                                -- neither iterable nor dict-like (e.g. an int given to a container)
  deriving Inhabited

inductive Policy | strict | subset | duck | off
  deriving DecidableEq, Repr, Inhabited

inductive DictMode | dense | sparse | sparseReq
  deriving DecidableEq, Repr, Inhabited

inductive Schema
  | leaf (name : Option Str) (opt : Bool) (k : Nat)      -- Scalar / JoinedString / DateYYYYMMDD
  | dict (name : Option Str) (opt : Bool) (mode : DictMode) (policy : Policy) (fields : List Schema)
  | seq (name : Option Str) (opt : Bool) (member : Schema)   -- List / Array
  deriving Inhabited

/-- element state: leaves carry value, text and the texts of their parts (JoinedString members,
    DateYYYYMMDD fields), which is what `flatten()` can show of them -/
inductive Elem
  | leaf (v : Native) (u : Str) (parts : List Str)
  | dict (ms : List (Str × Elem))
  | seq (ms : List Elem)
  deriving Inhabited

structure Env where
  /-- `K().set(x)`: returned flag, `.value`, `.u`, texts of the parts -/
  adapt : Nat → Native → Bool × Native × Str × List Str
  /-- a freshly constructed leaf-like: `K()` -/
  blankLeaf : Nat → Native × Str × List Str

def Schema.name : Schema → Option Str
  | .leaf n .. => n | .dict n .. => n | .seq n .. => n
def Schema.opt : Schema → Bool
  | .leaf _ o _ => o | .dict _ o .. => o | .seq _ o _ => o

mutual
def blank (env : Env) : Schema → Elem
  | .leaf _ _ k => let b := env.blankLeaf k; .leaf b.1 b.2.1 b.2.2
  | .dict _ _ .dense _ fields => .dict (blankFields env fields)
  | .dict _ _ .sparse _ _ => .dict []
  | .dict _ _ .sparseReq _ fields => .dict (blankRequired env fields)
  | .seq .. => .seq []
def blankFields (env : Env) : List Schema → List (Str × Elem)
  | [] => []
  | f :: fs => (f.name.getD [], blank env f) :: blankFields env fs
def blankRequired (env : Env) : List Schema → List (Str × Elem)
  | [] => []
  | f :: fs => if f.opt then blankRequired env fs else (f.name.getD [], blank env f) :: blankRequired env fs
end

/-- `to_pairs(value)`; `none` = TypeError / ValueError (caught by Dict.set: adapted False) -/
def toPairs : Native → Option (List (Str × Native))
  | .dict kvs => some kvs
  | .pairs kvs => some kvs
  | .list [] => some []
  | _ => none

/-- what iterating a native yields; `none` = TypeError (not iterable) -/
def iterate : Native → Option (List Native)
  | .list xs => some xs
  | .text s => some (s.map (fun c => .text [c]))
  | .dict kvs => some (kvs.map (fun p => .text p.1))
  | .pairs kvs => some (kvs.map (fun p => .list [.text p.1, p.2]))
  | _ => none

def findField (key : Str) : List Schema → Option Schema
  | [] => none
  | f :: fs => if f.name = some key then some f else findField key fs

def lookup (key : Str) : List (Str × Elem) → Option Elem
  | [] => none
  | (k, e) :: rest => if k = key then some e else lookup key rest

def replace (key : Str) (e : Elem) : List (Str × Elem) → List (Str × Elem)
  | [] => []
  | (k, x) :: rest => if k = key then (k, e) :: rest else (k, x) :: replace key e rest

def fieldNames : List Schema → List Str
  | [] => []
  | f :: fs => f.name.getD [] :: fieldNames fs

inductive Raise | keyError | typeError
  deriving DecidableEq, Repr, Inhabited

/-- the policy check of `Dict.set`: the exception it raises, if any -/
def policyRaise (policy : Policy) (fields : List Schema) (keys : List Str) : Option Raise :=
  let extra := !keys.all (fun k => (fieldNames fields).contains k)
  let missing := !(fieldNames fields).all (fun n => keys.contains n)
  match policy with
  | .strict => if extra then some .keyError else if missing then some .typeError else none
  | .subset => if extra then some .keyError else none
  | .duck => none
  | .off => none

mutual
/-- `el = cls(); flag = el.set(x)`: the element state and the returned flag, or the exception
    `set()` raises -/
def setNative (env : Env) : Schema → Native → Except Raise (Elem × Bool)
  | .leaf _ _ k, x => let r := env.adapt k x; .ok (.leaf r.2.1 r.2.2.1 r.2.2.2, r.1)
  | .dict n o mode policy fields, x =>
    match toPairs x with
    | none => .ok (blank env (.dict n o mode policy fields), false)   -- adapted=False, before _reset
    | some kvs =>
      match policyRaise policy fields (kvs.map (·.1)) with
      | some r => .error r
      | none =>
        match setPairs env fields
            (match blank env (.dict n o mode policy fields) with | .dict ms => ms | _ => []) kvs with
        | .ok (ms, flag) => .ok (.dict ms, flag)
        | .error r => .error r
  | .seq _ _ member, x =>
    match iterate x with
    | none => .ok (.seq [], false)
    | some xs =>
      match setMembers env member xs with
      | .ok (ms, flag) => .ok (.seq ms, flag)
      | .error .typeError => .ok (.seq [], false)        -- `except TypeError:` in Sequence.set
      | .error r => .error r
/-- `for key, value in pairs: if key not in fields: continue; …[key].set(value)` -/
def setPairs (env : Env) (fields : List Schema) :
    List (Str × Elem) → List (Str × Native) → Except Raise (List (Str × Elem) × Bool)
  | ms, [] => .ok (ms, true)
  | ms, (key, v) :: rest =>
    match setOne env fields key v with
    | none => setPairs env fields ms rest                 -- `if key not in fields: continue`
    | some (.error r) => .error r
    | some (.ok (e, f)) =>
      let ms' := match lookup key ms with
        | some _ => replace key e ms
        | none => ms ++ [(key, e)]
      match setPairs env fields ms' rest with
      | .ok (ms'', f') => .ok (ms'', f && f')
      | .error r => .error r
/-- set the field named `key` (first declared field of that name); `none` = no such field -/
def setOne (env : Env) : List Schema → Str → Native → Option (Except Raise (Elem × Bool))
  | [], _, _ => none
  | f :: fs, key, v => if f.name = some key then some (setNative env f v) else setOne env fs key v
def setMembers (env : Env) (member : Schema) : List Native → Except Raise (List Elem × Bool)
  | [] => .ok ([], true)
  | x :: xs =>
    match setNative env member x with
    | .error r => .error r
    | .ok (e, f) =>
      match setMembers env member xs with
      | .error r => .error r
      | .ok (es, f') => .ok (e :: es, f && f')
end

/-- `.value` -/
def value : Elem → Native
  | .leaf v _ _ => v
  | .dict ms => .dict (valueMembers ms)
  | .seq ms => .list (valueList ms)
where
  valueMembers : List (Str × Elem) → List (Str × Native)
    | [] => []
    | (k, e) :: rest => (k, value e) :: valueMembers rest
  valueList : List Elem → List Native
    | [] => []
    | e :: es => value e :: valueList es

end Flatland.C03
