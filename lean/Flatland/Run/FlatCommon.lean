import Flatland.JsonUtil
import Flatland.Flat
open Lean
open Flatland.J hiding Str
namespace Flatland.Run.FlatCommon
open Flatland.Flat

def missing : Str := "?missing".toList

def optStr (j : Json) : Except String (Option Str) := optOf chars j

partial def parseSchema (j : Json) : Except String Schema := do
  let t ← sfld j "t"
  let name ← optStr (← fld j "name")
  let opt := (bool (fldD j "opt" (Json.bool false))).toOption.getD false
  match t with
  | "leaf" => return .leaf name opt (← nfld j "k")
  | "dict" =>
    let mode ← match (← sfld j "mode") with
      | "dense" => pure DictMode.dense | "sparse" => pure DictMode.sparse
      | "sparseReq" => pure DictMode.sparseReq | m => throw s!"bad mode {m}"
    return .dict name opt mode (← (← afld j "fields").mapM parseSchema)
  | "compound" => return .compound name opt (← nfld j "k") (← (← afld j "fields").mapM parseSchema)
  | "list" => return .list name opt (← bfld j "prune") (← nfld j "max") (← parseSchema (← fld j "member"))
  | "array" => return .array name opt (← bfld j "prune") (← parseSchema (← fld j "member"))
  | "joined" => return .joined name opt (← nfld j "k") (← parseSchema (← fld j "member"))
  | t => throw s!"bad schema tag {t}"

partial def parseElem (j : Json) : Except String Elem := do
  if let .ok u := fld j "leaf" then return .leaf (← chars u)
  if let .ok d := fld j "dict" then
    let ms ← (← arr d).mapM (fun p => do
      let l ← arr p
      match l with
      | [k, e] => return ((← chars k), (← parseElem e))
      | _ => throw "bad dict member")
    return .dict ms
  if let .ok l := fld j "list" then return .list (← (← arr l).mapM parseElem)
  if let .ok l := fld j "array" then return .array (← (← arr l).mapM parseElem)
  if let .ok l := fld j "joined" then
    match (← arr l) with
    | [u, ms] => return .joined (← chars u) (← (← arr ms).mapM parseElem)
    | _ => throw "bad joined"
  throw "bad elem"

partial def elemJson : Elem → Json
  | .leaf u => obj [("leaf", ofChars u)]
  | .dict ms => obj [("dict", ofList (fun (p : Str × Elem) => Json.arr #[ofChars p.1, elemJson p.2]) ms)]
  | .list ms => obj [("list", ofList elemJson ms)]
  | .array ms => obj [("array", ofList elemJson ms)]
  | .joined u ms => obj [("joined", Json.arr #[ofChars u, ofList elemJson ms])]

def pairsJson (ps : List (Str × Str)) : Json :=
  ofList (fun (p : Str × Str) => Json.arr #[ofChars p.1, ofChars p.2]) ps

def parsePairs (j : Json) : Except String (List (Str × Str)) := do
  (← arr j).mapM (fun p => do
    match (← arr p) with
    | [k, v] => return ((← chars k), (← chars v))
    | _ => throw "bad pair")

/-- the environment tables computed by the harness from the real scalar / compound classes in
    isolation; a missing entry yields a marker that can never agree with the implementation -/
def parseEnv (j : Json) : Except String Env := do
  let normT ← (← afld j "norm").mapM (fun e => do
    match (← arr e) with
    | [k, t, r] => return ((← nat k), (← chars t), (← chars r))
    | _ => throw "bad norm entry")
  let compT ← (← afld j "compose").mapM (fun e => do
    match (← arr e) with
    | [k, us, r] => return ((← nat k), (← parsePairs us), (← chars r))
    | _ => throw "bad compose entry")
  let jmT ← (← afld j "jm").mapM (fun e => do
    match (← arr e) with
    | [k, t, ms] => return ((← nat k), (← chars t), (← (← arr ms).mapM chars))
    | _ => throw "bad jm entry")
  let nd ← (← afld j "nd").mapM nat
  let maxDigits ← nfld j "maxdigits"
  return {
    norm := fun k t => match normT.find? (fun e => e.1 == k && e.2.1 == t) with
      | some e => e.2.2 | none => missing
    compose := fun k us => match compT.find? (fun e => e.1 == k && e.2.1 == us) with
      | some e => e.2.2 | none => missing
    joinedMembers := fun k t => match jmT.find? (fun e => e.1 == k && e.2.1 == t) with
      | some e => e.2.2 | none => [missing]
    ndZeros := nd
    maxDigits := maxDigits }

end Flatland.Run.FlatCommon
