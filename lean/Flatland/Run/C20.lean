import Flatland.JsonUtil
import Flatland.C20
import Flatland.Run.C04
open Lean Flatland.J
namespace Flatland.Run.C20
open Flatland.C20

/-! JSON glue for C20.  Values are the native universe of the scalar model (C04) and members are
scalar kinds of that model; the C20 model itself is generic in both. -/

abbrev NV := Flatland.Scalar.Native

def plainEnv : Flatland.Scalar.Env := ⟨Flatland.Generated.C04.pyTables, fun _ _ => some none⟩

/-- kinds are written as C04 kind objects, or with the short names of the first cases -/
def parseKindC20 (j : Json) : Except String Flatland.Scalar.Kind :=
  match j with
  | .str "str" => pure (.string true)
  | .str "strns" => pure (.string false)
  | .str "int" => pure (.integer true 0)
  | o => Flatland.Run.C04.parseKind o

/-- `.value` after `member.set(x)` -/
def setValue (k : Flatland.Scalar.Kind) (x : NV) : NV :=
  match Flatland.Scalar.setScalar plainEnv k x with
  | .ok r => r.st.value
  | .error _ => .other "<member.set raised>".toList false     -- never produced by the generator; visible if it happens

def parseNV (j : Json) : Except String NV := do
  if isNull j then return .none
  if let .ok _ := fld j "t" then return (← Flatland.Run.C04.parseNative j)
  if let .ok s := fld j "s" then return .str (← chars s)
  if let .ok i := fld j "i" then return .int (← int i)
  if let .ok b := fld j "b" then return .bool (← bool b)
  throw "bad native"

def ofNV (v : NV) : Json := Flatland.Run.C04.ofNative v

def asciiUpper (s : List Char) : List Char :=
  s.map fun c => if 'a' ≤ c && c ≤ 'z' then Char.ofNat (c.toNat - 32) else c

def parseErr (s : String) : Except String Err :=
  match s with
  | "TypeError" => pure .typeError | "KeyError" => pure .keyError
  | "ValueError" => pure .valueError | "AttributeError" => pure .attributeError
  | s => throw s!"bad exception class {s}"

/-- key functions of the cases; `table` / `raise_on` / `unhash_on` fail for some names -/
partial def parseKey (j : Json) : Except String (Option PKey) := do
  if isNull j then return none
  match (← sfld j "fn") with
  | "ident" => return some (fun k => .ok k)
  | "upper" => return some (fun k => .ok (asciiUpper k))
  | "add" => let p ← cfld j "p"; return some (fun k => .ok (p ++ k))
  | "strip" =>
    let p ← cfld j "p"
    return some (fun k => .ok (if p.isPrefixOf k then k.drop p.length else k))
  | "const" => let c ← cfld j "c"; return some (fun _ => .ok c)
  | "rev" => return some (fun k => .ok k.reverse)
  | "table" =>
    let m ← (← afld j "map").mapM fun p => do
      match (← arr p) with
      | [a, b] => return (← chars a, ← chars b)
      | _ => throw "bad table pair"
    -- `dict(pairs).__getitem__`: the last pair with that name, KeyError without one
    return some (fun k => match dictGet m k with | some v => .ok v | none => .error .keyError)
  | "raise_on" =>
    let names ← listOf chars (← fld j "names")
    let exc ← parseErr (← sfld j "exc")
    let base := (← parseKey (fldD j "base" Json.null)).getD (fun k => .ok k)
    return some (fun k => if names.contains k then .error exc else base k)
  | "unhash_on" =>
    let names ← listOf chars (← fld j "names")
    let base := (← parseKey (fldD j "base" Json.null)).getD (fun k => .ok k)
    return some (fun k => if names.contains k then .error .typeError else base k)
  | s => throw s!"bad key fn {s}"

def parseSetup (j : Json) : Except String Setup := do
  let m := fldD j "malformed" Json.null
  if isNull m then return {}
  let form ← sfld m "form"
  match (← sfld m "arg") with
  | "include" => return { badInc := true }
  | "omit" => return { badOm := true }
  | "rename" =>
    -- what `dict(to_pairs(x))` raises: a pair that does not unpack into two -> ValueError; an
    -- unhashable source, a non-iterable -> TypeError
    let e := if form == "triple" || form == "single" || form == "str3" then Err.valueError else Err.typeError
    return { badRen := some e }
  | s => throw s!"bad malformed arg {s}"

/-- which `setattr(obj, name, _)` the case's object rejects, and with what -/
def parseRej (j : Json) : Except String (List Char → Option Err) := do
  let m := fldD j "objmode" Json.null
  if isNull m then return fun _ => none
  match (← sfld m "kind") with
  | "roprop" =>
    let names ← listOf chars (← fld m "names")
    return fun x => if names.contains x then some .attributeError else none
  | "slots" =>
    let allowed ← listOf chars (← fld m "allowed")
    return fun x => if allowed.contains x then none else some .attributeError
  | "setattr" =>
    let names ← listOf chars (← fld m "names")
    let exc ← parseErr (← sfld m "exc")
    return fun x => if names.contains x then some exc else none
  | s => throw s!"bad objmode {s}"

/-- attributes whose read raises something else than AttributeError -/
def parseBad (j : Json) : Except String (List Char → Option Err) := do
  let l ← (← arr j).filterMapM fun a => do
    match a.getObjVal? "raises" with
    | .ok (.str s) => return some (← cfld a "name", ← parseErr s)
    | _ => return none
  return fun x => (l.find? (·.1 == x)).map (·.2)

def parseStrs (j : Json) : Except String (List (List Char)) :=
  if isNull j then pure [] else listOf chars j

def parseRename (j : Json) : Except String (List (List Char × List Char)) := do
  if isNull j then return []
  (← afld j "pairs").mapM fun p => do
    match (← arr p) with
    | [a, b] => return (← chars a, ← chars b)
    | _ => throw "bad rename pair"

def parseArgs (j : Json) : Except String (Args × PKey) := do
  return ({ inc := ← parseStrs (fldD j "include" Json.null),
            om := ← parseStrs (fldD j "omit" Json.null),
            ren := ← parseRename (fldD j "rename" Json.null) },
          (← parseKey (fldD j "key" Json.null)).getD (fun k => .ok k))

def parsePolicy (j : Json) : Except String Policy := do
  match (← sfld j "policy") with
  | "subset" => pure .subset | "strict" => pure .strict | "duck" => pure .duck
  | s => throw s!"bad policy {s}"

def parseObj (j : Json) : Except String (Obj NV) := do
  (← arr j).mapM fun a => do
    let name ← cfld a "name"
    if (← bfld a "present") then return (name, some (← parseNV (← fld a "value")))
    else return (name, Option.none)

def excJson : Option Err → Json
  | Option.none => Json.null
  | some .typeError => Json.str "TypeError"
  | some .keyError => Json.str "KeyError"
  | some .valueError => Json.str "ValueError"
  | some .attributeError => Json.str "AttributeError"

def pairsJson (l : List (List Char × NV)) : Json :=
  ofList (fun p => Json.arr #[ofChars p.1, ofNV p.2]) l

def objJson (o : Obj NV) : Json :=
  let present := o.filterMap fun p => p.2.map (p.1, ·)
  pairsJson (sortByKey present)

def run (j : Json) : Except String Json := do
  let fieldsJ ← afld j "fields"
  let kinds ← fieldsJ.mapM fun f => do return (← cfld f "name", ← parseKindC20 (← fld f "kind"))
  let kindOf (n : List Char) : Flatland.Scalar.Kind := ((kinds.find? (·.1 == n)).map (·.2)).getD (.string true)
  let sparse := match j.getObjVal? "sparse" with | .ok (.bool b) => b | _ => false
  let S : Schema NV := { fields := kinds.map (·.1), blank := .none,
                         setF := fun n x => setValue (kindOf n) x, policy := ← parsePolicy j, sparse := sparse }
  -- the element's state: every member has been `set()` with the case's raw value
  let presentJ ← fieldsJ.filterM fun f => do
    if !sparse then return true
    match f.getObjVal? "present" with | .ok (.bool b) => return b | _ => return true
  let e : Elem NV ← presentJ.mapM fun f => do
    let n ← cfld f "name"
    return (n, S.setF n (← parseNV (← fld f "value")))
  let (a, pk) ← parseArgs j
  let su ← parseSetup j
  let rej ← parseRej j
  let o ← parseObj (fldD j "obj" (Json.arr #[]))
  let bad ← parseBad (fldD j "obj" (Json.arr #[]))
  let thenJ := fldD j "then" Json.null
  match (← sfld j "op") with
  | "slice" =>
    match sliceP su a pk e with
    | .error x => return obj [("exc", excJson (some x)), ("result", Json.null)]
    | .ok d => return obj [("exc", Json.null), ("result", pairsJson (sortByKey d))]
  | "update" =>
    let r := updateObjectP su a pk rej e o
    let first := [("exc", excJson r.exc), ("obj", objJson r.obj)]
    if isNull thenJ then return obj first
    -- recovery: a second call on the object as the first one left it
    let (a2, pk2) ← parseArgs thenJ
    let r2 := updateObjectP {} a2 pk2 rej e r.obj
    return obj (first ++ [("exc2", excJson r2.exc), ("obj2", objJson r2.obj)])
  | "setby" =>
    let r := setByObjectP S su bad e o a
    let first := [("exc", excJson r.exc), ("reads", ofList ofChars r.reads), ("value", pairsJson r.elem)]
    if isNull thenJ then return obj first
    let (a2, _) ← parseArgs thenJ
    let r2 := setByObjectP S {} bad r.elem o a2
    return obj (first ++ [("exc2", excJson r2.exc), ("reads2", ofList ofChars r2.reads), ("value2", pairsJson r2.elem)])
  | "roundtrip" =>
    -- update_object(obj, **args) then a fresh element .set_by_object(obj, **args2)
    let (a2, _) ← parseArgs (← fld j "args2")
    let r := updateObjectP su a pk rej e o
    match r.exc with
    | some x => return obj [("exc", excJson (some x)), ("obj", objJson r.obj), ("reads", Json.null),
                              ("value", Json.null)]
    | Option.none =>
      let o' := r.obj
      let blank : Elem NV := if sparse then [] else S.fields.map (·, S.blank)
      let r := setByObjectP S {} bad blank o' a2
      return obj [("exc", excJson r.exc), ("obj", objJson o'), ("reads", ofList ofChars r.reads),
                  ("value", pairsJson r.elem)]
  | s => throw s!"bad op {s}"

end Flatland.Run.C20
