import Flatland.JsonUtil
import Flatland.C20
import Flatland.Run.C04
open Lean Flatland.J
namespace Flatland.Run.C20
open Flatland.C20

/-! JSON glue for C20.  Values are the native universe of the scalar model (C04) and members are
scalar kinds of that model; the C20 model itself is generic in both. -/

abbrev NV := Flatland.Scalar.Native

def plainEnv : Flatland.Scalar.Env := ⟨Flatland.Generated.C04.pyTables, fun _ _ => some none⟩

/-- kinds are written as C04 kind objects, or with the short names of the first cases -/
def parseKindC20 (j : Json) : Except String Flatland.Scalar.Kind :=
  match j with
  | .str "str" => pure (.string true)
  | .str "strns" => pure (.string false)
  | .str "int" => pure (.integer true 0)
  | o => Flatland.Run.C04.parseKind o

/-- `.value` after `member.set(x)` -/
def setValue (k : Flatland.Scalar.Kind) (x : NV) : NV :=
  match Flatland.Scalar.setScalar plainEnv k x with
  | .ok r => r.st.value
  | .error _ => .other "<member.set raised>".toList false     -- never produced by the generator; visible if it happens

def parseNV (j : Json) : Except String NV := do
  if isNull j then return .none
  if let .ok _ := fld j "t" then return (← Flatland.Run.C04.parseNative j)
  if let .ok s := fld j "s" then return .str (← chars s)
  if let .ok i := fld j "i" then return .int (← int i)
  if let .ok b := fld j "b" then return .bool (← bool b)
  throw "bad native"

def ofNV (v : NV) : Json := Flatland.Run.C04.ofNative v

def asciiUpper (s : List Char) : List Char :=
  s.map fun c => if 'a' ≤ c && c ≤ 'z' then Char.ofNat (c.toNat - 32) else c

def parseKey (j : Json) : Except String (Option (List Char → List Char)) := do
  if isNull j then return none
  match (← sfld j "fn") with
  | "ident" => return some id
  | "upper" => return some asciiUpper
  | "add" => let p ← cfld j "p"; return some (fun k => p ++ k)
  | "strip" =>
    let p ← cfld j "p"
    return some (fun k => if p.isPrefixOf k then k.drop p.length else k)
  | "const" => let c ← cfld j "c"; return some (fun _ => c)
  | "rev" => return some List.reverse
  | s => throw s!"bad key fn {s}"

def parseStrs (j : Json) : Except String (List (List Char)) :=
  if isNull j then pure [] else listOf chars j

def parseRename (j : Json) : Except String (List (List Char × List Char)) := do
  if isNull j then return []
  (← afld j "pairs").mapM fun p => do
    match (← arr p) with
    | [a, b] => return (← chars a, ← chars b)
    | _ => throw "bad rename pair"

def parseArgs (j : Json) : Except String Args := do
  return { inc := ← parseStrs (fldD j "include" Json.null),
           om := ← parseStrs (fldD j "omit" Json.null),
           ren := ← parseRename (fldD j "rename" Json.null),
           key := ← parseKey (fldD j "key" Json.null) }

def parsePolicy (j : Json) : Except String Policy := do
  match (← sfld j "policy") with
  | "subset" => pure .subset | "strict" => pure .strict | "duck" => pure .duck
  | s => throw s!"bad policy {s}"

def parseObj (j : Json) : Except String (Obj NV) := do
  (← arr j).mapM fun a => do
    let name ← cfld a "name"
    if (← bfld a "present") then return (name, some (← parseNV (← fld a "value")))
    else return (name, Option.none)

def excJson : Option Err → Json
  | Option.none => Json.null
  | some .typeError => Json.str "TypeError"

def pairsJson (l : List (List Char × NV)) : Json :=
  ofList (fun p => Json.arr #[ofChars p.1, ofNV p.2]) l

def objJson (o : Obj NV) : Json :=
  let present := o.filterMap fun p => p.2.map (p.1, ·)
  pairsJson (sortByKey present)

def run (j : Json) : Except String Json := do
  let fieldsJ ← afld j "fields"
  let kinds ← fieldsJ.mapM fun f => do return (← cfld f "name", ← parseKindC20 (← fld f "kind"))
  let kindOf (n : List Char) : Flatland.Scalar.Kind := ((kinds.find? (·.1 == n)).map (·.2)).getD (.string true)
  let sparse := match j.getObjVal? "sparse" with | .ok (.bool b) => b | _ => false
  let S : Schema NV := { fields := kinds.map (·.1), blank := .none,
                         setF := fun n x => setValue (kindOf n) x, policy := ← parsePolicy j, sparse := sparse }
  -- the element's state: every member has been `set()` with the case's raw value
  let presentJ ← fieldsJ.filterM fun f => do
    if !sparse then return true
    match f.getObjVal? "present" with | .ok (.bool b) => return b | _ => return true
  let e : Elem NV ← presentJ.mapM fun f => do
    let n ← cfld f "name"
    return (n, S.setF n (← parseNV (← fld f "value")))
  let a ← parseArgs j
  let o ← parseObj (fldD j "obj" (Json.arr #[]))
  match (← sfld j "op") with
  | "slice" =>
    match slice e a with
    | .error x => return obj [("exc", excJson (some x)), ("result", Json.null)]
    | .ok d => return obj [("exc", Json.null), ("result", pairsJson (sortByKey d))]
  | "update" =>
    match updateObject e o a with
    | .error x => return obj [("exc", excJson (some x)), ("obj", objJson o)]
    | .ok o' => return obj [("exc", Json.null), ("obj", objJson o')]
  | "setby" =>
    let r := setByObject S e o a
    return obj [("exc", excJson r.exc), ("reads", ofList ofChars r.reads), ("value", pairsJson r.elem)]
  | "roundtrip" =>
    -- update_object(obj, **args) then a fresh element .set_by_object(obj, **args2)
    let a2 ← parseArgs (← fld j "args2")
    match updateObject e o a with
    | .error x => return obj [("exc", excJson (some x)), ("obj", objJson o), ("reads", Json.null),
                              ("value", Json.null)]
    | .ok o' =>
      let blank : Elem NV := if sparse then [] else S.fields.map (·, S.blank)
      let r := setByObject S blank o' a2
      return obj [("exc", excJson r.exc), ("obj", objJson o'), ("reads", ofList ofChars r.reads),
                  ("value", pairsJson r.elem)]
  | s => throw s!"bad op {s}"

end Flatland.Run.C20
