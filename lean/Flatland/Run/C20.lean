import Flatland.JsonUtil
open Lean Flatland.J
namespace Flatland.Run.C20

/-- JSON case in, JSON observation out (stub until the model of C20 is written). -/
def run (_j : Json) : Except String Json := .error "model runner for C20 not implemented yet"

end Flatland.Run.C20
