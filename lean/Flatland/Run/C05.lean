import Flatland.JsonUtil
import Flatland.C05
import Flatland.Spec.C05
open Lean Flatland.J
namespace Flatland.Run.C05
open Flatland.C05

def parseOutcome (j : Json) : Except String Outcome := do
  match (← str j) with
  | "T" => pure .tru | "F" => pure .fls | "N" => pure .none
  | "S" => pure .skip | "SA" => pure .skipAll | "SAF" => pure .skipAllFalse
  | s => throw s!"bad outcome {s}"

partial def parseTree (j : Json) : Except String VTree := do
  let info : Info := {
    id := ← nfld j "id", container := ← bfld j "c", optional := ← bfld j "opt",
    empty := ← bfld j "empty",
    down := ← (← afld j "down").mapM parseOutcome,
    up := ← (← afld j "up").mapM parseOutcome }
  let kids ← (← afld j "kids").mapM parseTree
  return .node info kids

partial def preorder : VTree → List Nat
  | .node i kids => i.id :: kids.flatMap preorder

def validStr : Valid → String | .uneval => "U" | .tru => "T" | .fls => "F"

/-- observation of one `validate()` call; `prev` holds the `.valid` flags left by earlier calls on
    the same tree (a fresh tree has none: everything Unevaluated) -/
def runOne (t : VTree) (prev : List (Nat × Valid)) : (Json × Bool) × List (Nat × Valid) :=
  let r := validate t
  let s := Spec.specValidate t
  let prevF : Nat → Valid := fun id => ((prev.find? (·.1 == id)).map (·.2)).getD .uneval
  let now := (preorder t).map (fun id => (id, validNow prevF t id))
  let valids := now.map (fun p => Json.arr #[ofNat p.1, Json.str (validStr p.2)])
  let allValid := allValidNow prevF t
  let specAgrees := r.ret == s.ret && r.log == s.log &&
    r.valids.map (fun p => (p.1, validStr p.2)) == s.valids.map (fun p => (p.1, validStr p.2))
  ((obj [("ret", Json.bool r.ret), ("valids", Json.arr valids.toArray),
    ("log", ofList (fun (c : Call) => Json.arr #[ofNat c.1, Json.bool c.2.1, ofNat c.2.2]) r.log),
    ("all_valid", Json.bool allValid)], specAgrees), now)

/-- case: "tree" (first call, fresh tree) and optionally "rounds": the same tree shape with other
    outcomes / flags, validated again on the SAME element tree -/
def run (j : Json) : Except String Json := do
  let t ← parseTree (← fld j "tree")
  let rounds ← (← arr (fldD j "rounds" (Json.arr #[]))).mapM parseTree
  let ((o0, a0), st0) := runOne t []
  let ((outs, agrees), _) := rounds.foldl (fun (acc : (List Json × Bool) × List (Nat × Valid)) rt =>
    let ((o, a), st) := runOne rt acc.2
    ((acc.1.1 ++ [o], acc.1.2 && a), st)) (([], a0), st0)
  match o0 with
  | .obj _ =>
    return (o0.setObjVal! "rounds" (Json.arr outs.toArray)).setObjVal! "spec_agrees" (Json.bool agrees)
  | _ => throw "internal"

end Flatland.Run.C05
