import Flatland.JsonUtil
import Flatland.C05
import Flatland.Spec.C05
open Lean Flatland.J
namespace Flatland.Run.C05
open Flatland.C05

def parseOutcome (j : Json) : Except String Outcome := do
  match (← str j) with
  | "T" => pure .tru | "F" => pure .fls | "N" => pure .none
  | "S" => pure .skip | "SA" => pure .skipAll | "SAF" => pure .skipAllFalse
  | s => throw s!"bad outcome {s}"

partial def parseTree (j : Json) : Except String VTree := do
  let info : Info := {
    id := ← nfld j "id", container := ← bfld j "c", optional := ← bfld j "opt",
    empty := ← bfld j "empty",
    down := ← (← afld j "down").mapM parseOutcome,
    up := ← (← afld j "up").mapM parseOutcome }
  let kids ← (← afld j "kids").mapM parseTree
  return .node info kids

partial def preorder : VTree → List Nat
  | .node i kids => i.id :: kids.flatMap preorder

def validStr : Valid → String | .uneval => "U" | .tru => "T" | .fls => "F"

def run (j : Json) : Except String Json := do
  let t ← parseTree (← fld j "tree")
  let r := validate t
  let s := Spec.specValidate t
  let look (id : Nat) : Valid := ((r.valids.find? (·.1 == id)).map (·.2)).getD .uneval
  let valids := (preorder t).map (fun id => Json.arr #[ofNat id, Json.str (validStr (look id))])
  let allValid := (preorder t).all (fun id => (look id).truthy)
  let specAgrees := r.ret == s.ret && r.log == s.log &&
    r.valids.map (fun p => (p.1, validStr p.2)) == s.valids.map (fun p => (p.1, validStr p.2))
  return obj [("ret", Json.bool r.ret), ("valids", Json.arr valids.toArray),
    ("log", ofList (fun (c : Call) => Json.arr #[ofNat c.1, Json.bool c.2.1, ofNat c.2.2]) r.log),
    ("all_valid", Json.bool allValid), ("spec_agrees", Json.bool specAgrees)]

end Flatland.Run.C05
