import Flatland.JsonUtil
import Flatland.C05
import Flatland.Spec.C05
open Lean Flatland.J
namespace Flatland.Run.C05
open Flatland.C05

def parseOutcome (j : Json) : Except String Outcome := do
  match (← str j) with
  | "T" => pure .tru | "F" => pure .fls | "N" => pure .none
  | "S" => pure .skip | "SA" => pure .skipAll | "SAF" => pure .skipAllFalse
  | s => throw s!"bad outcome {s}"

partial def parseTree (j : Json) : Except String VTree := do
  let info : Info := {
    id := ← nfld j "id", container := ← bfld j "c", optional := ← bfld j "opt",
    empty := ← bfld j "empty",
    down := ← (← afld j "down").mapM parseOutcome,
    up := ← (← afld j "up").mapM parseOutcome }
  let kids ← (← afld j "kids").mapM parseTree
  return .node info kids

partial def preorder : VTree → List Nat
  | .node i kids => i.id :: kids.flatMap preorder

def validStr : Valid → String | .uneval => "U" | .tru => "T" | .fls => "F"

def outcomeStr : Outcome → String
  | .tru => "T" | .fls => "F" | .none => "N" | .skip => "S" | .skipAll => "SA" | .skipAllFalse => "SAF"

def callJson (c : Call) : Json := Json.arr #[ofNat c.1, Json.bool c.2.1, ofNat c.2.2]

def eventJson : Event → Json
  | .call c => Json.arr #[Json.str "c", ofNat c.1, Json.bool c.2.1, ofNat c.2.2]
  | .signal s =>
    let sender := match s.sender with
      | .validator d k => Json.arr #[Json.str "v", Json.bool d, ofNat k]
      | .notEmpty => Json.str "NE"
    Json.arr #[Json.str "s", ofNat s.id, sender, Json.str (outcomeStr s.result)]

partial def empties : VTree → List Json
  | .node i kids => Json.arr #[ofNat i.id, Json.bool i.empty] :: kids.flatMap empties

abbrev Store := List (Nat × Valid)

def Store.fn (st : Store) : Nat → Valid := fun id => ((st.find? (·.1 == id)).map (·.2)).getD .uneval

def storeJson (st : Store) : Json :=
  Json.arr (st.map (fun p => Json.arr #[ofNat p.1, Json.str (validStr p.2)])).toArray

/-- one step of a history on the SAME element tree; `prev` holds the `.valid` flags the earlier steps left
    (a fresh tree has none: everything Unevaluated).  Returns the observation, "model A = spec B" and the store. -/
def runStep (signal : Bool) (j : Json) (prev : Store) : Except String ((Json × Bool) × Store) := do
  let t ← parseTree (← fld j "tree")
  let op ← sfld j "op"
  let ids := preorder t
  let common (now : Store) : List (String × Json) :=
    [("valids", storeJson now), ("all_valid", Json.bool (allValid (Store.fn now) t)),
     ("empties", Json.arr (empties t).toArray)]
  match op with
  | "validate" =>
    let r := validate t
    let s := Spec.specValidate t
    let now : Store := ids.map (fun id => (id, validNow prev.fn t id))
    let tr := validateTrace t
    let specAgrees := r.ret == s.ret && r.log == s.log &&
      r.valids.map (fun p => (p.1, validStr p.2)) == s.valids.map (fun p => (p.1, validStr p.2)) &&
      tr == Spec.expectedTrace t && allValidNow prev.fn t == allValid (Store.fn now) t
    return ((obj ([("ret", Json.bool r.ret), ("log", ofList callJson r.log),
      ("trace", if signal then ofList eventJson tr else Json.null)] ++ common now), specAgrees), now)
  | "norecurse" =>
    let at_ ← nfld j "at"
    match t.find at_ with
    | none => throw s!"no element {at_}"
    | some sub =>
      let i := sub.info
      let r := validateNoRecurse i
      let now : Store := ids.map (fun id => (id, validNowNoRec prev.fn i id))
      let tr := noRecurseTrace i
      let specAgrees := r.valid == (Spec.specNoRecurse i).valid && r.log == Spec.noRecurseLog i &&
        tr == Spec.expectedNoRecurseTrace i
      return ((obj ([("ret", Json.str (validStr r.valid)), ("log", ofList callJson r.log),
        ("trace", if signal then ofList eventJson tr else Json.null),
        ("at_all_valid", Json.bool (allValid (Store.fn now) sub))] ++ common now), specAgrees), now)
  | "set_all_valid" =>
    let at_ ← nfld j "at"
    let v ← match (← sfld j "value") with
      | "T" => pure Valid.tru | "F" => pure Valid.fls | "U" => pure Valid.uneval
      | s => throw s!"bad value {s}"
    match t.find at_ with
    | none => throw s!"no element {at_}"
    | some sub =>
      let now : Store := ids.map (fun id => (id, setAllValid prev.fn sub v id))
      return ((obj ([("at_all_valid", Json.bool (allValid (Store.fn now) sub))] ++ common now), true), now)
  | s => throw s!"bad op {s}"

/-- case (as sent by `model_input`): "hist" — the steps, each with the model tree computed from the real classes'
    flags; "signal" — whether a receiver is connected to `validator_validated` -/
def run (j : Json) : Except String Json := do
  let steps ← afld j "hist"
  let signal ← bfld j "signal"
  let mut st : Store := []
  let mut outs : Array Json := #[]
  let mut agrees := true
  for s in steps do
    let ((o, a), st') ← runStep signal s st
    outs := outs.push o
    agrees := agrees && a
    st := st'
  return obj [("steps", Json.arr outs), ("spec_agrees", Json.bool agrees)]

end Flatland.Run.C05
