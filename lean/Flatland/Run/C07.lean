import Flatland.Run.FlatCommon
open Lean
open Flatland.J hiding Str
namespace Flatland.Run.C07
open Flatland.Flat Flatland.Run.FlatCommon

/-- case: schema, sep, elem (state extracted from the real element), env -/
def run (j : Json) : Except String Json := do
  let s ← parseSchema (← fld j "schema")
  let sep ← cfld j "sep"
  let env ← parseEnv (← fld j "env")
  let e ← parseElem (← fld j "elem")
  return obj [("flatten", pairsJson (flatten env sep s e))]

end Flatland.Run.C07
