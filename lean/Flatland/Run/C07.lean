import Flatland.Run.FlatCommon
import Flatland.TreeJson
import Flatland.C07Tree
open Lean
open Flatland.J hiding Str
namespace Flatland.Run.C07
open Flatland.Flat Flatland.Run.FlatCommon

/-- after the construction and after every call of a history (tree model, `TreeJson` executor):
    `flatten(sep)` of the root as the shape walk computes it from the STORED slot names
    (`flattenTree`), as the literal rendering computes it (identities + stored parent pointers,
    `flattenCode`), whether every List names its slots by position (`dp`), and — flagged through
    `spec_agrees` — whether `flattenTree` is the positional specification -/
def treeView (sep : Str) (s : Flatland.TreeJson.St) (_r : Option Flatland.TreeJson.StepObs) : Json :=
  let got := Flatland.C07Tree.flattenTree sep s.root
  let code := Flatland.C07Tree.flattenCode s.univ (Flatland.TreeJson.fuelOf s) sep s.root
  let spec := Flatland.C07Tree.specFlatten sep s.root
  let positional := Flatland.C07Tree.dp s.root
  obj [("flatten", pairsJson got), ("flatten_code", pairsJson code),
       ("positional", Json.bool positional),
       ("spec_agrees", Json.bool (got == spec || !positional))]

/-- flat family — case: schema, sep, elem (state extracted from the real element), env;
    tree-history family — case: schema, init, ops (as C08/C09), sep -/
def run (j : Json) : Except String Json := do
  match (fld j "family") with
  | .ok (Json.str "tree-history") =>
    let sep ← cfld j "sep"
    let c ← Flatland.TreeJson.parseCase j
    let r ← Flatland.TreeJson.runCase c (treeView sep)
    -- `spec_agrees` is a per-step flag: lift a `false` to the top level, where core looks for it
    let bad := match r.getObjVal? "steps" with
      | .ok (Json.arr steps) =>
        steps.any (fun st =>
          match (st.getObjVal? "view").bind (·.getObjVal? "spec_agrees") with
          | .ok (Json.bool false) => true
          | _ => false)
      | _ => false
    return if bad then r.setObjVal! "spec_agrees" (Json.bool false) else r
  | _ =>
    let s ← parseSchema (← fld j "schema")
    let sep ← cfld j "sep"
    let env ← parseEnv (← fld j "env")
    let e ← parseElem (← fld j "elem")
    return obj [("flatten", pairsJson (flatten env sep s e))]

end Flatland.Run.C07
