import Flatland.JsonUtil
open Lean Flatland.J
namespace Flatland.Run.C07

/-- JSON case in, JSON observation out (stub until the model of C07 is written). -/
def run (_j : Json) : Except String Json := .error "model runner for C07 not implemented yet"

end Flatland.Run.C07
