import Flatland.JsonUtil
import Flatland.Markup.Json
import Flatland.C11
open Lean Flatland.J
namespace Flatland.Run.C11
open Flatland.Markup Flatland.Markup.Json Flatland.C11 Flatland.Generated.C11

def ofParsed (p : Option Parsed) : Json :=
  match p with
  | none => Json.null
  | some p => obj [("tag", ofChars p.tag),
      ("attrs", ofList (fun (kv : List Char × List Char) => Json.arr #[ofChars kv.1, ofChars kv.2]) p.attrs),
      ("text", ofChars p.text)]

def runTag (j : Json) : Except String Json := do
  let T := Tables.current
  let markup ← cfld j "markup"
  let settings ← parsePairs parseCVal (← fld j "settings")
  let tag0 ← cfld j "tag"
  -- Generator.tag() lower-cases the name; the properties (gen.input …) are fixed names
  let tag := if (← sfld j "via") == "tag" then asciiLower tag0 else tag0
  let bind ← parseBind (← fld j "bind")
  let kwargs ← parsePairs parseVal (← fld j "kwargs")
  match Gen.init T markup settings with
  | .error e => return obj [("out", Json.null), ("err", Json.str e.name), ("parsed", Json.null)]
  | .ok g =>
    match g.callTag T attrChain voidElements staticAttributeOrder tag bind kwargs with
    | .error e => return obj [("out", Json.null), ("err", Json.str e.name), ("parsed", Json.null)]
    | .ok (s, _) =>
      let parsed := if (Dict.get? kwargs "contents".toList).isSome then Json.null
                    else ofParsed (parseTag decodeRefs voidElements s)
      return obj [("out", ofChars s), ("err", Json.null), ("parsed", parsed)]

def runSugar (j : Json) : Except String Json := do
  let u ← cfld j "u"
  let x := sugar xChain u
  let xa := sugar xaChain u
  return obj [("x", ofChars x), ("xa", ofChars xa),
    ("x_dec", ofChars (decodeRefs x)), ("xa_dec", ofChars (decodeRefs xa))]

def run (j : Json) : Except String Json := do
  match (← sfld j "k") with
  | "tag" => runTag j
  | "sugar" => runSugar j
  | k => throw s!"unknown case kind {k}"

end Flatland.Run.C11
