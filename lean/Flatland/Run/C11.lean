import Flatland.JsonUtil
import Flatland.Markup.Json
import Flatland.C11
import Flatland.C19
open Lean Flatland.J
namespace Flatland.Run.C11
open Flatland.Markup Flatland.Markup.Json Flatland.C11 Flatland.Generated.C11

def ofParsed (p : Option Parsed) : Json :=
  match p with
  | none => Json.null
  | some p => obj [("tag", ofStr p.tag),
      ("attrs", ofList (fun (kv : List Char × List Char) => Json.arr #[ofStr kv.1, ofStr kv.2]) p.attrs),
      ("text", ofStr p.text)]

def runTag (j : Json) : Except String Json := do
  let T := Tables.current
  let markup ← cfld j "markup"
  let settings ← parsePairs parseCVal (← fld j "settings")
  let tag0 ← cfld j "tag"
  -- Generator.tag() lower-cases the name; the properties (gen.input …) are fixed names
  let tag := if (← sfld j "via") == "tag" then asciiLower tag0 else tag0
  let bind ← parseBind (← fld j "bind")
  let kwargs ← parsePairs parseVal (← fld j "kwargs")
  match Gen.init T markup settings with
  | .error e => return obj [("out", Json.null), ("err", Json.str e.name), ("parsed", Json.null)]
  | .ok g =>
    match g.callTag T attrChain voidElements staticAttributeOrder tag bind kwargs with
    | .error e => return obj [("out", Json.null), ("err", Json.str e.name), ("parsed", Json.null)]
    | .ok (s, _) =>
      -- the generator sets "parse" on data-only cases (no Markup value, no contents)
      let parsed := if (← bfld j "parse") then ofParsed (parseTag decodeRefs htmlVoidElements s) else Json.null
      return obj [("out", ofStr s), ("err", Json.null), ("parsed", parsed)]

def runSugar (j : Json) : Except String Json := do
  let u ← cfld j "u"
  let x := sugar xChain u
  let xa := sugar xaChain u
  return obj [("x", ofStr x), ("xa", ofStr xa),
    ("x_dec", ofStr (decodeRefs x)), ("xa_dec", ofStr (decodeRefs xa))]

/-- one pre-history call: the generator afterwards and the exception raised (if any) -/
def preStep (T : Tables) (g : Gen) (p : Json) : Except String (Gen × Option PyErr) := do
  let settingsOp (op : Flatland.C19.Op) : Gen × Option PyErr :=
    let (g', o) := Flatland.C19.step T Flatland.C19.RenderCfg.current g op
    (g', o.err)
  match (← sfld p "op") with
  | "begin" => return settingsOp (.begin (← parsePairs parseCVal (← fld p "settings")))
  | "end" => return settingsOp .end_
  | "set" => return settingsOp (.set (← parsePairs parseCVal (← fld p "settings")))
  | "setitem" => return settingsOp (.setItem (← cfld p "key") (← parseCVal (← fld p "value")))
  | "update" =>
    let posJ := fldD p "pos" Json.null
    let pos ← if isNull posJ then pure [] else parsePairs parseCVal posJ
    return settingsOp (.update (pos ++ (← parsePairs parseCVal (← fld p "settings"))))
  | "tag" =>
    match fldD p "badbind" (Json.bool false) with
    | Json.bool true => return (g, some PyErr.attributeError)
    | _ =>
      let tag0 ← cfld p "tag"
      let tag := if (← sfld p "via") == "tag" then asciiLower tag0 else tag0
      let (res, g') := g.renderHow T attrChain voidElements staticAttributeOrder (← parseHow p) tag
        (← parseBind (← fld p "bind")) (← parsePairs parseVal (← fld p "kwargs"))
      match res with
      | .ok _ => return (g', none)
      | .error e => return (g', some e)
  | o => throw s!"unknown pre-history op {o}"

/-- several renderings on ONE generator, possibly through held Tag objects -/
def runSeq (j : Json) : Except String Json := do
  let T := Tables.current
  match Gen.init T (← cfld j "markup") (← parsePairs parseCVal (← fld j "settings")) with
  | .error e => return obj [("init_err", Json.str e.name), ("pre", Json.arr #[]), ("outs", Json.arr #[])]
  | .ok g0 =>
    let mut g := g0
    -- pre-history: calls made (and caught) on the same generator before the renderings.  Settings calls run through the
    -- C19 model (`Flatland.C19.step`: a rejected call leaves the generator as it was), tag calls through `renderHow`
    -- (stateless in the Tag object); a bind that is not an element (`badbind`, auto_name forced on) raises
    -- AttributeError in the first transform, before anything is read or written
    let mut pres : Array Json := #[]
    for p in (← arr (fldD j "pre" (Json.arr #[]))) do
      let (g', e) ← preStep T g p
      g := g'
      pres := pres.push (obj [("err", ofErr e)])
    let mut outs : Array Json := #[]
    for c in (← afld j "calls") do
      let tag0 ← cfld c "tag"
      let tag := if (← sfld c "via") == "tag" then asciiLower tag0 else tag0
      let bind ← parseBind (← fld c "bind")
      let kwargs ← parsePairs parseVal (← fld c "kwargs")
      let (res, g') := g.renderHow T attrChain voidElements staticAttributeOrder (← parseHow c) tag bind kwargs
      g := g'
      match res with
      | .ok (s, ct) => outs := outs.push (obj [("out", ofStr s), ("contents", ofOpt ofStr ct), ("err", Json.null)])
      | .error e => outs := outs.push (obj [("out", Json.null), ("contents", Json.null), ("err", Json.str e.name)])
    return obj [("init_err", Json.null), ("pre", Json.arr pres), ("outs", Json.arr outs)]

def run (j : Json) : Except String Json := do
  match (← sfld j "k") with
  | "tag" => runTag j
  | "sugar" => runSugar j
  | "seq" => runSeq j
  | k => throw s!"unknown case kind {k}"

end Flatland.Run.C11
