import Flatland.JsonUtil
open Lean Flatland.J
namespace Flatland.Run.C11

/-- JSON case in, JSON observation out (stub until the model of C11 is written). -/
def run (_j : Json) : Except String Json := .error "model runner for C11 not implemented yet"

end Flatland.Run.C11
