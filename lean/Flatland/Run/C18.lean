import Flatland.JsonUtil
open Lean Flatland.J
namespace Flatland.Run.C18

/-- JSON case in, JSON observation out (stub until the model of C18 is written). -/
def run (_j : Json) : Except String Json := .error "model runner for C18 not implemented yet"

end Flatland.Run.C18
