import Flatland.JsonUtil
import Flatland.C18
import Flatland.C18Multi
import Flatland.C18Flat
import Flatland.C18Joined
import Flatland.C18Explode
import Flatland.Run.C04
open Lean Flatland.J
namespace Flatland.Run.C18
open Flatland.Scalar Flatland.C18 Flatland.Run.C04

def parsePairs (j : Json) : Except String (List (List Char × List Char)) := do
  (← arr j).mapM fun p => do
    match (← arr p) with
    | [a, b] => return (← chars a, ← chars b)
    | _ => throw "bad pair"

def retJson : Option Bool → Json
  | none => Json.null
  | some b => Json.bool b

def membersJson (ms : List SState) : Json := ofList stateJson ms

def excObj (name : String) : Json := obj [("exc", Json.str name)]

/-- run a history; stop at the first operation that raises -/
def runOps {σ op} (steps : σ → op → Except String (σ × Json)) (obsErr : String → Json) :
    σ → List op → List Json → List Json
  | _, [], acc => acc.reverse
  | s, o :: rest, acc =>
    match steps s o with
    | .ok (s', j) => runOps steps obsErr s' rest (j :: acc)
    | .error e => (obsErr e :: acc).reverse

def parseDateOp (j : Json) : Except String DateOp := do
  match (← sfld j "op") with
  | "set" => return .set (← parseNative (← fld j "x"))
  | "member" => return .member (← nfld j "i") (← parseNative (← fld j "x"))
  | "setflat" => return .setFlat (← parsePairs (← fld j "pairs"))
  | o => throw s!"bad date op {o}"

def dateObs (E : Env) (s : DateState) (ret : Option Bool) : Json :=
  match s.compose E with
  | .ok (u, v) => obj [("exc", Json.null), ("ret", retJson ret), ("u", ofText u), ("value", ofNative v),
                       ("members", membersJson [s.y, s.m, s.d])]
  | .error e => obj [("exc", Json.null), ("ret", retJson ret), ("u", Json.str (raiseName e)),
                     ("value", Json.str (raiseName e)), ("members", membersJson [s.y, s.m, s.d])]

/-- `"raises": {"none": null|"type"|"other", "ints": [..], "err": "type"|"other"}` — when the member's
    `valid_value` raises (on the adapted value); absent / null = never -/
def parseMErr (j : Json) : Except String (Option Explode.MErr) := do
  if isNull j then return none
  match j with
  | .str "type" => return some .typeError
  | .str "other" => return some .other
  | _ => throw "bad raise category"

def parseRule (m : Json) : Except String Explode.RaiseRule := do
  match m.getObjVal? "raises" with
  | .error _ => return {}
  | .ok r =>
    if isNull r then return {} else
    let ints ← (← afld r "ints").mapM fun x => do
      match (← parseNative x) with
      | .int n => pure n
      | _ => throw "bad raise int"
    let err ← parseMErr (← fld r "err")
    return { onNone := ← parseMErr (← fld r "none"), onInts := ints, err := err.getD .typeError }

def runDate (j : Json) : Except String Json := do
  let E ← envOf j
  let ops ← (← afld j "ops").mapM parseDateOp
  let c : Explode.DateCfgX ← match j.getObjVal? "members" with
    | .ok mj => if isNull mj then pure ({} : Explode.DateCfgX) else do
        match (← arr mj) with
        | [a, b, d] => pure { ky := ← parseKind (← fld a "kind"), km := ← parseKind (← fld b "kind"), kd := ← parseKind (← fld d "kind"),
                              ny := ← cfld a "name", nm := ← cfld b "name", nd := ← cfld d "name",
                              ry := ← parseRule a, rm := ← parseRule b, rd := ← parseRule d }
        | _ => throw "bad members"
    | .error _ => pure ({} : Explode.DateCfgX)
  let start : DateState := ⟨Flatland.C04.blankState, Flatland.C04.blankState, Flatland.C04.blankState⟩
  -- the model with the member loops, the fallback loop and `Compound.set`'s `except Exception` written out
  -- (`stepX`; = `DateState.step` when no member raises: `stepX_noRaise_eq_step`)
  let steps := runOps (fun (s : DateState) o => match s.stepX E c o with
      | .ok (s', ret) => .ok (s', dateObs E s' ret)
      | .error e => .error (craiseName e)) excObj start ops []
  return obj [("steps", Json.arr steps.toArray)]

def parseSplitter (j : Json) : Except String Splitter := do
  match j with
  | .str "static" => pure .static
  | .str "commaws" => pure .commaWs
  | o => do pure (.anyOf (← cfld o "anyof"))

def parseJoinedOp (name : List Char) (j : Json) : Except String JoinedOp := do
  match (← sfld j "op") with
  | "set" => return .set (← parseInput (← fld j "x"))
  | "member" => return .member (← nfld j "i") (← parseNative (← fld j "x"))
  | "append" => return .append (← parseNative (← fld j "x"))
  | "del" => return .delete (← nfld j "i")
  | "setflat" => return .setFlat (← parsePairs (← fld j "pairs")) name
  | o => throw s!"bad joined op {o}"

/-- the pieces `JoinedString.set` loops over, for the inputs the generic model covers: a list of
    plain values, a text (split with the element's splitter), None -/
def joinedPieces (E : Env) (c : JoinedCfg) : Flatland.C04.Input → Option (List Native)
  | .list xs => xs.mapM fun x => match x with | .leaf n => some n | _ => none
  | .leaf (.str t) => some ((splitWith E.T c.sp c.sep t).map .str)
  | .leaf .none => some []
  | _ => none

/-- the same operation in the member-type-generic model (`Flatland.C18.Joined`), when it covers it -/
def genericOp (E : Env) (c : JoinedCfg) : JoinedOp → Option (Joined.Op SState)
  | .set x => (joinedPieces E c x).map .setPieces
  | .member i x => some (.member i x)
  | .append x => some (.append x)
  | .delete i => some (.delete i)
  | .setFlat .. => none

/-- members and flag of the generic model agree with the concrete one (or the generic model does
    not cover the operation / both raise) -/
def genericAgrees (E : Env) (c : JoinedCfg) (s : JoinedState) (o : JoinedOp)
    (r : Except Flatland.C04.CRaise (JoinedState × Option Bool)) : Bool :=
  match genericOp E c o with
  | none => true
  | some g =>
    match Joined.step (Joined.scalarMember E c.member) c.prune s g, r with
    | .ok (ms, fl), .ok (ms', fl') => decide (ms = ms') && decide (fl = fl')
    | .error _, .error _ => true
    | _, _ => false

def runJoinedOps (E : Env) (c : JoinedCfg) : JoinedState → List JoinedOp → List Json → Bool → List Json × Bool
  | _, [], acc, ok => (acc.reverse, ok)
  | s, o :: rest, acc, ok =>
    let r := c.step E s o
    let ok := ok && genericAgrees E c s o r
    match r with
    | .ok (s', ret) =>
      -- `.value` / `.u` through the loop of `str.join` (generic model) — and the recursive join of the scalar model must agree
      let T := Joined.scalarMember E c.member
      let v := Joined.value T c.sep s'
      runJoinedOps E c s' rest
        (obj [("exc", Json.null), ("ret", retJson ret), ("value", ofText v), ("u", ofText (Joined.u T c.sep s')),
              ("members", membersJson s')] :: acc)
        (ok && decide (v = joinedValue c s'))
    | .error e => ((excObj (craiseName e) :: acc).reverse, ok)

def runJoined (j : Json) : Except String Json := do
  let E ← envOf j
  let cj ← fld j "cfg"
  let c : JoinedCfg := { sep := ← cfld cj "sep", sp := ← parseSplitter (fldD cj "splitter" (Json.str "static")),
                         prune := ← bfld cj "prune", member := ← parseKind (← fld cj "member") }
  let name ← cfld j "name"
  let ops ← (← afld j "ops").mapM (parseJoinedOp name)
  let (steps, ok) := runJoinedOps E c [] ops [] true
  return obj [("steps", Json.arr steps.toArray), ("spec_agrees", Json.bool ok)]

def parseSlice (j : Json) : Except String Flatland.PyList.Slice := do
  return ⟨← optOf int (fldD j "start" Json.null), ← optOf int (fldD j "stop" Json.null), ← optOf int (fldD j "step" Json.null)⟩

/-- MultiValue operations (`Flatland.C18.Multi.Op`); `insertfront` / `del` are the older spellings -/
def parseMultiOp (name sep : List Char) (prune : Bool) (j : Json) : Except String Multi.Op := do
  match (← sfld j "op") with
  | "set" => return .set (← parseInput (← fld j "x"))
  | "setflat" => return .setFlat (← parsePairs (← fld j "pairs")) name sep prune
  | "member" => return .member (← ifld j "i") (← parseNative (← fld j "x"))
  | "append" => return .append (← parseNative (← fld j "x"))
  | "insertfront" => return .insert 0 (← parseNative (← fld j "x"))
  | "insert" => return .insert (← ifld j "i") (← parseNative (← fld j "x"))
  | "extend" => return .extend (← listOf parseNative (← fld j "xs"))
  | "setitem" => return .setItem (← ifld j "i") (← parseNative (← fld j "x"))
  | "del" => return .delItem (← ifld j "i")
  | "pop" => return .pop (← ifld j "i")
  | "delslice" => return .delSlice (← parseSlice (← fld j "slice"))
  | "writeu" => return .writeU (← cfld j "x")
  | "writevalue" => return .writeValue (← parseNative (← fld j "x"))
  | o => throw s!"bad multi op {o}"

def mraiseName : Multi.MRaise → String
  | .indexError => "IndexError"
  | .valueError => "ValueError"
  | .c04 e => craiseName e

/-- after every step: what the call returned, the scalar view read through the getters as written,
    every member's (value, text), `is_empty`, `bool(mv)` -/
def multiObs (s : MultiState) (ret : Option Bool) : Json :=
  obj [("exc", Json.null), ("ret", retJson ret),
       ("u", match Multi.getU s with | .ok u => ofText u | .error e => Json.str (mraiseName e)),
       ("value", match Multi.getValue s with | .ok v => ofNative v | .error e => Json.str (mraiseName e)),
       ("members", membersJson s), ("is_empty", Json.bool (Multi.isEmpty s)), ("truth", Json.bool (Multi.truth s))]

def runMulti (j : Json) : Except String Json := do
  let E ← envOf j
  let k ← parseKind (← fld j "kind")
  let name ← cfld j "name"
  let ops ← (← afld j "ops").mapM (parseMultiOp name ['_'] (← bfld j "prune"))
  let steps := runOps (fun (s : MultiState) o => match Multi.step E k s o with
      | .ok (s', ret) => .ok (s', multiObs s' ret)
      | .error e => .error (mraiseName e)) excObj [] ops []
  return obj [("steps", Json.arr steps.toArray)]

def parseWritable (j : Json) : Except String Writable := do
  match (← sfld j "writable") with
  | "ignore" => pure Writable.ignore | "yes" => pure Writable.yes | "no" => pure Writable.no
  | s => throw s!"bad writable {s}"

def traiseName : TRaise → String
  | .typeError => "TypeError"
  | .lookupError => "LookupError"
  | .indexError => "IndexError"
  | .unmodelled => "HARNESS-UNMODELLED-INPUT"
  | .scalar e => raiseName e

def readJson : Option (Native × List Char) → Json
  | some (v, u) => Json.arr #[ofNative v, ofText u]
  | none => Json.null

/-- `form.flatten()` of the form with its Ref field, through the flat model's queue loop -/
def flatJson (t : Tree) (path : List PStep) : Json :=
  ofList (fun (p : List Char × List Char) => Json.arr #[ofText p.1, ofText p.2]) (Flatland.C18.Flat.formFlat t path)

def leafStates : Option Tree → List SState
  | some (.list _ ms) => ms.filterMap fun t => match t with | .leaf _ _ st => some st | _ => none
  | some (.leaf _ _ st) => [st]
  | _ => []

/-- form `Dict{sub: Dict{t: k}, o: String, r: Ref('../sub/t')}` -/
def parseRefOp (j : Json) : Except String TOp := do
  let sub : List PStep := [.name "sub".toList]
  match (← sfld j "op") with
  | "tset" => return .leafSet (sub ++ [.name "t".toList]) (← parseNative (← fld j "x"))
  | "subset" => return .dictSet sub [("t".toList, ← parseNative (← fld j "x"))]
  | "read" => return .refRead
  | "rset" => return .refSet (← parseNative (← fld j "x"))
  | o => throw s!"bad ref op {o}"

def runRef (j : Json) : Except String Json := do
  let E ← envOf j
  let k ← parseKind (← fld j "kind")
  let w ← parseWritable j
  let ops ← (← afld j "ops").mapM parseRefOp
  let path : List PStep := [.name "sub".toList, .name "t".toList]
  let start : TState := ⟨.dict ["sub".toList, "o".toList]
    [.dict ["t".toList] [.leaf 0 k Flatland.C04.blankState], .leaf 1 (.string true) Flatland.C04.blankState], 2⟩
  let steps := runOps (fun (s : TState) o => match liveStep E w path s o with
      | .ok (s', ret, rd) =>
        .ok (s', obj [("exc", Json.null), ("ret", retJson ret), ("read", readJson rd),
                      ("t", match leafStates (s'.tree.resolve path) with | [st] => stateJson st | _ => Json.null),
                      ("flat", flatJson s'.tree path)])
      | .error e => .error (traiseName e)) excObj start ops []
  return obj [("steps", Json.arr steps.toArray)]

/-- form `Dict{l: List.of(k), r: Ref('../l/<index>')}` -/
def parseRefListOp (j : Json) : Except String TOp := do
  let l : List PStep := [.name "l".toList]
  match (← sfld j "op") with
  | "lset" => return .listSet l (← listOf parseNative (← fld j "xs"))
  | "insertfront" => return .listInsert l 0 (← parseNative (← fld j "x"))
  | "insert" => return .listInsert l (← nfld j "i") (← parseNative (← fld j "x"))
  | "delfront" => return .listDel l 0
  | "del" => return .listDel l (← nfld j "i")
  | "member" => return .leafSet (l ++ [.index (← nfld j "i")]) (← parseNative (← fld j "x"))
  | "read" => return .refRead
  | "rset" => return .refSet (← parseNative (← fld j "x"))
  | o => throw s!"bad reflist op {o}"

def runRefList (j : Json) : Except String Json := do
  let E ← envOf j
  let k ← parseKind (← fld j "kind")
  let w ← parseWritable j
  let idx := match j.getObjVal? "index" with | .ok (.num n) => n.mantissa.toNat | _ => 0
  let ops ← (← afld j "ops").mapM parseRefListOp
  let path : List PStep := [.name "l".toList, .index idx]
  let start : TState := ⟨.dict ["l".toList] [.list k []], 0⟩
  let steps := runOps (fun (s : TState) o => match liveStep E w path s o with
      | .ok (s', ret, rd) =>
        .ok (s', obj [("exc", Json.null), ("ret", retJson ret), ("read", readJson rd),
                      ("members", membersJson (leafStates (s'.tree.resolve [.name "l".toList]))),
                      ("flat", flatJson s'.tree path)])
      | .error e => .error (traiseName e)) excObj start ops []
  return obj [("steps", Json.arr steps.toArray)]

def run (j : Json) : Except String Json := do
  match (← sfld j "sub") with
  | "date" => runDate j
  | "joined" => runJoined j
  | "multi" => runMulti j
  | "ref" => runRef j
  | "reflist" => runRefList j
  | m => throw s!"bad sub {m}"

end Flatland.Run.C18
