import Flatland.TreeJson
import Flatland.C10Compound
import Flatland.C10Flat
import Flatland.Run.FlatCommon
open Lean Flatland.J
namespace Flatland.Run.C10
open Flatland.Tree Flatland.C08 Flatland.TreeJson Flatland.C10.Compound

/-- the mapping at the root as `dict.items()` shows it: key, label, class, name, parent, value -/
def view (s : St) (_r : Option StepObs) : Json :=
  let rows := s.root.kids.map (fun c =>
    Json.arr #[ofChars c.key, lab s c.id, ofNat c.sch.info.cid, ofOpt ofChars c.name,
      (match c.parent with
       | none => Json.null
       | some p => lab s p),
      rawJson (valueOf c)])
  obj [("items", Json.arr rows.toArray)]

/-! ### Compound roots (`"k": "date"`): the class is PREPARED by the model (`prepare`) from the fields the
case says the user supplied (`"supplied": k` — the first `k` entries of `subs`; the class ids of the
generated fields are those of the remaining entries), and every call goes through `compoundStep`. -/

def parseCompoundClass (j : Json) : Except String Schema := do
  let subs ← (← afld j "subs").mapM parseSchema
  let k := (nat (fldD j "supplied" (Json.num 0))).toOption.getD 0
  let cid (i : Nat) : Nat := ((subs[i]?).map (fun s => s.info.cid)).getD 0
  let info : SInfo := {
    cid := ← nfld j "cid", isa := [], kind := .dict,
    name := ← optOf chars (← fld j "name"),
    optional := ← bfld j "opt" }
  let dflt ← parseRaw (← fld j "default")
  return preparedClass info dflt (subs.take k) (cid 0, cid 1, cid 2)

/-- `execOp` of TreeJson with `stepAtC` in place of `stepAt` -/
def execOpC (compounds : List Nat) (s : St) (o : OpSpec) : StepObs :=
  match materialise s o with
  | .error "UNSUPPORTED" => ⟨{ s with unsupported := true }, Json.str "unsupported", none, []⟩
  | .error "OBSERVE" => ⟨s, Json.str "ok", none, []⟩
  | .error "TYPEERROR" => ⟨s, obj [("exc", Json.str "TypeError")], none, []⟩
  | .error reason => ⟨s, obj [("skip", Json.str reason)], none, []⟩
  | .ok (target, op, s1) =>
    match stepAtC dateExplode compounds s1.root target.id op s1.next with
    | none => ⟨s1, obj [("skip", Json.str "notarget")], none, []⟩
    | some r =>
      let unsup := match r.out with | .exc .unsupported => true | _ => false
      let s2 : St := { s1 with root := r.node, next := r.next, unsupported := s1.unsupported || unsup }
      let s3 := (s2.collectDetached s1.root r.detached).observe
      let s4 := match r.out with
        | .node n => s3.see n.id
        | _ => s3
      ⟨s4, outJson s4 r.out, some target.id, (argElems op).map Node.id⟩

def stepOut (r : StepR) : Json :=
  match r.out with
  | .ok => Json.str "ok"
  | .bool b => obj [("b", Json.bool b)]
  | .exc e => obj [("exc", Json.str (excName e))]
  | _ => Json.str "ok"

def initCompound (cls : Schema) (route : String) (value : Raw) : Except String (St × Json) := do
  let b := cblank cls 1
  let start (n : Node) (next : Nat) (out : Json) : St × Json := (St.observe { root := n, next := next }, out)
  let after (r : StepR) (out : Json) : St × Json :=
    match r.out with
    | .exc .unsupported => ({ root := r.node, next := r.next, unsupported := true }, Json.str "unsupported")
    | _ => start r.node r.next out
  match route with
  | "ctor" => return start b.1 b.2 (Json.str "ok")
  | "ctor_value" =>
    -- `cls(value)`: `Compound.set` never lets an exception of `explode` out
    let r := compoundStep dateExplode b.1 (.set value none) b.2
    return after r (Json.str "ok")
  | "set" =>
    let r := compoundStep dateExplode b.1 (.set value none) b.2
    return after r (stepOut r)
  | "from_defaults" =>
    let r := compoundStep dateExplode b.1 .setDefault b.2
    return after r (stepOut r)
  | "set_default" =>
    let r := compoundStep dateExplode b.1 .setDefault b.2
    return after r (stepOut r)
  | r => throw s!"bad route {r}"

def runCompound (j : Json) : Except String Json := do
  let sj ← fld j "schema"
  let cls ← parseCompoundClass sj
  let init ← fld j "init"
  let ops ← (← afld j "ops").mapM parseOp
  let (s0, out0) ← initCompound cls (← sfld init "route") (← parseRaw (fldD init "value" .null))
  if s0.unsupported then return obj [("unsupported", Json.bool true)]
  let mut s := s0
  let mut steps : Array Json := #[obj [("out", out0), ("view", view s0 none)]]
  for o in ops do
    let r := execOpC [cls.info.cid] s o
    s := r.st
    if s.unsupported then return obj [("unsupported", Json.bool true)]
    steps := steps.push (obj [("out", r.out), ("view", view s (some r))])
  return obj [("steps", Json.arr steps)]

/-! ### the flat route (`"flat"` cases): the key skeleton of `set_flat` on a blank / pre-set mapping -/

partial def skelJson : Flatland.C10.Flat.Skel → Json
  | .leaf => Json.null
  | .dict ms => obj [("d", Json.arr (ms.map (fun p => Json.arr #[ofChars p.1, skelJson p.2])).toArray)]
  | .seq ms => obj [("l", Json.arr (ms.map skelJson).toArray)]

def runFlat (fj : Json) : Except String Json := do
  let s ← Flatland.Run.FlatCommon.parseSchema (← fld fj "schema")
  let sep ← cfld fj "sep"
  let nd ← (← afld fj "nd").mapM nat
  let env : Flatland.Flat.Env := {
    norm := fun _ t => t, compose := fun _ _ => [], joinedMembers := fun _ _ => [],
    ndZeros := nd, maxDigits := ← nfld fj "maxdigits" }
  let rounds ← (← afld fj "rounds").mapM Flatland.Run.FlatCommon.parsePairs
  let mut e := Flatland.Flat.blank s
  let mut out : Array Json := #[skelJson (Flatland.C10.Flat.skeleton e)]
  for ps in rounds do
    e := Flatland.Flat.setFlat env sep s e (Flatland.Flat.wrap ps)
    out := out.push (skelJson (Flatland.C10.Flat.skeleton e))
  return obj [("skeletons", Json.arr out)]

/-- every trace carries `fields_nodup`: does the declaration the case states name every field once? -/
def withNodup (s : Schema) (j : Json) : Json :=
  j.setObjVal! "fields_nodup" (Json.bool (Flatland.C10.fieldsNodupB s))

def run (j : Json) : Except String Json := do
  if let .ok fj := fld j "flat" then return ← runFlat fj
  if let .ok (Json.str "date") := fld (← fld j "schema") "k" then
    return withNodup (← parseCompoundClass (← fld j "schema")) (← runCompound j)
  let c ← parseCase j
  return withNodup c.schema (← runCase c view)

end Flatland.Run.C10
