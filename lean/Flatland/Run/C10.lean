import Flatland.TreeJson
open Lean Flatland.J
namespace Flatland.Run.C10
open Flatland.Tree Flatland.C08 Flatland.TreeJson

/-- the mapping at the root as `dict.items()` shows it: key, label, class, name, parent, value -/
def view (s : St) (_r : Option StepObs) : Json :=
  let rows := s.root.kids.map (fun c =>
    Json.arr #[ofChars c.key, lab s c.id, ofNat c.sch.info.cid, ofOpt ofChars c.name,
      (match c.parent with
       | none => Json.null
       | some p => lab s p),
      rawJson (valueOf c)])
  obj [("items", Json.arr rows.toArray)]

def run (j : Json) : Except String Json := do
  runCase (← parseCase j) view

end Flatland.Run.C10
