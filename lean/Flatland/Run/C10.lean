import Flatland.JsonUtil
open Lean Flatland.J
namespace Flatland.Run.C10

/-- JSON case in, JSON observation out (stub until the model of C10 is written). -/
def run (_j : Json) : Except String Json := .error "model runner for C10 not implemented yet"

end Flatland.Run.C10
