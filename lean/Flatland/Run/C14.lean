import Flatland.JsonUtil
import Flatland.Path
import Flatland.Spec.C14
open Lean Flatland.J
namespace Flatland.Run.C14
open Flatland.Path Flatland.C14.Spec

/-- tree JSON: {"id": n, "k": "s|d|c|l|a|m|j", "name": str|null, "kids": [...]} -/
partial def parseTree (j : Json) : Except String Node := do
  let k ← sfld j "k"
  let kind ← match k with
    | "s" => pure Kind.scalar
    | "d" => pure Kind.map | "c" => pure Kind.map
    | "l" => pure Kind.list
    | "a" => pure Kind.array | "m" => pure Kind.array | "j" => pure Kind.array
    | _ => throw s!"bad kind {k}"
  let nm := fldD j "name" Json.null
  let name ← if isNull nm then pure [] else chars nm
  -- "key": the dict key the element is stored under, when it differs from its name
  let kj := fldD j "key" Json.null
  -- an unnamed element (`name: null`) is stored under the key `None` when its parent is a mapping (for
  -- members of sequences and for the root the key is not used)
  let key ← if isNull kj then pure (if isNull nm then none else some name) else (do pure (some (← chars kj)))
  let kids ← (← afld j "kids").mapM parseTree
  return .mk kind key name kids

/-- (position, id) of every node, preorder -/
partial def idTable (j : Json) (pos : Pos) : Except String (List (Pos × Nat)) := do
  let id ← nfld j "id"
  let kids ← afld j "kids"
  let mut out := [(pos, id)]
  let mut i := 0
  for k in kids do
    out := out ++ (← idTable k (pos ++ [i]))
    i := i + 1
  return out

def posOf (tbl : List (Pos × Nat)) (id : Nat) : Except String Pos :=
  match tbl.find? (·.2 == id) with
  | some p => pure p.1
  | none => throw s!"no node with id {id}"

def idOf (tbl : List (Pos × Nat)) (p : Pos) : Json :=
  match tbl.find? (·.1 == p) with
  | some q => ofNat q.2
  | none => Json.str "not-an-element"

/-- ASCII-safe rendering of a string for the line protocol (core splits the driver output with
    `str.splitlines`, which also breaks at U+0085, U+2028, ...): printable ASCII except `%` as
    is, everything else as `%<hex code point>;` -/
def encStr (s : Path.Str) : Json :=
  let hex (n : Nat) : String := String.ofList (Nat.toDigits 16 n)
  Json.str (String.join (s.map (fun c =>
    if 32 ≤ c.toNat && c.toNat < 127 && c != '%' then String.singleton c else "%" ++ hex c.toNat ++ ";")))

def errStr : Err → String
  | .lookup => "LookupError" | .value => "ValueError" | .type => "TypeError"

def opJson : Op → Json
  | .top => Json.arr #["TOP"]
  | .up => Json.arr #["UP"]
  | .here => Json.arr #["HERE"]
  | .name s => Json.arr #["NAME", ofOpt encStr s]
  | .slice a b c => Json.arr #["SLICE", ofOpt ofInt a, ofOpt ofInt b, ofOpt ofInt c]

def resJson (tbl : List (Pos × Nat)) : FindRes → Json
  | .many l => obj [("list", ofList (idOf tbl) l)]
  | .one none => obj [("one", Json.null)]
  | .one (some p) => obj [("one", idOf tbl p)]
  | .err e => obj [("error", Json.str (errStr e))]

def parseStep (j : Json) : Except String CStep := do
  let t ← sfld j "t"
  let sp : Spelling := {
    bracket := (bool (fldD j "br" (Json.bool false))).toOption.getD false,
    sep := (bool (fldD j "sep" (Json.bool false))).toOption.getD false,
    escAll := (bool (fldD j "escall" (Json.bool false))).toOption.getD false }
  let step ← match t with
    | "up" => pure Step.up
    | "here" => pure Step.here
    | "name" => do pure (Step.name (← cfld j "s"))
    | "neg" => do pure (Step.negidx (← nfld j "n"))
    | "slice" => do
      let a ← optOf int (fldD j "a" Json.null)
      let b ← optOf int (fldD j "b" Json.null)
      let c ← match j.getObjVal? "c" with
        | .error _ => pure none
        | .ok cj => do pure (some (← optOf int (fldD cj "v" Json.null)))
      pure (Step.slice a b c)
    | _ => throw s!"bad step {t}"
  return { step, sp }

def parseCPath (j : Json) : Except String CPath := do
  return { top := ← bfld j "top", trail := ← bfld j "trail",
           steps := ← (← afld j "steps").mapM parseStep }

def findResEq : FindRes → FindRes → Bool
  | .many a, .many b => a == b
  | .one a, .one b => a == b
  | .err a, .err b => a == b
  | _, _ => false

def run (j : Json) : Except String Json := do
  let tj ← fld j "tree"
  let root ← parseTree tj
  let tbl ← idTable tj []
  let start ← posOf tbl (← nfld j "start")
  let path ← cfld j "path"
  let strict ← bfld j "strict"
  let single ← bfld j "single"
  let ops := match tokenize path with
    | .ok ops => ofList opJson ops
    | .error e => obj [("error", Json.str (errStr e))]
  -- "as_segments": the path was handed to find() as a tuple/list of segments; pathexpr joins
  -- it with "/", and the error message is formatted with `% (path,)`, so nothing else changes
  let res := find root start path single strict
  -- the depth-first reading with explicit error precedence (spec `denOrd`), list form; the error
  -- carries the slice depth at which it arises.  `find_denotes_gen` is re-checked on every case.
  let ordR : Option Ranked := match tokenize path with
    | .ok o => some (denOrd root strict o 0 start)
    | .error _ => none
  let ordered := match ordR, tokenize path with
    | some (.ok l), _ => obj [("list", ofList (idOf tbl) l)]
    | some (.err d e), _ => obj [("error", Json.str (errStr e)), ("depth", ofNat d)]
    | none, .error e => obj [("error", Json.str (errStr e))]
    | none, .ok _ => Json.null
  let genOk : Bool := match ordR with
    | none => true
    | some r =>
      let viaOrd : FindRes := match r.forget with
        | .error e => .err e
        | .ok l => if single then singleOf strict (.ok l) else .many l
      findResEq viaOrd res
  let mut out := [("ops", ops), ("result", resJson tbl res), ("ordered", ordered)]
  let mut agreesAll := genOk
  -- spec B on the AST the path was printed from (when the case carries one)
  match j.getObjVal? "ast" with
  | .error _ => pure ()
  | .ok aj =>
    if !isNull aj then
      let cp ← parseCPath aj
      let printed := print cp
      out := out ++ [("printed", encStr printed)]
      let p := cp.abstract
      let spec := findSpec p root start single strict
      let specC := findSpec (cancel p) root start single strict
      out := out ++ [("denoted", resJson tbl spec), ("canon", Json.bool (Canon p)),
        ("cancelled", resJson tbl specC)]
      if cp.wf then
        -- theorems find_print_cancel / find_print_denotes / tokenize_print, re-checked on the case
        let hasDots := p.steps.any (fun s => s.isUp || s.isHere)
        -- (the evaluation theorems need one kind of error only: no stride 0, or non-strict)
        let uni := p.steps.all Step.wf || !strict
        let agrees := printed == path &&
          (!uni || findResEq specC (find root start path single strict)) &&
          (!uni || !(Canon p) || findResEq spec (find root start path single strict)) &&
          (match tokenize path with
           | .ok ops => ops == (if hasDots then canonicalize (compile p) else compile p)
           | .error _ => false)
        agreesAll := agreesAll && agrees
  out := out ++ [("spec_agrees", Json.bool agreesAll)]
  return obj out

end Flatland.Run.C14
