import Flatland.JsonUtil
open Lean Flatland.J
namespace Flatland.Run.C14

/-- JSON case in, JSON observation out (stub until the model of C14 is written). -/
def run (_j : Json) : Except String Json := .error "model runner for C14 not implemented yet"

end Flatland.Run.C14
