import Flatland.JsonUtil
open Lean Flatland.J
namespace Flatland.Run.C09

/-- JSON case in, JSON observation out (stub until the model of C09 is written). -/
def run (_j : Json) : Except String Json := .error "model runner for C09 not implemented yet"

end Flatland.Run.C09
