import Flatland.TreeJson
import Flatland.Run.C08
open Lean Flatland.J
namespace Flatland.Run.C09
open Flatland.Tree Flatland.C08 Flatland.TreeJson

def isScalar (n : Node) : Bool := n.kind == .integer || n.kind == .string

/-- the sequence at the root: members (label, value, u), slot names, value, length -/
def view (s : St) (_r : Option StepObs) : Json :=
  let ms := members s.root
  let rows := ms.map (fun m =>
    Json.arr #[lab s m.id, rawJson (valueOf m), if isScalar m then ofChars m.ni.u else Json.null])
  let names : Json :=
    if s.root.kind = .list then Json.arr (s.root.kids.map (fun sl => ofChars sl.key)).toArray
    else Json.null
  obj [("members", Json.arr rows.toArray), ("slots", names), ("value", rawJson (valueOf s.root)),
       ("len", ofNat s.root.kids.length)]

def run (j : Json) : Except String Json := do
  if Flatland.Run.C08.usesFailurePaths j then return obj [("unsupported", Json.bool true)]
  runCase (← parseCase j) view

end Flatland.Run.C09
