import Flatland.JsonUtil
open Lean Flatland.J
namespace Flatland.Run.C02

/-- JSON case in, JSON observation out (stub until the model of C02 is written). -/
def run (_j : Json) : Except String Json := .error "model runner for C02 not implemented yet"

end Flatland.Run.C02
