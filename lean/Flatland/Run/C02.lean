import Flatland.Run.FlatCommon
import Flatland.Spec.C02
open Lean
open Flatland.J hiding Str
namespace Flatland.Run.C02
open Flatland.Flat Flatland.Run.FlatCommon

/-- case: schema, sep, pairs (+ optional "start": element to call set_flat on), env -/
def run (j : Json) : Except String Json := do
  let s ← parseSchema (← fld j "schema")
  let sep ← cfld j "sep"
  let env ← parseEnv (← fld j "env")
  let ps ← parsePairs (← fld j "pairs")
  let e := fromFlat env sep s ps
  let addrs := ps.map (fun p => Json.bool (Flatland.Flat.Spec.addr env sep s (some p.1)))
  return obj [("elem", elemJson e), ("flatten", pairsJson (flatten env sep s e)),
              ("addr", Json.arr addrs.toArray)]

end Flatland.Run.C02
