import Flatland.JsonUtil
import Flatland.C16
import Flatland.C16.Tables
import Flatland.Generated.C16Catalogues
import Flatland.Spec.C16
import Flatland.C15
import Flatland.Run.C15
open Lean
open Flatland.J hiding Str
namespace Flatland.Run.C16
open Flatland.C16
abbrev Str := Flatland.C16.Str

/-! JSON glue for C16 (not part of any theorem). -/

def parseVal (j : Json) : Except String Val :=
  match j with
  | .null => pure .none
  | .str s => pure (.str s.toList)
  | .bool b => pure (.bool b)
  | .num _ => do return .int (← j.getInt?)
  | _ => do return .elem (← cfld j "elem")

def parsePairs (j : Json) : Except String (List (Str × Val)) := do
  (← arr j).mapM (fun p => do
    match (← arr p) with
    | [k, v] => return ((← chars k), (← parseVal v))
    | _ => throw "bad pair")

def pairsD (j : Json) (k : String) : Except String (List (Str × Val)) :=
  parsePairs (fldD j k (Json.arr #[]))

def catalogueOf (lang : String) : Except String Catalogue :=
  match Flatland.Generated.C16.catalogues.find? (fun c => c.lang == lang) with
  | some c => pure c
  | none => throw s!"no catalogue {lang}"

/-- a harness-defined ugettext: table lookup, else tag-prefix, else identity; or a shipped locale -/
def parseU (j : Json) : Except String (Option UTr) := do
  if isNull j then return none
  match (fld j "locale").toOption with
  | some l => do
    let c ← catalogueOf (← str l)
    return some c.gettext
  | none =>
    let tag ← optOf chars (fldD j "tag" Json.null)
    let tbl ← (← arr (fldD j "tbl" (Json.arr #[]))).mapM (fun p => do
      match (← arr p) with
      | [a, b] => return ((← chars a), (← chars b))
      | _ => throw "bad tbl")
    return some (fun s => match tbl.lookup s with
      | some b => b
      | none => match tag with
        | some t => t ++ [':'] ++ s
        | none => s)

def parseN (j : Json) : Except String (Option NTr) := do
  if isNull j then return none
  match (fld j "locale").toOption with
  | some l => do
    let c ← catalogueOf (← str l)
    return some (fun s p n => match c.ngettext s p n with
      | some r => .ok r
      | none => .error .typeError)
  | none =>
    let tag ← optOf chars (fldD j "tag" Json.null)
    let rule ← sfld j "rule"
    return some (fun s p n =>
      let sing : Bool := match n with
        | .int i => if rule == "gt1" then decide (i ≤ 1) else i == 1
        | _ => false
      let chosen := if sing then s else p
      .ok (match tag with | some t => t ++ [':'] ++ chosen | none => chosen))

def parseSlot {α} (f : Json → Except String (Option α)) (j : Json) : Except String (Slot α) := do
  match j with
  | .str "absent" => return .absent
  | .null => return .absent
  | _ => return .present (← f (← fld j "v"))

structure ParsedState where
  target : Option Target
  u : StateSlots UTr
  n : StateSlots NTr
  items : List (Str × Val)
  attrs : List (Str × Val)
  kind : String

def itemSlot {α} (kind : String) (s : Slot α) : ItemSlot α :=
  if kind == "dict" || kind == "objdict" then
    (match s with | .absent => .keyError | .present v => .found v)
  else if kind == "seq" then .typeError
  else .notSubscriptable

def parseState (j : Json) : Except String ParsedState := do
  if isNull j then
    return { target := none, u := ⟨.absent, .notSubscriptable⟩, n := ⟨.absent, .notSubscriptable⟩,
             items := [], attrs := [], kind := "none" }
  let kind ← sfld j "kind"
  let items ← pairsD j "items"
  let attrs ← pairsD j "attrs"
  let hasAttrs := kind == "obj" || kind == "objdict"
  let sub := kind == "dict" || kind == "objdict" || kind == "seq"
  let ua ← parseSlot parseU (fldD j "u_attr" Json.null)
  let ui ← parseSlot parseU (fldD j "u_item" Json.null)
  let na ← parseSlot parseN (fldD j "n_attr" Json.null)
  let ni ← parseSlot parseN (fldD j "n_item" Json.null)
  let items' := if kind == "dict" || kind == "objdict" then items else []
  -- a real dict / list state also answers `getattr` with its own methods
  let attrs' := if hasAttrs then attrs
    else if kind == "dict" then methodAttrs "dict".toList dictMethodNames
    else if kind == "seq" then methodAttrs "list".toList listMethodNames
    else []
  return { target := some { subscriptable := sub, items := items', attrs := attrs' },
           u := ⟨if hasAttrs then ua else .absent, itemSlot kind ui⟩,
           n := ⟨if hasAttrs then na else .absent, itemSlot kind ni⟩,
           items := items', attrs := attrs', kind := kind }

structure ParsedElem where
  target : Target
  u : AncSlots UTr
  n : AncSlots NTr
  kind : String

def parseElem (j : Json) : Except String ParsedElem := do
  let kind ← sfld j "kind"
  let attrs ← pairsD j "attrs"
  let items ← pairsD j "items"
  let ui ← parseSlot parseU (fldD j "u_inst" Json.null)
  let uc ← parseU (fldD j "u_cls" Json.null)
  let ni ← parseSlot parseN (fldD j "n_inst" Json.null)
  let nc ← parseN (fldD j "n_cls" Json.null)
  return { target := { subscriptable := kind != "scalar",
                       items := if kind == "dict" then items else [], attrs := attrs },
           u := ⟨ui, uc⟩, n := ⟨ni, nc⟩, kind := kind }

def parseMsg (j : Json) : Except String Msg := do
  match (← sfld j "t") with
  | "plain" => return .plain (← cfld j "s")
  | "plural" => return .plural (← cfld j "s") (← cfld j "p") (← cfld j "n")
  | t => throw s!"bad msg {t}"

def raiseJson (r : Except Raise α) : Json :=
  match r with
  | .ok _ => Json.null
  | .error e => Json.str e.name

def lookupFn (l : List (Str × Val)) : Str → Option Val := fun k => l.lookup k

def runSyn (j : Json) : Except String Json := do
  let msg ← parseMsg (← fld j "msg")
  let kwargs ← pairsD j "kwargs"
  let st ← parseState (fldD j "state" Json.null)
  let vattrs ← pairsD j "vattrs"
  let chain ← (← afld j "chain").mapM parseElem
  let b := fldD j "builtins" Json.null
  let ub ← parseSlot parseU (fldD b "u" Json.null)
  let nb ← parseSlot parseN (fldD b "n" Json.null)
  let pre ← (← arr (fldD j "pre_errors" (Json.arr #[]))).mapM chars
  let elemT := (chain.head?.map (·.target)).getD default
  let targets : List Target :=
    [kwTarget kwargs] ++ st.target.toList ++
    [{ subscriptable := false, items := [], attrs := vattrs }, elemT]
  let env : Env := { targets := targets, uState := st.u, nState := st.n,
                     uAnc := chain.map (·.u), nAnc := chain.map (·.n),
                     uBuiltin := ub, nBuiltin := nb }
  let res := expandMessage env msg
  let callable ← bool (fldD j "callable" (Json.bool false))
  let errs := match noteError env pre msg callable with
    | .ok l => l
    | .error _ => pre
  -- spec B, where its hypotheses hold: no element *item* shadows (KF-C16-a), no ungettext in play
  let src : Spec.Sources := {
    kwargs := lookupFn kwargs, stateItems := lookupFn st.items, stateAttrs := lookupFn st.attrs,
    validatorAttrs := lookupFn vattrs, elementAttrs := lookupFn elemT.attrs }
  let specU : Option UTr := Spec.transformer
    (match st.u.attr with | .present v => some v | .absent => none)
    (match st.u.item with | .found v => some v | _ => none)
    (chain.map (fun e => e.u.resolved))
    (match ub with | .present v => some v | .absent => none)
  let nFound := match findTransformer env.nState env.nAnc env.nBuiltin with
    | .ok (some _) => true
    | _ => false
  let usedKeys : List Str := match msg with
    | .plain s => placeholders s
    | .plural s p k => k :: (placeholders s ++ placeholders p)
  -- KF-C16-d: a used key that only the keyword dict's own attributes answer first
  let kwShadow := usedKeys.any (fun k => (kwargs.lookup k).isNone && dictMethodNames.contains k)
  let inScope := !kwShadow && elemT.items.isEmpty &&
    (match msg with | .plain _ => true | .plural _ _ _ => !nFound)
  let specRes : Option Str := match msg with
    | .plain s => Spec.expandPlain specU src s
    | .plural s p k => Spec.expandPlural specU src s p k
  let agrees : Bool :=
    if !inScope then true
    else match res, specRes with
      | .ok a, some b => a == b
      | .error _, none => true
      | _, _ => false
  return obj [("raise", raiseJson res),
    ("result", match res with | .ok s => ofChars s | .error _ => Json.null),
    ("errors", ofList ofChars errs),
    ("spec_agrees", Json.bool agrees)]

/-- a real built-in validator (the C15 model decides the verdict and the `note_error` call)
    under a shipped locale placed on the state, the element, its root or builtins -/
def runBuiltin (j : Json) : Except String Json := do
  let c ← fld j "c15"
  let v ← Flatland.Run.C15.parseV (← fld c "v")
  let e ← Flatland.Run.C15.parseView (← fld c "view")
  let pre ← (← arr (fldD c "pre_errors" (Json.arr #[]))).mapM chars
  let langJ := fldD j "lang" Json.null
  let place ← sfld j "place"
  let withN ← bool (fldD j "with_n" (Json.bool true))
  let u : Option UTr ← if isNull langJ then pure none else parseU (obj [("locale", langJ)])
  let n : Option NTr ← if isNull langJ || !withN then pure none else parseN (obj [("locale", langJ)])
  let sl {α} (x : Option α) : Slot α := match x with | some f => .present (some f) | none => .absent
  let noSt {α} : StateSlots α := ⟨.absent, .notSubscriptable⟩
  let stateTarget : List Target :=
    if place == "state-dict" then
      [{ subscriptable := true, items := [], attrs := methodAttrs "dict".toList dictMethodNames }]
    else if place == "state-obj" then [{ subscriptable := false, items := [], attrs := [] }]
    else []
  let uState : StateSlots UTr :=
    if place == "state-dict" then ⟨.absent, match u with | some f => .found (some f) | none => .keyError⟩
    else if place == "state-obj" then ⟨sl u, .notSubscriptable⟩ else noSt
  let nState : StateSlots NTr :=
    if place == "state-dict" then ⟨.absent, match n with | some f => .found (some f) | none => .keyError⟩
    else if place == "state-obj" then ⟨sl n, .notSubscriptable⟩ else noSt
  let uAnc : List (AncSlots UTr) :=
    if place == "element" then [⟨sl u, none⟩]
    else if place == "root" then [⟨.absent, none⟩, ⟨sl u, none⟩] else [⟨.absent, none⟩]
  let nAnc : List (AncSlots NTr) :=
    if place == "element" then [⟨sl n, none⟩]
    else if place == "root" then [⟨.absent, none⟩, ⟨sl n, none⟩] else [⟨.absent, none⟩]
  let uB : Slot UTr := if place == "builtins" then sl u else .absent
  let nB : Slot NTr := if place == "builtins" then sl n else .absent
  let res : Except Raise (Bool × List Str) := do
    let (b, note) ← Flatland.C15.verdict v e
    match note with
    | none => pure (b, pre)
    | some nt =>
      match Flatland.C15.messageOf Flatland.Generated.C16.builtinMessages v.className nt.key with
      | none => .error .attributeError
      | some msg =>
        let base := Flatland.C15.envOf v e nt.info
        let targets := match base.targets with
          | kw :: rest => kw :: (stateTarget ++ rest)
          | [] => []
        let env : Env := { targets := targets, uState := uState, nState := nState,
                           uAnc := uAnc, nAnc := nAnc, uBuiltin := uB, nBuiltin := nB }
        let errs ← noteError env pre msg
        pure (b, errs)
  match res with
  | .error r => return obj [("raise", Json.str r.name), ("verdict", Json.null), ("errors", ofList ofChars pre)]
  | .ok (b, errs) =>
    return obj [("raise", Json.null), ("verdict", Json.bool b), ("errors", ofList ofChars errs)]

def run (j : Json) : Except String Json := do
  let kind ← sfld j "k"
  match kind with
  | "syn" => runSyn j
  | "builtin" => runBuiltin j
  | k => throw s!"C16: unknown case kind {k}"

end Flatland.Run.C16
