import Flatland.JsonUtil
open Lean Flatland.J
namespace Flatland.Run.C16

/-- JSON case in, JSON observation out (stub until the model of C16 is written). -/
def run (_j : Json) : Except String Json := .error "model runner for C16 not implemented yet"

end Flatland.Run.C16
