import Flatland.JsonUtil
open Lean Flatland.J
namespace Flatland.Run.C17

/-- JSON case in, JSON observation out (stub until the model of C17 is written). -/
def run (_j : Json) : Except String Json := .error "model runner for C17 not implemented yet"

end Flatland.Run.C17
