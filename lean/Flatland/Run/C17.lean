import Flatland.JsonUtil
import Flatland.C17
import Flatland.Spec.C17
import Flatland.C17Frames
open Lean Flatland.J
namespace Flatland.Run.C17
open Flatland.C17

def parseVal (j : Json) : Except String Val :=
  match j with
  | .null => pure .none
  | .str s => pure (.str s.toList)
  | .num _ => do return .int (← j.getInt?)
  | _ => throw "bad value"

def parsePair (j : Json) : Except String (Key × Val) := do
  match (← arr j) with
  | [k, v] => return (← chars k, ← parseVal v)
  | _ => throw "bad pair"

def parsePairs (j : Json) (k : String) : Except String (List (Key × Val)) := do
  (← afld j k).mapM parsePair

def parseView (j : Json) : Except String View := do
  match (← arr j) with
  | [t, n] =>
    match (← str t) with
    | "c" => return .cls (← nat n)
    | "i" => return .inst (← nat n)
    | s => throw s!"bad view kind {s}"
  | _ => throw "bad view"

def parseOp (j : Json) : Except String Op := do
  match (← sfld j "op") with
  | "getitem" => return .getitem (← cfld j "k")
  | "setitem" => return .setitem (← cfld j "k") (← parseVal (← fld j "v"))
  | "delitem" => return .delitem (← cfld j "k")
  | "clear" => return .clear
  | "pop" =>
    let d := fldD j "dflt" (Json.arr #[])
    -- "dflt": [] = no default given, [v] = default v
    match (← arr d) with
    | [] => return .pop (← cfld j "k") none
    | [v] => return .pop (← cfld j "k") (some (← parseVal v))
    | _ => throw "bad dflt"
  | "setdefault" =>
    match (← arr (fldD j "dflt" (Json.arr #[]))) with
    | [] => return .setdefault (← cfld j "k") .none
    | [v] => return .setdefault (← cfld j "k") (← parseVal v)
    | _ => throw "bad dflt"
  | "get" =>
    match (← arr (fldD j "dflt" (Json.arr #[]))) with
    | [] => return .get (← cfld j "k") .none
    | [v] => return .get (← cfld j "k") (← parseVal v)
    | _ => throw "bad dflt"
  | "update" => return .update (← parsePairs j "pairs")
  | "items" => return .items
  | "keys" => return .keys
  | "values" => return .values
  | "contains" => return .contains (← cfld j "k")
  | "bool" => return .bool
  | "eq" => return .eq (← parsePairs j "other")
  | "ne" => return .ne (← parsePairs j "other")
  | "copy" => return .copy
  | "popitem" => return .popitem
  | s => throw s!"bad op {s}"

def parseCmd (j : Json) : Except String Cmd := do
  match (← sfld j "t") with
  | "op" => return .op (← parseView (← fld j "view")) (← parseOp j)
  | "subclass" => return .subclass (← nfld j "p")
  | "mi" => return .subclassMI (← (← afld j "mro").mapM nat)
  | "using_props" => return .usingProps (← nfld j "p") (← parsePairs j "init")
  | "using_shared" => return .usingShared (← nfld j "p") (← nfld j "owner") (← parsePairs j "init")
  | "with_props" => return .withProps (← nfld j "p") (← parsePairs j "pairs")
  | "new" => return .newInst (← nfld j "c")
  | "new_with" => return .newInstWith (← nfld j "c") (← parsePairs j "m")
  | "assign" => return .assign (← nfld j "i") (← parsePairs j "m")
  | "new_with_compound" => return .newInstCompound (← nfld j "c") (← parsePairs j "m")
  | s => throw s!"bad cmd {s}"

def ofVal : Val → Json
  | .none => Json.null
  | .int i => ofInt i
  | .str s => ofChars s

def ofPairs (l : List (Key × Val)) : Json :=
  ofList (fun (kv : Key × Val) => Json.arr #[ofChars kv.1, ofVal kv.2]) l

def errName : Err → String
  | .keyError => "KeyError"
  | .notImplemented => "NotImplementedError"
  | .attributeError => "AttributeError"
  | .badCase => "BadCase"

def ofRes : Res → Json
  | .unit => Json.null
  | .val v => obj [("v", ofVal v)]
  | .bool b => obj [("b", Json.bool b)]
  | .items l => obj [("items", ofPairs l)]
  | .keys l => obj [("keys", ofList ofChars l)]
  | .vals l => obj [("vals", ofList ofVal l)]
  | .err e => obj [("err", Json.str (errName e))]

def allViews (σ : State) : List View :=
  (List.range σ.classes.length).map View.cls ++ (List.range σ.insts.length).map View.inst

def ofView : View → Json
  | .cls c => Json.arr #[Json.str "c", ofNat c]
  | .inst i => Json.arr #[Json.str "i", ofNat i]

abbrev Snap := List (View × List (Key × Val))

def snapshot (σ : State) : Snap := (allViews σ).map (fun v => (v, viewItems σ v))

/-- views whose `items()` differ from the previous snapshot (new views always) -/
def delta (old new : Snap) : List (View × List (Key × Val)) :=
  new.filter (fun p => match old.find? (fun q => q.1 == p.1) with
    | some q => q.2 != p.2
    | none => true)

def cmdKeys : Cmd → List Key
  | .op _ o =>
    match o with
    | .getitem k | .delitem k | .contains k => [k]
    | .setitem k _ | .pop k _ | .setdefault k _ | .get k _ => [k]
    | .update ps | .eq ps | .ne ps => ps.map (·.1)
    | _ => []
  | .usingProps _ ps | .usingShared _ _ ps | .withProps _ ps | .newInstWith _ ps | .assign _ ps
  | .newInstCompound _ ps => ps.map (·.1)
  | _ => []

def stateKeys (σ : State) : List Key :=
  (σ.frames.flatMap (fun p => p.2.map (·.1))) ++
    σ.insts.flatMap (fun x => match x.loc with | .storage f => f.map (·.1) | .plain m => m.map (·.1))

/-- model A's reading of every view = spec B's overlay of the abstracted layers, on `keys` -/
def readAgrees (σ : State) (keys : List Key) : Bool :=
  (allViews σ).all (fun v =>
    let items := viewItems σ v
    keys.all (fun k => Spec.visible (Spec.abs σ) v k == AList.get? items k
      && visible σ v k == AList.get? items k))

/-- one step of A = one step of the layered store B (compared through every view, on `keys`) -/
def stepAgrees (σ σ' : State) (c : Cmd) (keys : List Key) : Bool :=
  let s' := Spec.step (Spec.abs σ) c
  (allViews σ').all (fun v => keys.all (fun k => Spec.visible s' v k == Spec.visible (Spec.abs σ') v k))

/-- the observer of the harness: `list(view.items())` through every view, executed on the MECHANISM
    model (so that it materialises what the real observer materialises) and compared with model A -/
def observeF (σf : Frames.FState) (σ : State) : Frames.FState × Bool :=
  (allViews σ).foldl (fun (acc : Frames.FState × Bool) v =>
    let (τ, r) := Frames.fstep false acc.1 (.op v .items)
    (τ, acc.2 && (r == Res.items (viewItems σ v) ||
      -- a view of a class that resolves no descriptor shows nothing in model A
      (r == Res.err .attributeError && viewItems σ v == [])))) (σf, true)

def run (j : Json) : Except String Json := do
  let init ← parsePairs j "init"
  let cmds ← (← afld j "cmds").mapM parseCmd
  let lazy := match fldD j "lazy" (Json.bool false) with | .bool b => b | _ => false
  -- root="named": class 0 stands for `Element` (the owner) in the models but is a plain subclass in
  -- the code; its materialisation is not comparable
  let named := match fldD j "root" (Json.str "using") with | .str s => s == "named" | _ => false
  let mut σ := initState init
  let mut σf := Frames.finit init
  let mut snap := snapshot σ
  let mut out : Array Json := #[]
  let mut agrees := readAgrees σ (stateKeys σ)
  let mut fagrees := true
  let mut guarded : Nat := 0
  let enc := fun (p : View × List (Key × Val)) => Json.arr #[ofView p.1, ofPairs p.2]
  let first := ofList enc snap
  if !lazy then
    let (τ, ok) := observeF σf σ
    σf := τ
    fagrees := fagrees && ok
  for c in cmds do
    let (σ', r) := step σ c
    let (σf', rf) := Frames.fstep false σf c
    -- the mechanism model next to model A: same result, same views
    fagrees := fagrees && (rf == r)
    let mat := (Frames.materialised σf').filter (fun c => !(named && c == 0))
    σf := σf'
    if !lazy then
      let (τ, ok) := observeF σf σ'
      σf := τ
      fagrees := fagrees && ok
    let snap' := snapshot σ'
    out := out.push (obj [("r", ofRes r), ("d", ofList enc (delta snap snap')), ("m", ofList ofNat mat)])
    let keys := (cmdKeys c ++ stateKeys σ ++ stateKeys σ').eraseDups
    -- read_is_overlay needs coherence (single inheritance gives it); the step refinement in
    -- addition needs unshared descriptors and excludes the instance-clear() of KF-C17-a
    if Spec.coherent σ' then
      agrees := agrees && readAgrees σ' keys
    if Spec.coherent σ && Spec.coherent σ' && Spec.noShared σ' && !Spec.badClear σ c then
      agrees := agrees && stepAgrees σ σ' c keys
    else
      guarded := guarded + 1
    σ := σ'
    snap := snap'
  if lazy then
    let (τ, ok) := observeF σf σ
    σf := τ
    fagrees := fagrees && ok
  return obj [("start", first), ("steps", Json.arr out), ("spec_agrees", Json.bool (agrees && fagrees)),
    ("_guarded", ofNat guarded), ("_frames_agree", Json.bool fagrees), ("_model_a_spec", Json.bool agrees)]

end Flatland.Run.C17
