import Flatland.JsonUtil
open Lean Flatland.J
namespace Flatland.Run.C15

/-- JSON case in, JSON observation out (stub until the model of C15 is written). -/
def run (_j : Json) : Except String Json := .error "model runner for C15 not implemented yet"

end Flatland.Run.C15
