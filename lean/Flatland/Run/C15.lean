import Flatland.JsonUtil
import Flatland.C15
import Flatland.Spec.C15
open Lean
open Flatland.J hiding Str
namespace Flatland.Run.C15
open Flatland.C16 Flatland.C15

/-! JSON glue for C15 (not part of any theorem). -/

def parseVal (j : Json) : Except String Val :=
  match j with
  | .null => pure .none
  | .str s => pure (.str s.toList)
  | .bool b => pure (.bool b)
  | .num _ => do return .int (← j.getInt?)
  | _ => do return .elem (← cfld j "elem")

def valJson : Val → Json
  | .none => Json.null
  | .str s => ofChars s
  | .int i => ofInt i
  | .bool b => Json.bool b
  | .elem u => obj [("elem", ofChars u)]
  | .method o n => obj [("method", ofChars n), ("owner", ofChars o)]

def valD (j : Json) (k : String) : Except String Val := parseVal (fldD j k Json.null)
def strsD (j : Json) (k : String) : Except String (List Str) := do
  (← arr (fldD j k (Json.arr #[]))).mapM chars
def boolD (j : Json) (k : String) (d : Bool) : Except String Bool := bool (fldD j k (Json.bool d))
def intD (j : Json) (k : String) (d : Int) : Except String Int := int (fldD j k (ofInt d))

def parseField (j : Json) : Except String (Option FieldView) := do
  if isNull j then return none
  return some { value := ← valD j "value", u := ← cfld j "u", label := ← valD j "label" }

def parseRaw (j : Json) : Except String RawView := do
  if isNull j then return .unset
  match (← sfld j "t") with
  | "unset" => return .unset
  | "iterator" => return .iterator
  | "none" => return .none
  | "pairs" => return .pairs (← (← arr (fldD j "keys" (Json.arr #[]))).mapM parseVal)
  | "notIterable" => return .notIterable
  | "badPairs" => return .badPairs
  | t => throw s!"bad raw {t}"

def parseRaise (n : String) : Raise :=
  match n with
  | "KeyError" => .keyError | "ValueError" => .valueError | "TypeError" => .typeError
  | "AttributeError" => .attributeError | "RuntimeError" => .runtimeError
  | "LookupError" => .lookupError | "AssertionError" => .assertionError
  | _ => .unsupported

def parsePart (j : Json) : Except String PartVal :=
  match j with
  | .null => pure .none
  | .str s => pure (.str s.toList)
  | _ => pure .raises

def parsePort (j : Json) : Except String PortVal :=
  match j with
  | .null => pure .none
  | .num _ => do return .int (← j.getInt?)
  | _ => pure .raises

def parseSix (j : Json) : Except String Six := do
  match (← (← arr j).mapM chars) with
  | [a, b, c, d, e, f] =>
    return { scheme := a, netloc := b, path := c, params := d, query := e, fragment := f }
  | _ => throw "a parse result has six parts"

def parseLib (j : Json) : Except String UrlLib := do
  if isNull j then return {}
  let parse ← (← arr (fldD j "parse" (Json.arr #[]))).mapM (fun p => do
    match (← arr p) with
    | [t, r] =>
      let rs := fldD r "raises" Json.null
      if !isNull rs then
        return ((← chars t), (Sum.inl (parseRaise (← str rs)) : Raise ⊕ Parsed))
      else
        let rec' : Parsed := {
          six := ← parseSix (← fld r "six"),
          username := ← parsePart (fldD r "username" Json.null),
          password := ← parsePart (fldD r "password" Json.null),
          hostname := ← parsePart (fldD r "hostname" Json.null),
          port := ← parsePort (fldD r "port" Json.null) }
        return ((← chars t), Sum.inr rec')
    | _ => throw "bad parse entry")
  let u := fldD j "unparse" Json.null
  let unparse ← if isNull u then pure none else do
    let l ← (← arr u).mapM (fun p => do
      match (← arr p) with
      | [parts, r] =>
        let rs := fldD r "raises" Json.null
        let ps ← (← arr parts).mapM chars
        if !isNull rs then return (ps, (Sum.inl (parseRaise (← str rs)) : Raise ⊕ Val))
        else return (ps, Sum.inr (← valD r "v"))
      | _ => throw "bad unparse entry")
    pure (some l)
  return { parse := parse, unparse := unparse }

def parseView (j : Json) : Except String View := do
  let fields ← (← arr (fldD j "fields" (Json.arr #[]))).mapM parseField
  let sibs ← (← arr (fldD j "siblings" (Json.arr #[]))).mapM (fun p => do
    match (← arr p) with
    | [v, u] => return ((← parseVal v), (← chars u))
    | _ => throw "bad sibling")
  let sibState ← (← arr (fldD j "sibling_state" (Json.arr #[]))).mapM (fun p => do
    match (← arr p) with
    | [f, n] => return ((← optOf bool f), (← nat n))
    | _ => throw "bad sibling state")
  return {
    siblingState := sibState,
    value := ← valD j "value", u := ← chars (fldD j "u" (Json.str "")),
    label := ← valD j "label", name := ← valD j "name",
    isSequence := ← boolD j "is_seq" false,
    valueLen := ← optOf nat (fldD j "value_len" Json.null),
    childLabel := ← valD j "child_label",
    fields := fields,
    hasParent := ← boolD j "has_parent" false,
    containerLabel := ← valD j "container_label",
    siblings := sibs,
    pos := ← optOf nat (fldD j "pos" Json.null),
    raw := ← parseRaw (fldD j "raw" Json.null),
    schemaKeys := ← strsD j "schema_keys",
    idna := ← optOf chars (fldD j "idna" Json.null),
    localOk := ← optOf bool (fldD j "local_ok" Json.null),
    lib := ← parseLib (fldD j "lib" Json.null) }

def parseRules (j : Json) : Except String (List (Str × PartRule)) := do
  (← arr j).mapM (fun p => do
    match (← arr p) with
    | [k, r] =>
      let rule ← (match r with
        | .bool true => pure PartRule.always
        | .bool false => pure PartRule.off
        | .null => pure PartRule.off
        | _ => do return PartRule.oneOf (← (← arr r).mapM chars))
      return ((← chars k), rule)
    | _ => throw "bad rule")

def parseV (j : Json) : Except String V := do
  match (← sfld j "cls") with
  | "Present" => return .present
  | "IsTrue" => return .isTrue
  | "IsFalse" => return .isFalse
  | "Converted" => return .converted
  | "ValueIn" =>
    match (← fld j "valid_options") with
    | .str t => return .valueInText t.toList
    | o => return .valueIn (← (← arr o).mapM parseVal)
  | "ShorterThan" => return .shorterThan (← ifld j "maxlength")
  | "LongerThan" => return .longerThan (← ifld j "minlength")
  | "LengthBetween" => return .lengthBetween (← ifld j "minlength") (← ifld j "maxlength")
  | "ValueLessThan" => return .valueLessThan (← valD j "boundary")
  | "ValueAtMost" => return .valueAtMost (← valD j "maximum")
  | "ValueGreaterThan" => return .valueGreaterThan (← valD j "boundary")
  | "ValueAtLeast" => return .valueAtLeast (← valD j "minimum")
  | "ValueBetween" =>
    return .valueBetween (← valD j "minimum") (← valD j "maximum") (← boolD j "inclusive" true)
  | "MapEqual" => return .mapEqual .element
  | "ValuesEqual" => return .mapEqual .value
  | "UnisEqual" => return .mapEqual .u
  | "NotDuplicated" => return .notDuplicated
  | "HasAtLeast" => return .hasAtLeast (← intD j "minimum" 1)
  | "HasAtMost" => return .hasAtMost (← intD j "maximum" 1)
  | "HasBetween" => return .hasBetween (← intD j "minimum" 1) (← intD j "maximum" 1)
  | "SetWithKnownFields" => return .setWithKnownFields
  | "SetWithAllFields" => return .setWithAllFields
  | "Luhn10" => return .luhn10
  | "IsEmail" => return .isEmail (← boolD j "non_local" true)
  | "URLValidator" =>
    let schemes := fldD j "allowed_schemes" Json.null
    let s ← if isNull schemes then pure [['*']] else (← arr schemes).mapM chars
    let parts := fldD j "allowed_parts" Json.null
    let p ← if isNull parts then pure (UrlPart.all.map UrlPart.name) else (← arr parts).mapM chars
    return .urlValidator s p
  | "HTTPURLValidator" =>
    let defReq : List (Str × PartRule) :=
      [("scheme".toList, .oneOf ["http".toList, "https".toList]), ("hostname".toList, .always)]
    let defForb : List (Str × PartRule) :=
      [("username".toList, .always), ("password".toList, .always)]
    let r := fldD j "required_parts" Json.null
    let f := fldD j "forbidden_parts" Json.null
    let ap := fldD j "all_parts" Json.null
    return .httpURL (← if isNull ap then pure httpPartNames else (← arr ap).mapM chars)
                    (← if isNull r then pure defReq else parseRules r)
                    (← if isNull f then pure defForb else parseRules f)
  | "URLCanonicalizer" =>
    let d := fldD j "discard_parts" Json.null
    return .urlCanonicalizer (← if isNull d then pure ["fragment".toList] else (← arr d).mapM chars)
  | c => throw s!"unknown validator class {c}"

def run (j : Json) : Except String Json := do
  let v ← parseV (← fld j "v")
  let e ← parseView (← fld j "view")
  let preErrors ← (← arr (fldD j "pre_errors" (Json.arr #[]))).mapM chars
  let preWarnings ← (← arr (fldD j "pre_warnings" (Json.arr #[]))).mapM chars
  -- `note: "warning"`: the validator reports through `note_warning` — the same function on the
  -- element's warnings list (`Validator.note_warning` = `note_error` with `add_warning`)
  let warn := (← str (fldD (← fld j "v") "note" (Json.str "error"))) == "warning"
  let pre := if warn then preWarnings else preErrors
  let container ← boolD (← fld j "view") "container" false
  let ovs ← (← arr (fldD (← fld j "v") "messages" (Json.arr #[]))).mapM (fun p => do
    match (← arr p) with
    | [k, m] =>
      let msg : Msg ← (match m with
        | .str t => pure (Msg.plain t.toList)
        | _ => do
          match (← arr m) with
          | [a, b, c] => pure (Msg.plural (← chars a) (← chars b) (← chars c))
          | _ => throw "bad message override")
      return ((← str k), msg)
    | _ => throw "bad message override")
  let res := if warn then Flatland.C15.runWarnOverridden ovs v e pre else Flatland.C15.runOverridden ovs v e pre
  let spec := Spec.documented v e
  let known : Bool := match spec with
    | some d => Flatland.C15.Spec.excluded v e d
    | none => false
  let agrees : Bool := match res, spec with
    | .ok o, some b => o.verdict == b || known
    | _, _ => true
  -- the value the documentation promises for URLCanonicalizer (`canonicalizer_value`)
  let specValue : Bool := match v, spec, res with
    | .urlCanonicalizer ds, some _, .ok o => valJson o.value == valJson (Spec.canonValue ds e.value e.lib)
    | _, _, _ => true
  match res with
  | .error r =>
    return obj [("raise", Json.str r.name), ("verdict", Json.null),
                ("errors", ofList ofChars preErrors), ("warnings", ofList ofChars preWarnings),
                ("value_after", Json.null), ("spec_agrees", Json.bool agrees)]
  | .ok o =>
    return obj [("raise", Json.null), ("verdict", Json.bool o.verdict),
                ("warnings", ofList ofChars (if warn then o.errors else preWarnings)),
                ("errors", ofList ofChars (if warn then preErrors else o.errors)),
                ("value_after", if container then Json.str "<unchanged>" else valJson o.value),
                ("spec_agrees", Json.bool (agrees && specValue))]

end Flatland.Run.C15
