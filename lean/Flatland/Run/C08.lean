import Flatland.JsonUtil
open Lean Flatland.J
namespace Flatland.Run.C08

/-- JSON case in, JSON observation out (stub until the model of C08 is written). -/
def run (_j : Json) : Except String Json := .error "model runner for C08 not implemented yet"

end Flatland.Run.C08
