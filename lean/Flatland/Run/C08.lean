import Flatland.TreeJson
open Lean Flatland.J
namespace Flatland.Run.C08
open Flatland.Tree Flatland.C08 Flatland.TreeJson

/-- per reachable element: label, labels of `.parents`, label of `.root`; `all_children` of the
    root; for a call with Element arguments: is each one a child of the target afterwards -/
def view (s : St) (r : Option StepObs) : Json :=
  let els := reach [s.root]
  let fuel := fuelOf s
  let rows := els.map (fun e =>
    Json.arr #[lab s e.id,
      Json.arr ((parentsOf s.univ fuel e).map (fun p => lab s p.id)).toArray,
      lab s (rootOf s.univ fuel e).id,
      Json.arr ((pathOf s.univ fuel e).map (fun p => lab s p.id)).toArray])
  let ac := (allChildren s.root).map (fun e => lab s e.id)
  let placed : List Json := match r with
    | some ro =>
      (match ro.target with
       | some tid =>
         (match (nodes s.root).find? (fun n => n.id == tid) with
          | some t => ro.placed.map (fun a => Json.bool ((children t).any (fun c => c.id == a)))
          | none => ro.placed.map (fun _ => Json.bool false))
       | none => [])
    | none => []
  obj [("els", Json.arr rows.toArray), ("ac", Json.arr ac.toArray), ("placed", Json.arr placed.toArray)]

/-- Failure-path fields of round h8 — a second tree kept alive (`aux`, `tt`), `live` Element arguments (current
    members of a live tree handed to a placing call: aliasing, which the tree model cannot represent), an index
    that is no integer (`ix`), a sort key that raises (`"key": "raise"`) — are outside the model: the runner
    answers `unsupported` and the case is checked by the Python oracle only.  (Object KEYS are searched; keys of
    raw dict values travel as pair lists, so no data can collide with these names.) -/
partial def usesFailurePaths : Json → Bool
  | .obj kvs =>
    kvs.foldl (init := false) fun acc k v =>
      acc || k == "live" || k == "ix" || k == "aux" || k == "tt" || (k == "key" && v == Json.str "raise")
          || usesFailurePaths v
  | .arr xs => xs.any usesFailurePaths
  | _ => false

def run (j : Json) : Except String Json := do
  if usesFailurePaths j then return obj [("unsupported", Json.bool true)]
  runCase (← parseCase j) view

end Flatland.Run.C08
