import Flatland.JsonUtil
open Lean Flatland.J
namespace Flatland.Run.C04

/-- JSON case in, JSON observation out (stub until the model of C04 is written). -/
def run (_j : Json) : Except String Json := .error "model runner for C04 not implemented yet"

end Flatland.Run.C04
