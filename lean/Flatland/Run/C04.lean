import Flatland.JsonUtil
import Flatland.Scalar
import Flatland.C04
import Flatland.Spec.C04
import Flatland.Generated.C04Tables
open Lean Flatland.J
namespace Flatland.Run.C04
open Flatland.Scalar

/-! JSON glue for the scalar model (shared by the C04 and C18 runners). -/

def hexVal (c : Char) : Option Nat :=
  if '0' ≤ c && c ≤ '9' then some (c.toNat - 48)
  else if 'a' ≤ c && c ≤ 'f' then some (c.toNat - 87)
  else if 'A' ≤ c && c ≤ 'F' then some (c.toNat - 55)
  else none

/-- Python `hex(i)`: `-0x1f` -/
def parseHex (s : String) : Except String Int := do
  let cs := s.toList
  let (neg, cs) := match cs with | '-' :: r => (true, r) | r => (false, r)
  let cs ← match cs with | '0' :: 'x' :: r => pure r | _ => throw s!"bad hex int {s}"
  let mut n : Nat := 0
  for c in cs do
    match hexVal c with
    | some d => n := n * 16 + d
    | none => throw s!"bad hex digit in {s}"
  return if neg then - (n : Int) else n

def hexDigit (d : Nat) : Char := if d < 10 then Char.ofNat (48 + d) else Char.ofNat (87 + d)

partial def natHex (n : Nat) (acc : List Char := []) : List Char :=
  if n < 16 then hexDigit n :: acc else natHex (n / 16) (hexDigit (n % 16) :: acc)

def toHex (i : Int) : String :=
  let body := "0x" ++ String.ofList (natHex i.natAbs)
  if i < 0 then "-" ++ body else body

def parseTok (j : Json) : Except String Tok := do
  return { id := ← cfld j "id", str := ← cfld j "str",
           fmt := ← optOf chars (← fld j "fmt"),
           neg := ← optOf bool (← fld j "neg"),
           truthy := ← bfld j "truthy",
           toInt := ← optOf (fun x => do parseHex (← str x)) (← fld j "int") }

def natsOf (j : Json) : Except String (List Nat) := listOf nat j

def parseNative (j : Json) : Except String Native := do
  if isNull j then return .none
  match (← sfld j "t") with
  | "str" => return .str (← cfld j "v")
  | "int" => return .int (← parseHex (← sfld j "v"))
  | "bool" => return .bool (← bfld j "v")
  | "date" => match (← natsOf (← fld j "v")) with
              | [y, m, d] => return .date y m d
              | _ => throw "bad date"
  | "time" => match (← natsOf (← fld j "v")) with
              | [h, mi, s, us] => return .time h mi s us
              | _ => throw "bad time"
  | "datetime" => match (← natsOf (← fld j "v")) with
                  | [y, m, d, h, mi, s, us] => return .datetime y m d h mi s us
                  | _ => throw "bad datetime"
  | "float" => return .float (← parseTok (← fld j "tok"))
  | "decimal" => return .decimal (← parseTok (← fld j "tok"))
  | "other" => return .other (← cfld j "v") (← bfld j "truthy")
  | t => throw s!"bad native tag {t}"

def ofNats (l : List Nat) : Json := ofList ofNat l

/-- text in OUTPUT is a list of code points: the harness core splits the driver's output with
    `str.splitlines()`, which also breaks at U+0085, U+2028, U+2029 -/
def ofText (s : List Char) : Json := ofList (fun c => ofNat c.toNat) s

def ofNative : Native → Json
  | .none => Json.null
  | .str s => obj [("t", "str"), ("v", ofText s)]
  | .int i => obj [("t", "int"), ("v", Json.str (toHex i))]
  | .bool b => obj [("t", "bool"), ("v", Json.bool b)]
  | .date y m d => obj [("t", "date"), ("v", ofNats [y, m, d])]
  | .time h mi s us => obj [("t", "time"), ("v", ofNats [h, mi, s, us])]
  | .datetime y m d h mi s us => obj [("t", "datetime"), ("v", ofNats [y, m, d, h, mi, s, us])]
  | .float t => obj [("t", "float"), ("id", ofChars t.id)]
  | .decimal t => obj [("t", "decimal"), ("id", ofChars t.id)]
  | .other text truthy => obj [("t", "other"), ("v", ofText text), ("truthy", Json.bool truthy)]

partial def parseKind (j : Json) : Except String Kind := do
  match (← sfld j "k") with
  | "string" => return .string (← bfld j "strip")
  | "integer" => return .integer (← bfld j "signed") (← nfld j "width")
  | "float" => return .float (← bfld j "signed")
  | "decimal" => return .decimal (← bfld j "signed")
  | "boolean" => return .boolean (← cfld j "true") (← cfld j "false")
                   (← listOf chars (← fld j "tsyn")) (← listOf chars (← fld j "fsyn"))
  | "boolean_default" => return Flatland.Generated.C04.booleanDefault
  | "date" => return .date (← bfld j "strip")
  | "time" => return .time (← bfld j "strip")
  | "datetime" => return .datetime (← bfld j "strip")
  | "constrained" =>
    let child ← parseKind (← fld j "child")
    let vj ← fld j "valid"
    let valid ← match (← sfld vj "v") with
      | "never" => pure Valid.never
      | "always" => pure Valid.always
      | "oneof" => do pure (Valid.oneOf (← listOf parseNative (← fld vj "vals")))
      | s => throw s!"bad valid {s}"
    return .constrained child valid
  | k => throw s!"bad kind {k}"

/-- the opaque float()/Decimal() results recorded by the harness for this case -/
def parseConv (j : Json) : Except String (Bool → Native → Option (Option Tok)) := do
  let entries ← (← arr j).mapM fun e => do
    let dec ← bfld e "dec"
    let key ← parseNative (← fld e "key")
    let tok ← optOf parseTok (← fld e "tok")
    return (dec, key, tok)
  return Flatland.Scalar.Spec.tableConv entries

def parseConvEntries (j : Json) : Except String (List (Bool × Native × Option Tok)) := do
  (← arr j).mapM fun e => do
    return (← bfld e "dec", ← parseNative (← fld e "key"), ← optOf parseTok (← fld e "tok"))

def raiseName : Raise → String
  | .valueError => "ValueError"
  | .tableMiss => "HARNESS-TABLE-MISS"

def stateJson0 (st : SState) : Json := obj [("v", ofNative st.value), ("u", ofText st.u)]

/-- the signals of a scalar `set()`: `adapted` and the (value, u) a listener reads at that moment,
    from the assignment-by-assignment trace of the model -/
def traceSignals (E : Env) (k : Kind) (x : Native) : Json :=
  match Flatland.C04.scalarSetTrace E k Flatland.C04.blankState x with
  | .ok (_, _, sigs) => ofList (fun (p : Bool × SState) => Json.arr #[Json.bool p.1, stateJson0 p.2]) sigs
  | .error _ => Json.null

def setJson (r : Except Raise SetResult) : Json :=
  match r with
  | .error e => obj [("exc", Json.str (raiseName e)), ("flag", Json.null), ("value", Json.null),
                     ("u", Json.null), ("raw", Json.null)]
  | .ok r => obj [("exc", Json.null), ("flag", Json.bool r.flag), ("value", ofNative r.st.value), ("raw", ofNative r.st.raw),
                  ("u", ofText r.st.u)]

def envOf (j : Json) : Except String Env := do
  let conv ← parseConv (fldD j "conv" (Json.arr #[]))
  return { T := Flatland.Generated.C04.pyTables, conv := conv }

/-- one scalar case: `el.set(x)`, and when that succeeded `el2.set(el.u)` on a fresh element -/
def runScalar (j : Json) : Except String Json := do
  let E ← envOf j
  let k ← parseKind (← fld j "kind")
  let x ← parseNative (← fld j "x")
  let r := setScalar E k x
  let first := (setJson r).setObjVal! "signals" (traceSignals E k x)
  let reset := match r with
    | .ok res => if res.flag then (setJson (setScalar E k (.str res.st.u))).setObjVal! "signals" (traceSignals E k (.str res.st.u)) else Json.null
    | .error _ => Json.null
  let entries ← parseConvEntries (fldD j "conv" (Json.arr #[]))
  return obj [("set", first), ("reset", reset),
              ("opaque_stable", Json.bool (Flatland.Scalar.Spec.opaqueStableOn Flatland.Generated.C04.pyTables entries))]

open Flatland.C04 in
partial def parseSchema (j : Json) : Except String Schema := do
  match (← sfld j "s") with
  | "scalar" => return .scalar (← parseKind (← fld j "kind"))
  | "seq" => return .seq (← parseSchema (← fld j "member"))
  | "dict" =>
    let fs ← (← afld j "fields").mapM fun f => do
      match (← arr f) with
      | [n, sch] => return (← chars n, ← parseSchema sch)
      | _ => throw "bad field"
    let pol ← match (← sfld j "policy") with
      | "subset" => pure Policy.subset | "duck" => pure Policy.duck
      | p => throw s!"bad policy {p}"
    return .dict pol (fs.map (·.1)) (fs.map (·.2))
  | "date" =>
    match j.getObjVal? "members" with
    | .ok mj => match (← arr mj) with
                | [a, b, c] => return .date (← parseKind a) (← parseKind b) (← parseKind c)
                | _ => throw "bad date members"
    | .error _ => return .date (.integer true 4) (.integer true 2) (.integer true 2)
  | "joined" =>
    let sp ← match (fldD j "splitter" (Json.str "static")) with
      | .str "static" => pure Splitter.static
      | .str "commaws" => pure Splitter.commaWs
      | o => do pure (Splitter.anyOf (← cfld o "anyof"))
    return .joined (← cfld j "sep") sp (← bfld j "prune") (← parseKind (← fld j "member"))
  | t => throw s!"bad schema {t}"

open Flatland.C04 in
partial def parseInput (j : Json) : Except String Input := do
  match (← sfld j "i") with
  | "leaf" => return .leaf (← parseNative (← fld j "v"))
  | "list" => return .list (← (← afld j "v").mapM parseInput)
  | "dict" =>
    let ps ← (← afld j "v").mapM fun p => do
      match (← arr p) with
      | [k, v] => return (← parseNative k, ← parseInput v)
      | _ => throw "bad dict item"
    return .dict ps
  | t => throw s!"bad input {t}"

def stateJson (st : SState) : Json := obj [("v", ofNative st.value), ("u", ofText st.u)]

open Flatland.C04 in
partial def elemJson : Elem → Json
  | .scalar st => stateJson st
  | .seq ms => obj [("seq", ofList elemJson ms)]
  | .dict ms => obj [("dict", ofList elemJson ms)]
  | .date y m d => obj [("date", ofList stateJson [y, m, d])]
  | .joined ms => obj [("joined", ofList stateJson ms)]

open Flatland.C04 in
def craiseName : CRaise → String
  | .scalar r => raiseName r
  | .keyError => "KeyError"
  | .typeError => "TypeError"
  | .unmodelled => "HARNESS-UNMODELLED-INPUT"

/-- a container case: optional preliminary `set(pre)`, then the observed `set(x)` -/
def runTree (j : Json) : Except String Json := do
  let E ← envOf j
  let S ← parseSchema (← fld j "schema")
  let x ← parseInput (← fld j "x")
  let start ← match j.getObjVal? "pre" with
    | .ok pj => if isNull pj then pure (Flatland.C04.blank S) else do
        match Flatland.C04.setElem E S (Flatland.C04.blank S) (← parseInput pj) with
        | .ok out => pure out.elem
        | .error _ => pure (Flatland.C04.blank S)
    | .error _ => pure (Flatland.C04.blank S)
  match Flatland.C04.setElem E S start x with
  | .error e => return obj [("exc", Json.str (craiseName e)), ("flag", Json.null), ("sigs", Json.null),
                            ("tree", Json.null)]
  | .ok out =>
    return obj [("exc", Json.null), ("flag", Json.bool out.flag),
      ("sigs", ofList (fun (s : Flatland.C04.Sig) => Json.arr #[(match s.1 with | some p => ofNats p | none => Json.null), Json.bool s.2.1, elemJson s.2.2]) out.sigs),
      ("tree", elemJson out.elem)]

def run (j : Json) : Except String Json := do
  match (← sfld j "mode") with
  | "scalar" => runScalar j
  | "tree" => runTree j
  | m => throw s!"bad mode {m}"

end Flatland.Run.C04
