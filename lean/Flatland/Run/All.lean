import Flatland.Run.C05
open Lean
namespace Flatland.Run

def dispatch (p : String) (j : Json) : Except String Json :=
  match p with
  | "C05" => C05.run j
  | _ => .error s!"no model runner for property {p}"

end Flatland.Run
