import Flatland.Run.C01
import Flatland.Run.C02
import Flatland.Run.C03
import Flatland.Run.C04
import Flatland.Run.C05
import Flatland.Run.C06
import Flatland.Run.C07
import Flatland.Run.C08
import Flatland.Run.C09
import Flatland.Run.C10
import Flatland.Run.C11
import Flatland.Run.C12
import Flatland.Run.C13
import Flatland.Run.C14
import Flatland.Run.C15
import Flatland.Run.C16
import Flatland.Run.C17
import Flatland.Run.C18
import Flatland.Run.C19
import Flatland.Run.C20
open Lean
namespace Flatland.Run

def dispatch (p : String) (j : Json) : Except String Json :=
  match p with
  | "C01" => C01.run j
  | "C02" => C02.run j
  | "C03" => C03.run j
  | "C04" => C04.run j
  | "C05" => C05.run j
  | "C06" => C06.run j
  | "C07" => C07.run j
  | "C08" => C08.run j
  | "C09" => C09.run j
  | "C10" => C10.run j
  | "C11" => C11.run j
  | "C12" => C12.run j
  | "C13" => C13.run j
  | "C14" => C14.run j
  | "C15" => C15.run j
  | "C16" => C16.run j
  | "C17" => C17.run j
  | "C18" => C18.run j
  | "C19" => C19.run j
  | "C20" => C20.run j
  | _ => .error s!"no model runner for property {p}"

end Flatland.Run
