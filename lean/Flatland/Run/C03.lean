import Flatland.JsonUtil
import Flatland.C03
open Lean
open Flatland.J hiding Str
namespace Flatland.Run.C03
open Flatland.C03

def optStr (j : Json) : Except String (Option Str) := optOf chars j

/-- natives as tagged JSON: null | {"s":text} | {"a":atom tag} | [..] | {"d":[[k,v]..]} |
    {"pairs":[[k,v]..]} | {"junk":1} -/
partial def parseNative (j : Json) : Except String Native := do
  if isNull j then return .none
  if let .ok l := j.getArr? then return .list (← l.toList.mapM parseNative)
  if let .ok s := fld j "s" then return .text (← chars s)
  if let .ok a := fld j "a" then return .atom (← chars a)
  if let .ok d := fld j "d" then
    return .dict (← (← arr d).mapM (fun p => do
      match (← arr p) with
      | [k, v] => return ((← chars k), (← parseNative v))
      | _ => throw "bad dict pair"))
  if let .ok d := fld j "pairs" then
    return .pairs (← (← arr d).mapM (fun p => do
      match (← arr p) with
      | [k, v] => return ((← chars k), (← parseNative v))
      | _ => throw "bad pair"))
  if let .ok _ := fld j "junk" then return .junk
  throw s!"bad native {j.compress}"

partial def nativeJson : Native → Json
  | .none => Json.null
  | .atom t => obj [("a", ofChars t)]
  | .text s => obj [("s", ofChars s)]
  | .list xs => ofList nativeJson xs
  | .dict kvs => obj [("d", ofList (fun (p : Str × Native) => Json.arr #[ofChars p.1, nativeJson p.2]) kvs)]
  | .pairs kvs => obj [("pairs", ofList (fun (p : Str × Native) => Json.arr #[ofChars p.1, nativeJson p.2]) kvs)]
  | .junk => obj [("junk", ofNat 1)]

partial def parseSchema (j : Json) : Except String Schema := do
  let t ← sfld j "t"
  let name ← optStr (← fld j "name")
  let opt := (bool (fldD j "opt" (Json.bool false))).toOption.getD false
  match t with
  | "leaf" => return .leaf name opt (← nfld j "k")
  | "dict" =>
    let mode ← match (← sfld j "mode") with
      | "dense" => pure DictMode.dense | "sparse" => pure DictMode.sparse
      | "sparseReq" => pure DictMode.sparseReq | m => throw s!"bad mode {m}"
    let policy ← match (← sfld j "policy") with
      | "strict" => pure Policy.strict | "subset" => pure Policy.subset | "duck" => pure Policy.duck
      | "off" => pure Policy.off | m => throw s!"bad policy {m}"
    return .dict name opt mode policy (← (← afld j "fields").mapM parseSchema)
  | "seq" => return .seq name opt (← parseSchema (← fld j "member"))
  | t => throw s!"bad schema tag {t}"

partial def elemJson : Elem → Json
  | .leaf v u parts => obj [("v", nativeJson v), ("u", ofChars u), ("parts", ofList ofChars parts)]
  | .dict ms => obj [("dict", ofList (fun (p : Str × Elem) => Json.arr #[ofChars p.1, elemJson p.2]) ms)]
  | .seq ms => obj [("seq", ofList elemJson ms)]

/-- adapt table: [[k, native, flag, value, u, parts]...], blank table: [[k, value, u, parts]...];
    natives are compared through their compressed JSON -/
def parseEnv (j : Json) : Except String Env := do
  let adaptT ← (← afld j "adapt").mapM (fun e => do
    match (← arr e) with
    | [k, x, f, v, u, ps] =>
      return ((← nat k), x.compress, (← bool f), (← parseNative v), (← chars u), (← (← arr ps).mapM chars))
    | _ => throw "bad adapt entry")
  let bt ← (← afld j "blank").mapM (fun e => do
    match (← arr e) with
    | [k, v, u, ps] => return ((← nat k), (← parseNative v), (← chars u), (← (← arr ps).mapM chars))
    | _ => throw "bad blank entry")
  let missing : Str := "?missing".toList
  return {
    adapt := fun k x =>
      let key := (nativeJson x).compress
      match adaptT.find? (fun e => e.1 == k && e.2.1 == key) with
      | some e => (e.2.2.1, e.2.2.2.1, e.2.2.2.2.1, e.2.2.2.2.2)
      | none => (false, .junk, missing, [])
    blankLeaf := fun k =>
      match bt.find? (fun e => e.1 == k) with
      | some e => e.2
      | none => (.junk, missing, []) }

def resultJson (r : Except Raise (Elem × Bool)) : Json :=
  match r with
  | .error .keyError => obj [("raise", Json.str "KeyError")]
  | .error .typeError => obj [("raise", Json.str "TypeError")]
  | .ok (e, f) => obj [("flag", Json.bool f), ("elem", elemJson e), ("value", nativeJson (value e))]

/-- case: schema, x (native), env -/
def run (j : Json) : Except String Json := do
  let s ← parseSchema (← fld j "schema")
  let env ← parseEnv (← fld j "env")
  let x ← parseNative (← fld j "x")
  let r := setNative env s x
  let again : Json := match r with
    | .ok (e, _) => resultJson (setNative env s (value e))
    | _ => Json.null
  return obj [("first", resultJson r), ("again", again)]

end Flatland.Run.C03
