import Flatland.JsonUtil
open Lean Flatland.J
namespace Flatland.Run.C03

/-- JSON case in, JSON observation out (stub until the model of C03 is written). -/
def run (_j : Json) : Except String Json := .error "model runner for C03 not implemented yet"

end Flatland.Run.C03
