import Flatland.JsonUtil
import Flatland.C03
open Lean
open Flatland.J hiding Str
namespace Flatland.Run.C03
open Flatland.C03

def optStr (j : Json) : Except String (Option Str) := optOf chars j

/-- natives as tagged JSON: null | {"s":text} | {"a":atom tag} | [..] (list, generator) |
    {"t":[..]} (tuple) | {"d":[[k,v]..]} (keys are natives) | {"nt":[[name,v]..]} (namedtuple) |
    {"junk":1} -/
partial def parseNative (j : Json) : Except String Native := do
  if isNull j then return .none
  if let .ok l := j.getArr? then return .list (← l.toList.mapM parseNative)
  if let .ok s := fld j "s" then return .text (← chars s)
  if let .ok a := fld j "a" then return .atom (← chars a)
  if let .ok t := fld j "t" then return .tuple (← (← arr t).mapM parseNative)
  if let .ok d := fld j "d" then
    return .dict (← (← arr d).mapM (fun p => do
      match (← arr p) with
      | [k, v] => return ((← parseNative k), (← parseNative v))
      | _ => throw "bad dict pair"))
  if let .ok d := fld j "nt" then
    return .ntuple (← (← arr d).mapM (fun p => do
      match (← arr p) with
      | [k, v] => return ((← chars k), (← parseNative v))
      | _ => throw "bad namedtuple field"))
  if let .ok _ := fld j "junk" then return .junk
  throw s!"bad native {j.compress}"

partial def nativeJson : Native → Json
  | .none => Json.null
  | .atom t => obj [("a", ofChars t)]
  | .text s => obj [("s", ofChars s)]
  | .list xs => ofList nativeJson xs
  | .tuple xs => obj [("t", ofList nativeJson xs)]
  | .dict kvs => obj [("d", ofList (fun (p : Native × Native) => Json.arr #[nativeJson p.1, nativeJson p.2]) kvs)]
  | .ntuple kvs => obj [("nt", ofList (fun (p : Str × Native) => Json.arr #[ofChars p.1, nativeJson p.2]) kvs)]
  | .junk => obj [("junk", ofNat 1)]

partial def parseSchema (j : Json) : Except String Schema := do
  let t ← sfld j "t"
  let name ← optStr (← fld j "name")
  let opt := (bool (fldD j "opt" (Json.bool false))).toOption.getD false
  match t with
  | "leaf" => return .leaf name opt (← nfld j "k")
  | "dict" =>
    let mode ← match (← sfld j "mode") with
      | "dense" => pure DictMode.dense | "sparse" => pure DictMode.sparse
      | "sparseReq" => pure DictMode.sparseReq | m => throw s!"bad mode {m}"
    let policy ← match (← sfld j "policy") with
      | "strict" => pure Policy.strict | "subset" => pure Policy.subset | "duck" => pure Policy.duck
      | "off" => pure Policy.off | m => throw s!"bad policy {m}"
    return .dict name opt mode policy (← (← afld j "fields").mapM parseSchema)
  | "seq" => return .seq name opt (← parseSchema (← fld j "member"))
  | t => throw s!"bad schema tag {t}"

partial def elemJson : Elem → Json
  | .leaf v u parts => obj [("v", nativeJson v), ("u", ofChars u), ("parts", ofList ofChars parts)]
  | .dict ms => obj [("dict", ofList (fun (p : Str × Elem) => Json.arr #[ofChars p.1, elemJson p.2]) ms)]
  | .seq ms => obj [("seq", ofList elemJson ms)]

def missing : Str := "?missing".toList

def stateEq (a b : LeafState) : Bool := decide (a = b)

def mkEnv (adaptT : List (Nat × String × Bool × LeafState))
    (adapt2T : List (Nat × LeafState × String × Bool × LeafState)) (bt : List (Nat × LeafState)) : Env :=
  let blankLeaf : Nat → LeafState := fun k =>
    match bt.find? (fun e => e.1 == k) with
    | some e => e.2
    | none => (.junk, missing, [])
  { adapt := fun (k : Nat) (st : LeafState) (x : Native) =>
      let key := (nativeJson x).compress
      if stateEq st (blankLeaf k) then
        match adaptT.find? (fun e => e.1 == k && e.2.1 == key) with
        | some e => e.2.2
        | none => (false, .junk, missing, [])
      else
        match adapt2T.find? (fun e => e.1 == k && stateEq e.2.1 st && e.2.2.1 == key) with
        | some e => e.2.2.2
        | none => (false, .junk, missing, [])
    blankLeaf := blankLeaf }

/-- adapt table of fresh leaf-likes: [[k, native, flag, value, u, parts]...]; of leaf-likes that were
    set before (reached through duplicate keys): adapt2 [[k, [value, u, parts], native, flag, value, u,
    parts]...]; blank table: [[k, value, u, parts]...].  Inputs are looked up through their compressed
    JSON. -/
def parseEnv (j : Json) : Except String Env := do
  let state (v u ps : Json) : Except String LeafState := do
    return ((← parseNative v), (← chars u), (← (← arr ps).mapM chars))
  let adaptT ← (← afld j "adapt").mapM (fun e => do
    match (← arr e) with
    | [k, x, f, v, u, ps] => return ((← nat k), x.compress, (← bool f), (← state v u ps))
    | _ => throw "bad adapt entry")
  let adapt2T ← (← arr (fldD j "adapt2" (Json.arr #[]))).mapM (fun e => do
    match (← arr e) with
    | [k, c, x, f, v, u, ps] =>
      match (← arr c) with
      | [cv, cu, cps] => return ((← nat k), (← state cv cu cps), x.compress, (← bool f), (← state v u ps))
      | _ => throw "bad adapt2 state"
    | _ => throw "bad adapt2 entry")
  let bt ← (← afld j "blank").mapM (fun e => do
    match (← arr e) with
    | [k, v, u, ps] => return ((← nat k), (← state v u ps))
    | _ => throw "bad blank entry")
  return mkEnv adaptT adapt2T bt

def resultJson (r : Except Raise (Elem × Bool)) : Json :=
  match r with
  | .error .keyError => obj [("raise", Json.str "KeyError")]
  | .error .typeError => obj [("raise", Json.str "TypeError")]
  | .ok (e, f) => obj [("flag", Json.bool f), ("elem", elemJson e), ("value", nativeJson (value e))]

partial def parseElem (j : Json) : Except String Elem := do
  if let .ok d := fld j "dict" then
    return .dict (← (← arr d).mapM (fun p => do
      match (← arr p) with
      | [k, e] => return ((← chars k), (← parseElem e))
      | _ => throw "bad dict member"))
  if let .ok l := fld j "seq" then return .seq (← (← arr l).mapM parseElem)
  return .leaf (← parseNative (← fld j "v")) (← cfld j "u") (← (← afld j "parts").mapM chars)

def parseKey (j : Json) : Except String Key :=
  match j.getNat? with
  | .ok n => pure (.idx n)
  | .error _ => do return .name (← chars j)

def stepRaiseJson : StepRaise → Json
  | .keyError => obj [("raise", Json.str "KeyError")]
  | .typeError => obj [("raise", Json.str "TypeError")]
  | .indexError => obj [("raise", Json.str "IndexError")]

/-- the history before the `set()` the property talks about.  Steps: {"op":"set","path","x"} (the
    member's own `set()`, the element's with the empty path), {"op":"setitem","path","key","fresh","x"}
    (item assignment; `fresh`: an Array builds a new member), {"op":"state","cur"} (the state the real
    element was in after a step the model does not run: `set_flat()`).  A step may carry "resync": the
    state of the real element after it, adopted when the step raised (what a `set()` that raised half-way
    leaves is not modelled).  Returns the state after the history and one observation per step. -/
def runPre (env : Env) (s : Schema) : Elem → List Json → Except String (Elem × List Json)
  | cur, [] => pure (cur, [])
  | cur, j :: rest => do
    let op ← sfld j "op"
    let (next, out) ← (do
      if op == "state" then
        let e ← parseElem (← fld j "cur")
        return (e, obj [("adopted", Json.bool true), ("shaped", Json.bool (shapedB env s e))])
      let path ← (← afld j "path").mapM parseKey
      let x ← parseNative (← fld j "x")
      let (st, isSet) ← (do
        if op == "set" then return (Step.set path x, true)
        if op == "setitem" then
          return (Step.setItem path (← parseKey (← fld j "key")) (← bfld j "fresh") x, false)
        throw s!"bad step {op}" : Except String (Step × Bool))
      match applyStep env s cur st with
      | .ok (e, f) =>
        return (e, obj [("flag", if isSet then Json.bool f else Json.null), ("elem", elemJson e)])
      | .error r =>
        let rs := fldD j "resync" Json.null
        let e ← if isNull rs then pure cur else parseElem rs
        return (e, stepRaiseJson r) : Except String (Elem × Json))
    let (fin, outs) ← runPre env s next rest
    return (fin, out :: outs)

/-- case: schema, x (native), env, pre (the element's history, see `runPre`).  `first`: the element
    after its history, set with x; `again`: a fresh element set with the first one's exported value;
    `cur_shaped`: the state after the history conforms to the schema (`shapedB`, the premise `Shaped` of
    `Proofs.C03.reimport`); `hyp_holds` / `hyp_true`: the hypothesis of `reimport` / `reimport_true`
    evaluated on the first element with the tables of the real classes.  `spec_agrees` is False should
    the computed results contradict the theorems. -/
def run (j : Json) : Except String Json := do
  let s ← parseSchema (← fld j "schema")
  let env ← parseEnv (← fld j "env")
  let x ← parseNative (← fld j "x")
  let (cur, pre) ← runPre env s (blank env s) (← arr (fldD j "pre" (Json.arr #[])))
  let shaped := shapedB env s cur
  let r := setNative env s cur x
  match r with
  | .ok (e, f) =>
    let r2 := setNative env s (blank env s) (value e)
    let hyp := leafStable env false s e
    let hypT := leafStable env true s e
    let same := match r2 with
      | .ok (e2, _) => (elemJson e2).compress == (elemJson e).compress
      | _ => false
    let flag2 := match r2 with
      | .ok (_, f2) => f2
      | _ => false
    let contradiction := f && shaped && ((hyp && !same) || (hypT && !(same && flag2)))
    return obj [("pre", Json.arr pre.toArray), ("cur_shaped", Json.bool shaped),
      ("first", resultJson r), ("again", resultJson r2),
      ("hyp_holds", Json.bool hyp), ("hyp_true", Json.bool hypT), ("spec_agrees", Json.bool (!contradiction))]
  | _ => return obj [("pre", Json.arr pre.toArray), ("cur_shaped", Json.bool shaped),
      ("first", resultJson r), ("again", Json.null), ("hyp_holds", Json.null), ("hyp_true", Json.null)]

end Flatland.Run.C03
