import Flatland.JsonUtil
import Flatland.Path
import Flatland.Spec.C13
import Flatland.Run.C14
open Lean Flatland.J
namespace Flatland.Run.C13
open Flatland.Path Flatland.Run.C14

/-- case: {"tree": node, "starts": [ids]}.  Observation: `fq_name()` of every element
    (preorder) and `find(fq_name)` from every start, as labels. -/
def run (j : Json) : Except String Json := do
  let tj ← fld j "tree"
  let root ← parseTree tj
  let tbl ← idTable tj []
  let starts ← (← afld j "starts").mapM (fun s => do posOf tbl (← nat s))
  let fq := tbl.map (fun (p : Pos × Nat) => Json.arr #[ofNat p.2, encStr (fqName root p.1)])
  let found := tbl.flatMap (fun (p : Pos × Nat) =>
    starts.map (fun s =>
      Json.arr #[ofNat p.2, idOf tbl s, resJson tbl (find root s (fqName root p.1) false true)]))
  -- spec B: every element whose path the grammar can spell is found, alone, from every start
  let specOk := tbl.all (fun (p : Pos × Nat) =>
    !(Flatland.C13.Spec.addressable root p.1) ||
      starts.all (fun s => Flatland.C13.Spec.isInverseAt root s p.1))
  -- `find_fq_iff` re-checked on the case: on spellable positions the law holds at (start, pos) IF AND
  -- ONLY IF the position is addressable
  let iffOk := tbl.all (fun (p : Pos × Nat) =>
    !(Flatland.C13.Spec.spellable root p.1) ||
      starts.all (fun s =>
        Flatland.C13.Spec.isInverseAt root s p.1 == Flatland.C13.Spec.addressable root p.1))
  return obj [("fq", Json.arr fq.toArray), ("found", Json.arr found.toArray),
    ("spec_agrees", Json.bool (specOk && iffOk))]

end Flatland.Run.C13
