import Flatland.JsonUtil
open Lean Flatland.J
namespace Flatland.Run.C13

/-- JSON case in, JSON observation out (stub until the model of C13 is written). -/
def run (_j : Json) : Except String Json := .error "model runner for C13 not implemented yet"

end Flatland.Run.C13
