import Flatland.JsonUtil
open Lean Flatland.J
namespace Flatland.Run.C01

/-- JSON case in, JSON observation out (stub until the model of C01 is written). -/
def run (_j : Json) : Except String Json := .error "model runner for C01 not implemented yet"

end Flatland.Run.C01
