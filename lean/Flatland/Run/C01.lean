import Flatland.Run.FlatCommon
import Flatland.Spec.C01Sparse
open Lean
open Flatland.J hiding Str
namespace Flatland.Run.C01
open Flatland.Flat Flatland.Flat.Spec Flatland.Run.FlatCommon

/-- case: schema, sep, elem (state of the element populated with set()), env, sep_safe (the
    harness's reading of `SepSafe`, not decidable inside Lean).

    Besides the model's two round trips the runner returns spec B of `roundtrip_sparse`:
    `prs_elem` = `prS e` (compared by the harness with the tree the REAL `from_flat(flatten(e))`
    builds whenever the theorem's hypotheses hold) and `thm_hyp` = the decidable hypotheses
    `OkS e ∧ wf s ∧ rootOK s ∧ EnvOK` (compared with the harness's own transcription).
    `spec_agrees` re-checks the theorem's conclusion and `sparseNormal (prS e)` on every case the
    theorem applies to, and — not theorems yet, checked at run time — `OkS (prS e)` when `blankSettled`,
    `flatten (prS (prS e)) = flatten (prS e)` when `blankSettled` and `prefixFree` (without `prefixFree`
    the second trip can materialise further blank members: thorough seed 0 found the cascade
    SparseDict{y?: Dict{s: SparseDict/required{b*?, b*b}}, yb} holding {yb}). -/
def run (j : Json) : Except String Json := do
  let s ← parseSchema (← fld j "schema")
  let sep ← cfld j "sep"
  let env ← parseEnv (← fld j "env")
  let e ← parseElem (← fld j "elem")
  let sepSafe := (bool (fldD j "sep_safe" (Json.bool false))).toOption.getD false
  let f0 := flatten env sep s e
  let e1 := fromFlat env sep s f0
  let f1 := flatten env sep s e1
  let e2 := fromFlat env sep s f1
  let f2 := flatten env sep s e2
  let p1 := prS env sep false s e
  let p2 := prS env sep false s p1
  let envOK := env.ndZeros.head? == some 48
  let hyp := okSB env s e && wfS s && rootOK s && envOK
  let same (a b : Elem) : Bool := (elemJson a).compress == (elemJson b).compress
  let concl := same e1 p1
  let idemTree := same p2 p1
  let idem := flatten env sep s p2 == flatten env sep s p1
  let normal := sparseNormal s p1
  let okAgain := okSB env s p1
  let bs := blankSettled env s
  let pf := prefixFree s
  let agrees := !(hyp && sepSafe) || (concl && normal && (!bs || okAgain) && (!(bs && pf) || idem))
  return obj [("flatten", pairsJson f0), ("rt_elem", elemJson e1), ("rt_flatten", pairsJson f1),
              ("rt2_flatten", pairsJson f2), ("prs_elem", elemJson p1), ("thm_hyp", Json.bool hyp),
              ("has_sparse", Json.bool (hasSparse s)), ("prefix_free", Json.bool pf),
              ("in_normal", Json.bool (sparseNormal s e)), ("blank_settled", Json.bool bs),
              ("prs_checks", obj [("concl", Json.bool concl), ("idem_flatten", Json.bool idem), ("idem_tree", Json.bool idemTree),
                                  ("normal", Json.bool normal), ("ok_again", Json.bool okAgain)]),
              ("spec_agrees", Json.bool agrees)]

end Flatland.Run.C01
