import Flatland.Run.FlatCommon
open Lean
open Flatland.J hiding Str
namespace Flatland.Run.C01
open Flatland.Flat Flatland.Run.FlatCommon

/-- case: schema, sep, elem (state of the element populated with set()), env -/
def run (j : Json) : Except String Json := do
  let s ← parseSchema (← fld j "schema")
  let sep ← cfld j "sep"
  let env ← parseEnv (← fld j "env")
  let e ← parseElem (← fld j "elem")
  let f0 := flatten env sep s e
  let e1 := fromFlat env sep s f0
  let f1 := flatten env sep s e1
  let e2 := fromFlat env sep s f1
  let f2 := flatten env sep s e2
  return obj [("flatten", pairsJson f0), ("rt_elem", elemJson e1), ("rt_flatten", pairsJson f1),
              ("rt2_flatten", pairsJson f2)]

end Flatland.Run.C01
