import Flatland.JsonUtil
open Lean Flatland.J
namespace Flatland.Run.C06

/-- JSON case in, JSON observation out (stub until the model of C06 is written). -/
def run (_j : Json) : Except String Json := .error "model runner for C06 not implemented yet"

end Flatland.Run.C06
