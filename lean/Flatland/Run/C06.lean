import Flatland.JsonUtil
import Flatland.C06
import Flatland.Spec.C06
open Lean Flatland.J
namespace Flatland.Run.C06
open Flatland.C06

def parseKind (s : String) : Except String Kind :=
  match s with
  | "String" | "Integer" | "Boolean" | "Long" | "Float" | "Decimal" | "DateTime" | "Date" | "Time"
  | "Constrained" => pure .scalar
  | "Enum" => pure .enum
  | "Ref" => pure .ref
  | "Dict" | "SparseDict" => pure .dict
  | "List" | "Array" | "MultiValue" => pure .seq
  | "DateYYYYMMDD" => pure .compound
  | s => throw s!"bad base {s}"

def attrsOf : Kind → List Attr
  | .scalar => [.name, .optional, .default, .validators]
  | .enum => [.name, .optional, .default, .validators, .validValues]
  | .ref => [.name, .optional, .default, .validators, .targetPath]
  | .dict => [.name, .optional, .default, .validators, .descentValidators, .fieldSchema, .policy]
  | .seq => [.name, .optional, .default, .validators, .descentValidators, .memberSchema]
  | .compound => [.name, .optional, .default, .validators, .descentValidators, .fieldSchema]

def attrName : Attr → String
  | .name => "name" | .optional => "optional" | .default => "default" | .validators => "validators"
  | .descentValidators => "descent_validators" | .memberSchema => "member_schema"
  | .fieldSchema => "field_schema" | .validValues => "valid_values" | .targetPath => "target_path"
  | .policy => "policy"

def parseKwName (s : String) : KwName :=
  match s with
  | "name" => .attr .name | "optional" => .attr .optional | "default" => .attr .default
  | "validators" => .attr .validators | "descent_validators" => .attr .descentValidators
  | "properties" => .properties
  | "field_schema" => .attr .fieldSchema
  | "policy" => .attr .policy
  | _ => .bogus

def parseKwVal (n : KwName) (j : Json) : Except String KwVal :=
  match n, j with
  | .properties, j => do
    let ps ← (← arr j).mapM (fun p => do
      match (← arr p) with
      | [k, v] => pure ((← chars k), (← int v))
      | _ => throw "bad pair")
    return .pairs ps
  | .attr .validators, j | .attr .descentValidators, j => do return .labels (← (← arr j).mapM nat)
  | .attr .fieldSchema, j => do
    -- a member is [name, optional] (a fresh Integer) or ["ref", i, j, optional|null] (the j-th member of
    -- class i's current field_schema, possibly .using(optional=…))
    let ms ← (← arr j).mapM (fun p => do
      match (← arr p) with
      | [n, o] => pure (Sum.inl ((← chars n), (← bool o)) : Sum (C06.Str × Bool) (ClassId × Nat × Option Bool))
      | [_, i, k, o] => pure (Sum.inr ((← nat i), (← nat k), (← optOf bool o)))
      | _ => throw "bad member")
    if ms.all (fun m => match m with | .inl _ => true | .inr _ => false) then
      return .members (ms.filterMap (fun m => match m with | .inl x => some x | .inr _ => none))
    else return .memberRefs ms
  | _, .null => pure .none
  | _, .bool b => pure (.bool b)
  | _, .str s => pure (.str s.toList)
  | _, .num _ => do return .int (← j.getInt?)
  | _, _ => pure .foreign

def parseKw (j : Json) : Except String (List (KwName × KwVal)) := do
  (← arr j).mapM (fun p => do
    match (← arr p) with
    | [a, v] =>
      let n := parseKwName (← str a)
      -- the value given to an unknown keyword is irrelevant
      let v ← if n == .bogus then pure KwVal.foreign else parseKwVal n v
      pure (n, v)
    | _ => throw "bad kw")

def parseStep (j : Json) : Except String Step := do
  let c ← nfld j "c"
  match (← sfld j "t") with
  | "named" => return .named c (← optOf chars (← fld j "name"))
  | "using" => return .using c (← parseKw (← fld j "kw"))
  -- `class X(P): pass` — an ordinary class statement: a direct subclass with an empty own dictionary,
  -- which is the transition the model has for `P.using()` (clone, nothing set)
  | "class_stmt" => return .using c []
  | "validated_by" => return .validatedBy false c (← (← afld j "vs").mapM nat)
  | "descent_validated_by" => return .validatedBy true c (← (← afld j "vs").mapM nat)
  | "including_validators" =>
    return .includingValidators false c (← (← afld j "vs").mapM nat) (← optOf int (← fld j "pos"))
  | "including_descent_validators" =>
    return .includingValidators true c (← (← afld j "vs").mapM nat) (← optOf int (← fld j "pos"))
  | "with_properties" =>
    let ps ← (← afld j "pairs").mapM (fun p => do
      match (← arr p) with
      | [k, v] => pure ((← chars k), (← int v))
      | _ => throw "bad pair")
    return .withProperties c ps
  | "of" => return .of c (← (← afld j "members").mapM nat)
  | "valued" => return .valued c (← (← afld j "values").mapM chars)
  | "to" => return .to c (← cfld j "path")
  | "inst" => return .inst c (← parseKw (← fld j "kw"))
  | s => throw s!"bad step {s}"

def ofItem : Item → Json
  | .label n => ofNat n
  | .cls c => ofNat c
  | .str s => ofChars s
  | .gen name fmt opt => obj [("name", ofChars name), ("optional", Json.bool opt), ("format", ofChars fmt)]
  | .user name opt => obj [("name", ofChars name), ("optional", Json.bool opt), ("format", Json.str "%i")]

def ofAtom : Val → Json
  | .none => Json.null
  | .bool b => Json.bool b
  | .int i => ofInt i
  | .str s => ofChars s
  | .cls c => ofNat c
  | _ => obj [("<foreign>", Json.str "?")]

/-- canonical value of an attribute, as `Real.cval` computes it -/
def cval (σ : State) (a : Attr) (v : Option Val) : Json :=
  match a with
  | .validators | .descentValidators | .fieldSchema | .validValues =>
    match v with
    | some (.list r) | some (.tuple r) => ofList ofItem (σ.items r)
    | _ => Json.arr #[]
  | .memberSchema =>
    match v with
    | some (.cls m) => ofNat m
    | some (.anonDict r) => obj [("anon_dict", ofList ofItem (σ.items r))]
    | _ => Json.null
  | .optional => match v with | some (.bool b) => Json.bool b | _ => Json.bool false
  | .policy => match v with | some v => ofAtom v | none => Json.str "subset"
  | _ => match v with | some v => ofAtom v | none => Json.null

def snapshotCls (σ : State) (c : ClassId) (ids : List (Ref × Nat)) : Json × List (Ref × Nat) := Id.run do
  let mut ids := ids
  let mut fields : List (String × Json) := []
  let mut idl : List (String × Json) := []
  let parent := match σ.mroOf c with | _ :: p :: _ => ofNat p | _ => Json.null
  fields := [("parent", parent)]
  for a in attrsOf (σ.kindOf c) do
    let v := σ.lookup c a
    fields := fields ++ [(attrName a, cval σ a v)]
    if a == .validators || a == .descentValidators || a == .fieldSchema then
      match v with
      | some (.list r) =>
        let lab := match assoc ids r with
          | some l => l
          | none => ids.length
        if (assoc ids r).isNone then ids := ids ++ [(r, lab)]
        idl := idl ++ [(attrName a, ofNat lab)]
      | _ => pure ()
  let props := ofList (fun (kv : C06.Str × Int) => Json.arr #[ofChars kv.1, ofInt kv.2]) (propsOf σ c)
  fields := fields ++ [("properties", props), ("ids", obj idl)]
  return (obj fields, ids)

def snapshotAll (σ : State) : List Json := Id.run do
  let mut ids : List (Ref × Nat) := []
  let mut out : List Json := []
  for c in List.range σ.classes.length do
    let (j, ids') := snapshotCls σ c ids
    ids := ids'
    out := out ++ [j]
  return out

def resName : Res → String
  | .ok => "ok" | .typeError => "TypeError" | .attributeError => "AttributeError"
  | .assertionError => "AssertionError" | .badCase => "BadCase"

def instSnapshot (σ : State) (c : ClassId) (kw : List (KwName × KwVal)) : Json :=
  if σ.kindOf c == .compound then obj [] else
  obj (kw.filterMap (fun p => match p.1, p.2 with
    | .attr a, .labels ls => some (attrName a, ofList ofNat ls)
    | .attr a, .members ms => some (attrName a, ofList ofItem (ms.map (fun m => Item.user m.1 m.2)))
    | .attr a, .memberRefs ms => some (attrName a, ofList ofItem (resolveMembers σ σ.classes.length ms))
    | .attr a, v => some (attrName a, cval σ a (some (atomOf v)))
    | .properties, .pairs ps =>
      some ("properties", ofList (fun (kv : C06.Str × Int) => Json.arr #[ofChars kv.1, ofInt kv.2])
        (ps.foldl (fun acc kv => assocSet acc kv.1 kv.2) []))
    | _, _ => none))

def runChain (j : Json) : Except String Json := do
  let kind ← parseKind (← sfld j "base")
  let steps ← (← afld j "steps").mapM parseStep
  let mut σ := initState kind []
  let mut prev := snapshotAll σ
  let start := prev
  let mut out : Array Json := #[]
  let mut agrees := true
  for s in steps do
    let n := σ.classes.length
    let (σ', r) := step σ s
    let now := snapshotAll σ'
    let changed := (List.range n).filterMap (fun i =>
      match prev[i]?, now[i]? with
      | some a, some b => if a == b then none else some (Json.arr #[ofNat i, b])
      | _, _ => none)
    let inst := match s, r with
      | .inst c kw, .ok => instSnapshot σ c kw
      | _, _ => Json.null
    out := out.push (obj [("r", Json.str (resName r)), ("new", Json.arr (now.drop n).toArray),
      ("changed", Json.arr changed.toArray), ("inst", inst)])
    agrees := agrees && Spec.frameHolds σ σ' s && Spec.wfB σ'
    σ := σ'
    prev := now
  -- final phase: what every class shows at the end (`field_schema_mapping` keys), then what a plain
  -- instantiation of each class does, in order
  let mappings := (List.range σ.classes.length).map (fun c =>
    if kindHas (σ.kindOf c) .fieldSchema then ofList ofAtom (mappingKeys σ c) else Json.null)
  let mut plains : Array Json := #[]
  for c in List.range σ.classes.length do
    let (σ', r) := step σ (.inst c [])
    plains := plains.push (Json.str (resName r))
    σ := σ'
  return obj [("start", Json.arr start.toArray), ("steps", Json.arr out),
    ("final", obj [("mapping", Json.arr mappings.toArray), ("plain", Json.arr plains)]),
    ("spec_agrees", Json.bool agrees)]

def parseField (j : Json) : Except String Field := do
  match (← arr j) with
  | [n, t] => return (← optOf chars n, ← chars t)
  | _ => throw "bad field"

def runSchema (j : Json) : Except String Json := do
  let decls ← afld j "decls"
  let mut fieldsOf : List (List Field) := []
  let mut out : Array Json := #[]
  let mut agrees := true
  for d in decls do
    let bases ← (← afld d "bases").mapM nat
    let explicit ← match fldD d "fs" Json.null with
      | .null => pure []
      | fs => (← arr fs).mapM parseField
    let declared ← (← afld d "attrs").mapM (fun a => do
      match (← arr a) with
      | [attr, tag, _] => pure ((some (← chars attr), ← chars tag) : Field)
      | _ => throw "bad attr")
    let baseFields := bases.map (fun b => (fieldsOf[b]?).getD [])
    let fs := metaSchemaNew baseFields explicit declared
    agrees := agrees && Spec.schemaFieldsOK baseFields explicit declared fs
    fieldsOf := fieldsOf ++ [fs]
    out := out.push (ofList (fun (f : Field) => Json.arr #[ofOpt ofChars f.1, ofChars f.2]) fs)
  return obj [("schemas", Json.arr out), ("spec_agrees", Json.bool agrees)]

def run (j : Json) : Except String Json := do
  match (← sfld j "kind") with
  | "chain" => runChain j
  | "schema" => runSchema j
  | s => throw s!"bad kind {s}"

end Flatland.Run.C06
