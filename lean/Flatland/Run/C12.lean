import Flatland.JsonUtil
import Flatland.Markup.Json
import Flatland.C12
import Flatland.C11
open Lean Flatland.J
namespace Flatland.Run.C12
open Flatland.Markup Flatland.Markup.Json Flatland.C12 Flatland.Generated.C11

partial def parseTree (j : Json) : Except String Tree := do
  let name ← optOf chars (← fld j "name")
  match (← sfld j "t") with
  | "leaf" => return .leaf name (← cfld j "u")
  | "bool" => return .bool name (← cfld j "true") (← cfld j "u")
  | "array" => return .array name (← bfld j "strip") (← (← afld j "members").mapM (optOf chars))
  | "dict" => return .dict name (← (← afld j "fields").mapM parseTree)
  | "list" => return .list name (← (← afld j "members").mapM parseTree)
  | t => throw s!"bad tree tag {t}"

structure Render where
  sel : Option (List Nat)      -- none: unbound
  tag : List Char
  kwargs : List (List Char × Val)
  within : Option Nat          -- for <option>: index of the render that is its <select>
  shown : List Char            -- display text (`Sequence.u`) when the bind is a whole Array
  how : How                    -- through which Tag method (a held Tag object renders like a fresh one)

def parseRender (j : Json) : Except String Render := do
  let sel ← optOf (listOf nat) (← fld j "sel")
  let tag0 ← cfld j "tag"
  let within ← optOf nat (fldD j "within" Json.null)
  let shown ← chars (fldD j "arr_shown" (Json.str ""))
  return ⟨sel, tag0, ← parsePairs parseVal (← fld j "kwargs"), within, shown, ← parseHow j⟩

def ofPair (p : Option (List Char × List Char)) : Json :=
  match p with
  | none => Json.null
  | some (a, b) => Json.arr #[ofStr a, ofStr b]

def run (j : Json) : Except String Json := do
  let T := Tables.current
  let tree ← parseTree (← fld j "tree")
  let renders ← (← afld j "renders").mapM parseRender
  match Gen.init T (← cfld j "markup") (← parsePairs parseCVal (← fld j "settings")) with
  | .error e => return obj [("init_err", Json.str e.name), ("renders", Json.arr #[])]
  | .ok g0 =>
    let mut g := g0
    let mut outs : Array Json := #[]
    let mut names : Array (Option (List Char)) := #[]     -- name attribute of every render (for options)
    for r in renders do
      let bind := match r.sel with
        | none => none
        | some s => select r.shown tree [] s
      let bindJson := match r.sel, bind with
        | some _, some b => obj [("name", ofStr b.flatName), ("u", ofStr b.u)]
        | _, _ => Json.null
      if r.how != How.call && voidElements.contains r.tag then
        -- Tag.open()/close() refuse void elements before doing anything
        outs := outs.push (obj [("bind", bindJson), ("err", Json.str PyErr.valueError.name), ("out", Json.null), ("posted", Json.null)])
        names := names.push none
        continue
      match prepareTag T staticAttributeOrder g r.tag bind r.kwargs with
      | .error e =>
        outs := outs.push (obj [("bind", bindJson), ("err", Json.str e.name), ("out", Json.null), ("posted", Json.null)])
        names := names.push none
        g := g.afterFailedTag T r.tag bind r.kwargs
      | .ok res =>
        let out := match (g.renderHow T attrChain voidElements staticAttributeOrder r.how r.tag bind r.kwargs).1 with
          | .ok (s, _) => ofStr s
          | .error e => Json.str ("!" ++ e.name)
        let attrs := strAttrs res.pairs
        let text := Flatland.C11.decodeRefs res.contents
        let posted :=
          if r.tag = sOption then
            match r.within with
            | some i => match names[i]? with
              | some (some n) => submittedOption n attrs text
              | _ => none
            | none => none
          else submitted r.tag attrs text
        outs := outs.push (obj [("bind", bindJson), ("err", Json.null), ("out", out), ("posted", ofPair posted),
          ("submitter", Json.bool (isSubmitter r.tag attrs)),
          ("id", ofOpt ofStr (attr? attrs sId)), ("for", ofOpt ofStr (attr? attrs sFor))])
        names := names.push (attr? attrs sName)
        g := { g with ctx := res.ctx }
    return obj [("init_err", Json.null), ("renders", Json.arr outs)]

end Flatland.Run.C12
