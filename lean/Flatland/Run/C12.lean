import Flatland.JsonUtil
open Lean Flatland.J
namespace Flatland.Run.C12

/-- JSON case in, JSON observation out (stub until the model of C12 is written). -/
def run (_j : Json) : Except String Json := .error "model runner for C12 not implemented yet"

end Flatland.Run.C12
