import Flatland.JsonUtil
import Flatland.Markup.Json
import Flatland.C12
import Flatland.C11
import Flatland.C19
open Lean Flatland.J
namespace Flatland.Run.C12
open Flatland.Markup Flatland.Markup.Json Flatland.C12 Flatland.Generated.C11

partial def parseTree (j : Json) : Except String Tree := do
  let name ← optOf chars (← fld j "name")
  match (← sfld j "t") with
  | "leaf" => return .leaf name (← cfld j "u")
  | "bool" => return .bool name (← cfld j "true") (← cfld j "u")
  | "array" => return .array name (← bfld j "strip") (← (← afld j "members").mapM (optOf chars))
  | "dict" => return .dict name (← (← afld j "fields").mapM parseTree)
  | "list" => return .list name (← (← afld j "members").mapM parseTree)
  | t => throw s!"bad tree tag {t}"

structure Render where
  sel : Option (List Nat)      -- none: unbound
  tag : List Char
  kwargs : List (List Char × Val)
  within : Option Nat          -- for <option>: index of the render that is its <select>
  shown : List Char            -- display text (`Sequence.u`) when the bind is a whole Array
  how : How                    -- through which Tag method (a held Tag object renders like a fresh one)

def parseRender (j : Json) : Except String Render := do
  let sel ← optOf (listOf nat) (← fld j "sel")
  let tag0 ← cfld j "tag"
  let within ← optOf nat (fldD j "within" Json.null)
  let shown ← chars (fldD j "arr_shown" (Json.str ""))
  return ⟨sel, tag0, ← parsePairs parseVal (← fld j "kwargs"), within, shown, ← parseHow j⟩

/-- one call of the pre-history (made, and caught, on the same generator before the first rendering) -/
inductive PreOp
  | settings (op : Flatland.C19.Op)     -- begin / end / set / []= / update: run by the C19 model of Context / Generator
  | tag (r : Render)                    -- a tag call (meant to raise midway)
  | badBind                             -- a tag call whose bind is not an element (outside `Bind`): see `runPre`

def parsePreOp (j : Json) : Except String PreOp := do
  match (← sfld j "op") with
  | "begin" => return .settings (.begin (← parsePairs parseCVal (← fld j "settings")))
  | "end" => return .settings .end_
  | "set" => return .settings (.set (← parsePairs parseCVal (← fld j "settings")))
  | "setitem" => return .settings (.setItem (← cfld j "key") (← parseCVal (← fld j "value")))
  | "update" => do
    -- `update(mapping, **kw)`: `source = list(to_pairs(mapping)); source.extend(kwargs.items())`
    let posJ := fldD j "pos" Json.null
    let pos ← if isNull posJ then pure [] else parsePairs parseCVal posJ
    return .settings (.update (pos ++ (← parsePairs parseCVal (← fld j "settings"))))
  | "tag" => do
    match fldD j "badbind" (Json.bool false) with
    | Json.bool true => return .badBind
    | _ => return .tag (← parseRender j)
  | o => throw s!"unknown pre-history op {o}"

/-- the generator after one pre-history call and the exception it raised (if any).  Settings calls are
    `Flatland.C19.step` (a rejected one leaves the generator as it was: `Proofs/C12Rejected.lean`); a tag call is
    `Gen.renderHow`, its markup dropped.  A bind that is not an element cannot be written as a `Bind`: the cases force
    `auto_name="on"` on such a call, so the first transform asks it for `flattened_name()` → AttributeError before any
    setting is read or written. -/
def runPre (T : Tables) (tree : Tree) (g : Gen) : PreOp → Gen × Option PyErr
  | .settings op => let (g', o) := Flatland.C19.step T Flatland.C19.RenderCfg.current g op; (g', o.err)
  | .badBind => (g, some .attributeError)
  | .tag r =>
    let bind := match r.sel with
      | none => none
      | some s => select r.shown tree [] s
    match g.renderHow T attrChain voidElements staticAttributeOrder r.how r.tag bind r.kwargs with
    | (.ok _, g') => (g', none)
    | (.error e, g') => (g', some e)

def ofPair (p : Option (List Char × List Char)) : Json :=
  match p with
  | none => Json.null
  | some (a, b) => Json.arr #[ofStr a, ofStr b]

def run (j : Json) : Except String Json := do
  let T := Tables.current
  let tree ← parseTree (← fld j "tree")
  let renders ← (← afld j "renders").mapM parseRender
  match Gen.init T (← cfld j "markup") (← parsePairs parseCVal (← fld j "settings")) with
  | .error e => return obj [("init_err", Json.str e.name), ("pre", Json.arr #[]), ("renders", Json.arr #[])]
  | .ok g0 =>
    let mut g := g0
    let mut pres : Array Json := #[]
    for pj in (← arr (fldD j "pre" (Json.arr #[]))) do
      let (g', e) := runPre T tree g (← parsePreOp pj)
      g := g'
      pres := pres.push (obj [("err", ofErr e)])
    let mut outs : Array Json := #[]
    let mut names : Array (Option (List Char)) := #[]     -- name attribute of every render (for options)
    for r in renders do
      let bind := match r.sel with
        | none => none
        | some s => select r.shown tree [] s
      let bindJson := match r.sel, bind with
        | some _, some b => obj [("name", ofStr b.flatName), ("u", ofStr b.u)]
        | _, _ => Json.null
      if r.how != How.call && voidElements.contains r.tag then
        -- Tag.open()/close() refuse void elements before doing anything
        outs := outs.push (obj [("bind", bindJson), ("err", Json.str PyErr.valueError.name), ("out", Json.null), ("posted", Json.null)])
        names := names.push none
        continue
      match prepareTag T staticAttributeOrder g r.tag bind r.kwargs with
      | .error e =>
        outs := outs.push (obj [("bind", bindJson), ("err", Json.str e.name), ("out", Json.null), ("posted", Json.null)])
        names := names.push none
        g := g.afterFailedTag T r.tag bind r.kwargs
      | .ok res =>
        let out := match (g.renderHow T attrChain voidElements staticAttributeOrder r.how r.tag bind r.kwargs).1 with
          | .ok (s, _) => ofStr s
          | .error e => Json.str ("!" ++ e.name)
        let attrs := strAttrs res.pairs
        let text := Flatland.C11.decodeRefs res.contents
        let posted :=
          if r.tag = sOption then
            match r.within with
            | some i => match names[i]? with
              | some (some n) => submittedOption n attrs text
              | _ => none
            | none => none
          else submitted r.tag attrs text
        outs := outs.push (obj [("bind", bindJson), ("err", Json.null), ("out", out), ("posted", ofPair posted),
          ("submitter", Json.bool (isSubmitter r.tag attrs)),
          ("id", ofOpt ofStr (attr? attrs sId)), ("for", ofOpt ofStr (attr? attrs sFor))])
        names := names.push (attr? attrs sName)
        g := { g with ctx := res.ctx }
    return obj [("init_err", Json.null), ("pre", Json.arr pres), ("renders", Json.arr outs)]

end Flatland.Run.C12
