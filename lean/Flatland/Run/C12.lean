import Flatland.JsonUtil
import Flatland.Markup.Json
import Flatland.C12
import Flatland.C11
import Flatland.C19
import Flatland.Run.FlatCommon
import Flatland.Spec.EndToEnd
open Lean Flatland.J
namespace Flatland.Run.C12
open Flatland.Markup Flatland.Markup.Json Flatland.C12 Flatland.Generated.C11

partial def parseTree (j : Json) : Except String Tree := do
  let name ← optOf chars (← fld j "name")
  match (← sfld j "t") with
  | "leaf" => return .leaf name (← cfld j "u")
  | "bool" => return .bool name (← cfld j "true") (← cfld j "u")
  | "array" => return .array name (← bfld j "strip") (← (← afld j "members").mapM (optOf chars))
  | "dict" => return .dict name (← (← afld j "fields").mapM parseTree)
  | "list" => return .list name (← (← afld j "members").mapM parseTree)
  | t => throw s!"bad tree tag {t}"

structure Render where
  sel : Option (List Nat)      -- none: unbound
  tag : List Char
  kwargs : List (List Char × Val)
  within : Option Nat          -- for <option>: index of the render that is its <select>
  shown : List Char            -- display text (`Sequence.u`) when the bind is a whole Array
  how : How                    -- through which Tag method (a held Tag object renders like a fresh one)
  norm : Option (List Char)    -- typed member schema (Integer / Float): the literal as the member schema keeps it

def parseRender (j : Json) : Except String Render := do
  let sel ← optOf (listOf nat) (← fld j "sel")
  let tag0 ← cfld j "tag"
  let within ← optOf nat (fldD j "within" Json.null)
  let shown ← chars (fldD j "arr_shown" (Json.str ""))
  let norm ← optOf chars (fldD j "norm" Json.null)
  return ⟨sel, tag0, ← parsePairs parseVal (← fld j "kwargs"), within, shown, ← parseHow j, norm⟩

/-- An Array whose member schema is TYPED (Integer, Float): `literal in bind` wraps the literal in a member element
    (`int()` / `float()`, `'%i'` / `'%f'`; an unreadable literal keeps its text, value None) and compares value AND text
    with every member, i.e. asks whether the literal AS THE MEMBER SCHEMA KEEPS IT (`norm`) is the text of a member.
    That reading is NOT modelled here: the case supplies `norm` (harness reference `typed_norm`, Python's int/float, not
    the library).  The transform model (`Bind.matches`, read-only) asks `members.contains literal`; for the one
    rendering at hand the runner presents a member list that answers it the way the code does. -/
def typedBind (b : Option Bind) (lit : Option (List Char)) (norm : Option (List Char)) : Option Bind :=
  match b, lit, norm with
  | some ⟨n, u, .array strip ms⟩, some l, some nm =>
    if nm = l then b
    else some ⟨n, u, .array strip (if ms.contains (some nm) then some l :: ms else ms.filter (· != some l))⟩
  | _, _, _ => b

/-- one call of the pre-history (made, and caught, on the same generator before the first rendering) -/
inductive PreOp
  | settings (op : Flatland.C19.Op)     -- begin / end / set / []= / update: run by the C19 model of Context / Generator
  | tag (r : Render)                    -- a tag call (meant to raise midway)
  | badBind                             -- a tag call whose bind is not an element (outside `Bind`): see `runPre`

def parsePreOp (j : Json) : Except String PreOp := do
  match (← sfld j "op") with
  | "begin" => return .settings (.begin (← parsePairs parseCVal (← fld j "settings")))
  | "end" => return .settings .end_
  | "set" => return .settings (.set (← parsePairs parseCVal (← fld j "settings")))
  | "setitem" => return .settings (.setItem (← cfld j "key") (← parseCVal (← fld j "value")))
  | "update" => do
    -- `update(mapping, **kw)`: `source = list(to_pairs(mapping)); source.extend(kwargs.items())`
    let posJ := fldD j "pos" Json.null
    let pos ← if isNull posJ then pure [] else parsePairs parseCVal posJ
    return .settings (.update (pos ++ (← parsePairs parseCVal (← fld j "settings"))))
  | "tag" => do
    match fldD j "badbind" (Json.bool false) with
    | Json.bool true => return .badBind
    | _ => return .tag (← parseRender j)
  | o => throw s!"unknown pre-history op {o}"

/-- the generator after one pre-history call and the exception it raised (if any).  Settings calls are
    `Flatland.C19.step` (a rejected one leaves the generator as it was: `Proofs/C12Rejected.lean`); a tag call is
    `Gen.renderHow`, its markup dropped.  A bind that is not an element cannot be written as a `Bind`: the cases force
    `auto_name="on"` on such a call, so the first transform asks it for `flattened_name()` → AttributeError before any
    setting is read or written. -/
def runPre (T : Tables) (tree : Tree) (g : Gen) : PreOp → Gen × Option PyErr
  | .settings op => let (g', o) := Flatland.C19.step T Flatland.C19.RenderCfg.current g op; (g', o.err)
  | .badBind => (g, some .attributeError)
  | .tag r =>
    let bind := match r.sel with
      | none => none
      | some s => select r.shown tree [] s
    match g.renderHow T attrChain voidElements staticAttributeOrder r.how r.tag bind r.kwargs with
    | (.ok _, g') => (g', none)
    | (.error e, g') => (g', some e)

def ofPair (p : Option (List Char × List Char)) : Json :=
  match p with
  | none => Json.null
  | some (a, b) => Json.arr #[ofStr a, ofStr b]

/-! ### END TO END (Proofs/EndToEnd.lean): the posted pairs through `from_flat` of the flat model -/

/-- the case tree as a `FormTree`; the widgets are not needed for `formPairs` / `uncheckedPairs` /
    `embed` / `boolsCanonical` (`formOk` and `oneSubmitter` are evaluated by the harness on the renders) -/
instance : Inhabited FormTree := ⟨.dict none []⟩

partial def toForm : Tree → FormTree
  | .leaf n u => .text n u (.input none) []
  | .bool n tru u => .bool n tru u []
  | .array n strip ms => .array n strip (ms.map (fun m => m.getD [])) .checkboxes []
  | .dict n fs => .dict n (fs.map toForm)
  | .list n ms => .list n (ms.map toForm)

/-- `e2e` of the case: schema / env / elem of the flat model (built by the harness from the real
    element).  Returns the observation compared with the real `from_flat(posted)` and the flag
    "where the hypotheses hold and the posted pairs are `formPairs`, the rebuilt tree is `prS e`". -/
def e2eObs (tree : Tree) (ej : Json) (posted : List (List Char × List Char)) : Except String (Json × Json × Bool) := do
  let s ← Flatland.Run.FlatCommon.parseSchema (← fld ej "schema")
  let env ← Flatland.Run.FlatCommon.parseEnv (← fld ej "env")
  let e ← Flatland.Run.FlatCommon.parseElem (← fld ej "elem")
  let t := toForm tree
  let sep := Flatland.EndToEnd.usep
  let rebuilt := Flatland.Flat.fromFlat env sep s posted
  let prs := Flatland.Flat.Spec.prS env sep false s e
  let own := formPairs [] t
  let unchecked := uncheckedPairs [] t
  let hn := Flatland.EndToEnd.hnodupB env sep s (Flatland.Flat.wrap (own ++ unchecked))
  let ds := unchecked.isEmpty || Flatland.EndToEnd.dropSafe env s
  let linked := Flatland.EndToEnd.linked env s e t
  let c01 := Flatland.Flat.Spec.wfS s && Flatland.Flat.Spec.rootOK s && Flatland.Flat.Spec.okSB env s e
    && Flatland.EndToEnd.envOKB env && Flatland.EndToEnd.namesSafe env s
  let hyp := linked && boolsCanonical t && c01 && hn && ds
  let same (a b : Flatland.Flat.Elem) : Bool :=
    (Flatland.Run.FlatCommon.elemJson a).compress == (Flatland.Run.FlatCommon.elemJson b).compress
  let concl := same rebuilt prs
  -- the theorem on the model's own lists, and on what the modelled browser posted
  let agrees := !hyp || (same (Flatland.Flat.fromFlat env sep s own) prs && (posted != own || concl))
  return (obj [("posted", Flatland.Run.FlatCommon.pairsJson posted),
               ("rebuilt", Flatland.Run.FlatCommon.elemJson rebuilt),
               ("linked", Json.bool linked), ("c01_hyps", Json.bool c01), ("hnodup", Json.bool hn),
               ("drop_safe", Json.bool ds), ("hyps_flat", Json.bool hyp)],
          obj [("prs", Flatland.Run.FlatCommon.elemJson prs), ("rebuilt_is_prs", Json.bool concl)], agrees)

def run (j : Json) : Except String Json := do
  let T := Tables.current
  let tree ← parseTree (← fld j "tree")
  let renders ← (← afld j "renders").mapM parseRender
  match Gen.init T (← cfld j "markup") (← parsePairs parseCVal (← fld j "settings")) with
  | .error e => return obj [("init_err", Json.str e.name), ("pre", Json.arr #[]), ("renders", Json.arr #[]), ("e2e", Json.null)]
  | .ok g0 =>
    let mut g := g0
    let mut pres : Array Json := #[]
    for pj in (← arr (fldD j "pre" (Json.arr #[]))) do
      let (g', e) := runPre T tree g (← parsePreOp pj)
      g := g'
      pres := pres.push (obj [("err", ofErr e)])
    let mut outs : Array Json := #[]
    let mut names : Array (Option (List Char)) := #[]     -- name attribute of every render (for options)
    let forms := (← afld j "renders").map (fun r => (bool (fldD r "form" (Json.bool false))).toOption.getD false)
    let mut idx := 0
    let mut seenSub := false
    let mut e2ePosted : Array (List Char × List Char) := #[]
    for r in renders do
      let isForm := forms.getD idx false
      idx := idx + 1
      let bind := match r.sel with
        | none => none
        | some s => select r.shown tree [] s
      let bind := typedBind bind ((Dict.get? r.kwargs "value".toList).bind Val.str?) r.norm
      let bindJson := match r.sel, bind with
        | some _, some b => obj [("name", ofStr b.flatName), ("u", ofStr b.u)]
        | _, _ => Json.null
      if r.how != How.call && voidElements.contains r.tag then
        -- Tag.open()/close() refuse void elements before doing anything
        outs := outs.push (obj [("bind", bindJson), ("err", Json.str PyErr.valueError.name), ("out", Json.null), ("posted", Json.null)])
        names := names.push none
        continue
      match prepareTag T staticAttributeOrder g r.tag bind r.kwargs with
      | .error e =>
        outs := outs.push (obj [("bind", bindJson), ("err", Json.str e.name), ("out", Json.null), ("posted", Json.null)])
        names := names.push none
        g := g.afterFailedTag T r.tag bind r.kwargs
      | .ok res =>
        let out := match (g.renderHow T attrChain voidElements staticAttributeOrder r.how r.tag bind r.kwargs).1 with
          | .ok (s, _) => ofStr s
          | .error e => Json.str ("!" ++ e.name)
        let attrs := strAttrs res.pairs
        let text := Flatland.C11.decodeRefs res.contents
        let posted :=
          if r.tag = sOption then
            match r.within with
            | some i => match names[i]? with
              | some (some n) => submittedOption n attrs text
              | _ => none
            | none => none
          else submitted r.tag attrs text
        outs := outs.push (obj [("bind", bindJson), ("err", Json.null), ("out", out), ("posted", ofPair posted),
          ("submitter", Json.bool (isSubmitter r.tag attrs)),
          ("id", ofOpt ofStr (attr? attrs sId)), ("for", ofOpt ofStr (attr? attrs sFor))])
        names := names.push (attr? attrs sName)
        g := { g with ctx := res.ctx }
        -- END TO END: a submission has ONE activated submitter, the first of the form
        let isSub := isSubmitter r.tag attrs
        match posted with
        | some p => if isForm && (!isSub || !seenSub) then e2ePosted := e2ePosted.push p
        | none => pure ()
        if isSub then seenSub := true
    match j.getObjVal? "e2e" with
    | .ok (.obj ej) =>
      let (o, extra, ok) ← e2eObs tree (.obj ej) e2ePosted.toList
      return obj [("init_err", Json.null), ("pre", Json.arr pres), ("renders", Json.arr outs), ("e2e", o), ("_e2e_spec", extra),
                  ("spec_agrees", Json.bool ok)]
    | _ => return obj [("init_err", Json.null), ("pre", Json.arr pres), ("renders", Json.arr outs), ("e2e", Json.null)]

end Flatland.Run.C12
