import Flatland.JsonUtil
open Lean Flatland.J
namespace Flatland.Run.C19

/-- JSON case in, JSON observation out (stub until the model of C19 is written). -/
def run (_j : Json) : Except String Json := .error "model runner for C19 not implemented yet"

end Flatland.Run.C19
