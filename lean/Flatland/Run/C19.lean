import Flatland.JsonUtil
import Flatland.Markup.Json
import Flatland.C19
import Flatland.C19Filters
open Lean Flatland.J
namespace Flatland.Run.C19
open Flatland.Markup Flatland.Markup.Json Flatland.C19

/-- option-frame values, with `{"t":"o","v":name}` = a named filter list (or the default `()`) -/
def parseCValF (j : Json) : Except String CVal := do
  match (← sfld j "t") with
  | "o" => return .opaque (← cfld j "v")
  | _ => parseCVal j

def parseAct (j : Json) : Except String ContentsAct := do
  match (← sfld j "kind") with
  | "keep" => return .keep
  | "append" => return .append (← cfld j "m")
  | "replace" => return .replace (← parseVal (← fld j "v"))
  | "drop" => return .drop
  | "appendtag" => return .appendTag
  | k => throw s!"bad contents act {k}"

def parseFilter (j : Json) : Except String Filter := do
  let tagsJ ← fld j "tags"
  let tags ← if isNull tagsJ then pure none else do
    let xs ← (← arr tagsJ).mapM chars
    pure (some xs)
  let dels ← (← afld j "dels").mapM chars
  let sets ← parsePairs parseVal (← fld j "sets")
  return ⟨tags, dels, sets, ← parseAct (← fld j "act")⟩

/-- `"filters": [[name, [filter, ...]], ...]` of the case -/
def parseEnv (j : Json) : Except String FilterEnv := do
  match j.getObjVal? "filters" with
  | .error _ => return []
  | .ok fj =>
    (← arr fj).mapM (fun p => do
      match (← arr p) with
      | [k, v] => return ((← chars k), (← (← arr v).mapM parseFilter))
      | _ => throw "pair expected")

def parseOp (j : Json) : Except String Op := do
  match (← sfld j "op") with
  | "begin" => return .begin (← parsePairs parseCValF (← fld j "settings"))
  | "end" => return .end_
  | "set" => return .set (← parsePairs parseCValF (← fld j "settings"))
  | "setitem" => return .setItem (← cfld j "key") (← parseCValF (← fld j "value"))
  | "update" => return .update (← parsePairs parseCValF (← fld j "settings"))
  | "tag" => do
    let tag0 ← cfld j "tag"
    let tag := if (← sfld j "via") == "tag" then asciiLower tag0 else tag0
    return .tag tag (← parseBind (← fld j "bind")) (← parsePairs parseVal (← fld j "kwargs"))
  | o => throw s!"unknown op {o}"

def observedKeys : List String :=
  ["auto_name", "auto_value", "auto_domid", "auto_for", "auto_tabindex", "auto_filter",
   "tabindex", "domid_format", "ordered_attributes", "filters"]

def ctxObs (g : Gen) : Json :=
  Json.arr (observedKeys.map (fun k =>
    match g.ctx.getItem k.toList with
    | .ok v => Json.arr #[Json.str k, ofCVal v]
    | .error e => Json.arr #[Json.str k, Json.str e.name])).toArray

/-- a tag call through `open()/close()/open+contents+close` of a (possibly held) Tag object -/
def parseHowOp (j : Json) : Except String (Option How) := do
  if (← sfld j "op") == "tag" then
    let h ← parseHow j
    return (if h = How.call then none else some h)
  else return none

def run (j : Json) : Except String Json := do
  let T := Tables.current
  let R := RenderCfg.current
  let E ← parseEnv j
  let init ← fld j "init"
  let opsJ ← afld j "ops"
  match Gen.init T (← cfld init "markup") (← parsePairs parseCValF (← fld init "settings")) with
  | .error e => return obj [("init_err", Json.str e.name), ("steps", Json.arr #[]), ("open", Json.null)]
  | .ok g0 =>
    let mut g := g0
    let mut steps : Array Json := #[]
    for oj in opsJ do
      let op ← parseOp oj
      match (← parseHowOp oj), op with
      | some how, .tag name bind kwargs =>
        let (res, g') := renderHowF E T R g how name bind kwargs
        g := g'
        match res with
        | .ok (s, c) =>
          steps := steps.push (obj [("err", Json.null), ("out", ofStr s), ("contents", ofOpt ofStr c), ("ctx", ctxObs g)])
        | .error e =>
          steps := steps.push (obj [("err", Json.str e.name), ("out", Json.null), ("contents", Json.null), ("ctx", ctxObs g)])
      | _, _ =>
        let (g', o) := stepF E T R g op
        g := g'
        steps := steps.push (obj [("err", ofErr o.err), ("out", ofOpt ofStr o.out), ("contents", Json.null), ("ctx", ctxObs g)])
    return obj [("init_err", Json.null), ("init_ctx", ctxObs g0), ("steps", Json.arr steps),
                ("open", ofNat (openBlocks g))]

end Flatland.Run.C19
