import Flatland.JsonUtil
import Flatland.Markup.Json
import Flatland.C19
open Lean Flatland.J
namespace Flatland.Run.C19
open Flatland.Markup Flatland.Markup.Json Flatland.C19

def parseOp (j : Json) : Except String Op := do
  match (← sfld j "op") with
  | "begin" => return .begin (← parsePairs parseCVal (← fld j "settings"))
  | "end" => return .end_
  | "set" => return .set (← parsePairs parseCVal (← fld j "settings"))
  | "setitem" => return .setItem (← cfld j "key") (← parseCVal (← fld j "value"))
  | "update" => return .update (← parsePairs parseCVal (← fld j "settings"))
  | "tag" => do
    let tag0 ← cfld j "tag"
    let tag := if (← sfld j "via") == "tag" then asciiLower tag0 else tag0
    return .tag tag (← parseBind (← fld j "bind")) (← parsePairs parseVal (← fld j "kwargs"))
  | o => throw s!"unknown op {o}"

def observedKeys : List String :=
  ["auto_name", "auto_value", "auto_domid", "auto_for", "auto_tabindex", "auto_filter",
   "tabindex", "domid_format", "ordered_attributes"]

def ctxObs (g : Gen) : Json :=
  Json.arr (observedKeys.map (fun k =>
    match g.ctx.getItem k.toList with
    | .ok v => Json.arr #[Json.str k, ofCVal v]
    | .error e => Json.arr #[Json.str k, Json.str e.name])).toArray

def run (j : Json) : Except String Json := do
  let T := Tables.current
  let init ← fld j "init"
  let ops ← (← afld j "ops").mapM parseOp
  match Gen.init T (← cfld init "markup") (← parsePairs parseCVal (← fld init "settings")) with
  | .error e => return obj [("init_err", Json.str e.name), ("steps", Json.arr #[]), ("open", Json.null)]
  | .ok g =>
    let (gf, steps) := Flatland.C19.run T RenderCfg.current g ops
    let stepJson := steps.map (fun (so : StepObs × Gen) =>
      obj [("err", ofErr so.1.err), ("out", ofOpt ofStr so.1.out), ("ctx", ctxObs so.2)])
    return obj [("init_err", Json.null), ("init_ctx", ctxObs g), ("steps", Json.arr stepJson.toArray),
                ("open", ofNat (openBlocks gf))]

end Flatland.Run.C19
