/-
Model A for C10, Compound part: a `Compound` (compound.py: `class Compound(Mapping, Scalar)`; the one
concrete mapping-compound of the library is `DateYYYYMMDD`) under dict-protocol calls.

`Tree.lean` (shared, read-only) has no Compound node kind.  A Compound IS a `Mapping` — it inherits
`__setitem__`, `__delitem__`, `clear`, `_reset`, `popitem`, `pop`, `update`, `setdefault`, `__ior__`,
`get`, `set_default`, `_set_flat` from `Mapping` unchanged, i.e. exactly what `mapStep` does for a node
of kind `.dict` (a dense Dict overrides none of these either) — and overrides only `set`:
`Compound.set(value)` = `explode(value)` under `except Exception: return False`.  So the member mapping
of a Compound is modelled as a dense `.dict` node of `Tree.lean`, and this file adds

* `prepare` — the lazy class preparation `DateYYYYMMDD.__compound_init__` (runs in the metaclass
  `__call__` before `__init__` of the first instance, so before the first `_reset()`): a user-supplied
  list of 0–3 fields is completed by generated `year` / `month` / `day` fields;
* `Explode` / `compoundSet` — `Compound.set`: what `explode` does is a PARAMETER restricted to the
  documented contract ("assign values to children": `self[field.name].set(v)` for fields in order, or
  an exception escaping before anything was assigned, or — the wider contract — after a PREFIX of the
  fields was assigned: `assignThenRaise`);  `dateExplode` is `DateYYYYMMDD.explode`;
* `compoundStep` — one dict-protocol call on a Compound: `set` / `set_default` from here, everything
  else is `mapStep`.
-/
import Flatland.C10
import Flatland.Generated.C04Tables
namespace Flatland.C10.Compound
open Flatland.Tree Flatland.PyList Flatland.C10

/-! ## class preparation -/

/-- `generated(name, format)`: `Integer.named(name).using(format=…, optional=cls.optional)`; `cid` is the
    identity of the class object created by the preparation -/
def genField (cid : Nat) (name : Str) (optional : Bool) : Schema :=
  .mk { cid := cid, kind := .integer, name := some name, optional := optional } .none []

/-- `DateYYYYMMDD.__compound_init__`: `if len(fields) == 0: append(year)`, `== 1: append(month)`,
    `== 2: append(day)` — a supplied list of `k` fields keeps its `k` entries and gets the generated
    entries `k …` appended (`cids`: identities of the three classes the preparation may create) -/
def prepare (supplied : List Schema) (optional : Bool) (cids : Nat × Nat × Nat) : List Schema :=
  let gen := [genField cids.1 ['y', 'e', 'a', 'r'] optional, genField cids.2.1 ['m', 'o', 'n', 't', 'h'] optional,
              genField cids.2.2 ['d', 'a', 'y'] optional]
  supplied ++ gen.drop supplied.length

/-- the prepared Compound class: kind `.dict` stands for "a Mapping that is not a SparseDict" -/
def preparedClass (info : SInfo) (dflt : Raw) (supplied : List Schema) (cids : Nat × Nat × Nat) : Schema :=
  .mk { info with kind := .dict } dflt (prepare supplied info.optional cids)

/-! ## `Compound.set` -/

/-- the effect of `explode(value)` under the documented contract -/
inductive Explode
  | assign (vs : List Raw)   -- `self[field_i.name].set(vs_i)` for the first `vs.length` fields, in field order
  | raises                   -- an exception escapes `explode` before any child was touched
  | assignThenRaise (vs : List Raw)
      -- the WIDER contract (n3): `self[field_i.name].set(vs_i)` for the first `vs.length` fields completed, then an
      -- exception escapes `explode` — a member whose own `set()` raises (a `Constrained` whose `valid_value` raises:
      -- that member keeps its state), in the `try` loop or in the `set(None)` fallback loop of
      -- `DateYYYYMMDD.explode`; `Compound.set` swallows it and returns False, the prefix STAYS set
  deriving Repr, Inhabited

/-- the `for … in zip(…, self.field_schema): self[child_schema.name].set(v)` loop -/
def assignKids : List Schema → List Raw → List Node → Nat → List Node × Nat × Except Exc Unit
  | f :: fs, v :: vs, kids, next =>
    match findKid kids f.key with
    | none => (kids, next, .error .keyError)          -- `self[name]`: KeyError
    | some child =>
      let r := setNode child v none next
      match r.res with
      | .error e => (replaceKid kids f.key r.node, r.next, .error e)
      | .ok _ => assignKids fs vs (replaceKid kids f.key r.node) r.next
  | _, _, kids, next => (kids, next, .ok ())

/-- `Compound.set(value)`: `explode` inside `try … except Exception: return False` -/
def compoundSet (ex : Raw → Explode) (n : Node) (raw : Raw) (next : Nat) : SetR :=
  match ex raw with
  | .raises => ⟨n, next, .ok false⟩
  | .assign vs =>
    let r := assignKids n.sch.subs vs n.kids next
    match r.2.2 with
    | .ok () => ⟨n.withKids r.1, r.2.1, .ok true⟩
    | .error .unsupported => ⟨n.withKids r.1, r.2.1, .error .unsupported⟩
    | .error _ => ⟨n.withKids r.1, r.2.1, .ok false⟩
  | .assignThenRaise vs =>
    let r := assignKids n.sch.subs vs n.kids next
    match r.2.2 with
    | .error .unsupported => ⟨n.withKids r.1, r.2.1, .error .unsupported⟩
    | _ => ⟨n.withKids r.1, r.2.1, .ok false⟩

/-! ## `DateYYYYMMDD.explode` -/

/-- the Unicode tables of the running CPython (whitespace of `str.strip()`, the zero code points of every
    `Nd` decade — what `\d` under `re.UNICODE` and `int()` accept), regenerated by `harness/extractors/c04.py` -/
abbrev T : Flatland.Scalar.Tables := Flatland.Generated.C04.pyTables

/-- `Date.adapt(text)`: `text.strip()` (Unicode whitespace), `^(\d{4})-(\d{2})-(\d{2})$` where `\d` is ANY Unicode
    decimal digit (Arabic-Indic, full-width, … — `int()` reads them all; scripts may be mixed) and `$` also
    matches before a final newline, then `datetime.date(y, m, d)`.  The reader is the one of the scalar model
    (`Flatland.Scalar.matchDate` / `validDate`, compared with the real `Date` by C04). -/
def parseDate (s : Str) : Option (Nat × Nat × Nat) :=
  match Flatland.Scalar.matchDate T (Flatland.Scalar.strip T s) with
  | some (y, m, d) => if Flatland.Scalar.validDate y m d then some (y, m, d) else none
  | none => none

/-- `DateYYYYMMDD.explode(value)` on the raw shapes of the model: `Date.adapt`; on success the three
    attributes are set on the children; on AdaptationError / TypeError every child is set to None;
    `None` passes `adapt` and `getattr(None, 'year')` raises AttributeError, which escapes `explode` -/
def dateExplode : Raw → Explode
  | .none => .raises
  | .str s =>
    (match parseDate s with
     | some (y, m, d) => .assign [.int y, .int m, .int d]
     | none => .assign [.none, .none, .none])
  | _ => .assign [.none, .none, .none]

/-! ## one dict-protocol call on a Compound -/

def compoundStep (ex : Raw → Explode) (n : Node) (op : MapOp) (next : Nat) : StepR :=
  match op with
  | .set raw none =>
    let s := compoundSet ex n raw next
    (match s.res with
     | .ok b => ⟨s.node, s.next, .bool b, []⟩
     | .error e => excOut s.node s.next e)
  | .set _ (some _) => excOut n next .typeError      -- `Compound.set()` takes no `policy` keyword
  | .setDefault =>
    -- `Mapping.set_default`: `self.set(default)` if there is one, else every child's `set_default()`
    (match n.sch.dflt with
     | .none =>
       let r := setDefaultKids n.kids next
       (match r.2.2 with
        | .ok _ => ⟨n.withKids r.1, r.2.1, .ok, []⟩
        | .error e => excOut (n.withKids r.1) r.2.1 e)
     | d =>
       let s := compoundSet ex n d next
       (match s.res with
        | .ok _ => ⟨s.node, s.next, .ok, []⟩
        | .error e => excOut s.node s.next e))
  | op => mapStep n op next

def cstep (ex : Raw → Explode) (s : MState) (op : MapOp) : MState :=
  let r := compoundStep ex s.node op s.next
  ⟨r.node, r.next⟩

def crun (ex : Raw → Explode) (s : MState) (ops : List MapOp) : MState := ops.foldl (cstep ex) s

/-- `cls()` of a prepared Compound class: `Mapping.__init__` → `_reset()` -/
def cblank (cls : Schema) (next : Nat) : Node × Nat := blank cls none [] next

/-! ## applying a call at an element of a tree whose Compound classes are given by class id -/

mutual
/-- `Tree.stepAt` with the step chosen by the class of the target: a node whose class id is in
    `compounds` is stepped by `compoundStep`, any other by `nodeStep` -/
def stepAtC (ex : Raw → Explode) (compounds : List Nat) : Node → Nat → Op → Nat → Option StepR
  | .mk i s kids, tid, op, next =>
    if i.id = tid then
      some (match op with
        | .map o => if compounds.contains s.info.cid then compoundStep ex (.mk i s kids) o next
                    else nodeStep (.mk i s kids) op next
        | _ => nodeStep (.mk i s kids) op next)
    else
      match stepAtCL ex compounds kids tid op next with
      | none => none
      | some (kids', r) => some { r with node := .mk i s kids' }
def stepAtCL (ex : Raw → Explode) (compounds : List Nat) : List Node → Nat → Op → Nat → Option (List Node × StepR)
  | [], _, _, _ => none
  | k :: ks, tid, op, next =>
    match stepAtC ex compounds k tid op next with
    | some r => some (r.node :: ks, r)
    | none =>
      match stepAtCL ex compounds ks tid op next with
      | none => none
      | some (ks', r) => some (k :: ks', r)
end

end Flatland.C10.Compound
