/-
C07 on the tree model — node-level preservation of the deep positional invariant (`dps`) for EVERY
dict-protocol call on a Dict / SparseDict (mirror of `Proofs/C08All.lean: mapStep_wp`).  A mapping
is not a List, so only the deep part is at stake: every child after the call is deep positional.
-/
import Proofs.C07TreeInvBuild
namespace Flatland.C07Tree.Proofs.Inv
open Flatland.Tree Flatland.PyList Flatland.C08 Flatland.C07Tree
open Flatland.C08.Proofs (mem_replaceKid' findKid_mem mapSetItem_hdr)

def MapArgsDP : MapOp → Prop
  | .setitem _ a => ArgDP a
  | .updateArgs kvs => ∀ p ∈ kvs, ArgDP p.2
  | _ => True

theorem setChild_dps (child : Node) (a : Arg) (next : Nat) (hw : dps child = true) :
    dps (setChild child a next).node = true := by
  unfold setChild
  split
  · exact setNode_dps _ _ _ _ hw
  · split
    · rw [dps_withScalar]; exact hw
    · exact hw

theorem forall_erase {kids : List Node} (h : ∀ k ∈ kids, dps k = true) (k : Str) :
    ∀ x ∈ eraseKey kids k, dps x = true := by
  intro x hx
  unfold eraseKey at hx
  exact h x (List.mem_filter.mp hx).1

theorem mapSetItem_dps (n : Node) (hn : dps n = true) (hnl : n.kind ≠ .list) (key : Str) (a : Arg) (ha : ArgDP a)
    (next : Nat) : dps (mapSetItem n key a next).node = true := by
  have hK : ∀ k ∈ n.kids, dps k = true := ((dps_iff n).mp hn).2
  have hset : ∀ child, findKid n.kids key = some child →
      dps (n.withKids (replaceKid n.kids key (setChild child a next).node)) = true := by
    intro child hc
    rw [dps_withKids_notList _ _ hnl]
    exact forall_replaceKid hK key _ (setChild_dps child a next (hK child (findKid_mem hc)))
  unfold mapSetItem
  split
  · dsimp only
    split
    · split
      · exact hn
      · rename_i f hf
        split
        · rename_i e
          split
          · rw [dps_withKids_notList _ _ hnl]
            exact forall_append hK _ (by rw [dps_withKey, dps_withParent]; exact ha)
          · split
            · rw [dps_withKids_notList _ _ hnl]
              exact forall_append hK _ (by rw [dps_withScalar]; exact blank_dps _ _ _ _)
            · exact hn
        · rename_i r
          split
          · exact hn
          · rename_i el n1 hcon
            rw [dps_withKids_notList _ _ hnl]
            exact forall_append hK _ (construct_dps f r (some n.id) key next el n1 hcon)
    · rename_i child hc
      split
      · exact hn
      · rename_i f e _
        split
        · rw [dps_withKids_notList _ _ hnl]
          exact forall_replaceKid hK key _ (by rw [dps_withKey, dps_withParent]; exact ha)
        · split <;> first | exact hset child hc | (simp only [excOut]; exact hset child hc)
      · split <;> first | exact hset child hc | (simp only [excOut]; exact hset child hc)
  · split
    · exact hn
    · rename_i child hc
      dsimp only
      split <;> first | exact hset child hc | (simp only [excOut]; exact hset child hc)

theorem mapUpdatePairs_dps (kvs : List (Str × Raw)) : ∀ (n : Node) (next : Nat), dps n = true → n.kind ≠ .list →
    dps (mapUpdatePairs n kvs next).node = true := by
  induction kvs with
  | nil => intro n next h _; exact h
  | cons kv rest ih =>
    intro n next h hnl
    obtain ⟨k, v⟩ := kv
    have hs := mapSetItem_dps n h hnl k (.plain v) trivial next
    rw [mapUpdatePairs]
    split
    · exact hs
    · exact ih _ _ hs (by rw [kind_of_hdr (mapSetItem_hdr n k (.plain v) next)]; exact hnl)

theorem mapUpdatePairs_kind (kvs : List (Str × Raw)) : ∀ (n : Node) (next : Nat),
    (mapUpdatePairs n kvs next).node.kind = n.kind := by
  induction kvs with
  | nil => intro n next; rfl
  | cons kv rest ih =>
    intro n next
    obtain ⟨k, v⟩ := kv
    have hs := kind_of_hdr (mapSetItem_hdr n k (.plain v) next)
    rw [mapUpdatePairs]
    split
    · exact hs
    · rw [ih]; exact hs

theorem mapUpdateArgs_dps (kvs : List (Str × Arg)) (ha : ∀ p ∈ kvs, ArgDP p.2) : ∀ (n : Node) (next : Nat),
    dps n = true → n.kind ≠ .list → dps (mapUpdateArgs n kvs next).node = true := by
  induction kvs with
  | nil => intro n next h _; exact h
  | cons kv rest ih =>
    intro n next h hnl
    obtain ⟨k, a⟩ := kv
    have hs := mapSetItem_dps n h hnl k a (ha (k, a) (by simp)) next
    rw [mapUpdateArgs]
    split
    · exact hs
    · exact ih (fun p hp => ha p (by simp [hp])) _ _ hs
        (by rw [kind_of_hdr (mapSetItem_hdr n k a next)]; exact hnl)

theorem mapReset_dps (n : Node) (hnl : n.kind ≠ .list) (next : Nat) : dps (mapReset n next).1 = true := by
  unfold mapReset
  split
  · rw [dps_withKids_notList _ _ hnl]; exact blankFields_dps _ _ _ _
  · split
    · rw [dps_withKids_notList _ _ hnl]; exact blankFields_dps _ _ _ _
    · exact dps_withKids_nil _

/-- **node-level preservation, mappings, every call.**  (`hnl`: the call is made on a mapping — what
    `nodeStep` guarantees; a dict-protocol call on a List is not a thing.) -/
theorem mapStep_dps (n : Node) (h : dps n = true) (hnl : n.kind ≠ .list) (op : MapOp) (hop : MapArgsDP op)
    (next : Nat) : dps (mapStep n op next).node = true := by
  have hK : ∀ k ∈ n.kids, dps k = true := ((dps_iff n).mp h).2
  have hE : ∀ k, dps (n.withKids (eraseKey n.kids k)) = true := by
    intro k; rw [dps_withKids_notList _ _ hnl]; exact forall_erase hK k
  unfold mapStep
  cases op with
  | setitem k a => exact mapSetItem_dps n h hnl k a hop next
  | delitem k =>
    dsimp only
    split
    · split <;> exact h
    · split
      · split
        · exact hE k
        · split <;> exact h
      · split
        · exact h
        · exact h
        · split
          · exact hE k
          · exact h
  | pop k =>
    dsimp only
    split
    · exact h
    · split
      · exact h
      · split
        · exact h
        · split
          · exact hE k
          · exact h
  | popitem => dsimp only; split <;> exact h
  | clear =>
    dsimp only
    split
    · exact mapReset_dps n hnl next
    · exact h
  | update pos kw =>
    dsimp only
    split
    · exact mapUpdatePairs_dps kw n next h hnl
    · split
      · exact h
      · exact h
      · rename_i kvs _
        have h1 := mapUpdatePairs_dps kvs n next h hnl
        split
        · exact h1
        · exact mapUpdatePairs_dps kw _ _ h1 (by rw [mapUpdatePairs_kind]; exact hnl)
  | updateArgs kvs => exact mapUpdateArgs_dps kvs hop n next h hnl
  | ior raw =>
    dsimp only
    split
    · exact h
    · exact h
    · exact mapUpdatePairs_dps _ n next h hnl
  | setdefault k d =>
    dsimp only
    split
    · exact h
    · split
      · exact h
      · split
        · rename_i child hc
          have hcm := findKid_mem hc
          split
          · exact h
          · have hr : dps (n.withKids (replaceKid n.kids k (setNode child d none next).node)) = true := by
              rw [dps_withKids_notList _ _ hnl]
              exact forall_replaceKid hK k _ (setNode_dps d child none next (hK child hcm))
            split <;> first | exact hr | (simp only [excOut]; exact hr)
        · split
          · exact h
          · rename_i f hf
            have hel : dps ((blank f none k next).1.withParent (some n.id)) = true := by
              rw [dps_withParent]; exact blank_dps _ _ _ _
            have hr : dps (n.withKids (n.kids ++
                [(setNode ((blank f none k next).1.withParent (some n.id)) d none (blank f none k next).2).node])) = true := by
              rw [dps_withKids_notList _ _ hnl]
              exact forall_append hK _ (setNode_dps d _ none _ hel)
            split <;> first | exact hr | (simp only [excOut]; exact hr)
  | get k => dsimp only; split <;> exact h
  | set raw pol =>
    dsimp only
    split
    · split <;> exact setNode_dps _ n _ _ h
    · split <;> exact setNode_dps _ n _ _ h
    · split <;> exact setNode_dps _ n _ _ h
  | setDefault => dsimp only; split <;> exact setDefault_dps n next h
  | contains k => exact h
  | len => exact h

end Flatland.C07Tree.Proofs.Inv
