/-
C10 for Compound roots: "a Dict/Schema/Compound always contains exactly one element per declared field".

* `prepare_length`, `prepare_keys` : the lazy class preparation completes ANY supplied list of at most three
  fields to exactly three, keeping the supplied ones in place; with no supplied field the declared names are
  year, month, day.
* `compound_inv_step` / `compound_inv_run` : the mapping invariant `MapInv` (one member per declared field in
  declaration order, each an element of the declared field class under that field's name with the Compound as
  stored parent) is preserved by every dict-protocol call on a Compound — item assignment, del, pop, popitem,
  clear, update in every form, `|=`, setdefault, get, `set` (= `explode`, for EVERY `explode` that follows the
  contract, in particular `dateExplode`), `set` with a policy keyword (TypeError), set_default.
* `compound_keys_exact` : along every history from `cls()` the key list is exactly the declared (prepared)
  field names; `compound_keys_nodup`.
* `compound_set_keeps_members` : `set(value)` never changes WHICH elements are members (identity, class, key,
  parent of every member are the same before and after) — whatever `explode` assigns.
* `compound_undeclared_rejected` : naming an undeclared key raises and changes nothing.
-/
import Flatland.C10Compound
import Proofs.C10Nodup
namespace Flatland.C10.Proofs
open Flatland.Tree Flatland.PyList Flatland.C10 Flatland.C10.Spec Flatland.C10.Compound

/-! ### preparation -/

/-- **prepare_length.**  After `__compound_init__` a DateYYYYMMDD class has exactly three fields, whatever
    (at most three) fields the user supplied. -/
theorem prepare_length (supplied : List Schema) (o : Bool) (cids : Nat × Nat × Nat) (h : supplied.length ≤ 3) :
    (prepare supplied o cids).length = 3 := by
  simp only [prepare, List.length_append, List.length_drop, List.length_cons, List.length_nil]
  omega

/-- the supplied fields stay where they are -/
theorem prepare_prefix (supplied : List Schema) (o : Bool) (cids : Nat × Nat × Nat) :
    (prepare supplied o cids).take supplied.length = supplied := by
  simp [prepare]

/-- **prepare_keys.**  With no supplied field the declared names are year, month, day. -/
theorem prepare_keys (o : Bool) (cids : Nat × Nat × Nat) :
    (prepare [] o cids).map Schema.key = [['y', 'e', 'a', 'r'], ['m', 'o', 'n', 't', 'h'], ['d', 'a', 'y']] := rfl

/-! ### `Compound.set` touches members only through `member.set(v)` -/

theorem replaceKid_hdrs (kids : List Node) (k : Str) (new : Node)
    (h : ∀ c ∈ kids, c.key = k → new.hdr = c.hdr) : (replaceKid kids k new).map Node.hdr = kids.map Node.hdr := by
  unfold replaceKid
  induction kids with
  | nil => rfl
  | cons c cs ih =>
    simp only [List.map_cons]
    rw [ih (fun x hx => h x (by simp [hx]))]
    by_cases hk : (c.key == k) = true
    · simp only [hk, if_true]
      rw [h c (by simp) (by simpa using hk)]
    · simp only [hk]; rfl

/-- with at most one member per key, replacing the member under `k` by one with the same header leaves all headers -/
theorem replaceKid_hdrs_nodup {kids : List Node} (hnd : ND kids) {k : Str} {child new : Node}
    (hc : findKid kids k = some child) (hn : new.hdr = child.hdr) :
    (replaceKid kids k new).map Node.hdr = kids.map Node.hdr := by
  apply replaceKid_hdrs
  intro c hcm hck
  obtain ⟨hchm, hchk⟩ := findKid_some hc
  -- two members with the same key are the same member
  have : c = child := by
    clear hn
    induction kids with
    | nil => cases hcm
    | cons x xs ih =>
      have hnd' : ND xs := (List.nodup_cons.mp hnd).2
      have hx : x.key ∉ xs.map Node.key := (List.nodup_cons.mp hnd).1
      rcases List.mem_cons.mp hcm with h1 | h1 <;> rcases List.mem_cons.mp hchm with h2 | h2
      · rw [h1, h2]
      · exact absurd (List.mem_map.mpr ⟨child, h2, by rw [hchk, ← hck, h1]⟩) hx
      · exact absurd (List.mem_map.mpr ⟨c, h1, by rw [hck, ← hchk, h2]⟩) hx
      · have hfx : findKid xs k = some child := by
          unfold findKid at hc ⊢
          rw [List.find?_cons] at hc
          have : (x.key == k) = false := by
            cases hb : (x.key == k) with
            | false => rfl
            | true =>
              exact absurd (List.mem_map.mpr ⟨c, h1, by rw [hck]; exact (by simpa using hb : x.key = k).symm⟩) hx
          simpa [this] using hc
        exact ih hnd' hfx h1 h2
  rw [this]; exact hn

theorem assignKids_hdrs (subs : List Schema) : ∀ (vs : List Raw) (kids : List Node) (next : Nat), ND kids →
    (assignKids subs vs kids next).1.map Node.hdr = kids.map Node.hdr := by
  induction subs with
  | nil => intro vs kids next _; simp [assignKids]
  | cons f fs ih =>
    intro vs kids next hnd
    cases vs with
    | nil => simp [assignKids]
    | cons v vs =>
      rw [assignKids]
      cases hc : findKid kids f.key with
      | none => rfl
      | some child =>
        have hh := setNode_hdr child v none next
        have hr := replaceKid_hdrs_nodup hnd hc hh
        simp only
        cases hres : (setNode child v none next).res with
        | error e => exact hr
        | ok b =>
          simp only
          have hnd' : ND (replaceKid kids f.key (setNode child v none next).node) := by
            unfold ND; rw [keys_of_map_hdr hr]; exact hnd
          rw [ih vs _ _ hnd', hr]

/-- **compound_set_keeps_members.**  `Compound.set(value)` — for EVERY `explode` following the contract —
    keeps every member: same identities, classes, keys, stored parents, in the same order; and the Compound
    itself. -/
theorem compound_set_keeps_members (ex : Raw → Explode) (n : Node) (hnd : KeysNodup n) (raw : Raw) (next : Nat) :
    (compoundSet ex n raw next).node.hdr = n.hdr ∧
    (compoundSet ex n raw next).node.kids.map Node.hdr = n.kids.map Node.hdr := by
  unfold compoundSet
  cases ex raw with
  | raises => exact ⟨rfl, rfl⟩
  | assign vs =>
    have := assignKids_hdrs n.sch.subs vs n.kids next hnd
    simp only
    split
    · exact ⟨rfl, by rw [kids_withKids]; exact this⟩
    · exact ⟨rfl, by rw [kids_withKids]; exact this⟩
    · exact ⟨rfl, by rw [kids_withKids]; exact this⟩
  | assignThenRaise vs =>
    have := assignKids_hdrs n.sch.subs vs n.kids next hnd
    simp only
    split
    · exact ⟨rfl, by rw [kids_withKids]; exact this⟩
    · exact ⟨rfl, by rw [kids_withKids]; exact this⟩

/-- the wider contract is inhabited and observable: an `explode` that sets year and month to None and then
    raises (the `set(None)` fallback loop of `DateYYYYMMDD.explode` with a day member whose `valid_value` raises
    on None) returns False and leaves year / month None, day as it was -/
def exRaisingDay : Raw → Explode
  | .str _ => .assignThenRaise [.none, .none]
  | _ => .raises

/-! ### every call -/

theorem compoundStep_ok (ex : Raw → Explode) (n : Node) (hd : n.kind = .dict) (hnd : FieldsNodup n) (h : KI n n.kids)
    (op : MapOp) (hop : OpExact n op) (next : Nat) :
    (compoundStep ex n op next).node.hdr = n.hdr ∧ KI n (compoundStep ex n op next).node.kids := by
  have hkn : KeysNodup n := by
    unfold KeysNodup keys; rw [h.dense hd]; exact hnd
  have hset : ∀ raw, (compoundSet ex n raw next).node.hdr = n.hdr ∧ KI n (compoundSet ex n raw next).node.kids :=
    fun raw => ⟨(compound_set_keeps_members ex n hkn raw next).1,
      KI_of_map_hdr (compound_set_keeps_members ex n hkn raw next).2 h⟩
  have hmap : ∀ o, (mapStep n o next).node.hdr = n.hdr ∧ KI n (mapStep n o next).node.kids →
      (mapStep n o next).node.hdr = n.hdr ∧ KI n (mapStep n o next).node.kids := fun _ x => x
  cases op with
  | set raw pol =>
    cases pol with
    | none =>
      simp only [compoundStep]
      split
      · exact hset raw
      · exact hset raw
    | some p => exact ⟨rfl, h⟩
  | setDefault =>
    simp only [compoundStep]
    split
    · have hk := KI_of_map_hdr (n := n) (setDefaultKids_hdr n.kids next) h
      split
      · exact ⟨rfl, by rw [kids_withKids]; exact hk⟩
      · exact ⟨rfl, by rw [excOut, kids_withKids]; exact hk⟩
    · split
      · exact hset _
      · exact hset _
  | setitem k a => exact mapStep_ok n (Or.inl hd) hnd h _ hop next
  | delitem k => exact mapStep_ok n (Or.inl hd) hnd h _ hop next
  | pop k => exact mapStep_ok n (Or.inl hd) hnd h _ hop next
  | popitem => exact mapStep_ok n (Or.inl hd) hnd h _ hop next
  | clear => exact mapStep_ok n (Or.inl hd) hnd h _ hop next
  | update pos kw => exact mapStep_ok n (Or.inl hd) hnd h _ hop next
  | ior r => exact mapStep_ok n (Or.inl hd) hnd h _ hop next
  | updateArgs kvs => exact mapStep_ok n (Or.inl hd) hnd h _ hop next
  | setdefault k d => exact mapStep_ok n (Or.inl hd) hnd h _ hop next
  | get k => exact mapStep_ok n (Or.inl hd) hnd h _ hop next
  | contains k => exact mapStep_ok n (Or.inl hd) hnd h _ hop next
  | len => exact mapStep_ok n (Or.inl hd) hnd h _ hop next

/-- **compound_inv_step.**  Every dict-protocol call on a Compound preserves the mapping invariant. -/
theorem compound_inv_step (ex : Raw → Explode) {n : Node} (h : MapInv n) (hd : n.kind = .dict) (hnd : FieldsNodup n)
    (op : MapOp) (hop : OpExact n op) (next : Nat) : MapInv (compoundStep ex n op next).node := by
  have := compoundStep_ok ex n hd hnd ((mapInv_iff n).mp h) op hop next
  exact mapInv_of_hdr this.1 this.2

/-- **compound_inv_run.**  … and so does every history; the Compound keeps its identity and class. -/
theorem compound_inv_run (ex : Raw → Explode) (ops : List MapOp) :
    ∀ (n : Node) (next : Nat), MapInv n → n.kind = .dict → FieldsNodup n → (∀ op ∈ ops, OpExactS n.sch op) →
      (crun ex ⟨n, next⟩ ops).node.hdr = n.hdr ∧ MapInv (crun ex ⟨n, next⟩ ops).node := by
  induction ops with
  | nil => intro n next h _ _ _; exact ⟨rfl, h⟩
  | cons op ops ih =>
    intro n next h hd hnd hops
    have hop := opExact_of_S (hops op (by simp))
    have hh := (compoundStep_ok ex n hd hnd ((mapInv_iff n).mp h) op hop next).1
    have hs : (compoundStep ex n op next).node.sch = n.sch := sch_of_hdr hh
    have hd' : (compoundStep ex n op next).node.kind = .dict := by unfold Node.kind at *; rw [hs]; exact hd
    have hnd' : FieldsNodup (compoundStep ex n op next).node := by unfold FieldsNodup at *; rw [hs]; exact hnd
    have := ih (compoundStep ex n op next).node (compoundStep ex n op next).next
      (compound_inv_step ex h hd hnd op hop next) hd' hnd' (fun o ho => by rw [hs]; exact hops o (by simp [ho]))
    simp only [crun, List.foldl_cons, cstep] at this ⊢
    exact ⟨this.1.trans hh, this.2⟩

/-- **compound_keys_exact.**  From `cls()` of a prepared Compound class (field names distinct), after every
    history of dict-protocol calls the key list is exactly the declared field names in declaration order:
    one member per declared field, no other. -/
theorem compound_keys_exact (ex : Raw → Explode) (ops : List MapOp) (cls : Schema) (hd : cls.kind = .dict)
    (hnd : (cls.subs.map Schema.key).Nodup) (next next' : Nat) (hops : ∀ op ∈ ops, OpExactS cls op) :
    keys (crun ex ⟨(cblank cls next).1, next'⟩ ops).node = cls.subs.map Schema.key ∧
    MapInv (crun ex ⟨(cblank cls next).1, next'⟩ ops).node := by
  have hb := blank_hdr cls none [] next
  have hs : (cblank cls next).1.sch = cls := (hdr_eq_parts hb).2.2.1
  have hkind : (cblank cls next).1.kind = .dict := by unfold Node.kind; rw [hs]; exact hd
  obtain ⟨hh, hinv⟩ := compound_inv_run ex ops (cblank cls next).1 next'
    (mapinv_init cls (Or.inl hd) none [] next) hkind (by unfold FieldsNodup; rw [hs]; exact hnd)
    (fun o ho => by rw [hs]; exact hops o ho)
  have hs' : (crun ex ⟨(cblank cls next).1, next'⟩ ops).node.sch = cls := (sch_of_hdr hh).trans hs
  refine ⟨?_, hinv⟩
  have := hinv.dense (by unfold Node.kind; rw [hs']; exact hd)
  rw [hs'] at this
  exact this

theorem compound_keys_nodup (ex : Raw → Explode) (ops : List MapOp) (cls : Schema) (hd : cls.kind = .dict)
    (hnd : (cls.subs.map Schema.key).Nodup) (next next' : Nat) (hops : ∀ op ∈ ops, OpExactS cls op) :
    (keys (crun ex ⟨(cblank cls next).1, next'⟩ ops).node).Nodup := by
  rw [(compound_keys_exact ex ops cls hd hnd next next' hops).1]; exact hnd

/-- **compound_undeclared_rejected.**  Item assignment, deletion, pop, setdefault, get naming a key the
    Compound does not declare raise TypeError / KeyError and leave it exactly as it was (`compoundStep` is
    `mapStep` on these calls: `undeclared_rejected`). -/
theorem compound_undeclared_rejected (ex : Raw → Explode) {n : Node} (h : MapInv n) (k : Str)
    (hund : fieldFor n.sch.subs k = none) (next : Nat) (op : MapOp)
    (hop : (∃ a, op = .setitem k a) ∨ op = .delitem k ∨ op = .pop k ∨ (∃ d, op = .setdefault k d) ∨ op = .get k) :
    (compoundStep ex n op next).node = n ∧
    ((compoundStep ex n op next).out = .exc .typeError ∨ (compoundStep ex n op next).out = .exc .keyError) := by
  have hm := undeclared_rejected h k hund next op hop
  rcases hop with ⟨a, rfl⟩ | rfl | rfl | ⟨d, rfl⟩ | rfl <;> exact hm

/-! ### non-vacuity: DateYYYYMMDD -/

/-- `DateYYYYMMDD.named('when')`, prepared (no supplied fields; generated classes 2, 3, 4) -/
def exDate : Schema := preparedClass { cid := 1, kind := .dict, name := some ['w', 'h', 'e', 'n'] } .none [] (2, 3, 4)

/-- `d['year'] = 2020; d['zz'] = 1` (TypeError); `d |= {'month': 3, 'q': 1}` (TypeError at 'q'); `d.pop('day')`
    (TypeError); `d.clear()` (TypeError); `d.setdefault('year', 1)` (TypeError); `d.set('2024-02-29')`;
    `d.set('junk')`; `d.set(None)`; `d.set('2024-02-29', policy='strict')` (TypeError); `d.set_default()` -/
def exDateHist : List MapOp :=
  [.setitem ['y', 'e', 'a', 'r'] (.plain (.int 2020)), .setitem ['z', 'z'] (.plain (.int 1)),
   .ior (.dict [(['m', 'o', 'n', 't', 'h'], .int 3), (['q'], .int 1)]), .pop ['d', 'a', 'y'], .clear,
   .setdefault ['y', 'e', 'a', 'r'] (.int 1), .set (.str ['2', '0', '2', '4', '-', '0', '2', '-', '2', '9']) none, .set (.str ['j', 'u', 'n', 'k']) none,
   .set .none none, .set (.str ['2', '0', '2', '4', '-', '0', '2', '-', '2', '9']) (some (some .strict)), .setDefault]

theorem exDateHist_exact : ∀ op ∈ exDateHist, OpExactS exDate op := by
  intro op hop
  simp [exDateHist] at hop
  rcases hop with rfl | rfl | rfl | rfl | rfl | rfl | rfl | rfl | rfl | rfl | rfl <;> trivial

example : keys (crun dateExplode ⟨(cblank exDate 1).1, 10⟩ exDateHist).node = [['y', 'e', 'a', 'r'], ['m', 'o', 'n', 't', 'h'], ['d', 'a', 'y']] :=
  (compound_keys_exact dateExplode exDateHist exDate rfl (by decide) 1 10 exDateHist_exact).1

/-- `set('2024-02-29')` explodes into the three members … -/
example : (crun dateExplode ⟨(cblank exDate 1).1, 10⟩ (exDateHist.take 7)).node.kids.map (fun c => c.ni.val) =
    [.int 2024, .int 2, .int 29] := by decide
/-- … `set('junk')` sets every member to None, `set(None)` changes nothing (and returns False) -/
example : (crun dateExplode ⟨(cblank exDate 1).1, 10⟩ (exDateHist.take 9)).node.kids.map (fun c => c.ni.val) =
    [.none, .none, .none] := by decide
example : (compoundStep dateExplode (cblank exDate 1).1 (.set .none none) 10).out = .bool false := by rfl
example : (compoundStep dateExplode (cblank exDate 1).1 (.set (.str ['2', '0', '2', '3', '-', '0', '2', '-', '3', '0']) none) 10).out = .bool true := by rfl
example : dateExplode (.str ['2', '0', '2', '3', '-', '0', '2', '-', '3', '0']) = .assign [.none, .none, .none] := by rfl
example : dateExplode (.str [' ', '2', '0', '2', '4', '-', '0', '2', '-', '2', '9', ' ']) = .assign [.int 2024, .int 2, .int 29] := by rfl

/-! ### `dateExplode` reads every Unicode decimal digit (the library's `\d` under `re.UNICODE`, `int()`) -/

/-- **parseDate_is_scalar_date_adapt** — the date reader of `dateExplode` IS `Date.adapt` of the scalar model
    (C04: compared with the real `Date` on texts of every `Nd` block) over the regenerated tables. -/
theorem parseDate_is_scalar_date_adapt (E : Flatland.Scalar.Env) (hE : E.T = Compound.T) (s : Str) :
    Flatland.Scalar.adapt E (.date true) (.str s) =
      .ok ((Compound.parseDate s).map fun p => Flatland.Scalar.Native.date p.1 p.2.1 p.2.2) := by
  simp only [Flatland.Scalar.adapt, Flatland.Scalar.adaptTemporalText, Compound.parseDate, hE, if_true]
  cases Flatland.Scalar.matchDate Compound.T (Flatland.Scalar.strip Compound.T s) with
  | none => rfl
  | some r =>
    obtain ⟨y, m, d⟩ := r
    cases hv : Flatland.Scalar.validDate y m d <;> simp [hv]

/-- **date_regex_pinned** — the source of `Date.regex` (re-read from scalars.py on every run into
    `Generated/C04Tables.lean`) is the pattern `parseDate` transcribes: `\d` (with `re.UNICODE`: every `Nd`
    character), not `[0-9]`.  An edit of the pattern breaks this obligation. -/
theorem date_regex_pinned :
    Flatland.Generated.C04.dateRegex = "^(?P<year>\\d{4})-(?P<month>\\d{2})-(?P<day>\\d{2})$" := rfl

/-- counter-model: the reader with ASCII digits only (`[0-9]{4}-[0-9]{2}-[0-9]{2}`) -/
def asciiTables : Flatland.Scalar.Tables := { Compound.T with zeros := [48] }
def parseDateAscii (s : Str) : Option (Nat × Nat × Nat) :=
  match Flatland.Scalar.matchDate asciiTables (Flatland.Scalar.strip asciiTables s) with
  | some (y, m, d) => if Flatland.Scalar.validDate y m d then some (y, m, d) else none
  | none => none

/-- `'٢٠٢٤-٠٢-٢٩'` (Arabic-Indic digits): the code's reader takes it, an ASCII-only reader does not -/
theorem ascii_reader_differs : ∃ s, Compound.parseDate s = some (2024, 2, 29) ∧ parseDateAscii s = none :=
  ⟨['٢', '٠', '٢', '٤', '-', '٠', '٢', '-', '٢', '٩'], by decide, by decide⟩

example : dateExplode (.str ['٢', '٠', '٢', '٤', '-', '٠', '٢', '-', '٢', '٩']) = .assign [.int 2024, .int 2, .int 29] := by rfl
/-- mixed scripts in one field (ASCII, Arabic-Indic, full-width, Devanagari) -/
example : dateExplode (.str ['2', '٠', '２', '4', '-', '०', '2', '-', '2', '９']) = .assign [.int 2024, .int 2, .int 29] := by rfl
/-- near misses: one-digit month; 30 February in Arabic-Indic digits; a non-digit of a digit-like block -/
example : dateExplode (.str ['2', '0', '2', '4', '-', '2', '-', '2', '9']) = .assign [.none, .none, .none] := by rfl
example : dateExplode (.str ['٢', '٠', '٢', '٤', '-', '٠', '٢', '-', '٣', '٠']) = .assign [.none, .none, .none] := by rfl
example : dateExplode (.str ['2', '0', '2', '4', '-', '0', '2', '-', '2', '²']) = .assign [.none, .none, .none] := by rfl
/-- `strip()` removes Unicode whitespace (NBSP, ideographic space) and the trailing newline -/
example : dateExplode (.str ['\u00a0', '2', '0', '2', '4', '-', '0', '2', '-', '2', '9', '\u3000', '\n']) =
    .assign [.int 2024, .int 2, .int 29] := by rfl
/-- the whole call: members hold 2024 / 2 / 29 after `set('٢٠٢٤-٠٢-٢٩')` -/
example : (compoundStep dateExplode (cblank exDate 1).1 (.set (.str ['٢', '٠', '٢', '٤', '-', '٠', '٢', '-', '٢', '٩']) none) 10).node.kids.map
    (fun c => c.ni.val) = [.int 2024, .int 2, .int 29] := by decide

/-- the wider contract at work: members 2024 / 2 / 29, then a `set` whose explode sets a prefix and raises:
    False, year and month None, day untouched, the same three members under the same keys -/
def exAfterDate : MState := crun dateExplode ⟨(cblank exDate 1).1, 10⟩ (exDateHist.take 7)
example : (compoundStep exRaisingDay exAfterDate.node (.set (.str ['j']) none) exAfterDate.next).out = .bool false := by rfl
example : (compoundStep exRaisingDay exAfterDate.node (.set (.str ['j']) none) exAfterDate.next).node.kids.map (fun c => c.ni.val) =
    [.none, .none, .int 29] := by decide
example : keys (compoundStep exRaisingDay exAfterDate.node (.set (.str ['j']) none) exAfterDate.next).node = keys exAfterDate.node := by decide

/-- a user-supplied first field is kept, the other two are generated -/
example : (prepare [.mk { cid := 7, kind := .integer, name := some ['y'] } .none []] false (2, 3, 4)).map Schema.key =
    [['y'], ['m', 'o', 'n', 't', 'h'], ['d', 'a', 'y']] := by decide

/-- the distinctness of the declared names is a HYPOTHESIS the code does not check: a supplied first field
    named 'month' collides with the generated one, and `_reset()` then builds two members for three fields -/
example : ¬ ((prepare [.mk { cid := 7, kind := .integer, name := some ['m', 'o', 'n', 't', 'h'] } .none []] false (2, 3, 4)).map
    Schema.key).Nodup := by decide

end Flatland.C10.Proofs
