/-
C05 — the `.valid` store: visited elements get their own verdict, unvisited ones are left untouched,
and on a fresh tree the return value is `all_valid` over the WHOLE tree.
-/
import Proofs.C05
namespace Flatland.C05.Proofs
open Flatland.C05 Flatland.C05.Spec

theorem lookupValid_none (id : Nat) (l : List (Nat × Valid)) (h : id ∉ l.map Prod.fst) :
    lookupValid id l = none := by
  induction l with
  | nil => rfl
  | cons p ps ih =>
    obtain ⟨k, v⟩ := p
    simp only [List.map_cons, List.mem_cons, not_or] at h
    simp only [lookupValid]
    rw [if_neg (fun hk => h.1 hk.symm)]
    exact ih h.2

theorem lookupValid_some {α} (f : α → Nat) (g : α → Valid) (l : List α) (hnd : (l.map f).Nodup)
    (a : α) (ha : a ∈ l) : lookupValid (f a) (l.map (fun x => (f x, g x))) = some (g a) := by
  induction l with
  | nil => simp at ha
  | cons x xs ih =>
    simp only [List.map_cons, List.nodup_cons] at hnd
    simp only [List.map_cons, lookupValid]
    rcases List.mem_cons.mp ha with rfl | h
    · simp
    · have hne : f x ≠ f a := fun he => hnd.1 (he ▸ List.mem_map_of_mem h)
      rw [if_neg hne]
      exact ih hnd.2 h

/-- **Unvisited elements are left untouched**: whatever an earlier call left in `.valid` stays. -/
theorem unvisited_untouched (prev : Nat → Valid) (t : VTree) (id : Nat)
    (h : id ∉ (visited t).map (·.id)) : validNow prev t id = prev id := by
  unfold validNow
  rw [valids_are_visited, lookupValid_none]
  simpa [List.map_map, Function.comp_def] using h

/-- **Visited elements end with their own verdict**, whatever was there before. -/
theorem visited_own_verdict (prev : Nat → Valid) (t : VTree)
    (hnd : ((visited t).map (·.id)).Nodup) (i : Info) (hi : i ∈ visited t) :
    validNow prev t i.id = verdict i := by
  unfold validNow
  rw [valids_are_visited, lookupValid_some (·.id) verdict (visited t) hnd i hi]

/-! ### level order is a permutation of preorder; the visited ids are distinct when the tree's are -/

theorem idsL_append (a b : List VTree) : idsL (a ++ b) = idsL a ++ idsL b := by
  induction a with
  | nil => simp [idsL]
  | cons t ts ih => simp [idsL, ih, List.append_assoc]

theorem idsL_perm_level (q : List VTree) :
    (idsL q).Perm (q.map (fun t => t.info.id) ++ idsL (q.flatMap VTree.kids)) := by
  induction q with
  | nil => simp [idsL]
  | cons t ts ih =>
    cases t with
    | node i k =>
      simp only [idsL, VTree.ids, List.map_cons, VTree.info, List.flatMap_cons, VTree.kids, idsL_append,
        List.cons_append]
      apply List.Perm.cons
      -- idsL k ++ idsL ts  ~  ts.map .. ++ (idsL k ++ idsL (ts.flatMap kids))
      refine (List.Perm.append_left _ ih).trans ?_
      rw [← List.append_assoc, ← List.append_assoc]
      exact List.Perm.append_right _ List.perm_append_comm

theorem levelOrder_ids_perm (q : List VTree) : ((levelOrder q).map (·.id)).Perm (idsL q) := by
  induction h : sizeL q using Nat.strongRecOn generalizing q with
  | _ n ih =>
    cases q with
    | nil => simp [levelOrder, idsL]
    | cons t ts =>
      rw [levelOrder]
      have hs := sizeL_flatMap_kids (t :: ts)
      simp only [List.length_cons] at hs
      have := ih _ (by omega) ((t :: ts).flatMap VTree.kids) rfl
      simp only [List.map_append, List.map_map]
      refine List.Perm.trans ?_ (idsL_perm_level (t :: ts)).symm
      exact List.Perm.append_left _ this

mutual
theorem prune_ids_sublist : ∀ t : VTree, (prune t).ids.Sublist t.ids
  | .node i kids => by
    simp only [prune, VTree.ids]
    apply List.Sublist.cons₂
    split
    · simp [idsL]
    · exact pruneL_ids_sublist kids
theorem pruneL_ids_sublist : ∀ ts : List VTree, (idsL (pruneL ts)).Sublist (idsL ts)
  | [] => by simp [pruneL, idsL]
  | t :: ts => by
    simp only [pruneL, idsL]
    exact List.Sublist.append (prune_ids_sublist t) (pruneL_ids_sublist ts)
end

theorem visited_ids_nodup (t : VTree) (hnd : t.ids.Nodup) : ((visited t).map (·.id)).Nodup := by
  unfold visited
  rw [(levelOrder_ids_perm [prune t]).nodup_iff]
  simp only [idsL, List.append_nil]
  exact List.Nodup.sublist (prune_ids_sublist t) hnd

theorem visited_ids_subset (t : VTree) : ∀ i ∈ visited t, i.id ∈ t.ids := by
  intro i hi
  have hp := (levelOrder_ids_perm [prune t]).mem_iff (a := i.id)
  have : i.id ∈ idsL [prune t] := hp.mp (List.mem_map_of_mem hi)
  simp only [idsL, List.append_nil] at this
  exact (prune_ids_sublist t).subset this

/-- **On a fresh tree the return value equals `all_valid`** — over every element of the tree, visited or
    not (unvisited ones are Unevaluated, which counts as valid). -/
theorem fresh_ret_eq_all_valid (t : VTree) (hnd : t.ids.Nodup) :
    (validate t).ret = allValidNow (fun _ => .uneval) t := by
  have hv := visited_ids_nodup t hnd
  rw [validate_refines]
  show expectedRet t = _
  unfold expectedRet allValidNow
  apply Bool.eq_iff_iff.mpr
  simp only [List.all_eq_true]
  constructor
  · intro h id _
    by_cases hin : id ∈ (visited t).map (·.id)
    · obtain ⟨i, hi, rfl⟩ := List.mem_map.mp hin
      rw [visited_own_verdict _ t hv i hi]
      exact h i hi
    · rw [unvisited_untouched _ t id hin]; rfl
  · intro h i hi
    have := h i.id (visited_ids_subset t i hi)
    rwa [visited_own_verdict _ t hv i hi] at this

/-- … and a second `validate()` on the same tree overwrites exactly the elements it visits -/
theorem revalidate_store (prev : Nat → Valid) (t : VTree) (hnd : t.ids.Nodup) (id : Nat) :
    validNow prev t id =
      match (visited t).find? (fun i => i.id == id) with
      | some i => verdict i
      | none => prev id := by
  have hv := visited_ids_nodup t hnd
  cases hf : (visited t).find? (fun i => i.id == id) with
  | some i =>
    have hi := List.mem_of_find?_eq_some hf
    have hid : i.id = id := by
      have := List.find?_some hf
      simpa using this
    subst hid
    exact visited_own_verdict prev t hv i hi
  | none =>
    apply unvisited_untouched
    intro hin
    obtain ⟨i, hi, rfl⟩ := List.mem_map.mp hin
    have := List.find?_eq_none.mp hf i hi
    simp at this

example : validNow (fun _ => .fls) exTree 3 = .fls ∧ validNow (fun _ => .fls) exTree 1 = .tru := by
  constructor
  · apply unvisited_untouched
    simp [visited, exTree, prune, pruneL, cutsBelow, downVerdict, elementVerdict, listVerdict, Ret.isSkipAll,
      levelOrder, VTree.info, VTree.kids]
  · simp [validNow, validate, exTree, descend, validateDown, validateUp, validateElement, runValidators,
      Ret.isSkipAll, validAfterUp, validAfterDown, Ret.truthy, Valid.truthy, Valid.ofBool, lookupValid]

end Flatland.C05.Proofs
