/-
END TO END with Arrays / MultiValues of ANY size (checkbox groups, `<select multiple>`):

    end_to_end_arrays_partial : hypsA … = true → browserSubmit … = .ok ps → fromFlat env "_" s ps = prS e

`hypsA` = `hypsN` minus `narrowB` (and minus `boolsCanonical` / `dropSafe`: the form has no unchecked box),
plus the executable `keySameB (flatten e) (formPairs t)`.  The two hereditary conditions of C02's
`order_free_stable` are now PROVED of every canonical `flatten` output:

* `hnodupA_flatten` (Lemmas/EndToEndHNodupA.lean) — no scalar's key twice;
* `asame_flatten` (Lemmas/EndToEndASame.lean) — every list with the same pairs and the same per-KEY order
  hands every Array its pairs in the same order.  So on canonical keys the plain per-key reading of
  stability IS enough (`order_free_canonical`), which it is not on arbitrary pair lists
  (`order_free_stable_full_fails`).

What is still a hypothesis: that document order and `flatten()` order agree per key (`keySameB`, decidable;
on canonical keys only the members of one Array share a key).

SCOPE.  A `FormTree` can only be linked to schemas without a Compound that holds a member:
`linked_formLike`, `compound_not_linked`, `exDate_not_linked`.
-/
import Proofs.EndToEnd
import Proofs.Lemmas.EndToEndASame
namespace Flatland.Flat.Proofs
open Flatland.Flat Flatland.Flat.Spec Flatland.EndToEnd

/-- **C02, canonical keys.**  Against the flat pairs of a conforming element, `from_flat` builds the
    same tree from every reordering that keeps the relative order of the pairs of every KEY.
    (False for arbitrary pair lists: `order_free_stable_full_fails`.) -/
theorem order_free_canonical (env : Env) (sep : Str) (s : Schema) (e : Elem)
    (hs : SepSafe env sep (Tok s)) (henv : EnvOK env) (hw : wf s = true)
    (hroot : rootOK s = true) (hok : OkS env s e) (ps' : List (Str × Str))
    (hR : KRel (flatten env sep s e) ps') :
    fromFlat env sep s (flatten env sep s e) = fromFlat env sep s ps' :=
  order_free_stable env sep s _ _ (hnodupA_flatten env sep s e hs henv hw hroot hok) hR.1
    (asame_flatten env sep s e hs henv hw hroot hok ps' hR)

/-- the executable test, with the permutation, is `KRel` -/
theorem keySameB_sound {ps ps' : List (Str × Str)} (hp : ps.Perm ps') (h : keySameB ps ps' = true) :
    KRel ps ps' := by
  refine ⟨hp, fun k => ?_⟩
  by_cases hk : k ∈ ps.map (·.1)
  · simp only [keySameB, List.all_eq_true] at h
    exact eq_of_beq (h k hk)
  · have hn : ∀ X : List (Str × Str), (∀ x ∈ X, x ∈ ps) → X.filter (fun p => p.1 == k) = [] := by
      intro X hX
      apply List.filter_eq_nil_iff.mpr
      intro x hx hc
      exact hk (List.mem_map.mpr ⟨x, hX x hx, eq_of_beq hc⟩)
    rw [hn ps (fun _ h => h), hn ps' (fun x hx => hp.mem_iff.mpr hx)]

end Flatland.Flat.Proofs

namespace Flatland.EndToEnd.Proofs
open Flatland.Flat Flatland.Flat.Spec Flatland.Flat.Proofs Flatland.EndToEnd
open Flatland.C12 Flatland.C12.Proofs
open Flatland.Markup (Tables Ctx PyErr)

/-- the core with Arrays of any size: the pairs a form without unchecked boxes carries rebuild `prS e` -/
theorem fromFlat_formPairs_arrays (env : Env) (s : Schema) (e : Elem) (t : FormTree)
    (henv : EnvOK env) (hs : SepSafe env usep (Tok s)) (hw : wf s = true) (hroot : rootOK s = true)
    (hok : OkS env s e) (hlink : embed t = resolve env s e) (hun : uncheckedPairs [] t = [])
    (hks : keySameB (flatten env usep s e) (formPairs [] t) = true) :
    fromFlat env usep s (formPairs [] t) = prS env usep false s e := by
  have hperm : (flatten env usep s e).Perm (formPairs [] t) := by
    have := formPairs_flatten t
    rw [hun, List.append_nil, hlink] at this
    exact this
  exact fromFlat_formPairs_stable env s e t henv hs hw hroot hok hlink
    (hnodupA_flatten env usep s e hs henv hw hroot hok)
    (asame_flatten env usep s e hs henv hw hroot hok _ (keySameB_sound hperm hks)) hun

/-- the executable hypotheses `hypsA`, unpacked -/
theorem hypsA_unpack {T : Tables} {env : Env} {s : Schema} {e : Elem} {t : FormTree}
    (h : hypsA T env s e t = true) :
    embed t = resolve env s e ∧ formOk T [] t = true ∧ oneSubmitter t = true ∧
    wf s = true ∧ rootOK s = true ∧ OkS env s e ∧ EnvOK env ∧ SepSafe env usep (Tok s) ∧
    uncheckedPairs [] t = [] ∧ keySameB (flatten env usep s e) (formPairs [] t) = true := by
  simp only [hypsA, Bool.and_eq_true, List.isEmpty_iff] at h
  obtain ⟨⟨⟨⟨⟨⟨⟨⟨⟨hl, hf⟩, hsub⟩, hw⟩, hroot⟩, hok⟩, henv⟩, hns⟩, hun⟩, hks⟩ := h
  have henv' := envOKB_sound env henv
  exact ⟨fnodeBeq_sound _ _ hl, hf, hsub, by rw [← wfS_eq]; exact hw, hroot, okSB_sound env s e hok,
    henv', namesSafe_sound env s henv' hns, hun, hks⟩

/-- **END TO END with Arrays, any generator context.** -/
theorem end_to_end_arrays_at (T : Tables) (ctx : Ctx) (hT : TablesOK T)
    (hL : Live T ctx) (env : Env) (s : Schema) (e : Elem) (t : FormTree)
    (h : hypsA T env s e t = true) (ps : List Pair)
    (hpost : browserSubmit (seenOf T ctx) (some 0) (renderForm [] t) = .ok ps) :
    fromFlat env usep s ps = prS env usep false s e := by
  obtain ⟨hl, hf, hsub, hw, hroot, hok, henv, hs, hun, hks⟩ := hypsA_unpack h
  rw [form_roundtrip T ctx hT hL t hf hsub ps hpost]
  exact fromFlat_formPairs_arrays env s e t henv hs hw hroot hok hl hun hks

/-- **END TO END with Arrays / MultiValues of any size** (checkbox groups, `<select multiple>`, next to
    anything else a `FormTree` can hold): on `Generator()` with the tables of the current source, for
    every form tree `t` that renders the element state `e` of schema `s` and meets `hypsA` — no
    `narrowB`, no `hnodupB`; the form has no unchecked Boolean box; pairs sharing a key come in the same
    order in `flatten()` and in the form —, what a browser posts for the unchanged form, read back with
    `from_flat`, is `prS e`.
    NOT "for every schema": a `FormTree` has no constructor for a Compound (`DateYYYYMMDD`) rendered as its
    parts' inputs (`compound_not_linked`); Arrays hold string-like scalars only.  Unchecked boxes and
    Arrays do not combine (`dropSafe_array_false`): that case stays with `end_to_end_partial` when
    `hnodupB` holds, and with the oracle otherwise. -/
theorem end_to_end_arrays_partial (env : Env) (s : Schema) (e : Elem) (t : FormTree)
    (h : hypsA Tables.current env s e t = true) (ps : List Pair)
    (hpost : browserSubmit (seenOf Tables.current freshGen.ctx) (some 0) (renderForm [] t) = .ok ps) :
    fromFlat env usep s ps = prS env usep false s e :=
  end_to_end_arrays_at _ _ tablesOK_current fresh_live env s e t h ps hpost

/-- … total form: there IS a posted list, and it rebuilds `prS e` -/
theorem end_to_end_arrays_total (env : Env) (s : Schema) (e : Elem) (t : FormTree)
    (h : hypsA Tables.current env s e t = true) :
    ∃ ps, browserSubmit (seenOf Tables.current freshGen.ctx) (some 0) (renderForm [] t) = .ok ps ∧
      fromFlat env usep s ps = prS env usep false s e := by
  obtain ⟨_, hf, hsub, _⟩ := hypsA_unpack h
  have hp := form_roundtrip_fresh t hf hsub
  exact ⟨_, hp, end_to_end_arrays_partial env s e t h _ hp⟩

/-- … through `prepareTag`, the way the runner makes the tag calls -/
theorem end_to_end_arrays_generator (env : Env) (s : Schema) (e : Elem) (t : FormTree)
    (h : hypsA Tables.current env s e t = true) :
    ∃ ps, browserSubmit (seenVia Tables.current Flatland.Generated.C11.staticAttributeOrder freshGen) (some 0)
        (renderForm [] t) = .ok ps ∧ fromFlat env usep s ps = prS env usep false s e := by
  obtain ⟨hl, hf, hsub, hw, hroot, hok, henv, hs, hun, hks⟩ := hypsA_unpack h
  exact ⟨_, form_roundtrip_fresh_generator t hf hsub,
    fromFlat_formPairs_arrays env s e t henv hs hw hroot hok hl hun hks⟩

/-! ### unchecked boxes and Arrays do not combine -/

/-- `dropSafe` — what lets the pair of an unchecked box be dropped — is false of an Array / MultiValue,
    hence (`dropSafeL_array_false`) of every Dict that declares one -/
theorem dropSafe_array_false (env : Env) (n : Option Str) (o p : Bool) (m : Schema) :
    dropSafe env (.array n o p m) = false := rfl

theorem dropSafeL_array_false (env : Env) (fs gs : List Schema) (n : Option Str) (o p : Bool) (m : Schema) :
    dropSafeL env (fs ++ .array n o p m :: gs) = false := by
  induction fs with
  | nil => simp [dropSafeL, dropSafe]
  | cons f fs ih => simp [dropSafeL, ih]

/-! ### scope: what a `FormTree` can be linked to -/

theorem formLikeL_members : ∀ ms : List Str, formLikeL (ms.map memberNode) = true
  | [] => rfl
  | m :: ms => by simp [formLikeL, formLike, memberNode, formLikeL_members ms]

mutual
theorem embed_formLike : ∀ t : FormTree, formLike (embed t) = true
  | .text .. => by simp [embed, formLike, formLikeL]
  | .bool .. => by simp [embed, formLike, formLikeL]
  | .array n st ms w ex => by simp [embed, formLike, formLikeL_members]
  | .joined n u ms ty ex => by simp [embed, formLike, formLikeL_members]
  | .dict n fields => by simp [embed, formLike, embedAll_formLike fields]
  | .list n members => by simp [embed, formLike, embedAll_formLike members]
theorem embedAll_formLike : ∀ ts : List FormTree, formLikeL (embedAll ts) = true
  | [] => rfl
  | t :: ts => by simp [embedAll, formLikeL, embed_formLike t, embedAll_formLike ts]
end

/-- whatever a form is linked to has the shape of a form: no node that emits its own pair, is
    descended into, and has children -/
theorem linked_formLike (env : Env) (s : Schema) (e : Elem) (t : FormTree)
    (h : linked env s e t = true) : formLike (resolve env s e) = true := by
  rw [← fnodeBeq_sound _ _ h]; exact embed_formLike t

/-- **no Compound with a member.**  A Compound (`DateYYYYMMDD`, …) of which the state holds at least one
    member is linked to NO form tree: `FormTree` has no constructor that renders a Compound as its
    parts' inputs.  (At any depth: `formLike` is hereditary and `linked` compares whole trees.) -/
theorem compound_not_linked (env : Env) (n : Option Str) (o : Bool) (k : Nat) (fields : List Schema)
    (e : Elem) (t : FormTree) (h : linked env (.compound n o k fields) e t = true) :
    resolveMembers env fields (membersOf e) (membersOf e) = [] := by
  have := linked_formLike env _ e t h
  unfold resolve at this
  simp only [formLike, Bool.and_self, Bool.not_true, Bool.false_or, Bool.and_eq_true,
    List.isEmpty_iff] at this
  exact this.1

end Flatland.EndToEnd.Proofs
