/-
C17 — the frame MECHANISM refines model A, part 4: the class- and instance-creating commands, the
one-step refinement `frames_step_refines` and the history theorem `frames_run_refines`.
-/
import Proofs.C17FramesInst
namespace Flatland.C17.Frames.Proofs
open Flatland.C17 Flatland.C17.Spec Flatland.C17.Proofs Flatland.C17.Frames

/-! ## class tables: `FState` and `State` with the same `classes` -/

theorem ownOf_of_classes {σ : FState} {a : State} (h : a.classes = σ.classes) : a.ownOf = σ.ownOf := by
  funext c; unfold State.ownOf FState.ownOf; rw [h]; rfl
theorem mroOf_of_classes {σ : FState} {a : State} (h : a.classes = σ.classes) : a.mroOf = σ.mroOf := by
  funext c; unfold State.mroOf FState.mroOf; rw [h]; rfl
theorem descOf_of_classes {σ : FState} {a : State} (h : a.classes = σ.classes) : a.descOf = σ.descOf := by
  funext c; simp only [State.descOf, FState.descOf, mroOf_of_classes h, ownOf_of_classes h]

theorem frames_ge (a : State) (hwf : WF a) (d : DescId) (c : ClassId) (hc : a.classes.length ≤ c) :
    AList.get? a.frames (.cls d c) = none := by
  rw [get?_eq_none_iff]
  intro h
  obtain ⟨p, hp, e⟩ := List.mem_map.1 h
  obtain ⟨key, f⟩ := p
  simp only at e
  subst e
  exact Nat.not_lt.2 hc (hwf.key_lt _ f hp).2

theorem map_ge {σ : FState} (h : FInv σ) (P : ObjId) (c : ClassId) (hc : σ.classes.length ≤ c) :
    σ.mapGet P c = none := by
  cases hm : σ.mapGet P c with
  | none => rfl
  | some r => exact absurd (h.map_lt P c r hm).2 (Nat.not_lt.2 hc)

/-! ## extending the store: more classes / slots / objects, the `map` untouched -/

theorem would_extend {σ σ' : FState} (hmap : σ'.map = σ.map) (P : ObjId) (c : ClassId)
    (hinit : σ'.initialOf P = σ.initialOf P) : would σ' P c = would σ P c := by
  unfold would FState.mapGet
  rw [hmap]
  cases AList.get? σ.map (P, c) with
  | none => exact hinit
  | some r => cases r with
    | obj f => rfl
    | initCell => exact hinit

theorem obsC_extend {σ σ' : FState} (hmap : σ'.map = σ.map) (P : ObjId) (c : ClassId)
    (hinit : σ'.initialOf P = σ.initialOf P) : obsC σ' P c = obsC σ P c := by
  unfold obsC FState.mapGet
  rw [hmap]
  cases AList.get? σ.map (P, c) with
  | none => rfl
  | some r => cases r with
    | obj f => rfl
    | initCell => exact congrArg some hinit

theorem FInv_extend {σ : FState} (h : FInv σ) (σ' : FState) (hmap : σ'.map = σ.map)
    (hcl : σ.classes.length ≤ σ'.classes.length) (hnd : σ.ndesc ≤ σ'.ndesc)
    (hlen : σ'.objs.length = σ'.ndesc) (hlt : ∀ s, s < σ'.ndesc → σ'.objOf s < σ'.ndesc) : FInv σ' where
  noAlias := by intro P c; unfold FState.mapGet; rw [hmap]; exact h.noAlias P c
  map_lt := by
    intro P c r hr
    unfold FState.mapGet at hr; rw [hmap] at hr
    obtain ⟨h1, h2⟩ := h.map_lt P c r hr
    exact ⟨Nat.lt_of_lt_of_le h1 hnd, Nat.lt_of_lt_of_le h2 hcl⟩
  objs_len := hlen
  objs_lt := hlt

/-- a new class `n` (MRO `n :: tail`, own slot `own`) on both sides; old slots, objects, cells and
    frames unchanged; for a new owner, model A's frame is the `initial_set` of the object its slot
    refers to -/
theorem Ref_extend {σ : FState} {a : State} (h : Ref σ a) (σ' : FState) (a' : State)
    (tail : List ClassId) (own : Option DescId)
    (hca : a'.classes = (C17.addClass a tail own).classes) (hcs : a'.classes = σ'.classes)
    (hnd : a'.ndesc = σ'.ndesc) (hin : a'.insts = σ'.insts)
    (hinv : Inv a') (hfinv : FInv σ')
    (hmap : σ'.map = σ.map)
    (hobj : ∀ s, s < σ.ndesc → σ'.objOf s = σ.objOf s)
    (hinit : ∀ P, P < σ.ndesc → σ'.initialOf P = σ.initialOf P)
    (hfi : ∀ s, s < σ.ndesc → a'.frameD (.init s) = a.frameD (.init s))
    (hfc : ∀ s c, AList.get? a'.frames (.cls s c) = AList.get? a.frames (.cls s c))
    (hown : ∀ d, own = some d → a'.frameD (.init d) = σ'.initialOf (σ'.objOf d)) :
    Ref σ' a' := by
  have hown' : ∀ c, σ'.ownOf c = if c = a.classes.length then own else a.ownOf c := by
    intro c
    rw [← ownOf_of_classes hcs, ownOf_congr (σ := C17.addClass a tail own) hca c, ownOf_addClass]
  refine ⟨⟨hcs, hnd, hin, ?_, ?_⟩, hinv, hfinv⟩
  · intro c s hc
    rw [hown' c] at hc
    by_cases e : c = a.classes.length
    · rw [if_pos e] at hc
      have hm : σ'.mapGet (σ'.objOf s) c = none := by
        unfold FState.mapGet; rw [hmap]
        exact map_ge h.finv _ c (by rw [← h.len, e]; exact Nat.le_refl _)
      rw [hown s hc]
      simp only [would, hm]
    · rw [if_neg e] at hc
      have hs : s < σ.ndesc := by rw [← h.sim.ndesc]; exact h.inv.wf.own_lt c s hc
      have hc' : σ.ownOf c = some s := by rw [← h.sim.ownOf]; exact hc
      rw [hfi s hs, hobj s hs, would_extend hmap _ c (hinit _ (h.finv.objs_lt s hs))]
      exact h.sim.owner c s hc'
  · intro c s hc hd
    rw [hown' c] at hc
    rcases Nat.lt_or_ge c a.classes.length with hlt | hge
    · rw [if_neg (Nat.ne_of_lt hlt)] at hc
      have hda : a.descOf c = some s := by
        rw [← descOf_extend a a' h.inv.wf tail own hca c hlt, descOf_of_classes hcs]; exact hd
      have hs : s < σ.ndesc := h.desc_lt c s hda
      have hc' : σ.ownOf c = none := by rw [← h.sim.ownOf]; exact hc
      have hd' : σ.descOf c = some s := by rw [← h.sim.descOf]; exact hda
      rw [hfc, hobj s hs, obsC_extend hmap _ c (hinit _ (h.finv.objs_lt s hs))]
      exact h.sim.other c s hc' hd'
    · rw [hfc, frames_ge a h.inv.wf s c hge]
      have hm : σ'.mapGet (σ'.objOf s) c = none := by
        unfold FState.mapGet; rw [hmap]
        exact map_ge h.finv _ c (by rw [← h.len]; exact hge)
      simp only [obsC, hm, Option.map_none]

/-! ### the three ways a class comes into being -/

theorem Ref_addClass {σ : FState} {a : State} (h : Ref σ a) (tail : List ClassId)
    (hinv : Inv (C17.addClass a tail none)) : Ref (Frames.addClass σ tail none) (C17.addClass a tail none) := by
  have hcs : (C17.addClass a tail none).classes = (Frames.addClass σ tail none).classes := by
    simp only [C17.addClass, Frames.addClass, h.sim.classes]
  refine Ref_extend h _ _ tail none rfl hcs h.sim.ndesc h.sim.insts hinv ?_ rfl (fun _ _ => rfl)
    (fun _ _ => rfl) (fun _ _ => rfl) (fun _ _ => rfl) (fun d hd => by simp at hd)
  exact FInv_extend h.finv _ rfl (by simp [Frames.addClass]) (Nat.le_refl _) h.finv.objs_len h.finv.objs_lt

theorem objOf_append_lt (σ : FState) (x : ObjId) (s : DescId) (hs : s < σ.objs.length) :
    ((σ.objs ++ [x])[s]?).getD s = σ.objOf s := by
  rw [List.getElem?_append_left hs]; rfl

theorem objOf_append_eq (σ : FState) (x : ObjId) : ((σ.objs ++ [x])[σ.objs.length]?).getD σ.objs.length = x := by
  simp

theorem Ref_usingProps {σ : FState} {a : State} (h : Ref σ a) (p : ClassId) (init : List (Key × Val))
    (hinv : Inv (usingPropsStep a p init)) : Ref (usingPropsF σ p init) (usingPropsStep a p init) := by
  have hlen := h.finv.objs_len
  have hcs : (usingPropsStep a p init).classes = (usingPropsF σ p init).classes := by
    simp only [usingPropsStep, usingPropsF, C17.addClass, Frames.addClass, h.sim.classes, h.sim.mroOf,
      h.sim.ndesc]
  have hobj : ∀ s, s < σ.ndesc → (usingPropsF σ p init).objOf s = σ.objOf s := by
    intro s hs
    exact objOf_append_lt σ σ.ndesc s (by rw [hlen]; exact hs)
  have hobjn : (usingPropsF σ p init).objOf σ.ndesc = σ.ndesc := by
    have := objOf_append_eq σ σ.ndesc
    rw [hlen] at this; exact this
  have hinit : ∀ P, P < σ.ndesc → (usingPropsF σ p init).initialOf P = σ.initialOf P := by
    intro P hP
    simp only [FState.initialOf, usingPropsF, Frames.addClass, get?_set, Nat.ne_of_gt hP, if_false]
  refine Ref_extend h _ _ (a.mroOf p) (some a.ndesc) rfl hcs ?_ h.sim.insts hinv ?_ rfl hobj hinit ?_ ?_ ?_
  · simp only [usingPropsStep, usingPropsF, h.sim.ndesc]
  · refine FInv_extend h.finv _ rfl (by simp [usingPropsF, Frames.addClass]) (Nat.le_succ _) ?_ ?_
    · simp [usingPropsF, Frames.addClass, hlen]
    · intro s hs
      have hs' : s < σ.ndesc + 1 := hs
      rcases Nat.lt_succ_iff_lt_or_eq.1 hs' with hl | he
      · rw [hobj s hl]; exact Nat.lt_succ_of_lt (h.finv.objs_lt s hl)
      · rw [he, hobjn]; exact Nat.lt_succ_self _
  · intro s hs
    have hne : ¬ (FrameKey.init a.ndesc = FrameKey.init s) := by
      rw [h.sim.ndesc]; intro e; injection e with e; exact Nat.ne_of_gt hs e
    simp only [State.frameD, usingPropsStep, C17.addClass, get?_set, hne, if_false]
  · intro s c
    simp only [usingPropsStep, C17.addClass, get?_set, reduceCtorEq, if_false]
  · intro d hd
    have hd' : d = σ.ndesc := by rw [← h.sim.ndesc]; exact (Option.some.inj hd).symm
    subst hd'
    rw [hobjn]
    simp only [State.frameD, FState.initialOf, usingPropsStep, usingPropsF, C17.addClass, Frames.addClass,
      get?_set, h.sim.ndesc, if_true, Option.getD_some]

/-- `using(properties=P)` with `P` already held (slot `s0`): model A gives the new class a fresh
    descriptor with `init`; the mechanism gives it a new slot for the SAME object — the two agree
    as long as `init` is what the object's `initial_set` cell holds -/
theorem Ref_usingShared {σ : FState} {a : State} (h : Ref σ a) (p : ClassId) (s0 : DescId)
    (init : List (Key × Val)) (hs0 : s0 < σ.ndesc)
    (hcell : σ.initialOf (σ.objOf s0) = valFrame init)
    (hinv : Inv (usingPropsStep a p init)) : Ref (usingSharedF σ p s0) (usingPropsStep a p init) := by
  have hlen := h.finv.objs_len
  have hcs : (usingPropsStep a p init).classes = (usingSharedF σ p s0).classes := by
    simp only [usingPropsStep, usingSharedF, C17.addClass, Frames.addClass, h.sim.classes, h.sim.mroOf,
      h.sim.ndesc]
  have hobj : ∀ s, s < σ.ndesc → (usingSharedF σ p s0).objOf s = σ.objOf s := by
    intro s hs
    exact objOf_append_lt σ (σ.objOf s0) s (by rw [hlen]; exact hs)
  have hobjn : (usingSharedF σ p s0).objOf σ.ndesc = σ.objOf s0 := by
    have := objOf_append_eq σ (σ.objOf s0)
    rw [hlen] at this; exact this
  refine Ref_extend h _ _ (a.mroOf p) (some a.ndesc) rfl hcs ?_ h.sim.insts hinv ?_ rfl hobj
    (fun _ _ => rfl) ?_ ?_ ?_
  · simp only [usingPropsStep, usingSharedF, h.sim.ndesc]
  · refine FInv_extend h.finv _ rfl (by simp [usingSharedF, Frames.addClass]) (Nat.le_succ _) ?_ ?_
    · simp [usingSharedF, Frames.addClass, hlen]
    · intro s hs
      have hs' : s < σ.ndesc + 1 := hs
      rcases Nat.lt_succ_iff_lt_or_eq.1 hs' with hl | he
      · rw [hobj s hl]; exact Nat.lt_succ_of_lt (h.finv.objs_lt s hl)
      · rw [he, hobjn]; exact Nat.lt_succ_of_lt (h.finv.objs_lt s0 hs0)
  · intro s hs
    have hne : ¬ (FrameKey.init a.ndesc = FrameKey.init s) := by
      rw [h.sim.ndesc]; intro e; injection e with e; exact Nat.ne_of_gt hs e
    simp only [State.frameD, usingPropsStep, C17.addClass, get?_set, hne, if_false]
  · intro s c
    simp only [usingPropsStep, C17.addClass, get?_set, reduceCtorEq, if_false]
  · intro d hd
    have hd' : d = σ.ndesc := by rw [← h.sim.ndesc]; exact (Option.some.inj hd).symm
    subst hd'
    rw [hobjn]
    show (usingPropsStep a p init).frameD (.init σ.ndesc) = σ.initialOf (σ.objOf s0)
    rw [hcell]
    simp only [State.frameD, usingPropsStep, C17.addClass, get?_set, h.sim.ndesc, if_true, Option.getD_some]

theorem Ref_addInst {σ : FState} {a : State} (h : Ref σ a) (y : Inst) (hy : y.cls < a.classes.length) :
    Ref { σ with insts := σ.insts ++ [y] } { a with insts := a.insts ++ [y] } where
  sim :=
    { classes := h.sim.classes
      ndesc := h.sim.ndesc
      insts := congrArg (fun l => l ++ [y]) h.sim.insts
      owner := h.sim.owner
      other := h.sim.other }
  inv := ⟨WF_addInst a h.inv.wf y hy, NoShared_congr rfl h.inv.ns, AllCoherent_congr rfl h.inv.co⟩
  finv := ⟨h.finv.noAlias, h.finv.map_lt, h.finv.objs_len, h.finv.objs_lt⟩

/-! ## the guard, one step, whole histories -/

theorem Inv_step' (a : State) (h : Inv a) (cmd : Cmd) (hok : CmdOK cmd) (hmi : miGuard a cmd = true) :
    Inv (step a cmd).1 :=
  ⟨WF_step a h.wf cmd hok, NoShared_step a h.wf h.ns cmd trivial, AllCoherent_step a h.wf h.co cmd hmi⟩

/-- the case format's annotation of `using(properties=<shared object>)` — "`init` is the mapping the
    object was constructed with" — is right: it is what the object's `initial_set` cell holds -/
def sharedInit (σ : FState) : Cmd → Bool
  | .usingShared _ owner init =>
    match σ.ownOf owner with
    | some s => decide (σ.initialOf (σ.objOf s) = valFrame init)
    | none => true
  | _ => true

/-- **`frames_step_refines`: one command.**  From related states (`Ref`: simulation + invariants),
    any command that names a legal MRO tail (`CmdOK`), does not create a mixed-descriptor class
    (`miGuard`, KF-C17-c / the modelling boundary of `usingShared`) and annotates a shared
    `Properties` object correctly (`sharedInit`) returns the same result in the mechanism model and
    in model A, and the new states are related again. -/
theorem frames_step_refines {σ : FState} {a : State} (h : Ref σ a) (cmd : Cmd) (hok : CmdOK cmd)
    (hmi : miGuard a cmd = true) (hsh : sharedInit σ cmd = true) :
    (fstep false σ cmd).2 = (step a cmd).2 ∧ Ref (fstep false σ cmd).1 (step a cmd).1 := by
  have hinv := Inv_step' a h.inv cmd hok hmi
  have hl := h.len
  cases cmd with
  | op V o =>
    cases V with
    | cls c => exact classOp_refines h c o
    | inst i => exact instOp_refines h i o
  | subclass p =>
    simp only [fstep, step, ← hl, ← h.sim.mroOf] at hinv ⊢
    by_cases hp : p < a.classes.length
    · simp only [hp, if_true] at hinv ⊢
      exact ⟨trivial, Ref_addClass h _ hinv⟩
    · simp only [hp, if_false]; exact ⟨trivial, h⟩
  | subclassMI tail =>
    simp only [fstep, step, ← hl] at hinv ⊢
    cases hp : tail.all (· < a.classes.length) with
    | true =>
      simp only [hp, if_true] at hinv ⊢
      exact ⟨trivial, Ref_addClass h _ hinv⟩
    | false => simp only [Bool.false_eq_true, if_false]; exact ⟨trivial, h⟩
  | usingProps p init =>
    simp only [fstep, step, ← hl] at hinv ⊢
    by_cases hp : p < a.classes.length
    · simp only [hp, if_true] at hinv ⊢
      exact ⟨trivial, Ref_usingProps h p init hinv⟩
    · simp only [hp, if_false]; exact ⟨trivial, h⟩
  | usingShared p owner init =>
    simp only [fstep, step, ← hl, ← h.sim.ownOf] at hinv ⊢
    by_cases hp : p < a.classes.length
    · simp only [hp, if_true] at hinv ⊢
      cases ho : a.ownOf owner with
      | none => exact ⟨rfl, h⟩
      | some s0 =>
        simp only [ho] at hinv
        have hs0 : s0 < σ.ndesc := by rw [← h.sim.ndesc]; exact h.inv.wf.own_lt owner s0 ho
        have hcell : σ.initialOf (σ.objOf s0) = valFrame init := by
          simp only [sharedInit, ← h.sim.ownOf, ho, decide_eq_true_eq] at hsh
          exact hsh
        exact ⟨rfl, Ref_usingShared h p s0 init hs0 hcell hinv⟩
    · simp only [hp, if_false]; exact ⟨trivial, h⟩
  | withProps p pairs =>
    simp only [fstep, step, ← hl, ← h.sim.mroOf] at hinv ⊢
    by_cases hp : p < a.classes.length
    · simp only [hp, if_true] at hinv ⊢
      have hinv1 : Inv (C17.addClass a (a.mroOf p) none) := by
        have := Inv_step' a h.inv (.subclass p) trivial rfl
        simpa only [step, hp, if_true] using this
      exact ⟨trivial, (classOp_refines (Ref_addClass h _ hinv1) a.classes.length (.update pairs)).2⟩
    · simp only [hp, if_false]; exact ⟨trivial, h⟩
  | newInst c =>
    simp only [fstep, step, ← hl]
    by_cases hp : c < a.classes.length
    · simp only [hp, if_true]
      exact ⟨trivial, Ref_addInst h _ hp⟩
    · simp only [hp, if_false]; exact ⟨trivial, h⟩
  | newInstWith c m =>
    simp only [fstep, step, ← hl]
    by_cases hp : c < a.classes.length
    · simp only [hp, if_true]
      exact ⟨trivial, Ref_addInst h _ hp⟩
    · simp only [hp, if_false]; exact ⟨trivial, h⟩
  | assign i m =>
    simp only [fstep, step, ← h.sim.insts]
    cases hx : a.insts[i]? with
    | none => exact ⟨rfl, h⟩
    | some x => exact ⟨rfl, Ref_setInst h i _ (h.inv.wf.inst_lt i x hx)⟩
  | newInstCompound c m =>
    simp only [fstep, step, ← hl]
    by_cases hp : c < a.classes.length
    · simp only [hp, if_true]
      have hinv1 : Inv (usingPropsStep a c m) := by
        have := Inv_step' a h.inv (.usingProps c m) trivial rfl
        simpa only [step, hp, if_true] using this
      refine ⟨trivial, Ref_addInst (Ref_usingProps h c m hinv1) _ ?_⟩
      simp [usingPropsStep, C17.addClass]
    · simp only [hp, if_false]; exact ⟨trivial, h⟩

/-- the guard of a whole history, evaluated command by command in the states the command runs in -/
def refGuard : FState → State → List Cmd → Bool
  | _, _, [] => true
  | σ, a, c :: cs =>
    decide (CmdOK c) && miGuard a c && sharedInit σ c && refGuard (fstep false σ c).1 (step a c).1 cs

/-- **`frames_run_refines`: whole histories.**  Along every guarded history the mechanism model —
    `Properties.map` filled lazily by reads and writes — returns, command by command, exactly the
    results of model A, and the final states are related. -/
theorem frames_run_refines : ∀ (cmds : List Cmd) (σ : FState) (a : State), Ref σ a →
    refGuard σ a cmds = true →
    (frun false σ cmds).2 = (run a cmds).2 ∧ Ref (frun false σ cmds).1 (run a cmds).1
  | [], _, _, h, _ => ⟨rfl, h⟩
  | c :: cs, σ, a, h, hg => by
    simp only [refGuard, Bool.and_eq_true, decide_eq_true_eq] at hg
    obtain ⟨⟨⟨hok, hmi⟩, hsh⟩, hrest⟩ := hg
    obtain ⟨hres, href⟩ := frames_step_refines h c hok hmi hsh
    obtain ⟨ihres, ihref⟩ := frames_run_refines cs _ _ href hrest
    simp only [frun, run]
    exact ⟨by rw [hres, ihres], ihref⟩

/-- from a fresh root -/
theorem frames_run_refines_init (init : List (Key × Val)) (cmds : List Cmd)
    (hg : refGuard (finit init) (initState init) cmds = true) :
    (frun false (finit init) cmds).2 = (run (initState init) cmds).2 ∧
    Ref (frun false (finit init) cmds).1 (run (initState init) cmds).1 :=
  frames_run_refines cmds _ _ (Ref_init init) hg

end Flatland.C17.Frames.Proofs
