/-
C10, second part — what the invariant means to a user of the mapping, for EVERY call and every
history:

* `undeclared_never_stored(_step)`: no member is ever stored under an undeclared key; the members
  that are stored are elements of a declared field class, under that field's name, with the
  mapping as stored parent.
* `keys_exact`: a Dict's key list is exactly the declared field names, in declaration order.
* `sparse_keys`: a SparseDict's keys are declared ones, and with minimum_fields='required' the
  non-optional ones are always there.
* how the calls that carry *several* keys treat an undeclared one:
  `update_stops_at_undeclared` / `updateArgs_stops_at_undeclared` (the loop `self[key] = value`
  of `update` / `|=` applies the pairs before the first undeclared key, raises TypeError there
  and never looks at the rest), `update_undeclared_rejected` (every form of update / `|=`
  naming an undeclared key raises), `set_undeclared_rejected` ('strict' / 'subset': KeyError
  after `_reset()`), `set_undeclared_ignored` ('duck' / None: the pair is skipped — the call is
  the same call without the undeclared pairs).
-/
import Proofs.C10
namespace Flatland.C10.Proofs
open Flatland.Tree Flatland.PyList Flatland.C10 Flatland.C10.Spec

/-- the declared field names, in declaration order -/
def declared (s : Schema) : List Str := s.subs.map Schema.key

theorem fieldFor_none_iff {subs : List Schema} {k : Str} : fieldFor subs k = none ↔ k ∉ subs.map Schema.key := by
  constructor
  · exact fieldFor_none
  · intro hk
    cases hf : fieldFor subs k with
    | none => rfl
    | some f =>
      obtain ⟨hfm, hfk⟩ := fieldFor_some hf
      exact absurd (List.mem_map.mpr ⟨f, hfm, hfk⟩) hk

/-- every key of a mapping satisfying the invariant is a declared field name -/
theorem keys_declared {n : Node} (h : MapInv n) : ∀ k ∈ keys n, k ∈ declared n.sch := by
  intro k hk
  obtain ⟨c, hc, hck⟩ := List.mem_map.mp hk
  obtain ⟨_, hmem, hkey, _⟩ := h.kids c hc
  exact List.mem_map.mpr ⟨c.sch, hmem, by rw [← hkey, hck]⟩

theorem absent_of_undeclared {n : Node} (h : KI n n.kids) {k : Str} (hund : fieldFor n.sch.subs k = none) :
    findKid n.kids k = none := by
  cases hc : findKid n.kids k with
  | none => rfl
  | some c =>
    obtain ⟨hcm, hck⟩ := findKid_some hc
    obtain ⟨_, hmem, hkey, _⟩ := h.ok c hcm
    exact absurd (List.mem_map.mpr ⟨c.sch, hmem, by rw [← hkey, hck]⟩) (fieldFor_none hund)

/-! ### histories keep the identity and the class of the mapping -/

theorem run_ok (ops : List MapOp) :
    ∀ (n : Node) (next : Nat), MapInv n → MapKind n → FieldsNodup n → (∀ op ∈ ops, OpExactS n.sch op) →
      (run ⟨n, next⟩ ops).node.hdr = n.hdr ∧ MapInv (run ⟨n, next⟩ ops).node := by
  induction ops with
  | nil => intro n next h _ _ _; exact ⟨rfl, h⟩
  | cons op ops ih =>
    intro n next h hk hnd hops
    have hop := opExact_of_S (hops op (by simp))
    have hh := (mapStep_ok n hk hnd ((mapInv_iff n).mp h) op hop next).1
    have hs := sch_of_step n hk hnd h op hop next
    have hk' : MapKind (mapStep n op next).node := by unfold MapKind Node.kind at *; rw [hs]; exact hk
    have hnd' : FieldsNodup (mapStep n op next).node := by unfold FieldsNodup at *; rw [hs]; exact hnd
    have := ih (mapStep n op next).node (mapStep n op next).next (mapinv_step h hk hnd op hop next) hk' hnd'
      (fun o ho => by rw [hs]; exact hops o (by simp [ho]))
    simp only [run, List.foldl_cons, step] at this ⊢
    exact ⟨this.1.trans hh, this.2⟩

/-! ### the user-facing corollaries -/

/-- what "stored as an element of the declared field, with the mapping as parent" means for the
    children list of the mapping `pid` of class `s` -/
def StoredOK (pid : Nat) (s : Schema) (kids : List Node) : Prop :=
  ∀ c ∈ kids, c.parent = some pid ∧ c.sch ∈ s.subs ∧ c.key = c.sch.key ∧ c.key ∈ declared s

theorem storedOK_of_inv {n : Node} (h : MapInv n) : StoredOK n.id n.sch n.kids := by
  intro c hc
  obtain ⟨hp, hmem, hkey, _⟩ := h.kids c hc
  exact ⟨hp, hmem, hkey, keys_declared h c.key (List.mem_map_of_mem hc)⟩

/-- **undeclared_never_stored (one call).**  Whatever the call — item assignment, del, pop,
    popitem, clear, update in its three forms, `|=`, setdefault, get, set under any policy,
    set_default; accepted or raising — afterwards no member sits under an undeclared key, and
    every member is an element of a declared field class stored under that field's name with the
    mapping as stored parent. -/
theorem undeclared_never_stored_step {n : Node} (h : MapInv n) (hk : MapKind n) (hnd : FieldsNodup n) (op : MapOp)
    (hop : OpExact n op) (next : Nat) :
    (∀ k, fieldFor n.sch.subs k = none → k ∉ keys (mapStep n op next).node) ∧
    StoredOK n.id n.sch (mapStep n op next).node.kids := by
  have hh := (mapStep_ok n hk hnd ((mapInv_iff n).mp h) op hop next).1
  have hinv := mapinv_step h hk hnd op hop next
  obtain ⟨hid, _, hs, _⟩ := hdr_parts hh
  refine ⟨?_, ?_⟩
  · intro k hund hmem
    have := keys_declared hinv k hmem
    rw [hs] at this
    exact fieldFor_none hund this
  · have := storedOK_of_inv hinv
    rwa [hid, hs] at this

/-- **undeclared_never_stored (histories).**  The same after any history of calls. -/
theorem undeclared_never_stored (ops : List MapOp) (n : Node) (next : Nat) (h : MapInv n) (hk : MapKind n)
    (hnd : FieldsNodup n) (hops : ∀ op ∈ ops, OpExactS n.sch op) :
    (∀ k, fieldFor n.sch.subs k = none → k ∉ keys (run ⟨n, next⟩ ops).node) ∧
    StoredOK n.id n.sch (run ⟨n, next⟩ ops).node.kids := by
  obtain ⟨hh, hinv⟩ := run_ok ops n next h hk hnd hops
  obtain ⟨hid, _, hs, _⟩ := hdr_parts hh
  refine ⟨?_, ?_⟩
  · intro k hund hmem
    have := keys_declared hinv k hmem
    rw [hs] at this
    exact fieldFor_none hund this
  · have := storedOK_of_inv hinv
    rwa [hid, hs] at this

/-- **keys_exact.**  After every history the key list of a Dict is exactly the declared field
    names, in declaration order (so: one member per declared field, none else). -/
theorem keys_exact (ops : List MapOp) (n : Node) (next : Nat) (h : MapInv n) (hd : n.kind = .dict)
    (hnd : FieldsNodup n) (hops : ∀ op ∈ ops, OpExactS n.sch op) :
    keys (run ⟨n, next⟩ ops).node = declared n.sch := by
  obtain ⟨hh, hinv⟩ := run_ok ops n next h (Or.inl hd) hnd hops
  obtain ⟨_, _, hs, _⟩ := hdr_parts hh
  have hkind : (run ⟨n, next⟩ ops).node.kind = .dict := by unfold Node.kind; rw [hs]; exact hd
  have := hinv.dense hkind
  rw [hs] at this
  exact this

/-- with distinct field names the members of a Dict are pairwise under different keys -/
theorem keys_exact_nodup (ops : List MapOp) (n : Node) (next : Nat) (h : MapInv n) (hd : n.kind = .dict)
    (hnd : FieldsNodup n) (hops : ∀ op ∈ ops, OpExactS n.sch op) :
    (keys (run ⟨n, next⟩ ops).node).Nodup := by
  rw [keys_exact ops n next h hd hnd hops]; exact hnd

/-- **sparse_keys.**  After every history a SparseDict holds declared keys only, and with
    minimum_fields='required' every non-optional field is present. -/
theorem sparse_keys (ops : List MapOp) (n : Node) (next : Nat) (h : MapInv n) (hsp : n.kind = .sparse)
    (hnd : FieldsNodup n) (hops : ∀ op ∈ ops, OpExactS n.sch op) :
    (∀ k ∈ keys (run ⟨n, next⟩ ops).node, k ∈ declared n.sch) ∧
    (n.sch.info.minreq = true → ∀ f ∈ n.sch.subs, f.info.optional = false → f.key ∈ keys (run ⟨n, next⟩ ops).node) := by
  obtain ⟨hh, hinv⟩ := run_ok ops n next h (Or.inr hsp) hnd hops
  obtain ⟨_, _, hs, _⟩ := hdr_parts hh
  have hkind : (run ⟨n, next⟩ ops).node.kind = .sparse := by unfold Node.kind; rw [hs]; exact hsp
  refine ⟨?_, ?_⟩
  · intro k hk
    have := keys_declared hinv k hk
    rwa [hs] at this
  · intro hm f hf ho
    have := hinv.required hkind (by rw [hs]; exact hm) f (by rw [hs]; exact hf) ho
    exact this

/-! ### `update` / `|=`: the loop stops at the first undeclared key -/

theorem mapSetItem_undeclared {n : Node} (h : KI n n.kids) {k : Str} (hund : fieldFor n.sch.subs k = none)
    (a : Arg) (next : Nat) : mapSetItem n k a next = excOut n next .typeError := by
  have hnot := absent_of_undeclared h hund
  unfold mapSetItem
  by_cases hs : n.kind = .sparse <;> simp [hs, hnot, hund]

/-- **update_stops_at_undeclared.**  `update({…})` / `update(**kw)` / `update([(k, v), …])` /
    `|=` with plain values: the pairs before the first undeclared key are applied exactly as the
    same update without the rest would apply them; at the undeclared key the call raises TypeError
    (unless an earlier pair already raised — then that exception) and the remaining pairs are
    never looked at. -/
theorem update_stops_at_undeclared (k : Str) (v : Raw) (post : List (Str × Raw)) (pre : List (Str × Raw)) :
    ∀ (n : Node) (next : Nat), KI n n.kids → fieldFor n.sch.subs k = none →
      (mapUpdatePairs n (pre ++ (k, v) :: post) next).node = (mapUpdatePairs n pre next).node ∧
      (mapUpdatePairs n (pre ++ (k, v) :: post) next).next = (mapUpdatePairs n pre next).next ∧
      (mapUpdatePairs n (pre ++ (k, v) :: post) next).out =
        (match (mapUpdatePairs n pre next).out with | .exc e => .exc e | _ => .exc .typeError) := by
  induction pre with
  | nil =>
    intro n next h hund
    simp [mapUpdatePairs, mapSetItem_undeclared h hund, excOut]
  | cons kv rest ih =>
    intro n next h hund
    obtain ⟨k', v'⟩ := kv
    have hs := mapSetItem_ok n h k' (.plain v') trivial next
    simp only [List.cons_append]
    rw [mapUpdatePairs, mapUpdatePairs]
    split
    · rename_i e he
      simp [excOut]
    · have hsch : (mapSetItem n k' (.plain v') next).node.sch = n.sch := (hdr_parts hs.1).2.2.1
      exact ih _ _ ((KI_congr hs.1 _).mpr hs.2) (by rw [hsch]; exact hund)

/-- the same for `update` / `|=` whose values may be Elements -/
theorem updateArgs_stops_at_undeclared (k : Str) (a : Arg) (post : List (Str × Arg)) (pre : List (Str × Arg)) :
    ∀ (n : Node) (next : Nat), KI n n.kids → (∀ p ∈ pre, ArgExact n p.1 p.2) → fieldFor n.sch.subs k = none →
      (mapUpdateArgs n (pre ++ (k, a) :: post) next).node = (mapUpdateArgs n pre next).node ∧
      (mapUpdateArgs n (pre ++ (k, a) :: post) next).next = (mapUpdateArgs n pre next).next ∧
      (mapUpdateArgs n (pre ++ (k, a) :: post) next).out =
        (match (mapUpdateArgs n pre next).out with | .exc e => .exc e | _ => .exc .typeError) := by
  induction pre with
  | nil =>
    intro n next h _ hund
    simp [mapUpdateArgs, mapSetItem_undeclared h hund, excOut]
  | cons kv rest ih =>
    intro n next h hex hund
    obtain ⟨k', a'⟩ := kv
    have hs := mapSetItem_ok n h k' a' (hex (k', a') (by simp)) next
    simp only [List.cons_append]
    rw [mapUpdateArgs, mapUpdateArgs]
    split
    · rename_i e he
      exact ⟨rfl, rfl, rfl⟩
    · have hsch : (mapSetItem n k' a' next).node.sch = n.sch := (hdr_parts hs.1).2.2.1
      exact ih _ _ ((KI_congr hs.1 _).mpr hs.2)
        (fun p hp => (argExact_congr hs.1 p.1 p.2).mpr (hex p (by simp [hp]))) (by rw [hsch]; exact hund)

def Raises (r : StepR) : Prop := ∃ e, r.out = .exc e

theorem split_at_key {β : Type} {kvs : List (Str × β)} {k : Str} (h : k ∈ kvs.map (·.1)) :
    ∃ pre v post, kvs = pre ++ (k, v) :: post := by
  obtain ⟨⟨k', v⟩, hmem, hk⟩ := List.mem_map.mp h
  simp only at hk
  subst hk
  obtain ⟨pre, post, rfl⟩ := List.append_of_mem hmem
  exact ⟨pre, v, post, rfl⟩

theorem mapUpdatePairs_raises {n : Node} (h : KI n n.kids) {k : Str} (hund : fieldFor n.sch.subs k = none)
    {kvs : List (Str × Raw)} (hk : k ∈ keysOf kvs) (next : Nat) : Raises (mapUpdatePairs n kvs next) := by
  obtain ⟨pre, v, post, rfl⟩ := split_at_key hk
  have := (update_stops_at_undeclared k v post pre n next h hund).2.2
  unfold Raises
  rw [this]
  split
  · exact ⟨_, rfl⟩
  · exact ⟨_, rfl⟩

theorem mapUpdateArgs_raises {n : Node} (h : KI n n.kids) {k : Str} (hund : fieldFor n.sch.subs k = none)
    {kvs : List (Str × Arg)} (hex : ∀ p ∈ kvs, ArgExact n p.1 p.2) (hk : k ∈ kvs.map (·.1)) (next : Nat) :
    Raises (mapUpdateArgs n kvs next) := by
  obtain ⟨pre, v, post, rfl⟩ := split_at_key hk
  have := (updateArgs_stops_at_undeclared k v post pre n next h (fun p hp => hex p (by simp [hp])) hund).2.2
  unfold Raises
  rw [this]
  split
  · exact ⟨_, rfl⟩
  · exact ⟨_, rfl⟩

/-- the keys an update-like call names: those of the positional dict / pair list (when it is
    one) followed by the keyword ones -/
def updateKeys : MapOp → List Str
  | .update pos kw =>
    (match pos with
     | none => []
     | some raw => (match toPairs raw with | some (some kvs) => keysOf kvs | _ => [])) ++ keysOf kw
  | .ior raw => (match toPairs raw with | some (some kvs) => keysOf kvs | _ => [])
  | .updateArgs kvs => kvs.map (·.1)
  | _ => []

/-- **update_undeclared_rejected.**  Every form of `update` and `|=` that names an undeclared key
    raises (TypeError at that key, unless something raised before it), and — by
    `undeclared_never_stored_step` — stores nothing under it. -/
theorem update_undeclared_rejected {n : Node} (h : MapInv n) (op : MapOp) (hop : OpExact n op) {k : Str}
    (hund : fieldFor n.sch.subs k = none) (hk : k ∈ updateKeys op) (next : Nat) :
    Raises (mapStep n op next) := by
  have hki := (mapInv_iff n).mp h
  cases op with
  | update pos kw =>
    cases pos with
    | none =>
      simp only [updateKeys, List.nil_append] at hk
      exact mapUpdatePairs_raises hki hund hk next
    | some raw =>
      simp only [updateKeys] at hk
      unfold mapStep
      dsimp only
      cases htp : toPairs raw with
      | none => exact ⟨_, rfl⟩
      | some o =>
        cases o with
        | none => exact ⟨_, rfl⟩
        | some kvs =>
          simp only [htp, List.mem_append] at hk
          dsimp only
          have h1 := mapUpdatePairs_ok kvs n next hki
          split
          · exact ⟨_, rfl⟩
          · rename_i hne
            rcases hk with hk | hk
            · obtain ⟨e, he⟩ := mapUpdatePairs_raises hki hund hk next
              exact absurd he (hne e)
            · have hsch : (mapUpdatePairs n kvs next).node.sch = n.sch := (hdr_parts h1.1).2.2.1
              exact mapUpdatePairs_raises ((KI_congr h1.1 _).mpr h1.2) (by rw [hsch]; exact hund) hk _
  | ior raw =>
    simp only [updateKeys] at hk
    unfold mapStep
    dsimp only
    cases htp : toPairs raw with
    | none => exact ⟨_, rfl⟩
    | some o =>
      cases o with
      | none => exact ⟨_, rfl⟩
      | some kvs =>
        simp only [htp] at hk
        exact mapUpdatePairs_raises hki hund hk next
  | updateArgs kvs => exact mapUpdateArgs_raises hki hund hop hk next
  | _ => simp [updateKeys] at hk

/-! ### `set`: the policy decides -/

/-- the policy a `set(value, policy=…)` call evaluates: the argument, else the class attribute -/
def effPolicy (n : Node) : Option (Option Policy) → Policy
  | some (some p) => p
  | _ => n.sch.info.policy

theorem mapStep_set_eq (n : Node) (raw : Raw) (pol : Option (Option Policy)) (next : Nat) :
    (mapStep n (.set raw pol) next).node = (setNode n raw (some (effPolicy n pol)) next).node ∧
    (mapStep n (.set raw pol) next).out =
      (match (setNode n raw (some (effPolicy n pol)) next).res with | .ok b => .bool b | .error e => .exc e) := by
  have hpol : ∀ p : Option Policy, setNode n raw p next = setNode n raw (some (p.getD n.sch.info.policy)) next := by
    intro p
    cases p with
    | some p => rfl
    | none =>
      cases n with
      | mk i s kids =>
        unfold setNode
        simp only [dictPrep, Option.getD_none, Option.getD_some, Node.sch]
  unfold mapStep
  rcases pol with _ | _ | p
  · dsimp only [effPolicy]
    rw [hpol none]
    simp only [Option.getD_none]
    split <;> simp_all [excOut]
  · dsimp only [effPolicy]
    rw [hpol none]
    simp only [Option.getD_none]
    split <;> simp_all [excOut]
  · dsimp only [effPolicy]
    split <;> simp_all [excOut]

theorem extra_nonempty {subs : List Schema} {kvs : List (Str × Raw)} {k : Str} (hk : k ∈ keysOf kvs)
    (hund : fieldFor subs k = none) :
    ((keysOf kvs).filter (fun k => !(subs.map Schema.key).contains k)).isEmpty = false := by
  have hnot := fieldFor_none hund
  have : k ∈ (keysOf kvs).filter (fun k => !(subs.map Schema.key).contains k) :=
    List.mem_filter.mpr ⟨hk, by simpa using hnot⟩
  cases hl : (keysOf kvs).filter (fun k => !(subs.map Schema.key).contains k) with
  | nil => rw [hl] at this; cases this
  | cons _ _ => rfl

theorem policyCheck_undeclared {subs : List Schema} {kvs : List (Str × Raw)} {k : Str} (hk : k ∈ keysOf kvs)
    (hund : fieldFor subs k = none) (p : Policy) (hp : p = .strict ∨ p = .subset) :
    policyCheck p subs kvs = .error .keyError := by
  have he := extra_nonempty hk hund
  unfold policyCheck
  rcases hp with rfl | rfl
  · simp only [he]
    cases ((subs.map Schema.key).filter (fun k => !(keysOf kvs).contains k)).isEmpty <;> rfl
  · simp only [he]; rfl

/-- the dict-like forms `Dict.set` accepts in the model -/
def DictLike (raw : Raw) (kvs : List (Str × Raw)) : Prop := raw = .dict kvs ∨ raw = .pairs kvs

/-- **set_undeclared_rejected.**  `set(value)` with an undeclared key under the 'strict' or the
    'subset' policy (given as argument or as the class attribute): the mapping is `_reset()`
    (every field blank again; a SparseDict keeps its required ones only) and KeyError is raised. -/
theorem set_undeclared_rejected (n : Node) (hk : MapKind n) {raw : Raw} {kvs : List (Str × Raw)}
    (hraw : DictLike raw kvs) {k : Str} (hmem : k ∈ keysOf kvs) (hund : fieldFor n.sch.subs k = none)
    (pol : Option (Option Policy)) (hp : effPolicy n pol = .strict ∨ effPolicy n pol = .subset) (next : Nat) :
    (mapStep n (.set raw pol) next).out = .exc .keyError ∧
    (mapStep n (.set raw pol) next).node = n.withKids (resetKids n next).1 := by
  obtain ⟨hnode, hout⟩ := mapStep_set_eq n raw pol next
  rw [hnode, hout]
  have hpc := policyCheck_undeclared hmem hund (effPolicy n pol) hp
  cases n with
  | mk i s kids =>
    have hkind : s.kind = .dict ∨ s.kind = .sparse := hk
    have hprep : dictPrep i s kvs (some (effPolicy (.mk i s kids) pol)) next =
        .error ⟨.mk i s (resetKids (.mk i s kids) next).1, (resetKids (.mk i s kids) next).2, .error .keyError⟩ := by
      have hpc' : policyCheck (effPolicy (.mk i s kids) pol) s.subs kvs = .error .keyError := hpc
      simp only [dictPrep, Option.getD_some, hpc']
      rfl
    unfold setNode
    rcases hraw with rfl | rfl <;> rcases hkind with hkd | hkd <;> simp only [hkd, hprep] <;> first | exact ⟨rfl, rfl⟩ | exact ⟨trivial, trivial⟩ | exact ⟨trivial, rfl⟩ | rfl | (simp; rfl)

theorem setPairs_skip (pid : Nat) (subs : List Schema) (kvs : List (Str × Raw)) :
    ∀ (kids : List Node) (next : Nat),
      setPairs pid subs kids kvs next =
        setPairs pid subs kids (kvs.filter (fun p => (fieldFor subs p.1).isSome)) next := by
  induction kvs with
  | nil => intro kids next; rfl
  | cons kv rest ih =>
    intro kids next
    obtain ⟨k, v⟩ := kv
    cases hf : fieldFor subs k with
    | none =>
      simp only [List.filter_cons, hf, Option.isSome_none, Bool.false_eq_true, if_false]
      rw [setPairs]
      simp only [hf]
      exact ih kids next
    | some f =>
      simp only [List.filter_cons, hf, Option.isSome_some, if_true]
      rw [setPairs, setPairs]
      simp only [hf]
      cases findKid kids k with
      | some child =>
        simp only
        split
        · rfl
        · rw [ih]
      | none =>
        simp only
        split
        · rfl
        · rw [ih]

/-- **set_undeclared_ignored.**  Under the 'duck' policy or policy None, `set(value)` skips
    every pair whose key is undeclared: the call is, in result, return value and state, the same
    call without those pairs. -/
theorem set_undeclared_ignored (n : Node) (hk : MapKind n) (kvs : List (Str × Raw))
    (pol : Option (Option Policy)) (hp : effPolicy n pol = .duck ∨ effPolicy n pol = .off) (next : Nat) :
    (mapStep n (.set (.dict kvs) pol) next).node =
      (mapStep n (.set (.dict (kvs.filter (fun p => (fieldFor n.sch.subs p.1).isSome))) pol) next).node ∧
    (mapStep n (.set (.dict kvs) pol) next).out =
      (mapStep n (.set (.dict (kvs.filter (fun p => (fieldFor n.sch.subs p.1).isSome))) pol) next).out ∧
    (mapStep n (.set (.pairs kvs) pol) next).node =
      (mapStep n (.set (.pairs (kvs.filter (fun p => (fieldFor n.sch.subs p.1).isSome))) pol) next).node ∧
    (mapStep n (.set (.pairs kvs) pol) next).out =
      (mapStep n (.set (.pairs (kvs.filter (fun p => (fieldFor n.sch.subs p.1).isSome))) pol) next).out := by
  have e1 := mapStep_set_eq n (.dict kvs) pol next
  have e2 := mapStep_set_eq n (.dict (kvs.filter (fun p => (fieldFor n.sch.subs p.1).isSome))) pol next
  have e3 := mapStep_set_eq n (.pairs kvs) pol next
  have e4 := mapStep_set_eq n (.pairs (kvs.filter (fun p => (fieldFor n.sch.subs p.1).isSome))) pol next
  rw [e1.1, e1.2, e2.1, e2.2, e3.1, e3.2, e4.1, e4.2]
  have hpc : ∀ l : List (Str × Raw), policyCheck (effPolicy n pol) n.sch.subs l = .ok () := by
    intro l; rcases hp with hp | hp <;> rw [hp] <;> rfl
  cases n with
  | mk i s kids =>
    have hkind : s.kind = .dict ∨ s.kind = .sparse := hk
    have hprep : ∀ l l' : List (Str × Raw), dictPrep i s l (some (effPolicy (.mk i s kids) pol)) next =
        dictPrep i s l' (some (effPolicy (.mk i s kids) pol)) next := by
      intro l l'
      simp only [dictPrep, Option.getD_some]
      rw [show policyCheck (effPolicy (.mk i s kids) pol) s.subs l = .ok () from hpc l,
        show policyCheck (effPolicy (.mk i s kids) pol) s.subs l' = .ok () from hpc l']
    have hdict : setNode (.mk i s kids) (.dict kvs) (some (effPolicy (.mk i s kids) pol)) next =
        setNode (.mk i s kids) (.dict (kvs.filter (fun p => (fieldFor s.subs p.1).isSome)))
          (some (effPolicy (.mk i s kids) pol)) next := by
      unfold setNode
      rcases hkind with hkd | hkd <;> simp only [hkd] <;>
        rw [hprep kvs (kvs.filter (fun p => (fieldFor s.subs p.1).isSome))] <;>
        split <;> first | rfl | (rw [setPairs_skip])
    have hpairs : setNode (.mk i s kids) (.pairs kvs) (some (effPolicy (.mk i s kids) pol)) next =
        setNode (.mk i s kids) (.pairs (kvs.filter (fun p => (fieldFor s.subs p.1).isSome)))
          (some (effPolicy (.mk i s kids) pol)) next := by
      unfold setNode
      rcases hkind with hkd | hkd <;> simp only [hkd] <;>
        rw [hprep kvs (kvs.filter (fun p => (fieldFor s.subs p.1).isSome))] <;>
        split <;> first | rfl | (rw [setPairs_skip])
    simp only [Node.sch] at *
    rw [hdict, hpairs]
    exact ⟨rfl, rfl, rfl, rfl⟩

/-! ### non-vacuity: concrete histories -/

/-- on `Dict.of(Integer.named('x'), String.named('y'))()`:
    `d['x'] = '7'; d |= {'y': 3, 'q': 1}` (TypeError at 'q'); `d.pop('x')` (TypeError);
    `d.set({'x': 1}, policy='strict')` (TypeError: 'y' missing); `d.clear()` (TypeError);
    `d.update([('y', None)])`; `d.update({'zz': 1}, x=2)` (TypeError at 'zz');
    `d.set({'x': 4, 'w': 0}, policy='duck')` -/
def exHist : List MapOp :=
  exMapOps ++ [.update (some (.dict [(['z', 'z'], .int 1)])) [(['x'], .int 2)],
    .set (.dict [(['x'], .int 4), (['w'], .int 0)]) (some (some .duck))]

theorem exHist_exact : ∀ op ∈ exHist, OpExactS exDict.sch op := by
  intro op hop
  simp [exHist, exMapOps] at hop
  rcases hop with rfl | rfl | rfl | rfl | rfl | rfl | rfl | rfl <;> trivial

theorem exDict_inv : MapInv exDict := mapinv_init exDS (Or.inl rfl) none [] 1
theorem exDict_nodup : FieldsNodup exDict := by unfold FieldsNodup; decide

example : keys (run ⟨exDict, 10⟩ exHist).node = [['x'], ['y']] :=
  keys_exact exHist exDict 10 exDict_inv rfl exDict_nodup exHist_exact

example : ['q'] ∉ keys (run ⟨exDict, 10⟩ exHist).node ∧ ['z', 'z'] ∉ keys (run ⟨exDict, 10⟩ exHist).node ∧
    ['w'] ∉ keys (run ⟨exDict, 10⟩ exHist).node :=
  have h := (undeclared_never_stored exHist exDict 10 exDict_inv (Or.inl rfl) exDict_nodup exHist_exact).1
  ⟨h _ rfl, h _ rfl, h _ rfl⟩

/-- the history is not a sequence of no-ops: the values end up as the accepted calls left them -/
example : (run ⟨exDict, 10⟩ exHist).node.kids.map (fun c => c.ni.val) = [.int 4, .none] := by decide

/-- `S = SparseDict.of(String.named('a'), Integer.named('b').using(optional=True))
        .using(minimum_fields='required')` -/
def exSR2 : Schema :=
  .mk { cid := 1, kind := .sparse, minreq := true } .none
    [exA, .mk { cid := 3, kind := .integer, name := some ['b'], optional := true } .none []]
def exSparse2 : Node := (blank exSR2 none [] 1).1

/-- `s['b'] = 5; s.update({'a': 'v'}, c=1)` (TypeError at 'c'); `del s['b']; s.pop('a')` (TypeError: required);
    `s.setdefault('b', 2); s.clear(); s |= [('b', 1), ('zz', 2), ('a', 'w')]` (TypeError at 'zz', 'a' untouched);
    `s.set({'a': 'q', 'k': 0})` ('subset': KeyError after the reset) -/
def exSparseHist : List MapOp :=
  [.setitem ['b'] (.plain (.int 5)), .update (some (.dict [(['a'], .str ['v'])])) [(['c'], .int 1)],
   .delitem ['b'], .pop ['a'], .setdefault ['b'] (.int 2), .clear,
   .ior (.pairs [(['b'], .int 1), (['z', 'z'], .int 2), (['a'], .str ['w'])]),
   .set (.dict [(['a'], .str ['q']), (['k'], .int 0)]) none]

theorem exSparseHist_exact : ∀ op ∈ exSparseHist, OpExactS exSparse2.sch op := by
  intro op hop
  simp [exSparseHist] at hop
  rcases hop with rfl | rfl | rfl | rfl | rfl | rfl | rfl | rfl <;> trivial

theorem exSparse2_inv : MapInv exSparse2 := mapinv_init exSR2 (Or.inr rfl) none [] 1
theorem exSparse2_nodup : FieldsNodup exSparse2 := by unfold FieldsNodup; decide

example : ['a'] ∈ keys (run ⟨exSparse2, 10⟩ exSparseHist).node :=
  (sparse_keys exSparseHist exSparse2 10 exSparse2_inv rfl exSparse2_nodup exSparseHist_exact).2 rfl exA
    (by simp [exSparse2, exSR2, blank, Node.sch, Schema.subs]) rfl

example : ['z', 'z'] ∉ keys (run ⟨exSparse2, 10⟩ exSparseHist).node :=
  (undeclared_never_stored exSparseHist exSparse2 10 exSparse2_inv (Or.inr rfl) exSparse2_nodup exSparseHist_exact).1 _ rfl

/-- before the last call the optional key is there (`|=` applied `('b', 1)` before raising at 'zz') … -/
example : keys (run ⟨exSparse2, 10⟩ (exSparseHist.take 7)).node = [['a'], ['b']] := by decide
/-- … and the rejected `set` has reset the mapping to its required field -/
example : keys (run ⟨exSparse2, 10⟩ exSparseHist).node = [['a']] := by decide

/-- `update_stops_at_undeclared` on the `|=` above: `('b', 1)` is applied, 'zz' raises TypeError,
    `('a', 'w')` is never applied -/
example :
    (mapUpdatePairs exSparse2 ([(['b'], .int 1)] ++ ((['z', 'z'], .int 2) :: [(['a'], .str ['w'])])) 10).node =
      (mapUpdatePairs exSparse2 [(['b'], .int 1)] 10).node ∧
    (mapUpdatePairs exSparse2 ([(['b'], .int 1)] ++ ((['z', 'z'], .int 2) :: [(['a'], .str ['w'])])) 10).out =
      .exc .typeError := by
  have h := update_stops_at_undeclared ['z', 'z'] (.int 2) [(['a'], .str ['w'])] [(['b'], .int 1)] exSparse2 10
    ((mapInv_iff _).mp exSparse2_inv) rfl
  exact ⟨h.1, h.2.2⟩

example : Raises (mapStep exSparse2 (.updateArgs [(['b'], .plain (.int 1)), (['z', 'z'], .elem exOwned)]) 10) :=
  update_undeclared_rejected exSparse2_inv _ (by
      intro p hp; simp at hp
      rcases hp with rfl | rfl
      · trivial
      · intro f hf
        have : fieldFor exSparse2.sch.subs ['z', 'z'] = none := rfl
        rw [this] at hf; cases hf)
    (k := ['z', 'z']) rfl (by simp [updateKeys]) 10

example : (mapStep exDict (.set (.dict [(['x'], .int 1), (['q'], .int 2)]) (some (some .strict))) 10).out = .exc .keyError :=
  (set_undeclared_rejected exDict (Or.inl rfl) (Or.inl rfl) (k := ['q']) (by simp [keysOf]) rfl _ (Or.inl rfl) 10).1

example : (mapStep exDict (.set (.pairs [(['x'], .int 1), (['q'], .int 2)]) none) 10).out = .exc .keyError :=
  (set_undeclared_rejected exDict (Or.inl rfl) (Or.inr rfl) (k := ['q']) (by simp [keysOf]) rfl _ (Or.inr rfl) 10).1

example : (mapStep exDict (.set (.dict [(['x'], .int 1), (['q'], .int 2)]) (some (some .duck))) 10).node =
    (mapStep exDict (.set (.dict [(['x'], .int 1)]) (some (some .duck))) 10).node :=
  (set_undeclared_ignored exDict (Or.inl rfl) _ _ (Or.inl rfl) 10).1

end Flatland.C10.Proofs
