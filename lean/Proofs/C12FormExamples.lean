/-
Non-vacuity of the whole-form theorems of C12: a form with every leaf kind and every control group.
-/
import Proofs.C12Form
namespace Flatland.C12.Proofs
open Flatland.Markup Flatland.C12

private def s (x : String) : Str := x.toList
private def stale : Attrs := [(sChecked, .text sChecked)]

/-- a Dict with a text field, two Booleans (one checked, one not — both with a stale `checked=`
    the transform must override), a List of two Dicts, two Arrays (one with a repeated member), a
    select, a button and a JoinedString -/
def exForm : FormTree :=
  .dict (some (s "f")) [
    .text (some (s "a")) (s "hello") (.input (some (s "text"))) [],
    .bool (some (s "b")) (s "1") (s "1") [stale],
    .bool (some (s "c")) (s "1") [] [stale],
    .list (some (s "l")) [
      .dict none [.text (some (s "x")) (s "1 & <2>") .textarea [], .bool (some (s "b")) (s "yes") (s "yes") []],
      .dict none [.text (some (s "x")) (s "2") (.radios (s "radio") [s "9", s "2", s "x"]) [stale, [], stale],
                  .bool (some (s "b")) (s "yes") [] []]],
    .array (some (s "arr")) true [s "p", s "q r"] .checkboxes [[], stale],
    .array (some (s "m")) false [s " p", s " p"] .selectMultiple [],
    .text (some (s "s")) (s "v1") (.select [s "v1", s "v2"]) [[], [(sSelected, .text sSelected)]],
    .text (some (s "k")) (s "go") .button [],
    .joined (some (s "j")) (s "a,b") [s "a", s "b"] (some (s "hidden")) []]

theorem natStr0 : Flatland.Flat.natStr 0 = ['0'] := by simp [Flatland.Flat.natStr]; rfl
theorem natStr1 : Flatland.Flat.natStr 1 = ['1'] := by simp [Flatland.Flat.natStr]; rfl

/-- the hypotheses of `form_roundtrip` hold for it -/
theorem exForm_ok : formOk Tables.current [] exForm = true := by
  simp only [exForm, formOk, fieldsOk, slotsOk, slotName, Nat.reduceAdd, natStr0, natStr1]
  decide

theorem exForm_canonical : boolsCanonical exForm = true := by
  simp only [exForm, boolsCanonical, allCanonical]
  decide

/-- the pairs the form carries -/
theorem exForm_pairs : formPairs [] exForm =
    [(s "f_a", s "hello"), (s "f_b", s "1"),
     (s "f_l_0_x", s "1 & <2>"), (s "f_l_0_b", s "yes"), (s "f_l_1_x", s "2"),
     (s "f_arr", s "p"), (s "f_arr", s "q r"), (s "f_m", s " p"), (s "f_m", s " p"),
     (s "f_s", s "v1"), (s "f_k", s "go"), (s "f_j", s "a,b")] := by
  simp only [exForm, formPairs, fieldPairs, slotPairs, slotName, Nat.reduceAdd, natStr0, natStr1]
  decide

/-- … and the ones it cannot carry: the two unchecked boxes -/
theorem exForm_unchecked : uncheckedPairs [] exForm = [(s "f_c", []), (s "f_l_1_b", [])] := by
  simp only [exForm, uncheckedPairs, uncheckedFields, uncheckedSlots, slotName, Nat.reduceAdd, natStr0, natStr1]
  decide

/-- the rendered form: 15 control groups (13 inputs / textarea / button, two `<select>`s with two options each) -/
example : (renderForm [] exForm).length = 15 := by decide

/-- so a browser submits exactly those twelve pairs for the form rendered by `Generator()`, submitted
    through its one button -/
theorem exForm_posts :
    browserSubmit (seenOf Tables.current freshGen.ctx) (some 0) (renderForm [] exForm) = .ok (formPairs [] exForm) :=
  form_roundtrip_fresh exForm exForm_ok (by decide)

/-- the same with every tag call made through `prepareTag`, as the runner makes them -/
theorem exForm_posts_generator :
    browserSubmit (seenVia Tables.current Flatland.Generated.C11.staticAttributeOrder freshGen) (some 0)
      (renderForm [] exForm) = .ok (formPairs [] exForm) :=
  form_roundtrip_fresh_generator exForm exForm_ok (by decide)

/-- and `flatten()` of the same tree emits those twelve plus the two `''` pairs of the unchecked boxes -/
theorem exForm_flatten :
    (Flatland.Flat.flattenNode usep (embed exForm)).Perm (formPairs [] exForm ++ uncheckedPairs [] exForm) :=
  formPairs_flatten exForm

/-- the hypotheses exclude what the open findings are about -/
example : widgetOk (s "\nx") .textarea = false := by decide                        -- KF-C12-f
example : textLikeTy (some (s "password")) = false ∧ textLikeTy (some (s "FILE")) = false ∧
    textLikeTy (some (s "image")) = false := by decide                              -- KF-C12-a
example : textLikeTy none = true ∧ textLikeTy (some []) = true ∧ textLikeTy (some (s "TEXT")) = true ∧
    textLikeTy (some (s "email")) = true := by decide
/-- a type the library and a browser read differently (KELVIN SIGN lower-cases to `k`) is excluded -/
example : checkTy ['c', 'h', 'e', 'c', Char.ofNat 0x212A, 'b', 'o', 'x'] = false := by decide

/-- controls whose `value` a browser never posts are not text-like: such a leaf is outside `formOk` -/
example : textLikeTy (some (s "reset")) = false ∧ textLikeTy (some (s "Button")) = false ∧
    textLikeTy (some (s "submit")) = true := by decide

/-- SUBMITTERS.  The example form has exactly one (its button); a form with a button and a submit
    input has two: only the activated one would post, so it is outside `oneSubmitter` and the
    whole-form theorems say nothing about it. -/
example : submitters exForm = 1 ∧ oneSubmitter exForm = true := by decide
def exTwoSubmitters : FormTree :=
  .dict (some (s "f")) [.text (some (s "k")) (s "go") .button [],
                        .text (some (s "z")) (s "send") (.input (some (s "Submit"))) []]
example : formOk Tables.current [] exTwoSubmitters = true ∧ oneSubmitter exTwoSubmitters = false := by decide
/-- … and submitted without pressing either, neither leaf is posted (`form_unpressed`) -/
theorem exTwoSubmitters_unpressed :
    browserSubmit (seenVia Tables.current Flatland.Generated.C11.staticAttributeOrder freshGen) none
      (renderForm [] exTwoSubmitters) = .ok [] :=
  form_unpressed exTwoSubmitters (by decide)
/-- the example form submitted with Enter instead of its button: everything but the button's pair -/
theorem exForm_quiet : quietPairs [] exForm =
    [(s "f_a", s "hello"), (s "f_b", s "1"),
     (s "f_l_0_x", s "1 & <2>"), (s "f_l_0_b", s "yes"), (s "f_l_1_x", s "2"),
     (s "f_arr", s "p"), (s "f_arr", s "q r"), (s "f_m", s " p"), (s "f_m", s " p"),
     (s "f_s", s "v1"), (s "f_j", s "a,b")] := by
  simp only [exForm, quietPairs, quietFieldPairs, quietSlotPairs, formPairs, slotName, Nat.reduceAdd, natStr0, natStr1]
  decide
theorem exForm_unpressed :
    browserSubmit (seenVia Tables.current Flatland.Generated.C11.staticAttributeOrder freshGen) none
      (renderForm [] exForm) = .ok (quietPairs [] exForm) :=
  form_unpressed exForm exForm_ok
/-- the browser rule on single controls: which ones post at all, and which are submitters -/
example : submitted sInput [(sType, s "reset"), (sName, s "n"), (sValue, s "v")] [] = none ∧
    submitted sInput [(sType, s "FILE"), (sName, s "n"), (sValue, s "v")] [] = none ∧
    submitted (s "button") [(sType, s "reset"), (sName, s "n"), (sValue, s "v")] [] = none ∧
    submitted (s "button") [(sName, s "n"), (sValue, s "v")] [] = some (s "n", s "v") ∧
    isSubmitter (s "button") [(sName, s "n")] = true ∧
    isSubmitter sInput [(sType, s "SUBMIT")] = true ∧ isSubmitter sInput [(sType, s "text")] = false := by decide

end Flatland.C12.Proofs
