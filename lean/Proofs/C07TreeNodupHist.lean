/-
C07 — uniqueness of the emitted keys on the trees histories reach (top module of the property).

* `tree_keys_nodup_histories_partial` / `tree_nodup_noArray_hist_partial`: after every
  step of every history from any construction route, keys of the structural walk are pairwise
  distinct — under the decidable checks `distinctNames` and `arrLe1T` / `noArrayT` of the state
  REACHED and a `SepSafe` separator;
* `code_keys_nodup_histories_partial`: the same for the LITERAL code rendering `flattenCode`
  (adds C08's hypotheses `swf`, `HistOK`, and the walk bound);
* `distinctNames_not_invariant`, `tree_keys_nodup_full_fails`: `distinctNames` cannot be
  dropped and is not preserved — two renamed instances assigned to two keys of a SparseDict (the
  KF-C10-a / KF-C13-c state) flatten under ONE key;
* `sepSafe_single_char_tree`: one-character separators that occur in no name of the tree.
-/
import Proofs.C07TreeNodup
import Proofs.C01Examples
namespace Flatland.C07Tree.Proofs
open Flatland.Tree Flatland.PyList Flatland.C08 Flatland.C08.Spec Flatland.C08.Proofs Flatland.C07Tree
open Flatland.Flat (FNode SepSafe natStr EnvOK isNd)

/-! ### along histories -/

/-- **uniqueness after every step (structural walk), partial**: hypotheses on the state reached are
    decidable checks of that state -/
theorem tree_keys_nodup_histories_partial {env : Flatland.Flat.Env} (sc : Schema) (s : HState) (hc : Constructed sc s)
    (sep : Str) (hs : List HOp) (hops : ∀ h ∈ hs, Inv.OpArgsDP h.op) (k : Nat)
    (hd : distinctNames (hrun s (hs.take k)).root = true) (ha : arrLe1T (hrun s (hs.take k)).root = true)
    (hsafe : SepSafe env sep (TokT (hrun s (hs.take k)).root)) :
    ((flattenTree sep (hrun s (hs.take k)).root).map Prod.fst).Nodup :=
  tree_keys_nodup_arrLe1 sep _ hsafe (Inv.hrun_dp_prefix hs s hops (constructed_dps hc) k) hd ha

/-- **U1 after every step**: no Array / MultiValue in the tree reached ⇒ keys pairwise distinct -/
theorem tree_nodup_noArray_hist_partial {env : Flatland.Flat.Env} (sc : Schema) (s : HState)
    (hc : Constructed sc s) (sep : Str) (hs : List HOp) (hops : ∀ h ∈ hs, Inv.OpArgsDP h.op) (k : Nat)
    (hd : distinctNames (hrun s (hs.take k)).root = true) (hna : noArrayT (hrun s (hs.take k)).root = true)
    (hsafe : SepSafe env sep (TokT (hrun s (hs.take k)).root)) :
    ((flattenTree sep (hrun s (hs.take k)).root).map Prod.fst).Nodup :=
  tree_keys_nodup_histories_partial sc s hc sep hs hops k hd (arrLe1T_of_noArrayT _ hna) hsafe

/-- **uniqueness after every step, for the code as written** (`flattenCode`: `seen` set + stored
    parent pointers); inherits `swf sc` and `HistOK s hs` from C08's invariant -/
theorem code_keys_nodup_histories_partial {env : Flatland.Flat.Env} (sc : Schema) (hsc : swf sc = true) (s : HState)
    (hc : Constructed sc s) (sep : Str) (hs : List HOp) (hops : ∀ h ∈ hs, Inv.OpArgsDP h.op) (hh : HistOK s hs)
    (k : Nat) (pool : List Node) (fuel : Nat) (hf : height (hrun s (hs.take k)).root ≤ fuel)
    (hd : distinctNames (hrun s (hs.take k)).root = true) (ha : arrLe1T (hrun s (hs.take k)).root = true)
    (hsafe : SepSafe env sep (TokT (hrun s (hs.take k)).root)) :
    ((flattenCode ((hrun s (hs.take k)).root :: pool) fuel sep (hrun s (hs.take k)).root).map Prod.fst).Nodup := by
  rw [flattenCode_eq_flattenTree_history s (constructed_treeok hsc hc) (constructed_dps hc) hs hops hh k pool fuel hf sep]
  exact tree_keys_nodup_histories_partial sc s hc sep hs hops k hd ha hsafe

/-! ### one-character separators -/

/-- a single character that is not a decimal digit and occurs in no (non-empty) name of the tree is
    a safe separator for the tree -/
theorem sepSafe_single_char_tree (env : Flatland.Flat.Env) (henv : EnvOK env) (n : Node) (c : Char)
    (hnd : isNd env c = false) (hnames : ∀ t ∈ (nodes n).filterMap Node.name, t ≠ [] ∧ c ∉ t ∨ ∃ i, t = natStr i) :
    SepSafe env [c] (TokT n) := by
  have hcls : ∀ t, TokT n t → (t ≠ [] ∧ c ∉ t) ∨ ∃ i, t = natStr i := by
    intro t ht
    rcases ht with ⟨x, hx, hxn⟩ | h
    · exact hnames t (List.mem_filterMap.mpr ⟨x, hx, hxn⟩)
    · exact .inr h
  have hdig : ∀ i, c ∉ natStr i := by
    intro i hc
    have := Flatland.Flat.natStr_all_nd henv i c hc
    rw [hnd] at this; cases this
  have hnotin : ∀ t, TokT n t → c ∉ t := by
    intro t ht
    rcases hcls t ht with h | ⟨i, rfl⟩
    · exact h.2
    · exact hdig i
  refine ⟨by simp, ?_, ?_, ?_, ?_⟩
  · intro t ht
    rcases hcls t ht with h | ⟨i, rfl⟩
    · exact h.1
    · exact Flatland.Flat.natStr_ne_nil i
  · intro t ht a b heq
    exact hnotin t ht (by rw [heq]; simp)
  · intro x y hx hy a b h
    exact Flatland.Flat.Proofs.split_single x y a b (hnotin x hx) (hnotin y hy) h
  · intro d r h
    simp only [List.cons.injEq] at h
    rw [← h.1]; exact hnd

/-! ### non-vacuity: the history of `Proofs/C07TreeCodeHist.lean` (List of Dicts `d` with Integer `x`
and List `y`; append, insert of a detached Dict, reverse, pop) -/

theorem exC_sepSafe (k : Nat) (hk : k ≤ 4) :
    SepSafe Flatland.Flat.Proofs.exEnv01 ['_'] (TokT (hrun exC0 (exCHist.take k)).root) := by
  apply sepSafe_single_char_tree _ Flatland.Flat.Proofs.exEnvOK _ '_' (by decide)
  have : k = 0 ∨ k = 1 ∨ k = 2 ∨ k = 3 ∨ k = 4 := by omega
  rcases this with rfl | rfl | rfl | rfl | rfl <;>
    (intro t ht; left; revert t; decide)

/-- after the third call (two Dicts in the List): structural walk and code rendering emit pairwise
    distinct keys -/
example : ((flattenTree ['_'] (hrun exC0 (exCHist.take 3)).root).map Prod.fst).Nodup :=
  tree_nodup_noArray_hist_partial _ exC0 exC0_constructed ['_'] exCHist exCHist_dp 3
    (by decide) (by decide) (exC_sepSafe 3 (by omega))

example (pool : List Node) :
    ((flattenCode ((hrun exC0 (exCHist.take 3)).root :: pool) 64 ['_'] (hrun exC0 (exCHist.take 3)).root).map Prod.fst).Nodup :=
  code_keys_nodup_histories_partial _ (by decide) exC0 exC0_constructed ['_'] exCHist exCHist_dp exCHist_ok 3 pool 64
    (by decide) (by decide) (arrLe1T_of_noArrayT _ (by decide)) (exC_sepSafe 3 (by omega))

/-! ### `distinctNames` is needed and is not an invariant -/

def rFa : Schema := .mk { cid := 21, kind := .string, name := some ['a'] } .none []
def rFb : Schema := .mk { cid := 22, kind := .string, name := some ['b'] } .none []
/-- `SparseDict.of(String.named('a'), String.named('b'))` -/
def rS : Schema := .mk { cid := 20, kind := .sparse } .none [rFa, rFb]
def exR0 : HState := ⟨(blank rS none [] 100).1, (blank rS none [] 100).2⟩
/-- instances of the two field classes constructed with `name='z'` -/
def rE1 : Node := .mk { id := 50, parent := none, val := .str ['p'], u := ['p'], nameOv := some ['z'] } rFa []
def rE2 : Node := .mk { id := 51, parent := none, val := .str ['q'], u := ['q'], nameOv := some ['z'] } rFb []
/-- `d['a'] = A('p', name='z'); d['b'] = B('q', name='z')` -/
def exRHist : List HOp := [⟨100, .map (.setitem ['a'] (.elem rE1))⟩, ⟨100, .map (.setitem ['b'] (.elem rE2))⟩]

def exRAfter : Node :=
  .mk { id := 100, parent := none } rS
    [.mk { id := 50, parent := some 100, key := ['a'], val := .str ['p'], u := ['p'], nameOv := some ['z'] } rFa [],
     .mk { id := 51, parent := some 100, key := ['b'], val := .str ['q'], u := ['q'], nameOv := some ['z'] } rFb []]

theorem exR_after : (hrun exR0 exRHist).root = exRAfter := by rfl

theorem exRAfter_flatten : flattenTree ['_'] exRAfter = [(['z'], ['p']), (['z'], ['q'])] := by
  simp [flattenTree, exRAfter, rS, rFa, rFb, bfs_cons, bfs_nil, ownPair, pushed, childItems, namePath, fl, cfl,
    Node.name, Node.kind, Node.sch, Node.kids, Node.ni, Schema.kind, Schema.info, Schema.name, joinSep,
    Flatland.Flat.joinSep]

theorem exR_hops : ∀ h ∈ exRHist, Inv.OpArgsDP h.op := by
  intro h hh
  simp only [exRHist, List.mem_cons, List.not_mem_nil, or_false] at hh
  rcases hh with rfl | rfl <;> (show Inv.dps _ = true; decide)

theorem exR_ok : HistOK exR0 exRHist := by
  refine ⟨?_, ⟨by decide, by decide, by decide⟩, ⟨by decide, by decide, by decide⟩, trivial⟩
  intro h hh
  simp only [exRHist, List.mem_cons, List.not_mem_nil, or_false] at hh
  rcases hh with rfl | rfl <;> (show wp _ = true; decide)

/-- **`distinctNames` is not an invariant of histories**: from a fresh SparseDict, two legal item
    assignments (fresh, well-parented arguments; every hypothesis of C08's and h1's invariants
    holds, there is no Array, the separator is safe) reach a state whose two members carry the
    same name — and `flatten()` emits the key `z` twice. -/
theorem distinctNames_not_invariant :
    Constructed rS exR0 ∧ swf rS = true ∧ HistOK exR0 exRHist ∧ (∀ h ∈ exRHist, Inv.OpArgsDP h.op) ∧
    distinctNames exR0.root = true ∧ noArrayT (hrun exR0 exRHist).root = true ∧
    distinctNames (hrun exR0 exRHist).root = false ∧
    (flattenTree ['_'] (hrun exR0 exRHist).root).map Prod.fst = [['z'], ['z']] := by
  refine ⟨Constructed.ctor 100, by decide, exR_ok, exR_hops, by decide, by decide, by decide, ?_⟩
  rw [exR_after, exRAfter_flatten]; rfl

/-- the history statement without `distinctNames`, kept visible … -/
def Tree_Keys_Nodup_Histories_Full : Prop :=
  ∀ (env : Flatland.Flat.Env) (sc : Schema) (s : HState), Constructed sc s → swf sc = true →
    ∀ (sep : Str) (hs : List HOp), (∀ h ∈ hs, Inv.OpArgsDP h.op) → HistOK s hs →
      noArrayT (hrun s hs).root = true → SepSafe env sep (TokT (hrun s hs).root) →
      ((flattenTree sep (hrun s hs).root).map Prod.fst).Nodup

/-- … and refuted -/
theorem tree_keys_nodup_full_fails : ¬ Tree_Keys_Nodup_Histories_Full := by
  intro h
  have hsafe : SepSafe Flatland.Flat.Proofs.exEnv01 ['_'] (TokT (hrun exR0 exRHist).root) := by
    apply sepSafe_single_char_tree _ Flatland.Flat.Proofs.exEnvOK _ '_' (by decide)
    intro t ht; left; revert t; decide
  have := h _ rS exR0 (Constructed.ctor 100) (by decide) ['_'] exRHist exR_hops exR_ok (by decide) hsafe
  rw [distinctNames_not_invariant.2.2.2.2.2.2.2] at this
  revert this; decide

end Flatland.C07Tree.Proofs
