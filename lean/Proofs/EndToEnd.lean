/-
END TO END — C12 ∘ C02 ∘ C01:

    "a rendered form, submitted unchanged and read back with `from_flat`, rebuilds the element"

For a form tree `t` that renders the element `e` of schema `s` (`embed t = resolve env s e`):

    browser posts            = formPairs t                                   C12  `form_roundtrip`
    formPairs t ++ unchecked ~ flatten e            (a permutation)          C12  `formPairs_flatten`
    from_flat is order-free when no key occurs twice                         C02  `order_free`
    dropping the `(key, '')` pairs of unchecked boxes changes nothing        here `drop_setFlat`
    from_flat (flatten e)    = prS e                                         C01  `roundtrip_sparse`

`EndToEnd_Full` is the statement without the two composition hypotheses (`hnodupB`, `dropSafe`) and
without `boolsCanonical`; it is FALSE of the model (and of the code): `end_to_end_full_fails`
(an unchecked Boolean in a SparseDict is not re-created; in a non-pruning List it loses its slot:
`exNonPruning_differs`).  `end_to_end_partial` is the strongest restriction proved here; every one of its
hypotheses is a decidable test (`Flatland.EndToEnd.hyps`) the C12 runner evaluates on every
generated form case.
-/
import Proofs.Lemmas.EndToEndDrop
import Proofs.Lemmas.EndToEndNodup
import Proofs.Lemmas.EndToEndHNodup
import Proofs.C02OrderStable
import Proofs.C12Form
import Proofs.C01SparseAll
namespace Flatland.EndToEnd.Proofs
open Flatland.Flat Flatland.Flat.Spec Flatland.Flat.Proofs Flatland.EndToEnd
open Flatland.C12 Flatland.C12.Proofs
open Flatland.Markup (Tables Ctx PyErr)

/-- **the full statement**: every form of the kind C12 covers, submitted through its only
    submitter, for every conforming state of every well-formed schema with `_`-safe names: what the
    browser posts, read back with `from_flat`, is the element up to the documented pruning. -/
def EndToEnd_Full : Prop :=
  ∀ (env : Env) (s : Schema) (e : Elem) (t : FormTree),
    baseHyps Tables.current env s e t = true →
    ∀ ps, browserSubmit (seenOf Tables.current freshGen.ctx) (some 0) (renderForm [] t) = .ok ps →
      fromFlat env usep s ps = prS env usep false s e

/-! ### the composition on the model's own pair lists -/

/-- **the core**: `from_flat` of the pairs a form carries (`formPairs`, document order, unchecked
    boxes missing) is `prS e` -/
theorem fromFlat_formPairs (env : Env) (s : Schema) (e : Elem) (t : FormTree)
    (henv : EnvOK env) (hs : SepSafe env usep (Tok s)) (hw : wf s = true) (hroot : rootOK s = true)
    (hok : OkS env s e) (hlink : embed t = resolve env s e) (hcan : boolsCanonical t = true)
    (hnd : HNodup env usep s (wrap (formPairs [] t ++ uncheckedPairs [] t)))
    (hdrop : uncheckedPairs [] t = [] ∨ dropSafe env s = true) :
    fromFlat env usep s (formPairs [] t) = prS env usep false s e := by
  have hperm : (flatten env usep s e).Perm (formPairs [] t ++ uncheckedPairs [] t) := by
    unfold flatten
    rw [← hlink]
    exact formPairs_flatten t
  -- C02: the order of the pairs does not matter
  have h1 : fromFlat env usep s (formPairs [] t ++ uncheckedPairs [] t)
      = fromFlat env usep s (flatten env usep s e) := order_free env usep s _ _ hnd hperm.symm
  -- the pairs of the unchecked boxes can be left out
  have h2 : fromFlat env usep s (formPairs [] t)
      = fromFlat env usep s (formPairs [] t ++ uncheckedPairs [] t) := by
    rcases hdrop with h0 | hd
    · rw [h0, List.append_nil]
    · unfold fromFlat
      exact (drop_setFlat env usep s hd hw _ _ hnd
        (dropE_wrap (DropE.append_empty _ _ (unchecked_empty t [] hcan)))).symm
  -- C01: the round trip
  rw [h2, h1]
  exact roundtrip_sparse env usep s e hs henv hw hroot hok

/-- the executable hypotheses, unpacked -/
theorem hyps_unpack {T : Tables} {env : Env} {s : Schema} {e : Elem} {t : FormTree}
    (h : hyps T env s e t = true) :
    embed t = resolve env s e ∧ formOk T [] t = true ∧ oneSubmitter t = true ∧ boolsCanonical t = true ∧
    wf s = true ∧ rootOK s = true ∧ OkS env s e ∧ EnvOK env ∧ SepSafe env usep (Tok s) ∧
    HNodup env usep s (wrap (formPairs [] t ++ uncheckedPairs [] t)) ∧
    (uncheckedPairs [] t = [] ∨ dropSafe env s = true) := by
  simp only [hyps, Bool.and_eq_true, Bool.or_eq_true, List.isEmpty_iff] at h
  obtain ⟨⟨⟨⟨⟨⟨⟨⟨⟨⟨hl, hf⟩, hsub⟩, hcan⟩, hw⟩, hroot⟩, hok⟩, henv⟩, hns⟩, hnd⟩, hdrop⟩ := h
  have henv' := envOKB_sound env henv
  exact ⟨fnodeBeq_sound _ _ hl, hf, hsub, hcan, by rw [← wfS_eq]; exact hw, hroot, okSB_sound env s e hok,
    henv', namesSafe_sound env s henv' hns, hnodupB_sound env usep s _ hnd, hdrop⟩

/-- **END TO END, any generator context** with name and value generation on: whatever the browser
    posts for the rendered form, `from_flat` rebuilds `prS e` from it -/
theorem end_to_end_at (T : Tables) (ctx : Ctx) (hT : TablesOK T)
    (hL : Live T ctx) (env : Env) (s : Schema) (e : Elem) (t : FormTree)
    (h : hyps T env s e t = true) (ps : List Pair)
    (hpost : browserSubmit (seenOf T ctx) (some 0) (renderForm [] t) = .ok ps) :
    fromFlat env usep s ps = prS env usep false s e := by
  obtain ⟨hl, hf, hsub, hcan, hw, hroot, hok, henv, hs, hnd, hdrop⟩ := hyps_unpack h
  rw [form_roundtrip T ctx hT hL t hf hsub ps hpost]
  exact fromFlat_formPairs env s e t henv hs hw hroot hok hl hcan hnd hdrop

/-- **END TO END** (the strongest restriction of `EndToEnd_Full` proved here).  On `Generator()` with
    the tables of the current source: for every form tree `t` that renders the element state `e` of
    schema `s` and meets the decidable hypotheses `hyps`, what a browser posts for the unchanged
    form, read back with `from_flat`, is `prS e` — the element up to the documented pruning. -/
theorem end_to_end_partial (env : Env) (s : Schema) (e : Elem) (t : FormTree)
    (h : hyps Tables.current env s e t = true) (ps : List Pair)
    (hpost : browserSubmit (seenOf Tables.current freshGen.ctx) (some 0) (renderForm [] t) = .ok ps) :
    fromFlat env usep s ps = prS env usep false s e :=
  end_to_end_at _ _ tablesOK_current fresh_live env s e t h ps hpost

/-- … and the form does render and post (total form): there IS a posted list, and it rebuilds `prS e` -/
theorem end_to_end_total (env : Env) (s : Schema) (e : Elem) (t : FormTree)
    (h : hyps Tables.current env s e t = true) :
    ∃ ps, browserSubmit (seenOf Tables.current freshGen.ctx) (some 0) (renderForm [] t) = .ok ps ∧
      fromFlat env usep s ps = prS env usep false s e := by
  obtain ⟨_, hf, hsub, _⟩ := hyps_unpack h
  have hp := form_roundtrip_fresh t hf hsub
  exact ⟨_, hp, end_to_end_partial env s e t h _ hp⟩

/-- the same through `prepareTag`, the way the runner makes the tag calls -/
theorem end_to_end_generator (env : Env) (s : Schema) (e : Elem) (t : FormTree)
    (h : hyps Tables.current env s e t = true) :
    ∃ ps, browserSubmit (seenVia Tables.current Flatland.Generated.C11.staticAttributeOrder freshGen) (some 0)
        (renderForm [] t) = .ok ps ∧ fromFlat env usep s ps = prS env usep false s e := by
  obtain ⟨hl, hf, hsub, hcan, hw, hroot, hok, henv, hs, hnd, hdrop⟩ := hyps_unpack h
  exact ⟨_, form_roundtrip_fresh_generator t hf hsub,
    fromFlat_formPairs env s e t henv hs hw hroot hok hl hcan hnd hdrop⟩

/-- nothing prunable, every mapping dense and in order: the element itself comes back -/
theorem end_to_end_exact (env : Env) (s : Schema) (e : Elem) (t : FormTree)
    (h : hyps Tables.current env s e t = true) (hfix : prS env usep false s e = e) (ps : List Pair)
    (hpost : browserSubmit (seenOf Tables.current freshGen.ctx) (some 0) (renderForm [] t) = .ok ps) :
    fromFlat env usep s ps = e := by
  rw [end_to_end_partial env s e t h ps hpost, hfix]

/-! ### without `hnodupB`: "no Array / MultiValue with two or more members" is enough

`hnodupB` — C02's hereditary "no key twice", evaluated on the form's own pairs — FOLLOWS from the
state-level test `narrowB s e` (`Proofs/Lemmas/EndToEndHNodup.lean`: `hnodup_flatten`, an induction on
the schema through C01's canonical paths, carried across the permutation by `hnodup_perm`).  The
theorems below are the ones above with `hypsN` (= `hyps` with `narrowB s e` in place of `hnodupB …`). -/

/-- the core, with the state-level hypothesis -/
theorem fromFlat_formPairs_narrow (env : Env) (s : Schema) (e : Elem) (t : FormTree)
    (henv : EnvOK env) (hs : SepSafe env usep (Tok s)) (hw : wf s = true) (hroot : rootOK s = true)
    (hok : OkS env s e) (hlink : embed t = resolve env s e) (hcan : boolsCanonical t = true)
    (hnar : narrowB s e = true)
    (hdrop : uncheckedPairs [] t = [] ∨ dropSafe env s = true) :
    fromFlat env usep s (formPairs [] t) = prS env usep false s e := by
  have hperm : (flatten env usep s e).Perm (formPairs [] t ++ uncheckedPairs [] t) := by
    unfold flatten
    rw [← hlink]
    exact formPairs_flatten t
  exact fromFlat_formPairs env s e t henv hs hw hroot hok hlink hcan
    (hnodup_flatten_perm env usep s e hs henv hw hroot hok hnar _ hperm) hdrop

/-- the executable hypotheses `hypsN`, unpacked -/
theorem hypsN_unpack {T : Tables} {env : Env} {s : Schema} {e : Elem} {t : FormTree}
    (h : hypsN T env s e t = true) :
    embed t = resolve env s e ∧ formOk T [] t = true ∧ oneSubmitter t = true ∧ boolsCanonical t = true ∧
    wf s = true ∧ rootOK s = true ∧ OkS env s e ∧ EnvOK env ∧ SepSafe env usep (Tok s) ∧
    narrowB s e = true ∧ (uncheckedPairs [] t = [] ∨ dropSafe env s = true) := by
  simp only [hypsN, Bool.and_eq_true, Bool.or_eq_true, List.isEmpty_iff] at h
  obtain ⟨⟨⟨⟨⟨⟨⟨⟨⟨⟨hl, hf⟩, hsub⟩, hcan⟩, hw⟩, hroot⟩, hok⟩, henv⟩, hns⟩, hnar⟩, hdrop⟩ := h
  have henv' := envOKB_sound env henv
  exact ⟨fnodeBeq_sound _ _ hl, hf, hsub, hcan, by rw [← wfS_eq]; exact hw, hroot, okSB_sound env s e hok,
    henv', namesSafe_sound env s henv' hns, hnar, hdrop⟩

/-- under `hypsN` the form's own pairs satisfy C02's `HNodup` — the hypothesis `hnodupB` stood for -/
theorem hypsN_hnodup {T : Tables} {env : Env} {s : Schema} {e : Elem} {t : FormTree}
    (h : hypsN T env s e t = true) :
    HNodup env usep s (wrap (formPairs [] t ++ uncheckedPairs [] t)) := by
  obtain ⟨hl, _, _, _, hw, hroot, hok, henv, hs, hnar, _⟩ := hypsN_unpack h
  have hperm : (flatten env usep s e).Perm (formPairs [] t ++ uncheckedPairs [] t) := by
    unfold flatten
    rw [← hl]
    exact formPairs_flatten t
  exact hnodup_flatten_perm env usep s e hs henv hw hroot hok hnar _ hperm

/-- `hypsN` is a special case of `hyps`: the test `hnodupB` the runner evaluates holds whenever the
    state-level test does (the converse fails: an Array holding `['', 'x']` that prunes empty values
    passes `hnodupB` but not `narrowB`, `exPrunedArr_hyps`) -/
theorem hypsN_hyps {T : Tables} {env : Env} {s : Schema} {e : Elem} {t : FormTree}
    (h : hypsN T env s e t = true) : hyps T env s e t = true := by
  have hnd := hnodupB_complete env usep s _ (hypsN_hnodup h)
  simp only [hypsN, Bool.and_eq_true, Bool.or_eq_true] at h
  obtain ⟨⟨⟨⟨⟨⟨⟨⟨⟨⟨hl, hf⟩, hsub⟩, hcan⟩, hw⟩, hroot⟩, hok⟩, henv⟩, hns⟩, hnar⟩, hdrop⟩ := h
  simp only [hyps, Bool.and_eq_true, Bool.or_eq_true]
  exact ⟨⟨⟨⟨⟨⟨⟨⟨⟨⟨hl, hf⟩, hsub⟩, hcan⟩, hw⟩, hroot⟩, hok⟩, henv⟩, hns⟩, hnd⟩, hdrop⟩

/-- **END TO END, any generator context, without `hnodupB`.** -/
theorem end_to_end_narrow_at (T : Tables) (ctx : Ctx) (hT : TablesOK T)
    (hL : Live T ctx) (env : Env) (s : Schema) (e : Elem) (t : FormTree)
    (h : hypsN T env s e t = true) (ps : List Pair)
    (hpost : browserSubmit (seenOf T ctx) (some 0) (renderForm [] t) = .ok ps) :
    fromFlat env usep s ps = prS env usep false s e := by
  obtain ⟨hl, hf, hsub, hcan, hw, hroot, hok, henv, hs, hnar, hdrop⟩ := hypsN_unpack h
  rw [form_roundtrip T ctx hT hL t hf hsub ps hpost]
  exact fromFlat_formPairs_narrow env s e t henv hs hw hroot hok hl hcan hnar hdrop

/-- **END TO END** with the hypothesis "no Array / MultiValue of the element holds two or more
    members" (`narrowB s e`, a test on the STATE) in place of `hnodupB` (a test on the keys): on
    `Generator()` with the tables of the current source, for every form tree `t` that renders the
    element state `e` of schema `s` and meets `hypsN`, what a browser posts for the unchanged form, read
    back with `from_flat`, is `prS e`.  `narrowB` is what C02's `order_free` needs (`exArr2_only_narrow_fails`: with two members
    `HNodup` fails and the order of the pairs IS the order of the members); the conclusion itself
    survives there (`exArr2_still_rebuilds`) — the per-key stable composition, not proved. -/
theorem end_to_end_narrow_partial (env : Env) (s : Schema) (e : Elem) (t : FormTree)
    (h : hypsN Tables.current env s e t = true) (ps : List Pair)
    (hpost : browserSubmit (seenOf Tables.current freshGen.ctx) (some 0) (renderForm [] t) = .ok ps) :
    fromFlat env usep s ps = prS env usep false s e :=
  end_to_end_narrow_at _ _ tablesOK_current fresh_live env s e t h ps hpost

/-- … total form: there IS a posted list, and it rebuilds `prS e` -/
theorem end_to_end_narrow_total (env : Env) (s : Schema) (e : Elem) (t : FormTree)
    (h : hypsN Tables.current env s e t = true) :
    ∃ ps, browserSubmit (seenOf Tables.current freshGen.ctx) (some 0) (renderForm [] t) = .ok ps ∧
      fromFlat env usep s ps = prS env usep false s e := by
  obtain ⟨_, hf, hsub, _⟩ := hypsN_unpack h
  have hp := form_roundtrip_fresh t hf hsub
  exact ⟨_, hp, end_to_end_narrow_partial env s e t h _ hp⟩

/-- … through `prepareTag`, the way the runner makes the tag calls -/
theorem end_to_end_narrow_generator (env : Env) (s : Schema) (e : Elem) (t : FormTree)
    (h : hypsN Tables.current env s e t = true) :
    ∃ ps, browserSubmit (seenVia Tables.current Flatland.Generated.C11.staticAttributeOrder freshGen) (some 0)
        (renderForm [] t) = .ok ps ∧ fromFlat env usep s ps = prS env usep false s e := by
  obtain ⟨hl, hf, hsub, hcan, hw, hroot, hok, henv, hs, hnar, hdrop⟩ := hypsN_unpack h
  exact ⟨_, form_roundtrip_fresh_generator t hf hsub,
    fromFlat_formPairs_narrow env s e t henv hs hw hroot hok hl hcan hnar hdrop⟩

/-! ### Arrays with two or more members: the composition through the STABLE `order_free`

`order_free_stable` (Proofs/C02OrderStable.lean) lets the composition go through for Arrays of any size,
GIVEN its two hereditary conditions on the element's own pairs: `HNodupA` (no scalar's key twice) and
`ASame` (document order and breadth-first order hand every Array its pairs in the same order).  Both
are believed to hold for every canonical `flatten` output / every form (the form walks the members of
an Array in member order); here they are hypotheses — decidable on examples (`exArr2_via_stable`) —,
and the form must have no unchecked box (`drop_setFlat` is about `HNodup`).  Deriving them from
`hypsN` minus `narrowB` is what is left of `end_to_end_arrays_partial`. -/

theorem fromFlat_formPairs_stable (env : Env) (s : Schema) (e : Elem) (t : FormTree)
    (henv : EnvOK env) (hs : SepSafe env usep (Tok s)) (hw : wf s = true) (hroot : rootOK s = true)
    (hok : OkS env s e) (hlink : embed t = resolve env s e)
    (hnd : HNodupA env usep s (wrap (flatten env usep s e)))
    (hsame : ASame env usep s (wrap (flatten env usep s e)) (wrap (formPairs [] t)))
    (hun : uncheckedPairs [] t = []) :
    fromFlat env usep s (formPairs [] t) = prS env usep false s e := by
  have hperm : (flatten env usep s e).Perm (formPairs [] t) := by
    have := formPairs_flatten t
    rw [hun, List.append_nil, hlink] at this
    exact this
  rw [← order_free_stable env usep s _ _ hnd hperm hsame]
  exact roundtrip_sparse env usep s e hs henv hw hroot hok

end Flatland.EndToEnd.Proofs
