/-
C01 — the flatten-level clauses.

`roundtrip_pruned` (`Proofs/C01Prune.lean`) says which tree `from_flat(flatten(e))` rebuilds: the
documented pruning `pr e`.  That pruning is *not* idempotent on trees (a non-pruning List of pruning
Lists `[['a'], ['']]` comes back as `[['a'], []]` and only then as `[['a']]`), but it is on flat
output, which is what the property speaks about:

* `roundtrip_second_flatten` — after the first round trip, a second round trip changes nothing in
  the flattened output;
* `roundtrip_flatten_noprune` — if no sequence of the schema prunes, the flattened output of
  `from_flat(flatten(e))` is identical to `flatten(e)` (even though the tree may have lost trailing
  list members that have no flat representation).

Both hold for every well-formed schema without SparseDicts and every conforming settled state.
-/
import Proofs.C01Prune
import Proofs.Lemmas.C01LevelStable
namespace Flatland.Flat.Proofs
open Flatland.Flat Flatland.Flat.Spec

/-- on a stable state the documented pruning does not change the flattened output -/
theorem flatten_pr_of_stable (env : Env) (sep : Str) (s : Schema) (u : Bool) (e : Elem)
    (hw : wf s = true) (hd : dense s = true) (hok : OkP env s e) (hst : Stable env u s e) :
    flatten env sep s (pr env u s e) = flatten env sep s e := by
  rw [flatten_eq_relFlat, flatten_eq_relFlat, relFlat_of_lvlEq (lvl_pr s hw hd u e hok hst)]

/-- the documented pruning is idempotent on flattened output -/
theorem flatten_pr_pr (env : Env) (sep : Str) (s : Schema) (u : Bool) (e : Elem)
    (hw : wf s = true) (hd : dense s = true) (hok : OkP env s e) :
    flatten env sep s (pr env u s (pr env u s e)) = flatten env sep s (pr env u s e) :=
  flatten_pr_of_stable env sep s u _ hw hd (okP_pr s hw hd u e hok) (stable_pr s hw hd u e hok)

/-- **C01, second round trip.**  After one round trip through `flatten` / `from_flat`, a second
    round trip changes nothing in the flattened output. -/
theorem roundtrip_second_flatten (env : Env) (sep : Str) (s : Schema) (e : Elem)
    (hs : SepSafe env sep (Tok s)) (henv : EnvOK env) (hw : wf s = true) (hd : dense s = true)
    (hroot : rootOK s = true) (hok : OkP env s e) :
    flatten env sep s (fromFlat env sep s (flatten env sep s (fromFlat env sep s (flatten env sep s e))))
      = flatten env sep s (fromFlat env sep s (flatten env sep s e)) := by
  rw [roundtrip_pruned env sep s e hs henv hw hd hroot hok,
    roundtrip_pruned env sep s _ hs henv hw hd hroot (okP_pr s hw hd false e hok)]
  exact flatten_pr_pr env sep s false e hw hd hok

/-- **C01, flat output without pruning sequences.**  If no sequence of the schema prunes, the
    flattened output survives the round trip unchanged, for every conforming settled state. -/
theorem roundtrip_flatten_noprune (env : Env) (sep : Str) (s : Schema) (e : Elem)
    (hs : SepSafe env sep (Tok s)) (henv : EnvOK env) (hw : wf s = true) (hd : dense s = true)
    (hroot : rootOK s = true) (hnp : noPrune s = true) (hok : OkP env s e) :
    flatten env sep s (fromFlat env sep s (flatten env sep s e)) = flatten env sep s e := by
  rw [roundtrip_pruned env sep s e hs henv hw hd hroot hok]
  exact flatten_pr_of_stable env sep s false e hw hd hok (stable_noPrune s hw hd hnp e hok)

end Flatland.Flat.Proofs
