/-
C08 — "an element placed into a container is a child of that container": every call that
places Element arguments (append, extend, +=, insert, item and slice assignment on sequences;
item assignment and update on a SparseDict) and returns normally leaves each of them as a direct
child of the target, with the stored parent pointer designating the container (`PlacedIn`).
-/
import Proofs.C08Frame
namespace Flatland.C08.Proofs
open Flatland.Tree Flatland.PyList Flatland.C08 Flatland.C08.Spec
open Flatland.C10.Proofs (findKid_some findKid_none fieldFor_some hdr_parts hdr_eq_parts)

/-! ### list facts: what a slice assignment stores -/

section assign
variable {α : Type}

theorem assign_length (l : List α) (is : List Nat) (xs : List α) : (assign l is xs).length = l.length := by
  induction is generalizing l xs with
  | nil => cases xs <;> simp [assign]
  | cons i is ih =>
    cases xs with
    | nil => simp [assign]
    | cons x xs => rw [assign, ih, List.length_set]

theorem assign_getElem?_of_not_mem (l : List α) (is : List Nat) (xs : List α) (j : Nat) (hj : j ∉ is) :
    (assign l is xs)[j]? = l[j]? := by
  induction is generalizing l xs with
  | nil => cases xs <;> simp [assign]
  | cons i is ih =>
    cases xs with
    | nil => simp [assign]
    | cons x xs =>
      rw [assign, ih _ _ (fun h => hj (List.mem_cons_of_mem _ h))]
      rw [List.getElem?_set_ne (by intro h; exact hj (by simp [h]))]

theorem mem_assign_new (l : List α) (is : List Nat) (xs : List α) (hn : is.Nodup) (hlt : ∀ i ∈ is, i < l.length)
    (hlen : xs.length = is.length) : ∀ x ∈ xs, x ∈ assign l is xs := by
  induction is generalizing l xs with
  | nil => cases xs with
    | nil => intro x hx; cases hx
    | cons y ys => simp at hlen
  | cons i is ih =>
    cases xs with
    | nil => simp at hlen
    | cons y ys =>
      rw [List.nodup_cons] at hn
      intro x hx
      rw [assign]
      rcases List.mem_cons.mp hx with h | h
      · have h1 := assign_getElem?_of_not_mem (l.set i y) is ys i hn.1
        rw [List.getElem?_set_self (hlt i (by simp))] at h1
        rw [h]; exact List.mem_of_getElem? h1
      · exact ih (l.set i y) ys hn.2 (fun j hj => by rw [List.length_set]; exact hlt j (by simp [hj]))
          (by simpa using hlen) x h

end assign

/-! ### slice arithmetic: the positions of an extended slice are distinct and inside the list -/

theorem adjustBound_pos_range (len : Int) (hl : 0 ≤ len) (step : Int) (hs : 0 < step) (d : Int) (hd : 0 ≤ d ∧ d ≤ len)
    (o : Option Int) : 0 ≤ adjustBound len step d o ∧ adjustBound len step d o ≤ len := by
  unfold adjustBound
  cases o with
  | none => exact hd
  | some i => dsimp only; split <;> (try split) <;> (try split) <;> omega

theorem adjustBound_neg_range (len : Int) (hl : 0 ≤ len) (step : Int) (hs : step < 0) (d : Int) (hd : -1 ≤ d ∧ d ≤ len - 1)
    (o : Option Int) : -1 ≤ adjustBound len step d o ∧ adjustBound len step d o ≤ len - 1 := by
  unfold adjustBound
  cases o with
  | none => exact hd
  | some i => dsimp only; split <;> (try split) <;> (try split) <;> omega

theorem adjust_pos {len : Nat} {s : Slice} {ix : Ix} (h : adjust len s = some ix) :
    ix.step ≠ 0 ∧ ∀ k : Nat, k < ix.count →
      0 ≤ ix.start + (k : Int) * ix.step ∧ ix.start + (k : Int) * ix.step < len := by
  unfold adjust at h
  dsimp only at h
  split at h
  · cases h
  · rename_i hstep
    cases h
    refine ⟨hstep, ?_⟩
    dsimp only
    intro k hk
    generalize s.step.getD 1 = step at *
    by_cases hneg : step < 0
    · simp only [hneg, if_true] at hk ⊢
      have hb1 := adjustBound_neg_range len (by omega) step hneg (len - 1) (by omega) s.start
      have hb2 := adjustBound_neg_range len (by omega) step hneg (-1) (by omega) s.stop
      generalize adjustBound (↑len) step (↑len - 1) s.start = start at *
      generalize adjustBound (↑len) step (-1) s.stop = stop at *
      split at hk
      · have h1 : (k : Int) < (start - stop - 1) / -step + 1 := Int.lt_toNat.mp hk
        have h2 : (k : Int) * -step ≤ start - stop - 1 := (Int.le_ediv_iff_mul_le (by omega)).mp (by omega)
        have h3 : 0 ≤ (k : Int) * -step := Int.mul_nonneg (by omega) (by omega)
        rw [Int.mul_neg] at h2 h3
        omega
      · omega
    · have hpos : 0 < step := by omega
      simp only [hneg, if_false] at hk ⊢
      have hb1 := adjustBound_pos_range len (by omega) step hpos 0 (by omega) s.start
      have hb2 := adjustBound_pos_range len (by omega) step hpos len (by omega) s.stop
      generalize adjustBound (↑len) step 0 s.start = start at *
      generalize adjustBound (↑len) step (↑len) s.stop = stop at *
      split at hk
      · have h1 : (k : Int) < (stop - start - 1) / step + 1 := Int.lt_toNat.mp hk
        have h2 : (k : Int) * step ≤ stop - start - 1 := (Int.le_ediv_iff_mul_le hpos).mp (by omega)
        have h3 : 0 ≤ (k : Int) * step := Int.mul_nonneg (by omega) (by omega)
        omega
      · omega

theorem nodup_map_range {f : Nat → Nat} {c : Nat} (h : ∀ a b, a < c → b < c → f a = f b → a = b) :
    ((List.range c).map f).Nodup := by
  unfold List.Nodup
  rw [List.pairwise_map]
  exact List.Pairwise.imp_of_mem (fun ha hb hne heq => hne (h _ _ (List.mem_range.mp ha) (List.mem_range.mp hb) heq)) List.nodup_range

/-- every selected position is a valid index and they are pairwise distinct -/
theorem indices_ok {len : Nat} {s : Slice} {ix : Ix} (h : adjust len s = some ix) :
    (indices ix).Nodup ∧ (∀ i ∈ indices ix, i < len) ∧ (indices ix).length = ix.count := by
  obtain ⟨hstep, hpos⟩ := adjust_pos h
  refine ⟨?_, ?_, by simp [indices]⟩
  · apply nodup_map_range
    intro a b ha hb hab
    have h1 := hpos a ha
    have h2 := hpos b hb
    have h3 : ix.start + (a : Int) * ix.step = ix.start + (b : Int) * ix.step := by
      have := congrArg (fun n : Nat => (n : Int)) hab
      simp only [Int.toNat_of_nonneg h1.1, Int.toNat_of_nonneg h2.1] at this
      exact this
    have h4 : (a : Int) * ix.step = (b : Int) * ix.step := by omega
    have := Int.eq_of_mul_eq_mul_right hstep h4
    omega
  · intro i hi
    unfold indices at hi
    obtain ⟨k, hk, rfl⟩ := List.mem_map.mp hi
    have := hpos k (List.mem_range.mp hk)
    exact (Int.toNat_lt this.1).mpr this.2

theorem setSlice_new_mem {α : Type} {l l' : List α} {s : Slice} {new : List α} (h : setSlice l s new = .ok l') :
    ∀ x ∈ new, x ∈ l' := by
  unfold setSlice at h
  split at h
  · cases h
  · rename_i ix hix
    split at h
    · cases h
      intro x hx
      exact List.mem_append.mpr (.inl (List.mem_append.mpr (.inr hx)))
    · split at h
      · cases h
      · rename_i hlen
        cases h
        obtain ⟨h1, h2, h3⟩ := indices_ok hix
        exact mem_assign_new l (indices ix) new h1 h2 (by rw [h3]; exact Decidable.of_not_not hlen)

/-! ### sequences -/

theorem placedIn_list {n' e : Node} (hk : n'.kind = .list)
    (h : ∃ slot ∈ n'.kids, slot.parent = some n'.id ∧ slot.kids = [e.withParent (some slot.id)]) : PlacedIn n' e := by
  unfold PlacedIn; rw [hk]; exact h

theorem placedIn_arr {n' e : Node} (hk : n'.kind = .array ∨ n'.kind = .multi)
    (h : e.withParent (some n'.id) ∈ n'.kids) : PlacedIn n' e := by
  unfold PlacedIn; rcases hk with hk | hk <;> rw [hk] <;> exact h

theorem placedIn_map {n' e : Node} (hk : n'.kind = .dict ∨ n'.kind = .sparse)
    (h : ∃ key, (e.withParent (some n'.id)).withKey key ∈ n'.kids) : PlacedIn n' e := by
  unfold PlacedIn; rcases hk with hk | hk <;> rw [hk] <;> exact h

/-- what `PlacedIn` says in terms of `children`: the argument, with its own subtree, is listed -/
theorem placedIn_child {n' e : Node} (h : PlacedIn n' e) : ∃ c ∈ children n', c.id = e.id ∧ c.kids = e.kids ∧ c.sch = e.sch := by
  unfold PlacedIn at h
  unfold children
  split at h
  · rename_i hk
    obtain ⟨slot, hs, _, hkids⟩ := h
    rw [hk]
    exact ⟨e.withParent (some slot.id), List.mem_flatMap.mpr ⟨slot, hs, by rw [hkids]; simp⟩,
      id_withParent _ _, kids_withParent _ _, sch_withParent _ _⟩
  · rename_i hk
    rw [hk]; exact ⟨_, h, id_withParent _ _, kids_withParent _ _, sch_withParent _ _⟩
  · rename_i hk
    rw [hk]; exact ⟨_, h, id_withParent _ _, kids_withParent _ _, sch_withParent _ _⟩
  · rename_i hk
    obtain ⟨key, hm⟩ := h
    rw [hk]
    refine ⟨_, hm, ?_, ?_, ?_⟩
    · rw [id_withKey, id_withParent]
    · rw [kids_withKey, kids_withParent]
    · cases e; rfl
  · rename_i hk
    obtain ⟨key, hm⟩ := h
    rw [hk]
    refine ⟨_, hm, ?_, ?_, ?_⟩
    · rw [id_withKey, id_withParent]
    · rw [kids_withKey, kids_withParent]
    · cases e; rfl
  · exact h.elim

/-- a call that only appends keeps what was placed before -/
theorem placedIn_of_prefix {n1 n2 e : Node} {extra : List Node} (h : PlacedIn n1 e) (hk : n2.kids = n1.kids ++ extra)
    (hid : n2.id = n1.id) (hkind : n2.kind = n1.kind) : PlacedIn n2 e := by
  unfold PlacedIn at *
  rw [hkind, hk, hid]
  split at h
  · obtain ⟨slot, hs, hp⟩ := h
    exact ⟨slot, List.mem_append.mpr (.inl hs), hp⟩
  · exact List.mem_append.mpr (.inl h)
  · exact List.mem_append.mpr (.inl h)
  · obtain ⟨key, hm⟩ := h; exact ⟨key, List.mem_append.mpr (.inl hm)⟩
  · obtain ⟨key, hm⟩ := h; exact ⟨key, List.mem_append.mpr (.inl hm)⟩
  · exact h

theorem kind_withKids (n : Node) (ks : List Node) : (n.withKids ks).kind = n.kind := by cases n; rfl

theorem appendEl_placed (n e : Node) (next : Nat) (hseq : IsSeq n.kind) : PlacedIn (appendEl n e next).1 e := by
  unfold appendEl
  split
  · rename_i hk
    refine placedIn_list (by rw [kind_withKids]; exact hk)
      ⟨mkSlot next n.id n.kids.length e, by rw [kids_withKids']; simp, by rw [id_withKids']; rfl, rfl⟩
  · rename_i hk
    refine placedIn_arr (by rw [kind_withKids]; rcases hseq with h | h | h; (· exact absurd h hk); exact .inl h; exact .inr h) ?_
    rw [kids_withKids', id_withKids']; simp

theorem mem_argElems_flatMap {as : List Arg} {e : Node} (h : e ∈ as.flatMap argElems) : Arg.elem e ∈ as := by
  obtain ⟨a, ha, hea⟩ := List.mem_flatMap.mp h
  cases a with
  | plain r => simp [argElems] at hea
  | elem x => simp only [argElems, List.mem_singleton] at hea; rw [hea]; exact ha

theorem extendArgs_placed (m : Schema) (as : List Arg) : ∀ (n : Node) (next : Nat), IsSeq n.kind →
    (extendArgs m n as next).2.2 = none → ∀ e, Arg.elem e ∈ as → PlacedIn (extendArgs m n as next).1 e := by
  induction as with
  | nil => intro n next _ _ e he; cases he
  | cons a as ih =>
    intro n next hseq hnone e he
    rw [extendArgs] at hnone ⊢
    split at hnone
    · cases hnone
    · rename_i w n1 hw
      simp only [hw]
      have hseq' : IsSeq (appendEl n w n1).1.kind := by rw [appendEl_kind]; exact hseq
      rcases List.mem_cons.mp he with h | h
      · -- this is the argument just appended; the rest of the loop only appends
        have hwe : w = e := by
          rw [← h] at hw; simp only [wrap, Prod.mk.injEq, Except.ok.injEq] at hw; exact hw.1.symm
        have h1 : PlacedIn (appendEl n w n1).1 e := by rw [hwe]; exact appendEl_placed n e n1 hseq
        obtain ⟨extra, hpre⟩ := extendArgs_prefix m as (appendEl n w n1).1 (appendEl n w n1).2
        exact placedIn_of_prefix h1 hpre (id_of_hdr (extendArgs_hdr m _ as _))
          (extendArgs_kind m _ as _)
      · exact ih _ _ hseq' hnone e h

theorem mem_insertAt_self {α : Type} (l : List α) (i : Int) (x : α) : x ∈ insertAt l i x := by
  unfold insertAt; simp

theorem parent_withKey' (x : Node) (k : Str) : (x.withKey k).parent = x.parent := by cases x; rfl

theorem mem_renumberFrom {l : List Node} {x : Node} (h : x ∈ l) (k : Nat) : ∃ key, x.withKey key ∈ renumberFrom k l := by
  induction l generalizing k with
  | nil => cases h
  | cons y ys ih =>
    rw [renumberFrom]
    rcases List.mem_cons.mp h with h1 | h1
    · exact ⟨(toString k).toList, by rw [h1]; simp⟩
    · obtain ⟨key, hk⟩ := ih h1 (k + 1)
      exact ⟨key, List.mem_cons_of_mem _ hk⟩

/-- a slot holding `e` that is in the new underlying list of a List, possibly renumbered -/
theorem placed_slot {n e slot : Node} {ks : List Node} (hk : n.kind = .list) (hs : slot ∈ ks)
    (hp : slot.parent = some n.id) (hkids : slot.kids = [e.withParent (some slot.id)]) :
    PlacedIn (n.withKids ks) e ∧ PlacedIn (n.withKids (renumber ks)) e := by
  refine ⟨placedIn_list (by rw [kind_withKids]; exact hk) ⟨slot, by rw [kids_withKids']; exact hs, by rw [id_withKids']; exact hp, hkids⟩, ?_⟩
  obtain ⟨key, hm⟩ := mem_renumberFrom hs 0
  refine placedIn_list (by rw [kind_withKids]; exact hk) ⟨slot.withKey key, by rw [kids_withKids']; exact hm, ?_, ?_⟩
  · rw [id_withKids', parent_withKey']; exact hp
  · rw [kids_withKey, id_withKey]; exact hkids

theorem placed_arr {n e : Node} {ks : List Node} (hk : n.kind = .array ∨ n.kind = .multi)
    (hs : e.withParent (some n.id) ∈ ks) : PlacedIn (n.withKids ks) e :=
  placedIn_arr (by rw [kind_withKids]; exact hk) (by rw [kids_withKids', id_withKids']; exact hs)

theorem seq_not_list {n : Node} (hseq : IsSeq n.kind) (h : ¬ n.kind = .list) : n.kind = .array ∨ n.kind = .multi := by
  rcases hseq with h1 | h1 | h1
  · exact absurd h1 h
  · exact .inl h1
  · exact .inr h1

theorem wrapAll_elems_mem (m : Schema) (as : List Arg) : ∀ (next n1 : Nat) (ws : List Node),
    wrapAll m as next = (.ok ws, n1) → ∀ e, Arg.elem e ∈ as → e ∈ ws := by
  induction as with
  | nil => intro _ _ _ _ e he; cases he
  | cons a as ih =>
    intro next n1 ws h e he
    rw [wrapAll] at h
    split at h
    · cases h
    · rename_i w n2 hw
      split at h
      · cases h
      · rename_i ws' n3 hws
        cases h
        rcases List.mem_cons.mp he with h1 | h1
        · rw [← h1] at hw; simp only [wrap, Prod.mk.injEq, Except.ok.injEq] at hw
          rw [hw.1]; simp
        · exact List.mem_cons_of_mem _ (ih _ _ _ hws e h1)

theorem newSlots_mem (lst len : Nat) (ws : List Node) : ∀ (next : Nat) (w : Node), w ∈ ws →
    ∃ id, mkSlot id lst len w ∈ (newSlots lst len ws next).1 := by
  induction ws with
  | nil => intro _ w hw; cases hw
  | cons x xs ih =>
    intro next w hw
    rw [newSlots]
    rcases List.mem_cons.mp hw with h | h
    · exact ⟨next, by rw [h]; simp⟩
    · obtain ⟨id, hid⟩ := ih (next + 1) w h
      exact ⟨id, List.mem_cons_of_mem _ hid⟩

/-- **placed ⇒ child, sequences.**  A placing call that returns normally leaves every Element
    argument as a direct child of the sequence, its stored parent pointer designating the
    sequence (through a slot of the List that the List lists and that points to the List). -/
theorem seqStep_placed (n : Node) (hw : wp n = true) (hseq : IsSeq n.kind) (op : SeqOp) (next : Nat)
    (hno : noExc (seqStep n op next).out) : ∀ e ∈ placedSeq op, PlacedIn (seqStep n op next).node e := by
  intro e he
  have hK := (wp_iff n).mp hw
  cases op with
  | append a =>
    cases a with
    | plain r => simp [placedSeq, argElems] at he
    | elem x =>
      simp only [placedSeq, argElems, List.mem_singleton] at he
      subst he
      unfold seqStep at hno ⊢
      split at hno
      · exact hno.elim
      · simp only [wrap]; exact appendEl_placed n e next hseq
  | extend as =>
    have he' := mem_argElems_flatMap he
    unfold seqStep at hno ⊢
    split at hno
    · exact hno.elim
    · rename_i m hm
      dsimp only at hno ⊢
      split at hno
      · exact hno.elim
      · rename_i hnone
        simp only [hnone]
        exact extendArgs_placed m as n next hseq hnone e he'
  | iadd as =>
    have he' := mem_argElems_flatMap he
    unfold seqStep at hno ⊢
    split at hno
    · exact hno.elim
    · rename_i m hm
      dsimp only at hno ⊢
      split at hno
      · exact hno.elim
      · rename_i hnone
        simp only [hnone]
        exact extendArgs_placed m as n next hseq hnone e he'
  | insert i a =>
    cases a with
    | plain r => simp [placedSeq, argElems] at he
    | elem x =>
      simp only [placedSeq, argElems, List.mem_singleton] at he
      subst he
      unfold seqStep at hno ⊢
      split at hno
      · exact hno.elim
      · simp only [wrap]
        split
        · rename_i hk
          exact (placed_slot hk (mem_insertAt_self _ _ _) rfl rfl).2
        · rename_i hk
          exact placed_arr (seq_not_list hseq hk) (mem_insertAt_self _ _ _)
  | setitem i a =>
    cases a with
    | plain r => simp [placedSeq, argElems] at he
    | elem x =>
      simp only [placedSeq, argElems, List.mem_singleton] at he
      subst he
      unfold seqStep at hno ⊢
      split at hno
      · exact hno.elim
      · rename_i m hm
        dsimp only at hno ⊢
        split at hno
        · rename_i hk
          simp only [hk, if_true] at hno ⊢
          split at hno
          · exact hno.elim
          · rename_i slot hg
            split at hno
            · exact hno.elim
            · rename_i k hnk
              have hl := getItem_idx hg hnk
              have hlt : k < n.kids.length := (List.getElem?_eq_some_iff.mp hl).1
              have hsp := (hK slot (List.mem_of_getElem? hl)).1
              refine (placed_slot (slot := slot.withKids [e.withParent (some slot.id)]) hk ?_ ?_ ?_).1
              · exact List.mem_iff_getElem.mpr ⟨k, by rw [List.length_set]; exact hlt, by rw [List.getElem_set_self]⟩
              · rw [parent_withKids]; exact hsp
              · rw [kids_withKids', id_withKids']
        · rename_i hk
          simp only [hk, if_false, wrap] at hno ⊢
          split at hno
          · exact hno.elim
          · rename_i k hnk
            have hlt := normIndex_lt hnk
            refine placed_arr (seq_not_list hseq hk) ?_
            exact List.mem_iff_getElem.mpr ⟨k, by rw [List.length_set]; exact hlt, by rw [List.getElem_set_self]⟩
  | setslice sl as =>
    have he' := mem_argElems_flatMap he
    unfold seqStep at hno ⊢
    split at hno
    · exact hno.elim
    · rename_i m hm
      dsimp only at hno ⊢
      split at hno
      · exact hno.elim
      · rename_i ws n1 hws
        have hews := wrapAll_elems_mem m as next n1 ws hws e he'
        split at hno
        · rename_i hk
          simp only [hk, if_true] at hno ⊢
          split at hno
          · exact hno.elim
          · rename_i ks hss
            obtain ⟨id, hid⟩ := newSlots_mem n.id n.kids.length ws n1 e hews
            exact (placed_slot hk (setSlice_new_mem hss _ hid) rfl rfl).2
        · rename_i hk
          simp only [hk, if_false] at hno ⊢
          split at hno
          · exact hno.elim
          · rename_i ks hss
            exact placed_arr (seq_not_list hseq hk)
              (setSlice_new_mem hss _ (List.mem_map.mpr ⟨e, hews, rfl⟩))
  | delitem _ | delslice _ | pop _ | remove _ | reverse | sort _ _ | clear | imul _ | set _ | setDefault
  | len | getitem _ | getslice _ | contains _ | index _ | count _ => simp [placedSeq] at he

/-! ### mappings -/

theorem mem_replaceKid_new {kids : List Node} {key : Str} {child new : Node} (h : findKid kids key = some child) :
    new ∈ replaceKid kids key new := by
  have hc := findKid_some h
  unfold replaceKid
  exact List.mem_map.mpr ⟨child, hc.1, by simp [hc.2]⟩

theorem mapSetItem_hdr (n : Node) (key : Str) (a : Arg) (next : Nat) : (mapSetItem n key a next).node.hdr = n.hdr := by
  unfold mapSetItem
  repeat' (first | split | (dsimp only; split))
  all_goals rfl

/-- `sparse[key] = element` for an element of the declared field class: the element itself is
    stored (not copied), keyed and re-parented -/
theorem mapSetItem_placed (n : Node) (hs : n.kind = .sparse) (key : Str) (e : Node) (f : Schema)
    (hf : fieldFor n.sch.subs key = some f) (hi : isInstance e f = true) (next : Nat) :
    noExc (mapSetItem n key (.elem e) next).out ∧
    (e.withParent (some n.id)).withKey key ∈ (mapSetItem n key (.elem e) next).node.kids ∧
    PlacedIn (mapSetItem n key (.elem e) next).node e := by
  have hmain : noExc (mapSetItem n key (.elem e) next).out ∧
      (e.withParent (some n.id)).withKey key ∈ (mapSetItem n key (.elem e) next).node.kids := by
    unfold mapSetItem
    simp only [hs, if_true, hf]
    split
    · simp only [hi, if_true]
      exact ⟨trivial, by rw [kids_withKids']; simp⟩
    · rename_i child hc
      simp only [hi, if_true]
      exact ⟨trivial, by rw [kids_withKids']; exact mem_replaceKid_new hc⟩
  refine ⟨hmain.1, hmain.2, ?_⟩
  have hh := mapSetItem_hdr n key (.elem e) next
  refine placedIn_map (.inr (by rw [kind_of_hdr hh]; exact hs)) ⟨key, ?_⟩
  rw [id_of_hdr hh]; exact hmain.2

theorem mem_replaceKid_keep {kids : List Node} {key : Str} {new x : Node} (hx : x ∈ kids) (hne : x.key ≠ key) :
    x ∈ replaceKid kids key new := by
  unfold replaceKid
  exact List.mem_map.mpr ⟨x, hx, by simp [hne]⟩

/-- item assignment under another key leaves a stored child where it is -/
theorem mapSetItem_keeps (n : Node) (key : Str) (a : Arg) (next : Nat) {x : Node} (hx : x ∈ n.kids) (hne : x.key ≠ key) :
    x ∈ (mapSetItem n key a next).node.kids := by
  have h1 : ∀ y, x ∈ (n.withKids (n.kids ++ [y])).kids := fun y => by
    rw [kids_withKids']; exact List.mem_append.mpr (.inl hx)
  have h2 : ∀ y, x ∈ (n.withKids (replaceKid n.kids key y)).kids := fun y => by
    rw [kids_withKids']; exact mem_replaceKid_keep hx hne
  unfold mapSetItem
  repeat' (first | split | (dsimp only; split))
  all_goals first | exact hx | exact h1 _ | exact h2 _

theorem mapUpdateArgs_hdr (kvs : List (Str × Arg)) : ∀ (n : Node) (next : Nat), (mapUpdateArgs n kvs next).node.hdr = n.hdr := by
  induction kvs with
  | nil => intro n next; rfl
  | cons kv rest ih =>
    intro n next
    obtain ⟨k, a⟩ := kv
    rw [mapUpdateArgs]
    split
    · exact mapSetItem_hdr n k a next
    · exact (ih _ _).trans (mapSetItem_hdr n k a next)

theorem mapUpdatePairs_hdr (kvs : List (Str × Raw)) : ∀ (n : Node) (next : Nat), (mapUpdatePairs n kvs next).node.hdr = n.hdr := by
  induction kvs with
  | nil => intro n next; rfl
  | cons kv rest ih =>
    intro n next
    obtain ⟨k, v⟩ := kv
    rw [mapUpdatePairs]
    split
    · exact mapSetItem_hdr n k _ next
    · exact (ih _ _).trans (mapSetItem_hdr n k _ next)

theorem mapReset_hdr (n : Node) (next : Nat) : (mapReset n next).1.hdr = n.hdr := by
  unfold mapReset
  repeat' split
  all_goals rfl

/-- no call changes identity, stored parent, class or key of the element it is applied to -/
theorem mapStep_hdr (n : Node) (op : MapOp) (next : Nat) : (mapStep n op next).node.hdr = n.hdr := by
  unfold mapStep
  cases op with
  | setitem k a => exact mapSetItem_hdr n k a next
  | delitem k => dsimp only; repeat' split
                 all_goals rfl
  | pop k => dsimp only; repeat' split
             all_goals rfl
  | popitem => dsimp only; split <;> rfl
  | clear =>
    dsimp only
    split
    · exact mapReset_hdr n next
    · rfl
  | update pos kw =>
    dsimp only
    split
    · exact mapUpdatePairs_hdr kw n next
    · split
      · rfl
      · rfl
      · split
        · exact mapUpdatePairs_hdr _ n next
        · exact (mapUpdatePairs_hdr kw _ _).trans (mapUpdatePairs_hdr _ n next)
  | updateArgs kvs => exact mapUpdateArgs_hdr kvs n next
  | ior raw =>
    dsimp only
    split
    · rfl
    · rfl
    · exact mapUpdatePairs_hdr _ n next
  | setdefault k d =>
    dsimp only
    repeat' (first | split | (dsimp only; split))
    all_goals rfl
  | get k => dsimp only; split <;> rfl
  | set raw pol =>
    dsimp only
    split
    · split <;> exact setNode_hdr _ _ _ _
    · split <;> exact setNode_hdr _ _ _ _
    · split <;> exact setNode_hdr _ _ _ _
  | setDefault => dsimp only; split <;> exact setDefault_hdr _ _
  | contains k => rfl
  | len => rfl

theorem nodeStep_hdr (n : Node) (op : Op) (next : Nat) : (nodeStep n op next).node.hdr = n.hdr := by
  unfold nodeStep
  cases op with
  | seq o => cases n.kind <;> first | exact seqStep_hdr n o next | rfl
  | map o => cases n.kind <;> first | exact mapStep_hdr n o next | rfl

theorem mapUpdateArgs_keeps (kvs : List (Str × Arg)) : ∀ (n : Node) (next : Nat) (x : Node), x ∈ n.kids →
    (∀ p ∈ kvs, p.1 ≠ x.key) → x ∈ (mapUpdateArgs n kvs next).node.kids := by
  induction kvs with
  | nil => intro n next x hx _; exact hx
  | cons kv rest ih =>
    intro n next x hx hne
    obtain ⟨k, a⟩ := kv
    have h1 := mapSetItem_keeps n k a next hx (fun h => hne (k, a) (by simp) h.symm)
    rw [mapUpdateArgs]
    split
    · exact h1
    · exact ih _ _ x h1 (fun p hp => hne p (by simp [hp]))

theorem key_placed (e : Node) (p : Option Nat) (k : Str) : ((e.withParent p).withKey k).key = k := by cases e; rfl

/-- `sparse.update(...)` / `|=` with Element values: the element given last for a key, if it is of
    the declared field class, is the child stored under that key afterwards -/
theorem mapUpdateArgs_placed (pre post : List (Str × Arg)) (k : Str) (e : Node) (f : Schema) :
    ∀ (n : Node) (next : Nat), n.kind = .sparse → fieldFor n.sch.subs k = some f → isInstance e f = true →
      (∀ p ∈ post, p.1 ≠ k) → noExc (mapUpdateArgs n (pre ++ (k, .elem e) :: post) next).out →
      PlacedIn (mapUpdateArgs n (pre ++ (k, .elem e) :: post) next).node e := by
  induction pre with
  | nil =>
    intro n next hs hf hi hpost hno
    have hp := mapSetItem_placed n hs k e f hf hi next
    have hh := mapSetItem_hdr n k (.elem e) next
    rw [List.nil_append, mapUpdateArgs] at hno ⊢
    split
    · rename_i ex hex
      rw [hex] at hp; exact hp.1.elim
    · have hk := mapUpdateArgs_keeps post (mapSetItem n k (.elem e) next).node (mapSetItem n k (.elem e) next).next _ hp.2.1
        (fun p hp' => by rw [key_placed]; exact hpost p hp')
      have hh2 := mapUpdateArgs_hdr post (mapSetItem n k (.elem e) next).node (mapSetItem n k (.elem e) next).next
      refine placedIn_map (.inr (by rw [kind_of_hdr hh2, kind_of_hdr hh]; exact hs)) ⟨k, ?_⟩
      rw [id_of_hdr hh2, id_of_hdr hh]; exact hk
  | cons kv pre ih =>
    intro n next hs hf hi hpost hno
    obtain ⟨k', a'⟩ := kv
    have hh := mapSetItem_hdr n k' a' next
    rw [List.cons_append, mapUpdateArgs] at hno ⊢
    split
    · rename_i ex hex
      rw [hex] at hno; exact hno.elim
    · rename_i hnex
      split at hno
      · rename_i ex hex; exact absurd hex (hnex ex)
      · exact ih _ _ (by rw [kind_of_hdr hh]; exact hs) (by rw [sch_of_hdr hh]; exact hf) hi hpost hno

end Flatland.C08.Proofs
