/-
C13, the unspellable classes (KF-C13-b) as general theorems — first level only (`_partial`):
a child named `''` directly below a root that is not a List/Array has `fq_name()` `/`, which finds
the root, for EVERY tree, every such child and every start element.  Deeper positions (`/a//b`) and
the trailing-backslash class (KF-C13-a) need `tokenize` on ill-formed emitted strings and stay
refuted by one witness each (`C13_full_fails`, `C13_full_fails_backslash`).
-/
import Proofs.C13
namespace Flatland.C13.Proofs
open Flatland.Path Flatland.C13.Spec

/-- the `fq_name()` of a first-level child named `''` is the root's -/
theorem fqName_empty_top (k : Kind) (ky nm : Str) (kids : List Node) (i : Nat) (c : Node)
    (hk : k ≠ .list ∧ k ≠ .array) (hc : kids[i]? = some c) (hn : c.name = []) :
    fqName (.mk k ky nm kids) [i] = fqName (.mk k ky nm kids) [] := by
  have hl : (k == Kind.list) = false := by
    cases k <;> simp_all
  have ha : ∀ (j : Nat) (s : Str), pathSegment (.el k j s) = escapeName s := by
    intro j s; cases k <;> simp_all [pathSegment]
  simp [fqName, chain, hc, hl, fqParts, ha, hn, escapeName, escapeBody, joinSlash]

/-- **KF-C13-b at the first level, for every tree**: the inverse law fails at every child named `''`
    of a non-sequence root, from every start element.  (`_partial`: first level only.) -/
theorem C13_empty_name_fails_top_partial (k : Kind) (ky nm : Str) (kids : List Node) (start : Pos)
    (i : Nat) (c : Node) (hk : k ≠ .list ∧ k ≠ .array) (hc : kids[i]? = some c) (hn : c.name = []) :
    isInverseAt (.mk k ky nm kids) start [i] = false := by
  unfold isInverseAt
  rw [fqName_empty_top k ky nm kids i c hk hc hn, find_fq _ start [] true rfl]
  simp

/-- non-vacuity: the witness of `C13_full_fails` is an instance -/
example : isInverseAt witnessEmpty [] [0] = false :=
  C13_empty_name_fails_top_partial .map ['r'] ['r'] _ [] 0 _ (by decide) rfl rfl

end Flatland.C13.Proofs
