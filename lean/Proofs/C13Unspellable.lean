/-
C13, empty path steps at the first level, for EVERY tree (`_partial`: first level only).

Since 05c4adc `fq_name()` emits the empty step for a child of a mapping that has no name (`name is
None`, stored under the key `None`) AND for one named `''`, with a slash of its own when the step
comes last: both have `fq_name()` `//` directly below the root.  `find('//')` looks the empty step up
under the key `None`:

* `find_fq_unnamed`  — an UNNAMED first-level field is found, alone, by its `fq_name()`, from every
                       start, strict or not (the repaired behaviour);
* `C13_empty_name_fails_top_partial` — a first-level field NAMED `''` is not (KF-C13-b): the lookup
                       under `None` raises, or finds the unnamed sibling.

Deeper positions (`/a//b`, `/l/0//`, `///y`): `Proofs/C13Empty.lean` (imported here so that the audit
sees it) — `tokenize_fqName_empty` is the tokenizer on emitted strings with empty segments at any depth,
and `find_fq_addressable` / `find_fq_iff` / `C13_key_mismatch_fails` there no longer need `namedFrom`.
-/
import Proofs.C13
import Proofs.C13Empty
namespace Flatland.C13.Proofs
open Flatland.Path Flatland.C13.Spec

/-- the `fq_name()` of a first-level child with the empty step (unnamed, or named `''`) is `//` -/
theorem fqName_empty_top (k : Kind) (ky : Option Str) (nm : Str) (kids : List Node) (i : Nat) (c : Node)
    (hk : k ≠ .list ∧ k ≠ .array) (hc : kids[i]? = some c) (hn : c.name = []) :
    fqName (.mk k ky nm kids) [i] = ['/', '/'] := by
  have hl : (k == Kind.list) = false := by
    cases k <;> simp_all
  have ha : ∀ (j : Nat) (s : Str), pathSegment (.el k j s) = escapeName s := by
    intro j s; cases k <;> simp_all [pathSegment]
  simp [fqName, chain, hc, hl, fqParts, ha, hn, escapeName, escapeBody, joinSlash, lastEmpty]

/-- `find('//')`: the root's child stored under the key `None` -/
theorem find_slash2 (root : Node) (start : Pos) (strict : Bool) :
    find root start ['/', '/'] false strict =
      match root.index none with
      | some j => .many [[j]]
      | none => if strict then .err .lookup else .many [] := by
  unfold find
  rw [tokenize_slash2]
  have hz : Flatland.C14.Proofs.NoZero [Op.top, Op.name none] = true := by decide
  have hw := Flatland.C14.Proofs.work_level root strict _ _ (Nat.le_refl _) (Or.inl hz) [start]
  simp only [List.map_cons, List.map_nil] at hw
  simp only [evalOps, hw, Flatland.C14.Spec.flatMapM, Flatland.C14.Spec.denOps, indexAt, Node.get?]
  cases root.index none with
  | some j => simp
  | none => cases strict <;> simp

/-- **an unnamed first-level field is found by its `fq_name()`** (05c4adc), in every tree whose root is
    a mapping holding it under the key `None`, from every start, strict or not -/
theorem find_fq_unnamed (ky : Option Str) (nm : Str) (kids : List Node) (start : Pos) (strict : Bool)
    (i : Nat) (c : Node) (hc : kids[i]? = some c) (hn : c.name = [])
    (hkey : findName none kids = some i) :
    find (.mk .map ky nm kids) start (fqName (.mk .map ky nm kids) [i]) false strict = .many [[i]] := by
  rw [fqName_empty_top .map ky nm kids i c (by decide) hc hn, find_slash2]
  simp [Node.index, Node.kind, Node.kids, hkey]

/-- **KF-C13-b at the first level, for every tree**: a first-level field of a mapping that is NOT the
    one stored under `None` (e.g. one named `''`, stored under `''`) but emits the empty step breaks the
    inverse law, from every start element.  (`_partial`: first level only.) -/
theorem C13_empty_name_fails_top_partial (ky : Option Str) (nm : Str) (kids : List Node) (start : Pos)
    (i : Nat) (c : Node) (hc : kids[i]? = some c) (hn : c.name = [])
    (hkey : findName none kids ≠ some i) :
    isInverseAt (.mk .map ky nm kids) start [i] = false := by
  unfold isInverseAt
  rw [fqName_empty_top .map ky nm kids i c (by decide) hc hn, find_slash2]
  simp only [Node.index, Node.kind, Node.kids]
  cases hf : findName none kids with
  | none => simp
  | some j =>
    have : j ≠ i := by intro e; subst e; exact hkey hf
    simp [this]

/-- non-vacuity: the witness of `C13_full_fails` is an instance -/
example : isInverseAt witnessEmpty [] [0] = false :=
  C13_empty_name_fails_top_partial _ ['r'] _ [] 0 _ rfl rfl (by decide)

/-- the reviewer's tree `Dict.of(Dict.of(String.named('x')), String.named('b'))`: the unnamed inner Dict -/
def witnessUnnamed : Node :=
  .mk .map none [] [.mk .map none [] [.mk .scalar (some ['x']) ['x'] []], .mk .scalar (some ['b']) ['b'] []]

/-- non-vacuity of `find_fq_unnamed`: `d[None].fq_name() == '//'` finds exactly `d[None]`, from `d['b']` -/
example : fqName witnessUnnamed [0] = ['/', '/'] ∧
    find witnessUnnamed [1] (fqName witnessUnnamed [0]) false true = .many [[0]] :=
  ⟨by decide, find_fq_unnamed none [] _ [1] true 0 _ rfl rfl (by decide)⟩

/-- what the model emits for the other trees of the repair: `//x`, `/l/0//`, `///y` -/
example : fqName witnessUnnamed [0, 0] = ['/', '/', 'x'] := by decide
example : fqName (.mk .map none [] [.mk .list (some ['l']) ['l'] [.mk .map none [] [.mk .map none [] []]]]) [0, 0, 0]
    = ['/', 'l', '/', '0', '/', '/'] := by
  simp [fqName, chain, fqParts, pathSegment, joinSlash, lastEmpty, natStr, escapeName, escapeBody, Node.name]
example : fqName (.mk .map none [] [.mk .map none [] [.mk .map none [] [.mk .scalar (some ['y']) ['y'] []]]]) [0, 0, 0]
    = ['/', '/', '/', 'y'] := by decide
/-- the spec's restriction admits unnamed fields and still excludes a field named `''` -/
example : addressable witnessUnnamed [0, 0] = true ∧ spellable witnessUnnamed [0] = true ∧
    addressable witnessEmpty [0] = false ∧ spellable witnessEmpty [0] = false := by decide

end Flatland.C13.Proofs
