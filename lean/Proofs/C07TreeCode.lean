/-
C07 on the tree model — the LITERAL rendering of `Element.flatten` / `flattened_name`
(`flattenCode`: a queue with a `seen` set of identities, every key computed by walking the STORED
parent pointers upward through the object store, `C08.pathOf`) is the structural walk
`flattenTree` (names accumulated while descending) on every tree that satisfies C08's invariant:

    wp root          every stored parent pointer designates the holder          (C08 `wp`)
    root.parent=none the root has no parent
    UniqueIds root   no identity occurs twice                                   (C08 `UniqueIds`)
    Slotted root     the items of a List's underlying list are ListSlot nodes   (part of `Inv.dps`)
    height root ≤ fuel   the bound on the pointer walk is at least the depth of the tree

* upward walk = downward accumulation: `parentsOf` of a node met by descending is its chain of
  holders (`parentsOf_cons_eq`, C08's `parentsOf_eq` for a universe `root :: pool` — the runner's
  universe, the pool being looked at only when the tree has no such identity);
* the `seen` set never fires: the plain queue walk `reach` meets every identity at most once in a
  tree with unique identities (C08 `allChildren_spec`), `codeLoop_eq_bfs`.

`Slotted` is needed because `flattenTree` reads a List item's STORED `key`, while the pointer walk
reads the item's `.name` — the same thing only for a ListSlot (`Node.name`).  It is not part of
`TreeOK`; it is part of h1's `Inv.dps`, which every history preserves.
-/
import Proofs.C08Tree
import Proofs.C07TreeHist
namespace Flatland.C07Tree.Proofs
open Flatland.Tree Flatland.PyList Flatland.C08 Flatland.C08.Spec Flatland.C08.Proofs Flatland.C07Tree

/-! ### depth of a tree (bound on the pointer walk) -/

mutual
/-- the longest chain of holders below the node (slots count: the walk passes through them) -/
def height : Node → Nat
  | .mk _ _ kids => heightL kids
def heightL : List Node → Nat
  | [] => 0
  | k :: ks => max (height k + 1) (heightL ks)
end

theorem heightL_mem {ks : List Node} {c : Node} (h : c ∈ ks) : height c + 1 ≤ heightL ks := by
  induction ks with
  | nil => cases h
  | cons k ks ih =>
    rw [heightL]
    rcases List.mem_cons.mp h with h1 | h1
    · subst h1; exact Nat.le_max_left _ _
    · exact Nat.le_trans (ih h1) (Nat.le_max_right _ _)

theorem height_kid {p c : Node} (h : c ∈ p.kids) : height c + 1 ≤ height p := by
  cases p with
  | mk i s kids => rw [height]; exact heightL_mem h

theorem anc_height {root x : Node} {as : List Node} (h : Anc root x as) : as.length + height x ≤ height root := by
  induction h with
  | root => simp
  | kid _ hc ih =>
    have := height_kid hc
    simp only [List.length_cons]; omega

mutual
theorem height_le_size : ∀ n : Node, height n + 1 ≤ size n
  | .mk _ _ kids => by
    rw [height, size]; have := heightL_le_sizeL kids; omega
theorem heightL_le_sizeL : ∀ ks : List Node, heightL ks ≤ sizeL ks
  | [] => by simp [heightL, sizeL]
  | k :: ks => by
    rw [heightL, sizeL]
    have h1 := height_le_size k
    have h2 := heightL_le_sizeL ks
    exact Nat.max_le.mpr ⟨by omega, by omega⟩
end

/-! ### the items of a List's underlying list are ListSlots -/

/-- every List node of the tree holds ListSlot nodes (and nothing else) in its underlying list -/
def Slotted (root : Node) : Prop := ∀ x ∈ nodes root, x.kind = .list → ∀ k ∈ x.kids, k.kind = .slot

mutual
theorem slotted_of_dps_aux : ∀ (t x : Node), Inv.dps t = true → x ∈ nodes t → x.kind = .list → ∀ k ∈ x.kids, k.kind = .slot
  | .mk i s kids, x, hd, hx, hk, k, hkk => by
    rw [nodes] at hx
    rw [Inv.dps] at hd
    simp only [Bool.and_eq_true, Bool.or_eq_true, Bool.not_eq_true', beq_eq_false_iff_ne, ne_eq] at hd
    rcases List.mem_cons.mp hx with h1 | h1
    · subst h1
      rcases hd.1 with h | h
      · exact absurd hk h
      · exact (Inv.slotKinds_iff kids).mp h.2 k hkk
    · exact slotted_of_dpsL_aux kids x hd.2 h1 hk k hkk
theorem slotted_of_dpsL_aux : ∀ (ks : List Node) (x : Node), Inv.dpsL ks = true → x ∈ nodesL ks → x.kind = .list →
    ∀ k ∈ x.kids, k.kind = .slot
  | [], _, _, hx, _, _, _ => by simp [nodesL] at hx
  | t :: ts, x, hd, hx, hk, k, hkk => by
    rw [Inv.dpsL] at hd
    simp only [Bool.and_eq_true] at hd
    rw [nodesL] at hx
    rcases List.mem_append.mp hx with h1 | h1
    · exact slotted_of_dps_aux t x hd.1 h1 hk k hkk
    · exact slotted_of_dpsL_aux ts x hd.2 h1 hk k hkk
end

/-- h1's history invariant `Inv.dps` contains `Slotted` -/
theorem slotted_of_dps {n : Node} (h : Inv.dps n = true) : Slotted n := fun x hx => slotted_of_dps_aux n x h hx

/-! ### stored pointers, looked up in the runner's universe `root :: pool` -/

/-- with unique ids a stored pointer into the tree designates exactly one object — the pool of
    detached objects is consulted only for identities the tree does not hold -/
theorem deref_cons_eq {root p : Node} (pool : List Node) (hu : UniqueIds root) (hp : p ∈ nodes root) :
    deref (root :: pool) p.id = some p := by
  have h := deref_eq hu hp
  unfold deref at h ⊢
  simp only [List.flatMap_cons, List.flatMap_nil, List.append_nil] at h ⊢
  rw [List.find?_append, h]; rfl

/-- `element.parents` = the chain of holders, nearest first (C08's `parentsOf_eq`, any pool) -/
theorem parentsOf_cons_eq {root : Node} (pool : List Node) (hw : wp root = true) (hr : root.parent = none)
    (hu : UniqueIds root) {x : Node} {as : List Node} (h : Anc root x as) :
    ∀ fuel, as.length ≤ fuel → parentsOf (root :: pool) fuel x = as := by
  induction h with
  | root =>
    intro fuel _
    cases fuel with
    | zero => rfl
    | succ f => simp [parentsOf, hr]
  | @kid p c as' hp hc ih =>
    intro fuel hf
    cases fuel with
    | zero => simp at hf
    | succ f =>
      have hcp : c.parent = some p.id := ((wp_iff _).mp (wp_of_anc hp hw) c hc).1
      rw [parentsOf]
      simp only [hcp, deref_cons_eq pool hu (anc_mem_nodes hp)]
      rw [ih f (by simpa using hf)]

/-! ### queue entries: the names carried down are the names the upward walk collects -/

/-- the entry's element sits in the tree, and the names it carries are the names of its holders,
    root first -/
def QOK (root : Node) (it : QItem) : Prop :=
  ∃ as, Anc root it.2 as ∧ it.1 = as.reverse.filterMap Node.name

theorem filterMap_name_single (e : Node) : [e].filterMap Node.name = e.name.toList := by
  cases h : e.name <;> simp [h]

/-- **`flattened_name` by pointer walk = the accumulated name path** -/
theorem codePair_eq {root : Node} (pool : List Node) (fuel : Nat) (sep : Str) (hw : wp root = true)
    (hr : root.parent = none) (hu : UniqueIds root) (hf : height root ≤ fuel) (it : QItem) (h : QOK root it) :
    codePair (root :: pool) fuel sep it.2 = ownPair sep it := by
  obtain ⟨as, ha, hp⟩ := h
  have hlen : as.length ≤ fuel := by have := anc_height ha; omega
  have hpar := parentsOf_cons_eq pool hw hr hu ha fuel hlen
  unfold codePair ownPair flattenedName namePath pathOf
  rw [hpar, List.filterMap_append, filterMap_name_single, ← hp]

theorem mem_slotItems {here : List Str} {ks : List Node} {c : QItem} (h : c ∈ slotItems here ks) :
    ∃ slot ∈ ks, ∃ el ∈ slot.kids, c = (here ++ [slot.key], el) := by
  induction ks with
  | nil => simp [slotItems] at h
  | cons k ks ih =>
    rw [slotItems] at h
    rcases List.mem_append.mp h with h1 | h1
    · obtain ⟨el, hel, rfl⟩ := List.mem_map.mp h1
      exact ⟨k, by simp, el, hel, rfl⟩
    · obtain ⟨slot, hs, el, hel, hc⟩ := ih h1
      exact ⟨slot, List.mem_cons_of_mem _ hs, el, hel, hc⟩

theorem name_of_slot {s : Node} (h : s.kind = .slot) : s.name = some s.key := by
  unfold Node.name; simp [h]

/-- what an element pushes on the queue keeps the invariant -/
theorem qok_childItems {root : Node} (hs : Slotted root) (it : QItem) (h : QOK root it) :
    ∀ c ∈ childItems it.1 it.2, QOK root c := by
  obtain ⟨p, n⟩ := it
  obtain ⟨as, ha, hp⟩ := h
  simp only at ha hp
  have plain : ∀ c ∈ n.kids.map (fun el => (namePath p n, el)), QOK root c := by
    intro c hc
    obtain ⟨el, hel, rfl⟩ := List.mem_map.mp hc
    refine ⟨n :: as, .kid ha hel, ?_⟩
    simp only [List.reverse_cons, List.filterMap_append, filterMap_name_single, namePath, hp]
  intro c hc
  simp only [childItems] at hc
  split at hc
  · rename_i hk
    obtain ⟨slot, hsl, el, hel, rfl⟩ := mem_slotItems hc
    have hkind := hs n (anc_mem_nodes ha) hk slot hsl
    refine ⟨slot :: n :: as, .kid (.kid ha hsl) hel, ?_⟩
    simp only [List.reverse_cons, List.filterMap_append, filterMap_name_single, namePath, hp,
      name_of_slot hkind, Option.toList, List.append_assoc]
  · exact plain c hc
  · exact plain c hc
  · exact plain c hc
  · exact plain c hc
  · cases hc

/-! ### the `seen` set never fires -/

theorem codeLoop_nil (univ : List Node) (fuel : Nat) (sep : Str) (seen : List Nat) :
    codeLoop univ fuel sep seen [] = [] := by rw [codeLoop]

theorem codeLoop_cons (univ : List Node) (fuel : Nat) (sep : Str) (seen : List Nat) (e : Node) (q : List Node) :
    codeLoop univ fuel sep seen (e :: q) =
      if seen.contains e.id then codeLoop univ fuel sep seen q
      else codePair univ fuel sep e ++ codeLoop univ fuel sep (e.id :: seen) (q ++ children e) := by
  rw [codeLoop]; simp [cfl]

/-- **the literal queue loop = the structural queue loop**, for a queue whose plain walk meets every
    identity once and none of the `seen` ones -/
theorem codeLoop_eq_bfs {root : Node} (pool : List Node) (fuel : Nat) (sep : Str) (hw : wp root = true)
    (hr : root.parent = none) (hu : UniqueIds root) (hs : Slotted root) (hf : height root ≤ fuel)
    (q : List QItem) : ∀ (seen : List Nat),
    (∀ x ∈ reach (q.map (·.2)), x.id ∉ seen) → ((reach (q.map (·.2))).map Node.id).Nodup →
    (∀ it ∈ q, QOK root it) →
    codeLoop (root :: pool) fuel sep seen (q.map (·.2)) = bfs sep q := by
  induction h : qsize q using Nat.strongRecOn generalizing q with
  | _ n ih =>
    intro seen hseen hn hq
    cases q with
    | nil => simp [codeLoop_nil, bfs_nil]
    | cons it q =>
      simp only [List.map_cons] at hseen hn ⊢
      rw [reach_cons] at hseen hn
      rw [codeLoop_cons, bfs_cons]
      have he : seen.contains it.2.id = false := by
        have := hseen it.2 (by simp)
        simpa using this
      simp only [he, Bool.false_eq_true, if_false]
      rw [codePair_eq pool fuel sep hw hr hu hf it (hq it (by simp))]
      congr 1
      simp only [List.map_cons, List.nodup_cons, List.mem_map, not_exists, not_and] at hn
      have hmap : (q ++ pushed it).map (·.2) = q.map (·.2) ++ children it.2 := by
        simp only [pushed, cfl, if_true, List.map_append, childItems_snd]
      rw [← hmap]
      have hlt : qsize (q ++ pushed it) < n := by
        rw [← h]
        obtain ⟨p, e⟩ := it
        have := qsize_childItems_lt p e
        simp only [pushed, cfl, if_true, qsize_append, qsize_cons]; omega
      refine ih _ hlt (q ++ pushed it) rfl (it.2.id :: seen) ?_ (by rw [hmap]; exact hn.2) ?_
      · intro x hx hmem
        rw [hmap] at hx
        rcases List.mem_cons.mp hmem with h1 | h1
        · exact hn.1 x hx h1
        · exact hseen x (List.mem_cons_of_mem _ hx) h1
      · intro c hc
        rcases List.mem_append.mp hc with h1 | h1
        · exact hq c (List.mem_cons_of_mem _ h1)
        · simp only [pushed, cfl, if_true] at h1
          exact qok_childItems hs it (hq it (by simp)) c h1

/-! ### the theorem -/

/-- **flattenCode = flattenTree.**  On a well-parented tree with unique identities whose root has
    no parent and whose Lists hold ListSlots, the literal rendering of `Element.flatten` — `seen`
    set of identities, every key by walking the stored parent pointers, looked up in the object
    store `root :: pool` — returns exactly what the structural walk returns, pair for pair, for
    every bound on the pointer walk that is at least the height of the tree. -/
theorem flattenCode_eq_flattenTree_of {root : Node} (pool : List Node) (fuel : Nat) (sep : Str)
    (hw : wp root = true) (hr : root.parent = none) (hu : UniqueIds root) (hs : Slotted root)
    (hf : height root ≤ fuel) :
    flattenCode (root :: pool) fuel sep root = flattenTree sep root := by
  obtain ⟨hlev, hnd, hne, _, _⟩ := allChildren_spec hu
  have hreach : reach (children root) = allChildren root := by rw [reach_eq_levelOrder, hlev]
  have hroot : QOK root ([], root) := ⟨[], .root, rfl⟩
  unfold flattenCode flattenTree
  simp only [cfl, if_true]
  have h1 := codePair_eq pool fuel sep hw hr hu hf ([], root) hroot
  simp only at h1
  rw [h1]
  congr 1
  have hsnd := childItems_snd [] root
  rw [← hsnd]
  apply codeLoop_eq_bfs pool fuel sep hw hr hu hs hf
  · intro x hx hm
    rw [hsnd, hreach] at hx
    simp only [List.mem_singleton] at hm
    exact hne x hx hm
  · rw [hsnd, hreach]; exact hnd
  · exact qok_childItems hs ([], root) hroot

/-- the same stated with C08's bundled invariant `TreeOK` (unique ids, well-parented, parentless
    root) on a history state, universe = the tree alone -/
theorem flattenCode_eq_flattenTree (s : HState) (hok : TreeOK s) (hs : Slotted s.root) (fuel : Nat)
    (hf : height s.root ≤ fuel) (sep : Str) :
    flattenCode [s.root] fuel sep s.root = flattenTree sep s.root :=
  flattenCode_eq_flattenTree_of [] fuel sep hok.wp hok.rootless hok.ids.uniq hs hf

/-- the bound `size root` always suffices -/
theorem flattenCode_eq_flattenTree_size (s : HState) (hok : TreeOK s) (hs : Slotted s.root) (sep : Str) :
    flattenCode [s.root] (size s.root) sep s.root = flattenTree sep s.root :=
  flattenCode_eq_flattenTree s hok hs _ (by have := height_le_size s.root; omega) sep

end Flatland.C07Tree.Proofs
